(* Message-level round trips for C01: each message's encoder is a concatenation of encoded
   fields, and folding the message's decoder table over those fields rebuilds the message. *)
From Coq Require Import Lia ZifyBool.
From PV Require Import M_Codec L_Codec_Wire.
Open Scope string_scope.
Open Scope list_scope.
Open Scope Z_scope.

Ltac Zify.zify_post_hook ::= Z.div_mod_to_equations.
Arguments u64 : simpl never.
Arguments i64 : simpl never.

Definition is_u64 (z : Z) : Prop := 0 <= z < two64.
Definition is_i64 (z : Z) : Prop := - two63 <= z < two63.

Lemma i64_u64 x : is_i64 x -> i64 (u64 x) = x.
Proof. unfold is_i64, i64, u64, wrap_i64, two64, two63. intros H. lia. Qed.
Lemma u64_range x : is_u64 (u64 x).
Proof. unfold is_u64, u64, two64. lia. Qed.

Lemma fold_res_app {A S} (f : S -> A -> res S) l1 l2 s :
  fold_res f (l1 ++ l2) s = bind (fold_res f l1 s) (fold_res f l2).
Proof.
  revert s. induction l1 as [|a r IH]; intros s; cbn [app fold_res bind]; [reflexivity|].
  destruct (f s a); cbn [bind]; auto.
Qed.

Lemma flat_map_app' {A B} (f : A -> list B) l1 l2 : flat_map f (l1 ++ l2) = flat_map f l1 ++ flat_map f l2.
Proof. apply flat_map_app. Qed.

(* ---------- optional scalar fields ---------- *)
Definition opt_v (t x : Z) : list field := if x =? 0 then [] else [(t, WVarint x)].
Definition opt_i (t x : Z) : list field := if x =? 0 then [] else [(t, WVarint (u64 x))].
Definition opt_b (t : Z) (b : bool) : list field := if b then [(t, WVarint 1)] else [].

Lemma enc_opt_v t x : encode_uint64_opt t x = flat_map enc_field (opt_v t x).
Proof. unfold encode_uint64_opt, opt_v. destruct (x =? 0); cbn [flat_map enc_field]; [reflexivity|]. rewrite app_nil_r. reflexivity. Qed.
Lemma enc_opt_i t x : encode_int64_opt t x = flat_map enc_field (opt_i t x).
Proof. unfold encode_int64_opt, opt_i, encode_int64. destruct (x =? 0); cbn [flat_map enc_field]; [reflexivity|]. rewrite app_nil_r. reflexivity. Qed.
Lemma enc_opt_b t b : encode_bool_opt t b = flat_map enc_field (opt_b t b).
Proof. unfold encode_bool_opt, opt_b. destruct b; cbn [flat_map enc_field]; [|reflexivity]. rewrite app_nil_r. reflexivity. Qed.

Definition tag_ok (t : Z) : Prop := 0 <= t < two61.
Lemma wf_opt_v t x : tag_ok t -> is_u64 x -> Forall wf_field (opt_v t x).
Proof. intros Ht Hx. unfold opt_v. destruct (x =? 0); constructor; [|constructor]. split; [exact Ht|exact Hx]. Qed.
Lemma wf_opt_i t x : tag_ok t -> Forall wf_field (opt_i t x).
Proof. intros Ht. unfold opt_i. destruct (x =? 0); constructor; [|constructor]. split; [exact Ht|apply u64_range]. Qed.
Lemma wf_opt_b t b : tag_ok t -> Forall wf_field (opt_b t b).
Proof. intros Ht. unfold opt_b. destruct b; constructor; [|constructor]. split; [exact Ht|]. cbn. unfold two64. lia. Qed.

Ltac tag_ok_tac := unfold tag_ok, two61; lia.

(* one decoding step for an optional field whose slot currently holds the zero value *)
Ltac step_opt :=
  unfold opt_v, opt_i, opt_b;
  match goal with
  | |- context [if ?x =? 0 then _ else _] =>
      let E := fresh "E" in destruct (Z.eqb_spec x 0) as [E|E]; [try subst; try rewrite E|]
  | |- context [if ?b then _ else _] => destruct b
  end.

(* ---------- ValueType ---------- *)
Definition fields_valuetype (v : rvaluetype) : list field := opt_i 1 (rvt_type v) ++ opt_i 2 (rvt_unit v).
Definition wf_valuetype (v : rvaluetype) : Prop := is_i64 (rvt_type v) /\ is_i64 (rvt_unit v).

Lemma enc_valuetype_fields v : enc_valuetype v = flat_map enc_field (fields_valuetype v).
Proof. unfold enc_valuetype, fields_valuetype. rewrite flat_map_app, !enc_opt_i. reflexivity. Qed.
Lemma wf_fields_valuetype v : Forall wf_field (fields_valuetype v).
Proof. unfold fields_valuetype. apply Forall_app; split; apply wf_opt_i; tag_ok_tac. Qed.

Lemma dec_valuetype_fields v : wf_valuetype v -> fold_res app_valuetype (fields_valuetype v) rvt0 = Ok v.
Proof.
  destruct v as [a b]. intros [Ha Hb]. cbn [rvt_type rvt_unit] in *. unfold fields_valuetype, rvt0.
  cbn [rvt_type rvt_unit]. rewrite fold_res_app.
  assert (S1 : fold_res app_valuetype (opt_i 1 a) {| rvt_type := 0; rvt_unit := 0 |} = Ok {| rvt_type := a; rvt_unit := 0 |}).
  { step_opt; [reflexivity|]. cbn. rewrite i64_u64 by exact Ha. reflexivity. }
  rewrite S1. cbn [bind].
  step_opt; [reflexivity|]. cbn. rewrite i64_u64 by exact Hb. reflexivity.
Qed.

Lemma valuetype_roundtrip v : wf_valuetype v -> decode_message app_valuetype (enc_valuetype v) rvt0 = Ok v.
Proof. intros H. rewrite enc_valuetype_fields, decode_message_fields by apply wf_fields_valuetype. apply dec_valuetype_fields, H. Qed.

(* ---------- a generic step tactic for messages made of optional scalar fields ---------- *)
Lemma i64_1 : i64 1 = 1. Proof. reflexivity. Qed.

(* Solves/advances goals of the form
     bind (fold_res app (opt_? t x) s) k = ...   (after [rewrite fold_res_app])
   by computing the decoded slot; the intermediate record is an evar fixed by the non-zero branch. *)
Ltac opt_step :=
  match goal with
  | |- context [fold_res ?app (opt_v ?t ?x) ?s] =>
      let S := fresh "S" in let E := fresh "E" in
      eassert (S : fold_res app (opt_v t x) s = Ok _);
      [ unfold opt_v; destruct (Z.eqb_spec x 0) as [E|E]; cycle 1;
        [ cbn; reflexivity | cbn; rewrite E; reflexivity ]
      | rewrite S; clear S; cbn [bind] ]
  | |- context [fold_res ?app (opt_i ?t ?x) ?s] =>
      let S := fresh "S" in let E := fresh "E" in
      eassert (S : fold_res app (opt_i t x) s = Ok _);
      [ unfold opt_i; destruct (Z.eqb_spec x 0) as [E|E]; cycle 1;
        [ cbn; rewrite i64_u64 by assumption; reflexivity | cbn; rewrite E; reflexivity ]
      | rewrite S; clear S; cbn [bind] ]
  | |- context [fold_res ?app (opt_b ?t ?b) ?s] =>
      let S := fresh "S" in
      eassert (S : fold_res app (opt_b t b) s = Ok _);
      [ let Eb := fresh "Eb" in
        assert (Eb : b = true \/ b = false) by (destruct b; auto);
        unfold opt_b; destruct Eb as [Eb|Eb];
        [ rewrite Eb; cbn; rewrite i64_1; cbn; rewrite <- Eb; reflexivity
        | rewrite Eb; cbn; reflexivity ]
      | rewrite S; clear S; cbn [bind] ]
  end.

(* ---------- label ---------- *)
Definition fields_label (l : rlabel) : list field :=
  opt_i 1 (rl_key l) ++ opt_i 2 (rl_str l) ++ opt_i 3 (rl_num l) ++ opt_i 4 (rl_unit l).
Definition wf_label (l : rlabel) : Prop := is_i64 (rl_key l) /\ is_i64 (rl_str l) /\ is_i64 (rl_num l) /\ is_i64 (rl_unit l).

Lemma enc_label_fields l : enc_label l = flat_map enc_field (fields_label l).
Proof. unfold enc_label, fields_label. rewrite !flat_map_app, !enc_opt_i. reflexivity. Qed.
Lemma wf_fields_label l : Forall wf_field (fields_label l).
Proof. unfold fields_label. repeat (apply Forall_app; split); apply wf_opt_i; tag_ok_tac. Qed.
Lemma dec_label_fields l : wf_label l -> fold_res app_label (fields_label l) rlabel0 = Ok l.
Proof.
  destruct l as [a b c d]. intros (Ha & Hb & Hc & Hd). cbn [rl_key rl_str rl_num rl_unit] in *.
  unfold fields_label, rlabel0. cbn [rl_key rl_str rl_num rl_unit].
  repeat (try rewrite fold_res_app; opt_step). reflexivity.
Qed.
Lemma label_roundtrip l : wf_label l -> decode_message app_label (enc_label l) rlabel0 = Ok l.
Proof. intros H. rewrite enc_label_fields, decode_message_fields by apply wf_fields_label. apply dec_label_fields, H. Qed.

(* ---------- line ---------- *)
Definition fields_line (l : rline) : list field := opt_v 1 (rln_fn l) ++ opt_i 2 (rln_line l) ++ opt_i 3 (rln_col l).
Definition wf_line (l : rline) : Prop := is_u64 (rln_fn l) /\ is_i64 (rln_line l) /\ is_i64 (rln_col l).
Lemma enc_line_fields l : enc_line l = flat_map enc_field (fields_line l).
Proof. unfold enc_line, fields_line. rewrite !flat_map_app, !enc_opt_i, enc_opt_v. reflexivity. Qed.
Lemma wf_fields_line l : wf_line l -> Forall wf_field (fields_line l).
Proof. intros (H1 & _). unfold fields_line. repeat (apply Forall_app; split); first [apply wf_opt_i | apply wf_opt_v]; auto; tag_ok_tac. Qed.
Lemma dec_line_fields l : wf_line l -> fold_res app_line (fields_line l) rline0 = Ok l.
Proof.
  destruct l as [a b c]. intros (Ha & Hb & Hc). cbn [rln_fn rln_line rln_col] in *.
  unfold fields_line, rline0. cbn [rln_fn rln_line rln_col].
  repeat (try rewrite fold_res_app; opt_step). reflexivity.
Qed.
Lemma line_roundtrip l : wf_line l -> decode_message app_line (enc_line l) rline0 = Ok l.
Proof. intros H. rewrite enc_line_fields, decode_message_fields by (apply wf_fields_line, H). apply dec_line_fields, H. Qed.

(* ---------- function ---------- *)
Definition fields_function (f : rfunction) : list field :=
  opt_v 1 (rf_id f) ++ opt_i 2 (rf_name f) ++ opt_i 3 (rf_sysname f) ++ opt_i 4 (rf_file f) ++ opt_i 5 (rf_startline f).
Definition wf_function (f : rfunction) : Prop :=
  is_u64 (rf_id f) /\ is_i64 (rf_name f) /\ is_i64 (rf_sysname f) /\ is_i64 (rf_file f) /\ is_i64 (rf_startline f).
Lemma enc_function_fields f : enc_function f = flat_map enc_field (fields_function f).
Proof. unfold enc_function, fields_function. rewrite !flat_map_app, !enc_opt_i, enc_opt_v. reflexivity. Qed.
Lemma wf_fields_function f : wf_function f -> Forall wf_field (fields_function f).
Proof. intros (H1 & _). unfold fields_function. repeat (apply Forall_app; split); first [apply wf_opt_i | apply wf_opt_v]; auto; tag_ok_tac. Qed.
Lemma dec_function_fields f : wf_function f -> fold_res app_function (fields_function f) rfunction0 = Ok f.
Proof.
  destruct f as [a b c d e]. intros (Ha & Hb & Hc & Hd & He). cbn [rf_id rf_name rf_sysname rf_file rf_startline] in *.
  unfold fields_function, rfunction0. cbn [rf_id rf_name rf_sysname rf_file rf_startline].
  repeat (try rewrite fold_res_app; opt_step). reflexivity.
Qed.
Lemma function_roundtrip f : wf_function f -> decode_message app_function (enc_function f) rfunction0 = Ok f.
Proof. intros H. rewrite enc_function_fields, decode_message_fields by (apply wf_fields_function, H). apply dec_function_fields, H. Qed.

(* ---------- mapping ---------- *)
Definition fields_mapping (m : rmapping) : list field :=
  opt_v 1 (rm_id m) ++ opt_v 2 (rm_start m) ++ opt_v 3 (rm_limit m) ++ opt_v 4 (rm_offset m) ++
  opt_i 5 (rm_file m) ++ opt_i 6 (rm_buildid m) ++ opt_b 7 (rm_hasfn m) ++ opt_b 8 (rm_hasfile m) ++
  opt_b 9 (rm_hasline m) ++ opt_b 10 (rm_hasinline m).
Definition wf_mapping (m : rmapping) : Prop :=
  is_u64 (rm_id m) /\ is_u64 (rm_start m) /\ is_u64 (rm_limit m) /\ is_u64 (rm_offset m) /\
  is_i64 (rm_file m) /\ is_i64 (rm_buildid m).
Lemma enc_mapping_fields m : enc_mapping m = flat_map enc_field (fields_mapping m).
Proof. unfold enc_mapping, fields_mapping. rewrite !flat_map_app, !enc_opt_i, !enc_opt_v, !enc_opt_b. reflexivity. Qed.
Lemma wf_fields_mapping m : wf_mapping m -> Forall wf_field (fields_mapping m).
Proof.
  intros (H1 & H2 & H3 & H4 & _). unfold fields_mapping.
  repeat (apply Forall_app; split); first [apply wf_opt_i | apply wf_opt_v | apply wf_opt_b]; auto; tag_ok_tac.
Qed.
Lemma dec_mapping_fields m : wf_mapping m -> fold_res app_mapping (fields_mapping m) rmapping0 = Ok m.
Proof.
  destruct m as [a b c d e f g h i j]. intros (Ha & Hb & Hc & Hd & He & Hf).
  cbn [rm_id rm_start rm_limit rm_offset rm_file rm_buildid rm_hasfn rm_hasfile rm_hasline rm_hasinline] in *.
  unfold fields_mapping, rmapping0.
  cbn [rm_id rm_start rm_limit rm_offset rm_file rm_buildid rm_hasfn rm_hasfile rm_hasline rm_hasinline].
  repeat (try rewrite fold_res_app; opt_step). reflexivity.
Qed.
Lemma mapping_roundtrip m : wf_mapping m -> decode_message app_mapping (enc_mapping m) rmapping0 = Ok m.
Proof. intros H. rewrite enc_mapping_fields, decode_message_fields by (apply wf_fields_mapping, H). apply dec_mapping_fields, H. Qed.

(* ---------- repeated fields ---------- *)
Lemma flat_map_map {A B C} (f : B -> list C) (g : A -> B) l : flat_map f (map g l) = flat_map (fun x => f (g x)) l.
Proof. induction l as [|a r IH]; cbn [map flat_map]; [reflexivity|]. rewrite IH. reflexivity. Qed.

Lemma rep_fold {S X} (app_ : S -> field -> res S) (mk : X -> field) (get : S -> list X) (set : S -> list X -> S)
      (P : X -> Prop) :
  (forall s l, get (set s l) = l) -> (forall s l l', set (set s l) l' = set s l') -> (forall s, set s (get s) = s) ->
  (forall s x, P x -> app_ s (mk x) = Ok (set s (get s ++ [x]))) ->
  forall xs s, Forall P xs -> fold_res app_ (map mk xs) s = Ok (set s (get s ++ xs)).
Proof.
  intros G1 G2 G3 HA. induction xs as [|x xs IH]; intros s HP; cbn [map fold_res].
  - rewrite app_nil_r, G3. reflexivity.
  - inversion HP as [|? ? Hx Hxs]; subst. rewrite (HA s x Hx). cbn [bind].
    rewrite (IH _ Hxs), G1, G2, <- app_assoc. reflexivity.
Qed.

(* repeated scalars: packed when more than two *)
Definition fields_u64s (t : Z) (xs : list Z) : list field :=
  if 2 <? len xs then [(t, WBytes (flat_map encode_varint xs))] else map (fun x => (t, WVarint x)) xs.

Lemma enc_u64s_fields t xs : encode_uint64s t xs = flat_map enc_field (fields_u64s t xs).
Proof.
  unfold encode_uint64s, fields_u64s. destruct (2 <? len xs).
  - cbn [flat_map enc_field]. rewrite app_nil_r. reflexivity.
  - rewrite flat_map_map. reflexivity.
Qed.

Lemma wf_fields_u64s t xs : tag_ok t -> Forall is_u64 xs -> len (flat_map encode_varint xs) < two64 ->
  Forall wf_field (fields_u64s t xs).
Proof.
  intros Ht Hx Hl. unfold fields_u64s. destruct (2 <? len xs).
  - constructor; [|constructor]. split; [exact Ht|exact Hl].
  - apply Forall_map. eapply Forall_impl; [|exact Hx]. intros x Hxx. split; [exact Ht|exact Hxx].
Qed.

Lemma dec_u64s_fields {S} (app_ : S -> field -> res S) t (get : S -> list Z) (set : S -> list Z -> S) :
  (forall s l, get (set s l) = l) -> (forall s l l', set (set s l) l' = set s l') -> (forall s, set s (get s) = s) ->
  (forall s w, app_ s (t, w) = bind (dec_uint64s w (get s)) (fun x => Ok (set s x))) ->
  forall xs s, Forall is_u64 xs -> fold_res app_ (fields_u64s t xs) s = Ok (set s (get s ++ xs)).
Proof.
  intros G1 G2 G3 HA xs s Hx. unfold fields_u64s. destruct (2 <? len xs).
  - cbn [fold_res]. rewrite HA. cbn [dec_uint64s].
    rewrite decode_varints_encode by (auto; lia). reflexivity.
  - apply (rep_fold app_ (fun x => (t, WVarint x)) get set is_u64 G1 G2 G3); [|exact Hx].
    intros s0 x _. rewrite HA. reflexivity.
Qed.

Lemma map_i64_u64 xs : Forall is_i64 xs -> map i64 (map u64 xs) = xs.
Proof. induction 1 as [|x r Hx _ IH]; cbn [map]; [reflexivity|]. rewrite i64_u64, IH by exact Hx. reflexivity. Qed.

Lemma Forall_u64_map xs : Forall is_u64 (map u64 xs).
Proof. induction xs; constructor; [apply u64_range|assumption]. Qed.

Lemma dec_i64s_fields {S} (app_ : S -> field -> res S) t (get : S -> list Z) (set : S -> list Z -> S) :
  (forall s l, get (set s l) = l) -> (forall s l l', set (set s l) l' = set s l') -> (forall s, set s (get s) = s) ->
  (forall s w, app_ s (t, w) = bind (dec_int64s w (get s)) (fun x => Ok (set s x))) ->
  forall xs s, Forall is_i64 xs -> fold_res app_ (fields_u64s t (map u64 xs)) s = Ok (set s (get s ++ xs)).
Proof.
  intros G1 G2 G3 HA xs s Hx. unfold fields_u64s. destruct (2 <? len (map u64 xs)).
  - cbn [fold_res]. rewrite HA. cbn [dec_int64s].
    rewrite decode_varints_encode by (try apply Forall_u64_map; lia). cbn [bind].
    rewrite map_i64_u64 by exact Hx. reflexivity.
  - rewrite map_map.
    apply (rep_fold app_ (fun x => (t, WVarint (u64 x))) get set is_i64 G1 G2 G3); [|exact Hx].
    intros s0 x Hxx. rewrite HA. cbn [dec_int64s bind]. rewrite i64_u64 by exact Hxx. reflexivity.
Qed.

(* ---------- sample ---------- *)
Definition fields_sample (s : rsample) : list field :=
  fields_u64s 1 (rs_loc s) ++ fields_u64s 2 (map u64 (rs_val s)) ++ map (fun l => (3, WBytes (enc_label l))) (rs_label s).
Definition wf_sample (s : rsample) : Prop :=
  Forall is_u64 (rs_loc s) /\ Forall is_i64 (rs_val s) /\ Forall wf_label (rs_label s) /\
  len (flat_map encode_varint (rs_loc s)) < two64 /\ len (flat_map encode_varint (map u64 (rs_val s))) < two64 /\
  Forall (fun l => len (enc_label l) < two64) (rs_label s).

Lemma enc_sample_fields s : enc_sample s = flat_map enc_field (fields_sample s).
Proof.
  unfold enc_sample, fields_sample, encode_int64s. rewrite !flat_map_app, !enc_u64s_fields, flat_map_map. reflexivity.
Qed.

Lemma wf_fields_sample s : wf_sample s -> Forall wf_field (fields_sample s).
Proof.
  intros (H1 & H2 & H3 & H4 & H5 & H6). unfold fields_sample. repeat (apply Forall_app; split).
  - apply wf_fields_u64s; auto; tag_ok_tac.
  - apply wf_fields_u64s; auto; [tag_ok_tac|apply Forall_u64_map].
  - apply Forall_map. eapply Forall_impl; [|exact H6]. intros l Hl. split; [cbn; unfold two61; lia|exact Hl].
Qed.

Definition set_loc (s : rsample) l := {| rs_loc := l; rs_val := rs_val s; rs_label := rs_label s |}.
Definition set_val (s : rsample) l := {| rs_loc := rs_loc s; rs_val := l; rs_label := rs_label s |}.
Definition set_lab (s : rsample) l := {| rs_loc := rs_loc s; rs_val := rs_val s; rs_label := l |}.

Lemma dec_sample_fields s : wf_sample s -> fold_res app_sample (fields_sample s) rsample0 = Ok s.
Proof.
  destruct s as [locs vals labs]. intros (H1 & H2 & H3 & _). cbn [rs_loc rs_val rs_label] in *.
  unfold fields_sample. cbn [rs_loc rs_val rs_label]. rewrite fold_res_app.
  rewrite (dec_u64s_fields app_sample 1 rs_loc set_loc) by (auto; intros [? ? ?]; reflexivity).
  cbn [bind]. rewrite fold_res_app.
  rewrite (dec_i64s_fields app_sample 2 rs_val set_val) by (auto; intros [? ? ?]; reflexivity).
  cbn [bind].
  rewrite (rep_fold app_sample (fun l => (3, WBytes (enc_label l))) rs_label set_lab wf_label);
    try (intros [? ? ?]; reflexivity); auto.
  intros [a b c] l Hl. cbn [app_sample]. cbn [Z.eqb Pos.eqb sub_message]. rewrite label_roundtrip by exact Hl. reflexivity.
Qed.

Lemma sample_roundtrip s : wf_sample s -> decode_message app_sample (enc_sample s) rsample0 = Ok s.
Proof. intros H. rewrite enc_sample_fields, decode_message_fields by (apply wf_fields_sample, H). apply dec_sample_fields, H. Qed.

(* ---------- location ---------- *)
Definition fields_location (l : rlocation) : list field :=
  opt_v 1 (rloc_id l) ++ opt_v 2 (rloc_mapping l) ++ opt_v 3 (rloc_addr l) ++
  map (fun x => (4, WBytes (enc_line x))) (rloc_lines l) ++ opt_b 5 (rloc_folded l).
Definition wf_location (l : rlocation) : Prop :=
  is_u64 (rloc_id l) /\ is_u64 (rloc_mapping l) /\ is_u64 (rloc_addr l) /\ Forall wf_line (rloc_lines l) /\
  Forall (fun x => len (enc_line x) < two64) (rloc_lines l).

Lemma enc_location_fields l : enc_location l = flat_map enc_field (fields_location l).
Proof.
  unfold enc_location, fields_location. rewrite !flat_map_app, !enc_opt_v, enc_opt_b, flat_map_map. reflexivity.
Qed.

Lemma wf_fields_location l : wf_location l -> Forall wf_field (fields_location l).
Proof.
  intros (H1 & H2 & H3 & H4 & H5). unfold fields_location. repeat (apply Forall_app; split);
    try (first [apply wf_opt_v | apply wf_opt_b]; auto; tag_ok_tac).
  apply Forall_map. eapply Forall_impl; [|exact H5]. intros x Hx. split; [cbn; unfold two61; lia|exact Hx].
Qed.

Definition set_lines (l : rlocation) ls :=
  {| rloc_id := rloc_id l; rloc_mapping := rloc_mapping l; rloc_addr := rloc_addr l; rloc_lines := ls; rloc_folded := rloc_folded l |}.

Lemma dec_location_fields l : wf_location l -> fold_res app_location (fields_location l) rlocation0 = Ok l.
Proof.
  destruct l as [a b c ls f]. intros (Ha & Hb & Hc & Hl & _).
  cbn [rloc_id rloc_mapping rloc_addr rloc_lines rloc_folded] in *.
  unfold fields_location, rlocation0. cbn [rloc_id rloc_mapping rloc_addr rloc_lines rloc_folded].
  do 3 (rewrite fold_res_app; opt_step). rewrite fold_res_app.
  rewrite (rep_fold app_location (fun x => (4, WBytes (enc_line x))) rloc_lines set_lines wf_line);
    try (intros [? ? ? ? ?]; reflexivity); auto.
  - cbn [bind set_lines rloc_id rloc_mapping rloc_addr rloc_lines rloc_folded app]. opt_step. reflexivity.
  - intros [a' b' c' d' e'] x Hx. cbn [app_location]. cbn [Z.eqb Pos.eqb sub_message].
    rewrite line_roundtrip by exact Hx. reflexivity.
Qed.

Lemma location_roundtrip l : wf_location l -> decode_message app_location (enc_location l) rlocation0 = Ok l.
Proof. intros H. rewrite enc_location_fields, decode_message_fields by (apply wf_fields_location, H). apply dec_location_fields, H. Qed.

(* ---------- profile ---------- *)
Lemma B_bytes_of_string s : B (bytes_of_string s) = s.
Proof.
  induction s as [|a r IH]; cbn [bytes_of_string B]; [reflexivity|].
  rewrite IH, N2Z.id, Ascii.ascii_N_embedding. reflexivity.
Qed.

Definition pt_fields (o : option rvaluetype) : list field :=
  match o with
  | Some pt => if (rvt_type pt =? 0) && (rvt_unit pt =? 0) then [] else [(11, WBytes (enc_valuetype pt))]
  | None => []
  end.

Definition fields_profile (p : rprofile) : list field :=
  map (fun x => (1, WBytes (enc_valuetype x))) (rp_sampletype p) ++
  map (fun x => (2, WBytes (enc_sample x))) (rp_sample p) ++
  map (fun x => (3, WBytes (enc_mapping x))) (rp_mapping p) ++
  map (fun x => (4, WBytes (enc_location x))) (rp_location p) ++
  map (fun x => (5, WBytes (enc_function x))) (rp_function p) ++
  map (fun s => (6, WBytes (bytes_of_string s))) (rp_strings p) ++
  opt_i 7 (rp_dropframes p) ++ opt_i 8 (rp_keepframes p) ++ opt_i 9 (rp_time p) ++ opt_i 10 (rp_duration p) ++
  pt_fields (rp_periodtype p) ++ opt_i 12 (rp_period p) ++ fields_u64s 13 (map u64 (rp_comment p)) ++
  [(14, WVarint (u64 (rp_defaultst p)))] ++ opt_i 15 (rp_docurl p).

Definition sized {X} (enc : X -> bytes) (l : list X) : Prop := Forall (fun x => len (enc x) < two64) l.

Definition wf_rprofile (p : rprofile) : Prop :=
  Forall wf_valuetype (rp_sampletype p) /\ Forall wf_sample (rp_sample p) /\ Forall wf_mapping (rp_mapping p) /\
  Forall wf_location (rp_location p) /\ Forall wf_function (rp_function p) /\
  (exists rest, rp_strings p = ""%string :: rest) /\
  is_i64 (rp_dropframes p) /\ is_i64 (rp_keepframes p) /\ is_i64 (rp_time p) /\ is_i64 (rp_duration p) /\
  match rp_periodtype p with Some pt => wf_valuetype pt | None => True end /\
  is_i64 (rp_period p) /\ Forall is_i64 (rp_comment p) /\ is_i64 (rp_defaultst p) /\ is_i64 (rp_docurl p) /\
  (* sizes: every length prefix fits a uint64 (in Go: len() is an int) *)
  sized enc_valuetype (rp_sampletype p) /\ sized enc_sample (rp_sample p) /\ sized enc_mapping (rp_mapping p) /\
  sized enc_location (rp_location p) /\ sized enc_function (rp_function p) /\ sized bytes_of_string (rp_strings p) /\
  match rp_periodtype p with Some pt => len (enc_valuetype pt) < two64 | None => True end /\
  len (flat_map encode_varint (map u64 (rp_comment p))) < two64.

Lemma enc_profile_fields p : enc_profile p = flat_map enc_field (fields_profile p).
Proof.
  unfold enc_profile, fields_profile, encode_int64s, encode_string.
  rewrite !flat_map_app, !flat_map_map, !enc_opt_i, enc_u64s_fields.
  assert (PT : (match rp_periodtype p with
                | Some pt => if (rvt_type pt =? 0) && (rvt_unit pt =? 0) then [] else encode_bytes 11 (enc_valuetype pt)
                | None => [] end) = flat_map enc_field (pt_fields (rp_periodtype p))).
  { unfold pt_fields. destruct (rp_periodtype p) as [pt|]; [|reflexivity].
    destruct ((rvt_type pt =? 0) && (rvt_unit pt =? 0)); cbn [flat_map enc_field]; [reflexivity|]. rewrite app_nil_r. reflexivity. }
  rewrite PT. cbn [flat_map enc_field]. rewrite app_nil_r. reflexivity.
Qed.

Lemma Forall_sized_fields {X} (enc : X -> bytes) t l : tag_ok t -> sized enc l ->
  Forall wf_field (map (fun x => (t, WBytes (enc x))) l).
Proof. intros Ht Hs. apply Forall_map. eapply Forall_impl; [|exact Hs]. intros x Hx. split; [exact Ht|exact Hx]. Qed.

Lemma wf_fields_profile p : wf_rprofile p -> Forall wf_field (fields_profile p).
Proof.
  intros (_ & _ & _ & _ & _ & _ & _ & _ & _ & _ & _ & _ & _ & _ & _ & S1 & S2 & S3 & S4 & S5 & S6 & S7 & S8).
  unfold fields_profile. repeat (apply Forall_app; split);
    try (apply Forall_sized_fields; [tag_ok_tac|assumption]);
    try (apply wf_opt_i; tag_ok_tac).
  - unfold pt_fields. destruct (rp_periodtype p) as [pt|]; [|constructor].
    destruct (_ && _); constructor; [|constructor]. split; [cbn; unfold two61; lia|exact S7].
  - apply wf_fields_u64s; [tag_ok_tac|apply Forall_u64_map|exact S8].
  - constructor; [|constructor]. split; [cbn; unfold two61; lia|apply u64_range].
Qed.

Definition rset_st p l := rp_upd p l (rp_sample p) (rp_mapping p) (rp_location p) (rp_function p) (rp_strings p) (rp_dropframes p) (rp_keepframes p) (rp_time p) (rp_duration p) (rp_periodtype p) (rp_period p) (rp_comment p) (rp_defaultst p) (rp_docurl p).
Definition rset_sa p l := rp_upd p (rp_sampletype p) l (rp_mapping p) (rp_location p) (rp_function p) (rp_strings p) (rp_dropframes p) (rp_keepframes p) (rp_time p) (rp_duration p) (rp_periodtype p) (rp_period p) (rp_comment p) (rp_defaultst p) (rp_docurl p).
Definition rset_ma p l := rp_upd p (rp_sampletype p) (rp_sample p) l (rp_location p) (rp_function p) (rp_strings p) (rp_dropframes p) (rp_keepframes p) (rp_time p) (rp_duration p) (rp_periodtype p) (rp_period p) (rp_comment p) (rp_defaultst p) (rp_docurl p).
Definition rset_lo p l := rp_upd p (rp_sampletype p) (rp_sample p) (rp_mapping p) l (rp_function p) (rp_strings p) (rp_dropframes p) (rp_keepframes p) (rp_time p) (rp_duration p) (rp_periodtype p) (rp_period p) (rp_comment p) (rp_defaultst p) (rp_docurl p).
Definition rset_fn p l := rp_upd p (rp_sampletype p) (rp_sample p) (rp_mapping p) (rp_location p) l (rp_strings p) (rp_dropframes p) (rp_keepframes p) (rp_time p) (rp_duration p) (rp_periodtype p) (rp_period p) (rp_comment p) (rp_defaultst p) (rp_docurl p).
Definition rset_str p l := rp_upd p (rp_sampletype p) (rp_sample p) (rp_mapping p) (rp_location p) (rp_function p) l (rp_dropframes p) (rp_keepframes p) (rp_time p) (rp_duration p) (rp_periodtype p) (rp_period p) (rp_comment p) (rp_defaultst p) (rp_docurl p).
Definition rset_cm p l := rp_upd p (rp_sampletype p) (rp_sample p) (rp_mapping p) (rp_location p) (rp_function p) (rp_strings p) (rp_dropframes p) (rp_keepframes p) (rp_time p) (rp_duration p) (rp_periodtype p) (rp_period p) l (rp_defaultst p) (rp_docurl p).

(* the string table: every prefix starts with "" *)
Lemma fold_strings : forall xs p,
  (match rp_strings p ++ xs with [] => True | s0 :: _ => s0 = ""%string end) ->
  fold_res app_profile (map (fun s => (6, WBytes (bytes_of_string s))) xs) p = Ok (rset_str p (rp_strings p ++ xs)).
Proof.
  induction xs as [|x xs IH]; intros p H; cbn [map fold_res].
  - rewrite app_nil_r. destruct p; reflexivity.
  - assert (A : app_profile p (6, WBytes (bytes_of_string x)) = Ok (rset_str p (rp_strings p ++ [x]))).
    { destruct p as [a b c d e f g h i j k l m n o]. cbn [app_profile]. cbn [Z.eqb Pos.eqb dec_string bind].
      rewrite B_bytes_of_string. cbn [rp_strings] in *.
      destruct f as [|s0 r]; cbn [app] in *.
      - subst x. reflexivity.
      - subst s0. reflexivity. }
    rewrite A. cbn [bind]. rewrite IH.
    + destruct p; cbn. rewrite <- app_assoc. reflexivity.
    + destruct p; cbn in *. rewrite <- app_assoc. exact H.
Qed.

Definition canon_pt (o : option rvaluetype) : option rvaluetype :=
  match o with
  | Some pt => if (rvt_type pt =? 0) && (rvt_unit pt =? 0) then None else Some pt
  | None => None
  end.
Definition canon_rprofile (p : rprofile) : rprofile :=
  rp_upd p (rp_sampletype p) (rp_sample p) (rp_mapping p) (rp_location p) (rp_function p) (rp_strings p)
         (rp_dropframes p) (rp_keepframes p) (rp_time p) (rp_duration p) (canon_pt (rp_periodtype p)) (rp_period p)
         (rp_comment p) (rp_defaultst p) (rp_docurl p).

Lemma dec_profile_fields p : wf_rprofile p -> fold_res app_profile (fields_profile p) rprofile0 = Ok (canon_rprofile p).
Proof.
  destruct p as [sts sas mas los fns strs df kf tm du pt pe cm dst doc].
  intros (W1 & W2 & W3 & W4 & W5 & (rest & W6) & W7 & W8 & W9 & W10 & W11 & W12 & W13 & W14 & W15 & _).
  cbn [rp_sampletype rp_sample rp_mapping rp_location rp_function rp_strings rp_dropframes rp_keepframes rp_time
       rp_duration rp_periodtype rp_period rp_comment rp_defaultst rp_docurl] in *.
  unfold fields_profile, rprofile0, canon_rprofile, rp_upd.
  cbn [rp_sampletype rp_sample rp_mapping rp_location rp_function rp_strings rp_dropframes rp_keepframes rp_time
       rp_duration rp_periodtype rp_period rp_comment rp_defaultst rp_docurl].
  (* 1: sample types *)
  rewrite fold_res_app.
  rewrite (rep_fold app_profile (fun x => (1, WBytes (enc_valuetype x))) rp_sampletype rset_st wf_valuetype);
    try (intros [? ? ? ? ? ? ? ? ? ? ? ? ? ? ?]; reflexivity); auto;
    [| intros [? ? ? ? ? ? ? ? ? ? ? ? ? ? ?] x Hx; cbn [app_profile]; cbn [Z.eqb Pos.eqb sub_message];
       rewrite valuetype_roundtrip by exact Hx; reflexivity].
  cbn [bind rset_st rp_upd rp_sampletype rp_sample rp_mapping rp_location rp_function rp_strings rp_dropframes
       rp_keepframes rp_time rp_duration rp_periodtype rp_period rp_comment rp_defaultst rp_docurl app].
  (* 2: samples *)
  rewrite fold_res_app.
  rewrite (rep_fold app_profile (fun x => (2, WBytes (enc_sample x))) rp_sample rset_sa wf_sample);
    try (intros [? ? ? ? ? ? ? ? ? ? ? ? ? ? ?]; reflexivity); auto;
    [| intros [? ? ? ? ? ? ? ? ? ? ? ? ? ? ?] x Hx; cbn [app_profile]; cbn [Z.eqb Pos.eqb sub_message];
       rewrite sample_roundtrip by exact Hx; reflexivity].
  cbn [bind rset_sa rp_upd rp_sampletype rp_sample rp_mapping rp_location rp_function rp_strings rp_dropframes
       rp_keepframes rp_time rp_duration rp_periodtype rp_period rp_comment rp_defaultst rp_docurl app].
  (* 3: mappings *)
  rewrite fold_res_app.
  rewrite (rep_fold app_profile (fun x => (3, WBytes (enc_mapping x))) rp_mapping rset_ma wf_mapping);
    try (intros [? ? ? ? ? ? ? ? ? ? ? ? ? ? ?]; reflexivity); auto;
    [| intros [? ? ? ? ? ? ? ? ? ? ? ? ? ? ?] x Hx; cbn [app_profile]; cbn [Z.eqb Pos.eqb sub_message];
       rewrite mapping_roundtrip by exact Hx; reflexivity].
  cbn [bind rset_ma rp_upd rp_sampletype rp_sample rp_mapping rp_location rp_function rp_strings rp_dropframes
       rp_keepframes rp_time rp_duration rp_periodtype rp_period rp_comment rp_defaultst rp_docurl app].
  (* 4: locations *)
  rewrite fold_res_app.
  rewrite (rep_fold app_profile (fun x => (4, WBytes (enc_location x))) rp_location rset_lo wf_location);
    try (intros [? ? ? ? ? ? ? ? ? ? ? ? ? ? ?]; reflexivity); auto;
    [| intros [? ? ? ? ? ? ? ? ? ? ? ? ? ? ?] x Hx; cbn [app_profile]; cbn [Z.eqb Pos.eqb sub_message];
       rewrite location_roundtrip by exact Hx; reflexivity].
  cbn [bind rset_lo rp_upd rp_sampletype rp_sample rp_mapping rp_location rp_function rp_strings rp_dropframes
       rp_keepframes rp_time rp_duration rp_periodtype rp_period rp_comment rp_defaultst rp_docurl app].
  (* 5: functions *)
  rewrite fold_res_app.
  rewrite (rep_fold app_profile (fun x => (5, WBytes (enc_function x))) rp_function rset_fn wf_function);
    try (intros [? ? ? ? ? ? ? ? ? ? ? ? ? ? ?]; reflexivity); auto;
    [| intros [? ? ? ? ? ? ? ? ? ? ? ? ? ? ?] x Hx; cbn [app_profile]; cbn [Z.eqb Pos.eqb sub_message];
       rewrite function_roundtrip by exact Hx; reflexivity].
  cbn [bind rset_fn rp_upd rp_sampletype rp_sample rp_mapping rp_location rp_function rp_strings rp_dropframes
       rp_keepframes rp_time rp_duration rp_periodtype rp_period rp_comment rp_defaultst rp_docurl app].
  (* 6: string table *)
  rewrite fold_res_app, fold_strings by (cbn; rewrite W6; reflexivity).
  cbn [bind rset_str rp_upd rp_sampletype rp_sample rp_mapping rp_location rp_function rp_strings rp_dropframes
       rp_keepframes rp_time rp_duration rp_periodtype rp_period rp_comment rp_defaultst rp_docurl app].
  (* 7..10 *)
  do 4 (rewrite fold_res_app; opt_step).
  (* 11: period type *)
  rewrite fold_res_app.
  assert (PT : forall q, rp_periodtype q = None ->
             fold_res app_profile (pt_fields pt) q =
             Ok (rp_upd q (rp_sampletype q) (rp_sample q) (rp_mapping q) (rp_location q) (rp_function q) (rp_strings q)
                  (rp_dropframes q) (rp_keepframes q) (rp_time q) (rp_duration q) (canon_pt pt) (rp_period q)
                  (rp_comment q) (rp_defaultst q) (rp_docurl q))).
  { intros [? ? ? ? ? ? ? ? ? ? k ? ? ? ?] Hk. cbn [rp_periodtype] in Hk. subst k. unfold pt_fields, canon_pt.
    destruct pt as [v|]; [|reflexivity].
    destruct ((rvt_type v =? 0) && (rvt_unit v =? 0)); [reflexivity|].
    cbn [fold_res app_profile]. cbn [Z.eqb Pos.eqb sub_message]. rewrite valuetype_roundtrip by exact W11. reflexivity. }
  rewrite PT by reflexivity.
  cbn [bind rp_upd rp_sampletype rp_sample rp_mapping rp_location rp_function rp_strings rp_dropframes
       rp_keepframes rp_time rp_duration rp_periodtype rp_period rp_comment rp_defaultst rp_docurl].
  (* 12 *)
  rewrite fold_res_app. opt_step.
  (* 13: comments *)
  rewrite fold_res_app.
  rewrite (dec_i64s_fields app_profile 13 rp_comment rset_cm) by (auto; intros [? ? ? ? ? ? ? ? ? ? ? ? ? ? ?]; reflexivity).
  cbn [bind rset_cm rp_upd rp_sampletype rp_sample rp_mapping rp_location rp_function rp_strings rp_dropframes
       rp_keepframes rp_time rp_duration rp_periodtype rp_period rp_comment rp_defaultst rp_docurl app].
  (* 14 *)
  cbn [fold_res app_profile app]. cbn [Z.eqb Pos.eqb dec_int64 bind].
  rewrite i64_u64 by exact W14.
  cbn [rp_upd rp_sampletype rp_sample rp_mapping rp_location rp_function rp_strings rp_dropframes
       rp_keepframes rp_time rp_duration rp_periodtype rp_period rp_comment rp_defaultst rp_docurl].
  (* 15 *)
  opt_step. reflexivity.
Qed.

Lemma unmarshal_enc_profile p : wf_rprofile p -> unmarshal (enc_profile p) = Ok (canon_rprofile p).
Proof.
  intros H. unfold unmarshal. rewrite enc_profile_fields, decode_message_fields by (apply wf_fields_profile, H).
  apply dec_profile_fields, H.
Qed.
