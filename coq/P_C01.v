From PV Require Import M_Codec S_Codec.
