(* C01 -- Profile serialization round-trips without loss.
   Property theorems only (each closed by [exact] of a lemma, followed by Print Assumptions).
   Model: M_Codec (profile/proto.go + profile/encode.go + serialize/ParseUncompressed/Copy);
   specification: S_Codec (validity contract, NumUnit contract, the normalisation proto3 forces). *)
From PV Require Import M_Codec S_Codec L_Codec_Wire L_Codec_Msg L_Codec_Tab L_Codec_Regroup L_Codec_Main L_Codec_Norm R_C01 L_C01_Driver M_Valid L_Codec_Range.
Open Scope string_scope.
Open Scope list_scope.
Open Scope Z_scope.

(* ---- wire layer ---- *)
Theorem varint_roundtrip : forall x rest,
  0 <= x < two64 -> decode_varint (encode_varint x ++ rest) = Ok (x, rest).
Proof. exact varint_roundtrip_lemma. Qed.
Print Assumptions varint_roundtrip.

Theorem varint_length : forall x, (1 <= List.length (encode_varint x) <= 10)%nat.
Proof. exact encode_varint_length. Qed.
Print Assumptions varint_length.

Theorem field_roundtrip : forall fd rest, wf_field fd -> decode_field (enc_field fd ++ rest) = Ok (fd, rest).
Proof. exact decode_field_enc. Qed.
Print Assumptions field_roundtrip.

(* decoding a concatenation of encoded fields = applying the decoder table left to right; the
   fuel (= input length) of the Go loop `for len(data) > 0` never runs out *)
Theorem message_decoding_is_a_fold : forall (S : Type) (app_ : S -> field -> res S) fs s,
  Forall wf_field fs -> decode_message app_ (flat_map enc_field fs) s = fold_res app_ fs s.
Proof. exact @decode_message_fields. Qed.
Print Assumptions message_decoding_is_a_fold.

(* packed repeated scalars, any length (the > 2 switch is a case split of the proofs below) *)
Theorem packed_roundtrip : forall xs fuel,
  Forall (fun x => 0 <= x < two64) xs -> (List.length (flat_map encode_varint xs) <= fuel)%nat ->
  decode_varints fuel (flat_map encode_varint xs) = Ok xs.
Proof. exact decode_varints_encode. Qed.
Print Assumptions packed_roundtrip.

(* ---- one theorem per message type ---- *)
Theorem valuetype_message_roundtrip : forall v, wf_valuetype v -> decode_message app_valuetype (enc_valuetype v) rvt0 = Ok v.
Proof. exact valuetype_roundtrip. Qed.
Print Assumptions valuetype_message_roundtrip.
Theorem label_message_roundtrip : forall l, wf_label l -> decode_message app_label (enc_label l) rlabel0 = Ok l.
Proof. exact label_roundtrip. Qed.
Print Assumptions label_message_roundtrip.
Theorem sample_message_roundtrip : forall s, wf_sample s -> decode_message app_sample (enc_sample s) rsample0 = Ok s.
Proof. exact sample_roundtrip. Qed.
Print Assumptions sample_message_roundtrip.
Theorem mapping_message_roundtrip : forall m, wf_mapping m -> decode_message app_mapping (enc_mapping m) rmapping0 = Ok m.
Proof. exact mapping_roundtrip. Qed.
Print Assumptions mapping_message_roundtrip.
Theorem line_message_roundtrip : forall l, wf_line l -> decode_message app_line (enc_line l) rline0 = Ok l.
Proof. exact line_roundtrip. Qed.
Print Assumptions line_message_roundtrip.
Theorem location_message_roundtrip : forall l, wf_location l -> decode_message app_location (enc_location l) rlocation0 = Ok l.
Proof. exact location_roundtrip. Qed.
Print Assumptions location_message_roundtrip.
Theorem function_message_roundtrip : forall f, wf_function f -> decode_message app_function (enc_function f) rfunction0 = Ok f.
Proof. exact function_roundtrip. Qed.
Print Assumptions function_message_roundtrip.
Theorem profile_message_roundtrip : forall r, wf_rprofile r -> unmarshal (enc_profile r) = Ok (canon_rprofile r).
Proof. exact unmarshal_enc_profile. Qed.
Print Assumptions profile_message_roundtrip.

(* ---- string interning, id resolution, label regrouping with unit padding ---- *)
Theorem post_decode_inverts_pre_encode : forall p r,
  valid_b p = true -> units_wf_b p = true -> pre_encode p = Ok r -> post_decode r = Ok (normalize p).
Proof. exact post_pre_lemma. Qed.
Print Assumptions post_decode_inverts_pre_encode.

(* ---- the property ---- *)
(* serialization cannot panic (units[i] index, nil location) on a valid profile that honours the
   documented NumUnit length contract *)
Theorem serialize_never_panics : forall p, valid_b p = true -> units_wf_b p = true -> exists r, pre_encode p = Ok r.
Proof. exact serialize_ok_lemma. Qed.
Print Assumptions serialize_never_panics.

(* [size_ok r]: every length prefix and string-table index fits 64/63 bits (always true in Go,
   where they are ints); it is a statement about sizes only *)
Theorem write_parse_roundtrip : forall p r,
  valid_b p = true -> units_wf_b p = true -> pre_encode p = Ok r -> size_ok r ->
  serialize p = Ok (enc_profile r) /\ parse_uncompressed (enc_profile r) = Ok (normalize p).
Proof. exact write_parse_roundtrip_lemma. Qed.
Print Assumptions write_parse_roundtrip.

Theorem copy_is_normalize : forall p r,
  valid_b p = true -> units_wf_b p = true -> pre_encode p = Ok r -> size_ok r -> copy p = Ok (normalize p).
Proof. exact copy_lemma. Qed.
Print Assumptions copy_is_normalize.

(* ---- "anything the parser returns survives write-then-parse unchanged and re-serializes to
   identical bytes": the normalisation is idempotent and preserves validity, so the result of one
   write-then-parse is a fixpoint of it ---- *)
Theorem normalize_idempotent : forall p,
  forallb (fun s => keys_sorted (s_numlabel s)) (p_sample p) = true -> normalize (normalize p) = normalize p.
Proof. exact normalize_idem. Qed.
Print Assumptions normalize_idempotent.

Theorem normalize_preserves_validity : forall p, valid_b p = true -> valid_b (normalize p) = true.
Proof. exact valid_normalize. Qed.
Print Assumptions normalize_preserves_validity.

Theorem parse_is_fixpoint : forall p r',
  valid_b p = true -> pre_encode (normalize p) = Ok r' -> size_ok r' ->
  parse_uncompressed (enc_profile r') = Ok (normalize p) /\ serialize (normalize p) = Ok (enc_profile r').
Proof. exact reparse_fixpoint. Qed.
Print Assumptions parse_is_fixpoint.

(* the same for "anything the parser returns": CheckValid-accepted output of the protobuf parser is
   valid with well-formed units (L_Codec_Range, the bridge from C02), so writing it and parsing the
   bytes back gives its normal form, which from then on is reproduced exactly, bytes included *)
Theorem parser_output_survives_write_then_parse : forall data q r r',
  parse_uncompressed data = Ok q -> check_valid q = true ->
  pre_encode q = Ok r -> size_ok r -> pre_encode (normalize q) = Ok r' -> size_ok r' ->
  serialize q = Ok (enc_profile r) /\ parse_uncompressed (enc_profile r) = Ok (normalize q) /\
  serialize (normalize q) = Ok (enc_profile r') /\ parse_uncompressed (enc_profile r') = Ok (normalize q).
Proof. exact parser_output_roundtrip_lemma. Qed.
Print Assumptions parser_output_survives_write_then_parse.

(* ---- the driver path (pprof -proto re-read): the only step between fetch and write that touches what
   a reader sees is unsourceMappings; it preserves every frame shown unless the profile is in F34 ---- *)
Theorem driver_proto_view_preserved_outside_F34 : forall abs p,
  in_F34 abs p = false -> frame_view_f (unsourced_file abs) p = frame_view p.
Proof. exact frame_view_unsourced_lemma. Qed.
Print Assumptions driver_proto_view_preserved_outside_F34.

(* the unrestricted statement is false of the unchanged code: known finding F34 *)
Theorem driver_proto_view_refuted_F34 :
  exists abs p, valid_b p = true /\ frame_view_f (unsourced_file abs) p <> frame_view p.
Proof. exact frame_view_unsourced_refuted_lemma. Qed.
Print Assumptions driver_proto_view_refuted_F34.


(* ---- non-vacuity: a profile with a 3-element (packed) and a 2-element value list, a sparse id
   2^63+5, string labels incl. an empty value, numeric labels with mixed unit padding ---- *)
Definition ex_profile : profile :=
  {| p_sampletype := [{| vt_type := "cpu"; vt_unit := "ns" |}; {| vt_type := "n"; vt_unit := "count" |}; {| vt_type := "x"; vt_unit := "" |}];
     p_defaultsampletype := "cpu";
     p_sample := [ {| s_loc := [9223372036854775813; 2; 9223372036854775813]; s_val := [5; -7; 0];
                      s_label := [("k", ["v"; ""; "w"])];
                      s_numlabel := [("bytes", [0; 10; 0]); ("n", [1; 2])];
                      s_numunit := [("bytes", [""; "kb"; ""])] |};
                   {| s_loc := [2; 2]; s_val := [-9223372036854775808; 9223372036854775807; 1];
                      s_label := []; s_numlabel := []; s_numunit := [] |} ];
     p_mapping := [{| m_id := 7; m_start := 4096; m_limit := 8192; m_offset := 0; m_file := "/bin/x"; m_buildid := "ab";
                      m_hasfn := true; m_hasfile := false; m_hasline := false; m_hasinline := true |}];
     p_location := [{| l_id := 9223372036854775813; l_mapping := 7; l_addr := 4100;
                       l_lines := [{| ln_fn := 3; ln_line := 10; ln_col := 2 |}; {| ln_fn := 3; ln_line := 11; ln_col := 0 |}];
                       l_folded := false |};
                    {| l_id := 2; l_mapping := 0; l_addr := 0; l_lines := [{| ln_fn := 3; ln_line := 0; ln_col := 0 |}]; l_folded := true |}];
     p_function := [{| f_id := 3; f_name := "main"; f_sysname := "main"; f_file := "m.go"; f_startline := 1 |}];
     p_comments := ["c1"; "c2"; "c1"]; p_docurl := ""; p_dropframes := "a|b"; p_keepframes := "";
     p_timenanos := 12; p_durationnanos := 0; p_periodtype := None; p_period := 100 |}.

Example ex_hypotheses :
  valid_b ex_profile = true /\ units_wf_b ex_profile = true /\
  exists r, pre_encode ex_profile = Ok r /\ size_ok r.
Proof.
  split; [vm_compute; reflexivity|]. split; [vm_compute; reflexivity|].
  eexists. split; [vm_compute; reflexivity|].
  unfold size_ok, sized, sizes_sample, sizes_location.
  cbn [rp_strings rp_sample rp_location rp_sampletype rp_mapping rp_function rp_periodtype rp_comment].
  repeat match goal with
         | |- _ /\ _ => split
         | |- Forall _ (rs_label _) => cbn [rs_label]
         | |- Forall _ (rloc_lines _) => cbn [rloc_lines]
         | |- Forall _ [] => apply Forall_nil
         | |- Forall _ (_ :: _) => apply Forall_cons
         | |- True => exact I
         | |- (_ < _)%Z => vm_compute; reflexivity
         end.
Qed.

Example ex_roundtrip :
  match serialize ex_profile with
  | Ok b => parse_uncompressed b = Ok (normalize ex_profile) /\ normalize ex_profile <> ex_profile
  | _ => False
  end.
Proof. vm_compute. split; [reflexivity|discriminate]. Qed.
