(* C02: the protobuf parser is total -- for EVERY byte string it returns a profile or a Go error,
   never an index/slice panic, and the fuel of the decoding loops never runs out. *)
From Coq Require Import Lia ZifyBool.
From PV Require Import M_Codec.
Open Scope string_scope.
Open Scope list_scope.
Open Scope Z_scope.

Definition no_panic {A} (r : res A) : Prop := match r with Panic _ => False | _ => True end.

Lemma no_panic_bind {A B} (r : res A) (f : A -> res B) :
  no_panic r -> (forall a, r = Ok a -> no_panic (f a)) -> no_panic (bind r f).
Proof. destruct r; simpl; auto. Qed.

(* ---------- varint: consumes at least one byte, never panics ---------- *)
Lemma decode_varint_go_shorter fuel : forall shift acc data u rest,
  decode_varint_go fuel shift acc data = Ok (u, rest) -> (List.length rest < List.length data)%nat.
Proof.
  induction fuel as [|fuel IH]; intros shift acc data u rest H; cbn [decode_varint_go] in H; [discriminate|].
  destruct data as [|b r]; [discriminate|].
  destruct (b <? 128).
  - inversion H; subst. simpl. lia.
  - apply IH in H. simpl. lia.
Qed.

Lemma decode_varint_go_no_panic fuel : forall shift acc data, no_panic (decode_varint_go fuel shift acc data).
Proof.
  induction fuel as [|fuel IH]; intros; cbn [decode_varint_go]; [exact I|].
  destruct data as [|b r]; [exact I|]. destruct (b <? 128); [exact I|apply IH].
Qed.

Lemma decode_varint_shorter data u rest :
  decode_varint data = Ok (u, rest) -> (List.length rest < List.length data)%nat.
Proof. apply decode_varint_go_shorter. Qed.
Lemma decode_varint_no_panic data : no_panic (decode_varint data).
Proof. apply decode_varint_go_no_panic. Qed.

(* ---------- slices under the guards the code uses ---------- *)
Lemma slice_to_ok site n (data : bytes) : 0 <= n -> (len data <? n) = false ->
  exists h, slice_to site n data = Ok h.
Proof. intros H1 H2. unfold slice_to. replace ((0 <=? n) && (n <=? len data)) with true by lia. eauto. Qed.

Lemma slice_from_ok site n (data : bytes) : 0 <= n -> (len data <? n) = false ->
  slice_from site n data = Ok (skipn (Z.to_nat n) data).
Proof. intros H1 H2. unfold slice_from. replace ((0 <=? n) && (n <=? len data)) with true by lia. reflexivity. Qed.

Lemma decode_varint_go_nonneg fuel : forall shift acc data u rest,
  0 <= acc -> decode_varint_go fuel shift acc data = Ok (u, rest) -> 0 <= u.
Proof.
  induction fuel as [|fuel IH]; intros shift acc data u rest Ha H; cbn [decode_varint_go] in H; [discriminate|].
  destruct data as [|b r]; [discriminate|].
  assert (0 <= (b mod 128 * 2 ^ shift) mod two64) by (apply Z.mod_pos_bound; reflexivity).
  destruct (b <? 128).
  - inversion H; subst. lia.
  - eapply IH; [|exact H]. lia.
Qed.

(* ---------- decodeField ---------- *)
Lemma decode_field_spec data :
  no_panic (decode_field data) /\
  forall fd rest, decode_field data = Ok (fd, rest) -> (List.length rest < List.length data)%nat.
Proof.
  unfold decode_field.
  pose proof (decode_varint_no_panic data) as NP.
  destruct (decode_varint data) as [[x d1]|c|c] eqn:E1; cbn [bind]; try (split; [exact I + exact NP|discriminate]).
  apply decode_varint_shorter in E1.
  destruct (x mod 8 =? 0).
  { pose proof (decode_varint_no_panic d1) as NP2.
    destruct (decode_varint d1) as [[u d2]|c|c] eqn:E2; cbn [bind]; try (split; [exact I + exact NP2|discriminate]).
    apply decode_varint_shorter in E2. split; [exact I|]. intros fd rest H. assert (R : rest = d2) by congruence. subst rest. lia. }
  destruct (x mod 8 =? 1).
  { destruct (len d1 <? 8) eqn:L; [split; [exact I|discriminate]|].
    destruct (slice_to_ok 101 8 d1 ltac:(lia) L) as [h Hh]. rewrite Hh, (slice_from_ok 102 8 d1 ltac:(lia) L). cbn [bind].
    split; [exact I|]. intros fd rest H.
    assert (R : rest = skipn (Z.to_nat 8) d1) by congruence. rewrite R, skipn_length.
    unfold len in L. lia. }
  destruct (x mod 8 =? 2).
  { pose proof (decode_varint_no_panic d1) as NP2.
    destruct (decode_varint d1) as [[n d2]|c|c] eqn:E2; cbn [bind]; try (split; [exact I + exact NP2|discriminate]).
    pose proof (decode_varint_go_nonneg 10 0 0 d1 n d2 ltac:(lia) E2) as Nn.
    apply decode_varint_shorter in E2.
    destruct (len d2 <? n) eqn:L; [split; [exact I|discriminate]|].
    destruct (slice_to_ok 103 n d2 Nn L) as [h Hh]. rewrite Hh, (slice_from_ok 104 n d2 Nn L). cbn [bind].
    split; [exact I|]. intros fd rest H.
    assert (R : rest = skipn (Z.to_nat n) d2) by congruence. rewrite R, skipn_length. lia. }
  destruct (x mod 8 =? 5).
  { destruct (len d1 <? 4) eqn:L; [split; [exact I|discriminate]|].
    destruct (slice_to_ok 105 4 d1 ltac:(lia) L) as [h Hh]. rewrite Hh, (slice_from_ok 106 4 d1 ltac:(lia) L). cbn [bind].
    split; [exact I|]. intros fd rest H.
    assert (R : rest = skipn (Z.to_nat 4) d1) by congruence. rewrite R, skipn_length.
    unfold len in L. lia. }
  split; [exact I|discriminate].
Qed.

(* ---------- the decoding loop: fuel = length suffices, panics only come from [apply] ---------- *)
Lemma decode_loop_no_panic {S} (apply : S -> field -> res S) :
  (forall s fd, no_panic (apply s fd)) ->
  forall fuel data s, (List.length data <= fuel)%nat -> no_panic (decode_loop fuel apply data s).
Proof.
  intros HA. induction fuel as [|fuel IH]; intros data s Hf.
  - destruct data; [exact I|simpl in Hf; lia].
  - destruct data as [|b r]; [exact I|]. cbn [decode_loop].
    destruct (decode_field_spec (b :: r)) as [NP SH].
    destruct (decode_field (b :: r)) as [[fd rest]|c|c]; cbn [bind]; try exact I; try exact NP.
    specialize (SH fd rest eq_refl).
    pose proof (HA s fd) as NA. destruct (apply s fd) as [s'|c|c]; cbn [bind]; try exact I; try exact NA.
    apply IH. simpl in *. lia.
Qed.

Lemma decode_message_no_panic {S} (apply : S -> field -> res S) :
  (forall s fd, no_panic (apply s fd)) -> forall data s, no_panic (decode_message apply data s).
Proof. intros HA data s. unfold decode_message. apply decode_loop_no_panic; [exact HA|lia]. Qed.

Lemma decode_varints_no_panic : forall fuel data, (List.length data <= fuel)%nat -> no_panic (decode_varints fuel data).
Proof.
  induction fuel as [|fuel IH]; intros data Hf.
  - destruct data; [exact I|simpl in Hf; lia].
  - destruct data as [|b r]; [exact I|]. cbn [decode_varints].
    pose proof (decode_varint_no_panic (b :: r)) as NP.
    destruct (decode_varint (b :: r)) as [[u rest]|c|c] eqn:E; cbn [bind]; try exact I; try exact NP.
    apply decode_varint_shorter in E.
    assert (N : no_panic (decode_varints fuel rest)) by (apply IH; simpl in *; lia).
    destruct (decode_varints fuel rest); cbn [bind]; auto.
Qed.

(* ---------- field decoders ---------- *)
Lemma dec_int64_np w : no_panic (dec_int64 w). Proof. destruct w; exact I. Qed.
Lemma dec_uint64_np w : no_panic (dec_uint64 w). Proof. destruct w; exact I. Qed.
Lemma dec_bool_np w : no_panic (dec_bool w). Proof. destruct w; exact I. Qed.
Lemma dec_string_np w : no_panic (dec_string w). Proof. destruct w; exact I. Qed.
Lemma dec_uint64s_np w acc : no_panic (dec_uint64s w acc).
Proof.
  destruct w as [u|u|b|u]; try exact I. cbn [dec_uint64s].
  pose proof (decode_varints_no_panic (List.length b) b ltac:(lia)) as N.
  destruct (decode_varints (List.length b) b); cbn [bind]; auto.
Qed.
Lemma dec_int64s_np w acc : no_panic (dec_int64s w acc).
Proof.
  destruct w as [u|u|b|u]; try exact I. cbn [dec_int64s].
  pose proof (decode_varints_no_panic (List.length b) b ltac:(lia)) as N.
  destruct (decode_varints (List.length b) b); cbn [bind]; auto.
Qed.

Lemma sub_message_np {S} (apply : S -> field -> res S) w s0 :
  (forall s fd, no_panic (apply s fd)) -> no_panic (sub_message apply w s0).
Proof. intros HA. destruct w; try exact I. apply decode_message_no_panic, HA. Qed.

Ltac np_bind :=
  match goal with
  | |- no_panic (bind ?r _) =>
      let N := fresh "N" in
      assert (N : no_panic r) by
        (first [apply dec_int64_np | apply dec_uint64_np | apply dec_bool_np | apply dec_string_np
               | apply dec_uint64s_np | apply dec_int64s_np | (apply sub_message_np; assumption)]);
      destruct r; cbn [bind]; try exact I; try exact N
  end.

Ltac np_table :=
  repeat match goal with
         | |- no_panic (if ?c then _ else _) => destruct c
         | |- no_panic (bind _ _) => np_bind
         | |- no_panic (Ok _) => exact I
         | |- no_panic (Err _) => exact I
         end.

Lemma app_valuetype_np v fd : no_panic (app_valuetype v fd).
Proof. destruct fd as [t w]. unfold app_valuetype. np_table. Qed.
Lemma app_label_np l fd : no_panic (app_label l fd).
Proof. destruct fd as [t w]. unfold app_label. np_table. Qed.
Lemma app_line_np l fd : no_panic (app_line l fd).
Proof. destruct fd as [t w]. unfold app_line. np_table. Qed.
Lemma app_function_np f fd : no_panic (app_function f fd).
Proof. destruct fd as [t w]. unfold app_function. np_table. Qed.
Lemma app_mapping_np m fd : no_panic (app_mapping m fd).
Proof. destruct fd as [t w]. unfold app_mapping. np_table. Qed.
Lemma app_sample_np s fd : no_panic (app_sample s fd).
Proof.
  destruct fd as [t w]. unfold app_sample.
  pose proof app_label_np as HL. np_table.
Qed.
Lemma app_location_np l fd : no_panic (app_location l fd).
Proof.
  destruct fd as [t w]. unfold app_location.
  pose proof app_line_np as HL. np_table.
Qed.

Lemma app_profile_np p fd : no_panic (app_profile p fd).
Proof.
  destruct fd as [t w]. unfold app_profile.
  pose proof app_valuetype_np as H1. pose proof app_sample_np as H2. pose proof app_mapping_np as H3.
  pose proof app_location_np as H4. pose proof app_function_np as H5.
  repeat match goal with
         | |- no_panic (if ?c then _ else _) => destruct c
         | |- no_panic (bind (dec_string _) _) => idtac
         | |- no_panic (bind _ _) => np_bind
         | |- no_panic (Ok _) => exact I
         | |- no_panic (Err _) => exact I
         end.
  (* field 6: stringTable[0] right after the append *)
  pose proof (dec_string_np w) as N. destruct (dec_string w) as [x|c|c]; cbn [bind]; try exact I; try exact N.
  destruct (rp_strings p) as [|s0 r]; cbn [app]; destruct (String.eqb _ ""); exact I.
Qed.

Lemma unmarshal_no_panic data : no_panic (unmarshal data).
Proof. apply decode_message_no_panic, app_profile_np. Qed.

(* ---------- postDecode ---------- *)
Lemma get_string_np tab x : no_panic (get_string tab x).
Proof.
  unfold get_string. destruct ((x <? 0) || (len tab <=? x)) eqn:C; [exact I|].
  destruct (nth_error tab (Z.to_nat x)) eqn:E; [exact I|].
  apply nth_error_None in E. unfold len in C. lia.
Qed.

Lemma map_res_np {A B} (f : A -> res B) l : (forall a, no_panic (f a)) -> no_panic (map_res f l).
Proof.
  intros H. induction l as [|a r IH]; [exact I|]. cbn [map_res].
  pose proof (H a) as N. destruct (f a); cbn [bind]; auto. destruct (map_res f r); cbn [bind]; auto.
Qed.

Lemma fold_res_np {A S} (f : S -> A -> res S) l : (forall s a, no_panic (f s a)) -> forall s, no_panic (fold_res f l s).
Proof.
  intros H. induction l as [|a r IH]; intros s; [exact I|]. cbn [fold_res].
  pose proof (H s a) as N. destruct (f s a); cbn [bind]; auto.
Qed.

Ltac gs_bind :=
  match goal with
  | |- no_panic (bind (get_string ?t ?x) _) =>
      let N := fresh "N" in pose proof (get_string_np t x) as N;
      destruct (get_string t x); cbn [bind]; try exact I; try exact N
  end.

Lemma post_valuetype_np tab v : no_panic (post_valuetype tab v).
Proof. unfold post_valuetype. repeat gs_bind; try exact I. Qed.
Lemma post_mapping_np tab m : no_panic (post_mapping tab m).
Proof. unfold post_mapping. repeat gs_bind; try exact I. Qed.
Lemma post_function_np tab f : no_panic (post_function tab f).
Proof. unfold post_function. repeat gs_bind; try exact I. Qed.

Lemma post_label_np tab g l : no_panic (post_label tab g l).
Proof.
  unfold post_label. gs_bind.
  destruct (negb (rl_str l =? 0)).
  - gs_bind.
  - destruct (negb (rl_num l =? 0) || negb (rl_unit l =? 0)); [|exact I].
    destruct (negb (rl_unit l =? 0)); cbn [bind]; [|exact I].
    pose proof (get_string_np tab (rl_unit l)) as N2.
    destruct (get_string tab (rl_unit l)); cbn [bind]; try exact I; exact N2.
Qed.

Lemma post_sample_np tab locids s : no_panic (post_sample tab locids s).
Proof.
  unfold post_sample.
  pose proof (fold_res_np (post_label tab) (rs_label s) (post_label_np tab)
                          {| g_label := []; g_num := []; g_unit := [] |}) as N.
  destruct (fold_res _ _ _); cbn [bind]; auto.
Qed.

Lemma post_decode_no_panic r : no_panic (post_decode r).
Proof.
  unfold post_decode.
  repeat match goal with
  | |- no_panic (bind (map_res ?f ?l) _) =>
      let N := fresh "N" in
      assert (N : no_panic (map_res f l)) by
        (apply map_res_np; intros;
         first [apply post_mapping_np | apply post_function_np | apply post_valuetype_np
               | apply post_sample_np | apply get_string_np]);
      destruct (map_res f l); cbn [bind]; try exact I; try exact N
  | |- no_panic (bind (get_string _ _) _) => gs_bind
  | |- no_panic (bind (post_valuetype ?t ?v) _) =>
      let N := fresh "N" in pose proof (post_valuetype_np t v) as N;
      destruct (post_valuetype t v); cbn [bind]; try exact I; try exact N
  end.
Qed.

Lemma parse_uncompressed_total data : no_panic (parse_uncompressed data).
Proof.
  unfold parse_uncompressed. destruct data as [|b r]; [exact I|].
  pose proof (unmarshal_no_panic (b :: r)) as N.
  destruct (unmarshal (b :: r)); cbn [bind]; try exact I; try exact N.
  apply post_decode_no_panic.
Qed.
