(* Case runner for C12: decodes harness cases, runs the symbolization model, judges the
   implementation's output with the specification checkers.  No proofs here.

   input  = TL [TS mode; profile; script; sources; symz table; http table; filter tables]
     script  = TL [TL [err; TS buildid; TL [TL [TS func; TS file; TZ line; TZ col; TZ startline]..]; TS body]..]
     sources = TL [TL [TS key; TL [TL [TS source; TZ start]..]]..]
     symz    = TL [TL [TS source; TS symbolz-url]..]           (absent = "")
     http    = TL [TL [TS file; bool]..]                        (absent = false)
     filters = TL [TL [TS demangler-mode; TL [TL [TS name; TS demangled]..]]..]   (absent = unchanged)
   observable = TL [TS "ok"; err; profile after; CheckValid ok; TL calls]  |  TL [TS "panic"; TS msg] *)
From PV Require Import M_Symbolize M_SymbolizeFetch S_Symbolize.
Open Scope Z_scope.

Definition frame_of (t : term) : frame :=
  {| fr_func := gs (gn t 0); fr_file := gs (gn t 1); fr_line := gz (gn t 2); fr_col := gz (gn t 3); fr_start := gz (gn t 4) |}.
Definition answer_of (t : term) : answer :=
  {| a_err := gb (gn t 0); a_bid := gs (gn t 1); a_frames := map frame_of (gl (gn t 2)); a_body := gs (gn t 3) |}.

Definition assoc_s {A} (l : list (string * A)) (k : string) : option A :=
  match find (fun e => String.eqb (fst e) k) l with Some e => Some (snd e) | None => None end.

Definition sources_of (t : term) : sources_t :=
  map (fun e => (gs (gn e 0), map (fun s => (gs (gn s 0), gz (gn s 1))) (gl (gn e 1)))) (gl t).
Definition stab_of (t : term) : list (string * string) := map (fun e => (gs (gn e 0), gs (gn e 1))) (gl t).
Definition btab_of (t : term) : list (string * bool) := map (fun e => (gs (gn e 0), gb (gn e 1))) (gl t).
Definition ftab_of (t : term) : list (string * list (string * string)) :=
  map (fun e => (gs (gn e 0), stab_of (gn e 1))) (gl t).

Definition filt_of (ft : list (string * list (string * string))) (d s : string) : string :=
  match assoc_s ft d with
  | Some tab => match assoc_s tab s with Some r => r | None => s end
  | None => s
  end.

Definition env_of (i : term) : env :=
  let symz := stab_of (gn i 4) in
  let http := btab_of (gn i 5) in
  let ft := ftab_of (gn i 6) in
  {| e_http := fun f => match assoc_s http f with Some b => b | None => false end;
     e_symz := fun s => match assoc_s symz s with Some r => r | None => EmptyString end;
     e_filt := filt_of ft;
     e_srcs := sources_of (gn i 3) |}.

Definition in_mode (i : term) : string := gs (gn i 0).
Definition in_profile (i : term) : profile := profile_of (gn i 1).
Definition in_script (i : term) : list answer := map answer_of (gl (gn i 2)).

Definition of_call (c : call) : term :=
  match c with
  | COpen f s l o => TL [TS "open"; TS f; TZ s; TZ l; TZ o]
  | CBuildID => TL [TS "buildid"]
  | CSourceLine a => TL [TS "sourceline"; TZ a]
  | CPost s q => TL [TS "post"; TS s; TS q]
  end.

(* ops: "sym" (the whole Symbolize; arguments as above, after the op name) and direct calls of the
   pure helpers: "adjust" addr offset, "re" line, "rm" name start end, "looks" name *)
Definition op_of (i : term) : string := gs (gn i 0).
Definition args_of (i : term) : term := TL (tl (gl i)).

Definition first_char (s : string) : ascii := match s with String a _ => a | EmptyString => "000"%char end.

Definition run_sym (i : term) : term :=
  match symbolize (in_mode i) (env_of i) (in_script i) (in_profile i) with
  | Out p' err calls => TL [TS "ok"; of_bool err; of_profile p'; of_bool (check_valid p'); TL (map of_call calls)]
  | OPanic => TL [TS "panic"; TS "model"]
  end.

(* op "sym2": the same Symbolizer symbolizes the same profile a second time (unless the first call
   returned an error); every call consumed one answer, the second run continues with the rest *)
Definition run_sym2 (i : term) : term :=
  match symbolize (in_mode i) (env_of i) (in_script i) (in_profile i) with
  | Out p1 false calls1 =>
      match symbolize (in_mode i) (env_of i) (skipn (List.length calls1) (in_script i)) p1 with
      | Out p2 err calls2 =>
          TL [TS "ok"; of_bool err; of_profile p2; of_bool (check_valid p2); TL (map of_call (calls1 ++ calls2)%list)]
      | OPanic => TL [TS "panic"; TS "model"]
      end
  | Out p1 true calls1 => TL [TS "ok"; of_bool true; of_profile p1; of_bool (check_valid p1); TL (map of_call calls1)]
  | OPanic => TL [TS "panic"; TS "model"]
  end.

(* op "fetch": arguments as for "sym" (the sources slot is unused: the pipeline computes them), then
   the source URL reported by the fetcher ("" = local file) and the table of url.Parse/IsAbs answers *)
Definition in_src (i : term) : string := gs (gn i 7).
Definition absurl_of (i : term) : string -> bool :=
  let t := btab_of (gn i 8) in fun f => match assoc_s t f with Some b => b | None => false end.

Definition run_fetch (i : term) : term :=
  match fetch_generic_ru (builtin_plugin (env_of i) (in_script i)) (in_mode i) (absurl_of i) (in_src i) (in_profile i) with
  | FOut p' calls => TL [TS "ok"; of_profile p'; TL (map of_call calls); TZ 1 (* the saved copy agrees *);
                         TZ 1 (* Go's CheckValid accepts the returned profile *)]
  | FErr calls => TL [TS "err"; TL (map of_call calls)]
  | FPanic => TL [TS "panic"; TS "model"]
  end.

(* op "e2e": driver.PProf end to end (real parseFlags, fetch through a Fetcher plug-in or a file,
   symbolize, report) -- arguments as for "fetch", then the executable named on the command line
   ("" = none), the -buildid value, the -add_comment value.  Observable: status, the -proto output
   re-read, the blocks of -traces -addresses, "the interactive session (granularity=addresses; traces; proto;
   traces) printed the same", "the web interface's /download served the same", the plug-in calls *)
Definition cli_of (i : term) : cliopts := {| c_exec := gs (gn i 9); c_buildid := gs (gn i 10); c_comment := gs (gn i 11) |}.
Definition of_rows (t : list (string * bool)) : term := TL (map (fun r => TL [TS (fst r); of_bool (snd r)]) t).

Definition run_e2e (i : term) : term :=
  match fetch_cli_ru (builtin_plugin (env_of i) (in_script i)) (cli_of i) (in_mode i) (absurl_of i) (in_src i) (in_profile i) with
  | FOut p' calls => TL [TS "ok"; of_profile p'; TL (map of_rows (traces_view p')); TZ 1; TZ 1; TL (map of_call calls)]
  | FErr calls => TL [TS "err"; TL (map of_call calls)]
  | FPanic => TL [TS "panic"; TS "model"]
  end.

(* rows of -traces: the model knows the (inline) marks and the function names, not the rest of the row *)
Definition row_matches (m o : term) : bool :=
  Bool.eqb (gb (gn m 1)) (gb (gn o 1)) && (str_empty (gs (gn m 0)) || contains_sub (gs (gn m 0)) (gs (gn o 0))).
Fixpoint all2 {A} (f : A -> A -> bool) (a b : list A) : bool :=
  match a, b with
  | [], [] => true
  | x :: a', y :: b' => f x y && all2 f a' b'
  | _, _ => false
  end.
Definition traces_match (m o : term) : bool := all2 (fun x y => all2 row_matches (gl x) (gl y)) (gl m) (gl o).

Definition eqv_e2e (m o : term) : bool :=
  if String.eqb (gs (gn m 0)) "ok" then
    String.eqb (gs (gn o 0)) "ok" && term_eqb (gn m 1) (gn o 1) && traces_match (gn m 2) (gn o 2) &&
    term_eqb (gn m 3) (gn o 3) && term_eqb (gn m 4) (gn o 4) && term_eqb (gn m 5) (gn o 5)
  else term_eqb m o.

(* op "fetchx": fetchProfiles with a THIRD-PARTY symbolizer plug-in whose behaviour is recorded by the
   harness: arguments = mode, fetched profile, TL [profile as the plug-in left it; error returned;
   pointers consistent (Go's CheckValid verdict at plug-in exit)], source URL, url table *)
Definition run_fetchx (i : term) : term :=
  let ans := gn i 2 in
  let absurl := let t := btab_of (gn i 4) in fun f => match assoc_s t f with Some b => b | None => false end in
  let plug : plugin_t := fun _ _ _ => Some (profile_of (gn ans 0), gb (gn ans 1), gb (gn ans 2), []) in
  match fetch_generic_ru plug (gs (gn i 0)) absurl (gs (gn i 3)) (profile_of (gn i 1)) with
  | FOut p' _ => TL [TS "ok"; of_profile p'; TZ 1]
  | FErr _ => TL [TS "err"]
  | FPanic => TL [TS "panic"; TS "model"]
  end.

Definition run_C12 (i : term) : term :=
  let a := args_of i in
  if String.eqb (op_of i) "sym" then run_sym a
  else if String.eqb (op_of i) "sym2" then run_sym2 a
  else if String.eqb (op_of i) "fetch" then run_fetch a
  else if String.eqb (op_of i) "fetchx" then run_fetchx a
  else if String.eqb (op_of i) "e2e" then run_e2e a
  else if String.eqb (op_of i) "adjust" then
    match adjust (gz (gn a 0)) (gz (gn a 1)) with
    | Some r => TL [TZ 1; TZ r]
    | None => TL [TZ 0; TZ 0]
    end
  else if String.eqb (op_of i) "re" then
    match match_symbolz (gs (gn a 0)) with
    | Some (d, n) => TL [TS ("0x" ++ d); TS n]
    | None => TL []
    end
  else if String.eqb (op_of i) "rm" then
    TS (remove_matching (gs (gn a 0)) (first_char (gs (gn a 1))) (first_char (gs (gn a 2))))
  else if String.eqb (op_of i) "looks" then of_bool (looks_like_demangled (gs (gn a 0)))
  else TL [TS "unknown-op"].

(* a panic message is not compared *)
Definition eqv_C12 (i m o : term) : bool :=
  if String.eqb (op_of i) "e2e" then eqv_e2e m o else
  match m, o with
  | TL (TS "panic" :: _), TL (TS "panic" :: _) => true
  | _, _ => term_eqb m o
  end.

(* every answer of the shipped demangle.Filter tables to a non-empty name is non-empty *)
Definition filter_tables_nonempty (i : term) : bool :=
  forallb (fun e => forallb (fun r => str_empty (fst r) || negb (str_empty (snd r))) (snd e)) (ftab_of (gn i 6)).

Definition spec_sym (i o : term) : bool :=
  let p := in_profile i in
  if negb (String.eqb (gs (gn o 0)) "ok") then false          (* a panic is never acceptable *)
  else
    let p' := profile_of (gn o 2) in
    frame_okb p p' && lines_attachedb p p' && flags_raisedb p p' &&
    (force_requested (in_mode i) || left_aloneb p p') &&
    (negb (check_valid p && id_headroomb p p') || (check_valid p' && gb (gn o 3))) &&
    (negb (filter_tables_nonempty i) || names_keptb p p').

(* pprof may fail only for a reason the theorems name (fetch_fails_only_when: the symbol service
   failed, or the function ids ran out): decided by evaluating the proved model on the input *)
Definition is_err (t : term) : bool := String.eqb (gs (gn t 0)) "err".

(* the pipeline: the same clauses, between the fetched profile (fake mapping added when it has none)
   and the returned one; an error return hands no profile to the rest of pprof *)
Definition spec_fetch (i o : term) : bool :=
  if String.eqb (gs (gn o 0)) "err" then is_err (run_fetch i)
  else if negb (String.eqb (gs (gn o 0)) "ok") then false
  else
    let p := add_fake (in_profile i) in
    let p' := profile_of (gn o 1) in
    (* stacks may be shorter / lines cut only when some function name IS an alternative of drop_frames *)
    let pd := droppable p' in
    frame_okb p (if pd then with_stacks_of p' p else p') && (pd || lines_attachedb p p') && flags_raisedb p p' &&
    (force_requested (in_mode i) || pd || left_aloneb p p') &&
    check_valid p' && gb (gn o 3) && gb (gn o 4) &&
    (negb (filter_tables_nonempty i) || names_keptb p p').

(* end to end: the same clauses between what the command line presents to symbolization (fake
   mapping, named executable, build id override, comment) and the -proto output; what -traces prints
   agrees with that output; the session and the web interface print the same *)
Definition spec_e2e (i o : term) : bool :=
  if String.eqb (gs (gn o 0)) "err" then is_err (run_e2e i)
  else if negb (String.eqb (gs (gn o 0)) "ok") then false
  else
    let p := add_comment (cli_of i) (cli_input (cli_of i) (in_profile i)) in
    let p' := profile_of (gn o 1) in
    let pd := droppable p' in
    frame_okb p (if pd then with_stacks_of p' p else p') && (pd || lines_attachedb p p') && flags_raisedb p p' &&
    (force_requested (in_mode i) || pd || left_aloneb p p') &&
    check_valid p' && gb (gn o 3) && gb (gn o 4) &&
    traces_match (TL (map of_rows (traces_view p'))) (gn o 2) &&
    (negb (filter_tables_nonempty i) || names_keptb p p').

(* whatever the symbolizer plug-in did: what fetchProfiles returns is a valid profile *)
Definition spec_fetchx (i o : term) : bool :=
  if String.eqb (gs (gn o 0)) "err" then is_err (run_fetchx i)
  else if negb (String.eqb (gs (gn o 0)) "ok") then false
  else check_valid (profile_of (gn o 1)) && gb (gn o 2).

(* adjust: no wrap-around goes unnoticed: success exactly when addr+offset is a uint64, and then that sum *)
Definition spec_adjust (a o : term) : bool :=
  let s := gz (gn a 0) + gz (gn a 1) in
  if in_u64 s then gb (gn o 0) && (gz (gn o 1) =? s) else negb (gb (gn o 0)).

Definition spec_C12 (i o : term) : bool :=
  if String.eqb (op_of i) "sym" || String.eqb (op_of i) "sym2" then spec_sym (args_of i) o
  else if String.eqb (op_of i) "fetch" then spec_fetch (args_of i) o
  else if String.eqb (op_of i) "fetchx" then spec_fetchx (args_of i) o
  else if String.eqb (op_of i) "e2e" then spec_e2e (args_of i) o
  else if String.eqb (op_of i) "adjust" then spec_adjust (args_of i) o
  else true.

(* class 34 = F34 (S_Symbolize.in_F34): a fetched mapping without build id whose file is an absolute URL *)
Definition cls_C12 (i : term) : list Z :=
  if String.eqb (op_of i) "fetch" && in_F34 (absurl_of (args_of i)) (in_profile (args_of i)) then [34]
  else if String.eqb (op_of i) "e2e" &&
          in_F34 (absurl_of (args_of i)) (cli_input (cli_of (args_of i)) (in_profile (args_of i))) then [34]
  else [].

Definition judge_C12 := judge_all run_C12 eqv_C12 spec_C12 cls_C12 0%Z.
