(* Executable model of internal/driver/driver_focus.go: compileTagFilter, parseTagFilterRange
   (the fixed expression ([+-]?[[:digit:]]+)([[:alpha:]]+)? is modelled exactly), applyFocus
   (order of application, error threading, "matched no samples" warnings).  Regexp engine
   abstract ([M], [V]); unit conversion = M_Measure.scale over the unit table [uts].
   No proofs here. *)
From Coq Require Import QArith.
From PV Require Export M_Filter M_Prune M_Measure.
Open Scope Z_scope.

(* ---------------------------------------------------------------- string helpers *)
Fixpoint cut_first (c : ascii) (s : string) : option (string * string) :=
  match s with
  | EmptyString => None
  | String a r =>
      if Ascii.eqb a c then Some (EmptyString, r)
      else match cut_first c r with
           | Some (x, y) => Some (String a x, y)
           | None => None
           end
  end.

(* strings.Split(s, c): always at least one piece *)
Fixpoint split_on (c : ascii) (s : string) : list string :=
  match s with
  | EmptyString => [EmptyString]
  | String a r =>
      if Ascii.eqb a c then EmptyString :: split_on c r
      else match split_on c r with
           | x :: t => String a x :: t
           | [] => [String a EmptyString]
           end
  end.

Definition is_digit (a : ascii) : bool := let n := N_of_ascii a in (N.leb 48 n && N.leb n 57)%N.
Definition is_alpha (a : ascii) : bool :=
  let n := N_of_ascii a in ((N.leb 65 n && N.leb n 90) || (N.leb 97 n && N.leb n 122))%N.

Fixpoint span (f : ascii -> bool) (s : string) : string * string :=
  match s with
  | EmptyString => (EmptyString, EmptyString)
  | String a r => if f a then let '(x, y) := span f r in (String a x, y) else (EmptyString, s)
  end.

(* one match of tagFilterRangeRx anchored at the start of s: (number text, unit text, rest) *)
Definition range_here (s : string) : option (string * string * string) :=
  let '(sign, s1) := match s with
                     | String a r => if Ascii.eqb a "+" || Ascii.eqb a "-" then (String a EmptyString, r) else (EmptyString, s)
                     | EmptyString => (EmptyString, s)
                     end in
  let '(ds, s2) := span is_digit s1 in
  match ds with
  | EmptyString => None
  | _ => let '(al, s3) := span is_alpha s2 in Some ((sign ++ ds)%string, al, s3)
  end.

(* leftmost match *)
Fixpoint range_find (s : string) : option (string * string * string) :=
  match range_here s with
  | Some r => Some r
  | None => match s with String _ r => range_find r | EmptyString => None end
  end.

Fixpoint digits_z (s : string) (acc : Z) : Z :=
  match s with
  | String a r => digits_z r (acc * 10 + (Z.of_N (N_of_ascii a) - 48))
  | EmptyString => acc
  end.

(* strconv.ParseInt(s, 10, 64) on [+-]?digits+ : None = out of range *)
Definition parse_int64 (s : string) : option Z :=
  let v := match s with
           | String a r => if Ascii.eqb a "-" then - digits_z r 0
                           else if Ascii.eqb a "+" then digits_z r 0 else digits_z s 0
           | EmptyString => 0
           end in
  if in_i64 v then Some v else None.

Section TagFilter.
  Variable M : string -> string -> bool.
  Variable V : string -> bool.
  Variable uts : list unit_type.

  (* parseTagFilterRange *)
  Definition scaled_cmp (cmp : Q -> bool) (unit : string) (v : Z) (u : string) : bool :=
    let '(sv, su) := scale uts v u unit in String.eqb su unit && cmp sv.

  Definition parse_tag_filter_range (filter : string) : option (Z -> string -> bool) :=
    match range_find filter with
    | None => None
    | Some (n0, u0, rest) =>
        match parse_int64 n0 with
        | None => None
        | Some v =>
            let '(sc, unit) := scale uts v u0 u0 in
            let m0 := (n0 ++ u0)%string in
            match range_find rest with
            | None =>
                if String.eqb filter m0 then Some (scaled_cmp (fun sv => Qeq_bool sv sc) unit)
                else if String.eqb filter (m0 ++ ":") then Some (scaled_cmp (fun sv => Qle_bool sc sv) unit)
                else if String.eqb filter (":" ++ m0) then Some (scaled_cmp (fun sv => Qle_bool sv sc) unit)
                else None
            | Some (n1, u1, _) =>
                if negb (String.eqb filter (m0 ++ ":" ++ n1 ++ u1)) then None
                else match parse_int64 n1 with
                     | None => None
                     | Some v2 =>
                         let '(sc2, unit2) := scale uts v2 u1 unit in
                         if negb (String.eqb unit unit2) then None
                         else Some (scaled_cmp (fun sv => Qle_bool sc sv && Qle_bool sv sc2) unit)
                     end
            end
        end
    end.

  Fixpoint assoc {A} (k : string) (l : list (string * A)) : option A :=
    match l with
    | [] => None
    | (k', v) :: r => if String.eqb k k' then Some v else assoc k r
    end.

  Inductive tf_res := TFNil | TFErr | TFOk (isrange : bool) (f : sample -> bool).

  (* compileTagFilter (value already known to be compiled only when no earlier error) *)
  Definition compile_tag_filter (units : list (string * string)) (value0 : string) : tf_res :=
    if String.eqb value0 "" then TFNil else
    let '(want, value) := match cut_first "=" value0 with Some kv => kv | None => (EmptyString, value0) end in
    let unit_of := fun k => match assoc k units with Some u => u | None => EmptyString end in
    match parse_tag_filter_range value with
    | Some nf =>
        let lf := fun (vals : list Z) (u : string) => existsb (fun v => nf v u) vals in
        if String.eqb want "" then
          TFOk true (fun s => existsb (fun kv => lf (snd kv) (unit_of (fst kv))) (s_numlabel s))
        else
          TFOk true (fun s => match assoc want (s_numlabel s) with
                              | Some vals => lf vals (unit_of want)
                              | None => false
                              end)
    | None =>
        let rfx := split_on "," value in
        if negb (forallb V rfx) then TFErr
        else if String.eqb want "" then
          TFOk false (fun s => forallb (fun rx =>
                        existsb (fun kv => existsb (fun v => M rx (fst kv ++ ":" ++ v)%string) (snd kv)) (s_label s)) rfx)
        else
          TFOk false (fun s => match assoc want (s_label s) with
                               | Some vals => existsb (fun rx => existsb (M rx) vals) rfx
                               | None => false
                               end)
    end.

  Record af_cfg := {
    c_focus : string; c_ignore : string; c_hide : string; c_show : string; c_showfrom : string;
    c_tagfocus : string; c_tagignore : string; c_tagshow : string; c_taghide : string; c_prunefrom : string }.

  Definition opt_rx (s : string) : option string := if String.eqb s "" then None else Some s.
  Definition rx_ok (s : string) : bool := String.eqb s "" || V s.

  Definition tf_fun (r : tf_res) : option (sample -> bool) :=
    match r with TFOk _ f => Some f | _ => None end.
  Definition tf_isrange (r : tf_res) : bool := match r with TFOk b _ => b | _ => false end.
  Definition tf_err (r : tf_res) : bool := match r with TFErr => true | _ => false end.

  Definition warn (ok : bool) (name : string) : list string := if ok then [] else [name].

  (* applyFocus: (error option name or "", resulting profile, messages in print order) *)
  Definition apply_focus (p : profile) (units : list (string * string)) (c : af_cfg)
    : string * profile * list string :=
    if negb (rx_ok (c_focus c)) then ("focus", p, [])
    else if negb (rx_ok (c_ignore c)) then ("ignore", p, [])
    else if negb (rx_ok (c_hide c)) then ("hide", p, [])
    else if negb (rx_ok (c_show c)) then ("show", p, [])
    else if negb (rx_ok (c_showfrom c)) then ("show_from", p, [])
    else
      let tf := compile_tag_filter units (c_tagfocus c) in
      let m1 := if tf_isrange tf then ["range:tagfocus"] else [] in
      if tf_err tf then ("tagfocus", p, m1) else
      let ti := compile_tag_filter units (c_tagignore c) in
      let m2 := (m1 ++ if tf_isrange ti then ["range:tagignore"] else [])%list in
      if tf_err ti then ("tagignore", p, m2) else
      if negb (rx_ok (c_prunefrom c)) then ("prune_from", p, m2) else
      let focus := opt_rx (c_focus c) in let ignore := opt_rx (c_ignore c) in
      let hide := opt_rx (c_hide c) in let show := opt_rx (c_show c) in
      let '(p1, (fm, im, hm, hnm)) := filter_samples_by_name M p focus ignore hide show in
      let w1 := (warn (negb (is_some focus) || fm) "Focus" ++ warn (negb (is_some ignore) || im) "Ignore"
                 ++ warn (negb (is_some hide) || hm) "Hide" ++ warn (negb (is_some show) || hnm) "Show")%list in
      let sf := opt_rx (c_showfrom c) in
      let '(p2, sfm) := show_from M p1 sf in
      let w2 := warn (negb (is_some sf) || sfm) "ShowFrom" in
      let '(p3, (tfm, tim)) := filter_samples_by_tag p2 (tf_fun tf) (tf_fun ti) in
      let w3 := (warn (negb (is_some (tf_fun tf)) || tfm) "TagFocus" ++ warn (negb (is_some (tf_fun ti)) || tim) "TagIgnore")%list in
      let ts_ok := rx_ok (c_tagshow c) in
      let th_ok := ts_ok && rx_ok (c_taghide c) in
      let tagshow := if ts_ok then opt_rx (c_tagshow c) else None in
      let taghide := if th_ok then opt_rx (c_taghide c) else None in
      let err := if negb ts_ok then "tagshow" else if negb th_ok then "taghide" else EmptyString in
      let '(p4, (tns, tnh)) := filter_tags_by_name M p3 tagshow taghide in
      let w4 := (warn (negb (is_some tagshow) || tns) "TagShow" ++ warn (negb (is_some taghide) || tnh) "TagHide")%list in
      let p5 := match opt_rx (c_prunefrom c) with Some re => prune_from M p4 re | None => p4 end in
      (err, p5, (m2 ++ w1 ++ w2 ++ w3 ++ w4)%list).
End TagFilter.
