(* Executable model of the ELF address translation of pprof (property C13):
     internal/elfexec/elfexec.go    kernelBase, GetBase, FindTextProgHeader,
                                    ProgramHeadersForMapping, HeaderForFileOffset
     internal/binutils/binutils.go  elfMapping.findProgramHeader, file.computeBase, file.ObjAddr
     internal/binutils/addr2liner_nm.go  parseAddr2LinerNM (address shift), addrInfo
   uint64 values are [Z] with an explicit [wrap_u64] at every + and - the Go code performs.
   No proofs in this file. *)
From PV Require Export M_Profile.
Open Scope Z_scope.

(* ---- debug/elf constants the code reads ---- *)
Definition PT_LOAD : Z := 1.
Definition ET_REL : Z := 1.
Definition ET_EXEC : Z := 2.
Definition ET_DYN : Z := 3.

(* elf.ProgHeader; Paddr and Align are never read by the modelled code *)
Record phdr := { ph_type : Z; ph_flags : Z; ph_off : Z; ph_vaddr : Z; ph_filesz : Z; ph_memsz : Z }.

Definition phdr_eqb (a b : phdr) : bool :=
  (ph_type a =? ph_type b) && (ph_flags a =? ph_flags b) && (ph_off a =? ph_off b) &&
  (ph_vaddr a =? ph_vaddr b) && (ph_filesz a =? ph_filesz b) && (ph_memsz a =? ph_memsz b).

(* p.Flags & elf.PF_X != 0   (PF_X = 1) *)
Definition ph_exec (p : phdr) : bool := Z.odd (ph_flags p).

(* what the code reads of an elf.File: header type, program headers in file order, sections
   (name, address) in file order *)
Record elf := { e_type : Z; e_progs : list phdr; e_sections : list (string * Z) }.

(* Go errors are mapped to the site that produced them *)
Inductive res (A : Type) := Ok (a : A) | Err (e : Z).
Arguments Ok {A} a.
Arguments Err {A} e.

Definition E_RANGE : Z := 1.        (* binutils.go:597 address outside the mapping range *)
Definition E_OPEN : Z := 2.         (* binutils.go:601 elfOpen failed *)
Definition E_NOHDR_MAP : Z := 3.    (* binutils.go:571 no program header matches mapping info *)
Definition E_SECOND : Z := 4.       (* elfexec.go:370 found second program header *)
Definition E_NOHDR_OFF : Z := 5.    (* elfexec.go:376 no program header matches file offset *)
Definition E_EXEC : Z := 6.         (* elfexec.go:252 don't know how to handle EXEC segment *)
Definition E_REL : Z := 7.          (* elfexec.go:255 don't know how to handle mapping.Offset *)
Definition E_TYPE : Z := 8.         (* elfexec.go:283 don't know how to handle FileHeader.Type *)

(* uint64 arithmetic *)
Definition uadd (a b : Z) : Z := wrap_u64 (a + b).
Definition usub (a b : Z) : Z := wrap_u64 (a - b).
Definition max_u64 : Z := two64 - 1.

Definition page_size : Z := 4096.
Definition page_offset_ppc64 : Z := 13835058055282163712. (* 0xc000000000000000 *)

(* elfexec.go:167 kernelBase *)
Definition kernel_base (seg : phdr) (stext : option Z) (start limit offset : Z) : option Z :=
  if ph_vaddr seg =? usub start offset then Some offset
  else if (start =? 0) && negb (limit =? 0) && (match stext with Some _ => true | None => false end) then
    match stext with Some st => Some (usub start st) | None => None end
  else if (two63 <=? start) && (start <? limit) &&
          ((offset =? 0) || (offset =? page_offset_ppc64) || (offset =? start)) then
    match stext with
    | Some st => if start mod page_size =? st mod page_size then Some (usub start st)
                 else Some (usub start (ph_vaddr seg))
    | None => Some (usub start (ph_vaddr seg))
    end
  else
    match stext with
    | Some st => if negb (start mod page_size =? 0) && (st mod page_size =? start mod page_size)
                 then Some (usub start st) else None
    | None => None
    end.

(* the user-space formula start - offset + seg.Off - seg.Vaddr (elfexec.go:240 and :281) *)
Definition user_base (seg : phdr) (start offset : Z) : Z :=
  usub (uadd (usub start offset) (ph_off seg)) (ph_vaddr seg).

(* elfexec.go:216 GetBase *)
Definition get_base (etype : Z) (seg : option phdr) (stext : option Z) (start limit offset : Z) : res Z :=
  if (start =? 0) && (offset =? 0) && ((limit =? max_u64) || (limit =? 0)) then Ok 0
  else if etype =? ET_EXEC then
    match seg with
    | None => Ok 0
    | Some sg =>
        if (match stext with None => true | Some _ => false end) && (0 <? start) && (start <? two63)
        then Ok (user_base sg start offset)
        else match kernel_base sg stext start limit offset with
             | Some b => Ok b
             | None =>
                 if (start =? 0) && negb (limit =? 0) && (match stext with None => true | Some _ => false end)
                 then Ok (usub start (ph_vaddr sg))
                 else Err E_EXEC
             end
    end
  else if etype =? ET_REL then
    if negb (offset =? 0) then Err E_REL else Ok start
  else if etype =? ET_DYN then
    match seg with
    | None => Ok (usub start offset)
    | Some sg =>
        match kernel_base sg stext start limit offset with
        | Some b => Ok b
        | None => Ok (user_base sg start offset)
        end
    end
  else Err E_TYPE.

(* elfexec.go:288 FindTextProgHeader: for every section named .text, the first executable
   PT_LOAD segment whose [Vaddr, Vaddr+Memsz) contains the section address *)
Definition text_seg_match (addr : Z) (p : phdr) : bool :=
  (ph_type p =? PT_LOAD) && ph_exec p && (ph_vaddr p <=? addr) && (addr <? uadd (ph_vaddr p) (ph_memsz p)).

Fixpoint find_text_prog_header_in (secs : list (string * Z)) (progs : list phdr) : option phdr :=
  match secs with
  | [] => None
  | (name, addr) :: r =>
      if String.eqb name ".text" then
        match find (text_seg_match addr) progs with
        | Some p => Some p
        | None => find_text_prog_header_in r progs
        end
      else find_text_prog_header_in r progs
  end.
Definition find_text_prog_header (ef : elf) : option phdr :=
  find_text_prog_header_in (e_sections ef) (e_progs ef).

(* elfexec.go:310 ProgramHeadersForMapping: the loop keeps exactly the headers satisfying this *)
Definition phm_keep (mapOff mapSz : Z) (p : phdr) : bool :=
  let mapLimit := uadd mapOff mapSz in
  let segLimit := uadd (ph_off p) (ph_memsz p) in
  let pageOff := ph_vaddr p mod page_size in     (* p.Vaddr & pageOffsetMask *)
  let alignedSegOffset := if pageOff <? ph_off p then usub (ph_off p) pageOff else 0 in
  negb (ph_filesz p =? 0) &&
  ((ph_type p =? PT_LOAD) && (mapOff <? segLimit) && (ph_off p <? mapLimit)) &&
  negb (mapOff <? alignedSegOffset) &&
  negb ((ph_off p <? mapOff) && (segLimit <? uadd mapOff page_size) && (uadd segLimit page_size <=? mapLimit)).

Definition program_headers_for_mapping (phdrs : list phdr) (mapOff mapSz : Z) : list phdr :=
  filter (phm_keep mapOff mapSz) phdrs.

(* elfexec.go:359 HeaderForFileOffset *)
Definition off_in_header (fileOffset : Z) (h : phdr) : bool :=
  (ph_off h <=? fileOffset) && (fileOffset <? uadd (ph_off h) (ph_memsz h)).

Fixpoint header_for_file_offset_go (hs : list phdr) (fileOffset : Z) (ph : option phdr) : res phdr :=
  match hs with
  | [] => match ph with Some p => Ok p | None => Err E_NOHDR_OFF end
  | h :: r =>
      if off_in_header fileOffset h then
        match ph with
        | Some _ => Err E_SECOND
        | None => header_for_file_offset_go r fileOffset (Some h)
        end
      else header_for_file_offset_go r fileOffset ph
  end.
Definition header_for_file_offset (hs : list phdr) (fileOffset : Z) : res phdr :=
  header_for_file_offset_go hs fileOffset None.

(* binutils.go:527 elfMapping *)
Record emap := { em_start : Z; em_limit : Z; em_offset : Z; em_koff : option Z }.

(* binutils.go:537 findProgramHeader *)
Definition find_program_header (m : emap) (ef : elf) (addr : Z) : res (option phdr) :=
  if (match em_koff m with Some _ => true | None => false end) || (em_limit m <=? em_start m) || (two63 <=? em_limit m)
  then Ok (find_text_prog_header ef)
  else
    let phdrs := filter (fun p => ph_type p =? PT_LOAD) (e_progs ef) in
    match phdrs with
    | [] => Ok None
    | _ =>
        let headers := program_headers_for_mapping phdrs (em_offset m) (usub (em_limit m) (em_start m)) in
        match headers with
        | [] => Err E_NOHDR_MAP
        | [h] => Ok (Some h)
        | _ => match header_for_file_offset headers (uadd (usub addr (em_start m)) (em_offset m)) with
               | Ok h => Ok (Some h)
               | Err e => Err e
               end
        end
    end.

(* binutils.go:592 computeBase: (base, isData) or an error.  [open_ok] = elfOpen succeeded.
   A file without elfMapping keeps base 0, isData false. *)
Definition compute_base (m : option emap) (open_ok : bool) (ef : elf) (addr : Z) : res (Z * bool) :=
  match m with
  | None => Ok (0, false)
  | Some m =>
      if (addr <? em_start m) || (em_limit m <=? addr) then Err E_RANGE
      else if negb open_ok then Err E_OPEN
      else match find_program_header m ef addr with
           | Err e => Err e
           | Ok ph =>
               match get_base (e_type ef) ph (em_koff m) (em_start m) (em_limit m) (em_offset m) with
               | Err e => Err e
               | Ok base => Ok (base, match ph with Some p => negb (ph_exec p) | None => false end)
               end
           end
  end.

(* binutils.go:623 ObjAddr on a fresh file *)
Definition obj_addr (m : option emap) (open_ok : bool) (ef : elf) (addr : Z) : res Z :=
  match compute_base m open_ok ef addr with
  | Ok (base, _) => Ok (usub addr base)
  | Err e => Err e
  end.

(* a file object answers a sequence of ObjAddr calls: baseOnce computes base (or the error) from
   the FIRST address only *)
Definition obj_addr_with (st : res (Z * bool)) (addr : Z) : res Z :=
  match st with
  | Ok (base, _) => Ok (usub addr base)
  | Err e => Err e
  end.
Definition obj_addr_seq (m : option emap) (open_ok : bool) (ef : elf) (addrs : list Z) : list (res Z) :=
  match addrs with
  | [] => []
  | a0 :: _ => let st := compute_base m open_ok ef a0 in map (obj_addr_with st) addrs
  end.

(* addr2liner.go:177 and addr2liner_llvm.go:177: the address written to the external tool *)
Definition tool_addr (base addr : Z) : Z := usub addr base.

(* ---- addr2liner_nm.go ---- *)
Record sym := { sy_addr : Z; sy_size : Z; sy_name : string; sy_type : string }.

(* strings.ContainsAny(s.symType, "bBdDrRvVW") *)
Fixpoint contains_any (chars s : string) : bool :=
  match s with
  | EmptyString => false
  | String a r => contains_char a chars || contains_any chars r
  end.
Definition sym_is_data (s : sym) : bool := contains_any "bBdDrRvVW" (sy_type s).

(* parseAddr2LinerNM: address + base for every parsed line *)
Definition shift_syms (base : Z) (l : list sym) : list sym :=
  map (fun s => {| sy_addr := uadd (sy_addr s) base; sy_size := sy_size s; sy_name := sy_name s; sy_type := sy_type s |}) l.

Definition sym0 : sym := {| sy_addr := 0; sy_size := 0; sy_name := ""; sy_type := "" |}.
Definition sym_at (m : list sym) (i : nat) : sym := nth i m sym0.

(* the binary-search loop of addrInfo; fuel = length of the table *)
Fixpoint bsearch (fuel : nat) (m : list sym) (addr : Z) (low high : nat) : nat :=
  match fuel with
  | O => low
  | S f =>
      if (low + 1 <? high)%nat then
        let mid := ((low + high) / 2)%nat in
        let v := sy_addr (sym_at m mid) in
        if addr =? v then mid
        else if v <? addr then bsearch f m addr mid high
        else bsearch f m addr low mid
      else low
  end.

(* addr2liner_nm.go:117 addrInfo: Some name = one frame {Func: name}; None = (nil, nil) *)
Definition addr_info (m : list sym) (addr : Z) : option string :=
  match m with
  | [] => None
  | first :: _ =>
      let lst := sym_at m (List.length m - 1) in
      if (addr <? sy_addr first) || (uadd (sy_addr lst) (sy_size lst) <=? addr) then None
      else
        let low := bsearch (List.length m) m addr 0 (List.length m) in
        let s := sym_at m low in
        if sym_is_data s && (uadd (sy_addr s) (sy_size s) <=? addr) then None
        else Some (sy_name s)
  end.

(* ---- addr2liner.go:208 addr2Liner.addrInfo: the nm fix-up of incomplete addr2line names ----
   [stack] = Func names of the frames addr2line answered (last = the non-inlined frame).
   The nm table attached by fileAddr2Line.init is newAddr2LinerNM(nm, name, f.base): it is keyed by
   RUNTIME addresses (link address + base, [shift_syms]). *)

(* the address the attached nm table is asked about: the runtime address itself *)
Definition a2l_nm_query (base addr : Z) : Z := addr.

Definition replace_last (l : list string) (x : string) : list string := removelast l ++ [x].

(* the replacement rule given the nm answer: only when the nm name is longer by 2 or more bytes *)
Definition a2l_apply_nm (r : option string) (stack : list string) : list string :=
  match stack, r with
  | [], _ => stack
  | _, None => stack
  | _, Some nmName =>
      if (Z.of_nat (String.length (last stack "")) + 1 <? Z.of_nat (String.length nmName))
      then replace_last stack nmName else stack
  end.

(* [nm] = None: no nm table attached (d.nm == nil) *)
Definition a2l_addr_info (base : Z) (nm : option (list sym)) (addr : Z) (stack : list string) : list string :=
  match nm with
  | None => stack
  | Some tab => match stack with
                | [] => stack
                | _ => a2l_apply_nm (addr_info tab (a2l_nm_query base addr)) stack
                end
  end.

(* ---- a session on ONE Binutils object (binutils.go Open / openELF, then file.ObjAddr) ----
   Every successful Open creates an independent file object; nothing the code keeps in the Binutils
   (binrep: tool paths, the fast flag) takes part in address translation. *)

(* binutils.go:427 openELF as far as the mapping is concerned: the preliminary GetBase check with
   the .text segment.  kernelOffset stays nil: the relocation symbol is only looked up in a symbol
   table, [None] models a file without one. *)
Definition open_elf (ef : elf) (start limit offset : Z) : res emap :=
  match get_base (e_type ef) (find_text_prog_header ef) None start limit offset with
  | Err e => Err e
  | Ok _ => Ok {| em_start := start; em_limit := limit; em_offset := offset; em_koff := None |}
  end.

Definition elf0 : elf := {| e_type := 0; e_progs := []; e_sections := [] |}.

Inductive sev :=
| SOpen (fi : nat) (start limit offset : Z)   (* Binutils.Open(file fi, start, limit, offset, "") *)
| SAddr (h : nat) (a : Z)                     (* ObjAddr on the object returned by the h-th Open *)
| SNop.                                       (* SetFastSymbolization, Close *)

Inductive sobs :=
| OOpen (e : option Z)   (* None = ok *)
| OAddr (r : res Z)
| ONone
| OBad.                  (* ObjAddr on a handle that does not exist / whose Open failed *)

(* one entry per Open so far: the failed ones, and the live file objects with their baseOnce state
   (None = base not computed yet) *)
Inductive hstate :=
| HFail
| HOpen (fi : nat) (m : emap) (st : option (res (Z * bool))).

Fixpoint set_nth {A : Type} (l : list A) (n : nat) (x : A) : list A :=
  match l, n with
  | [], _ => []
  | _ :: r, O => x :: r
  | y :: r, S n' => y :: set_nth r n' x
  end.

Definition session_step (files : list elf) (hs : list hstate) (e : sev) : list hstate * sobs :=
  match e with
  | SOpen fi start limit offset =>
      match open_elf (nth fi files elf0) start limit offset with
      | Ok m => ((hs ++ [HOpen fi m None])%list, OOpen None)
      | Err c => ((hs ++ [HFail])%list, OOpen (Some c))
      end
  | SAddr h a =>
      match nth_error hs h with
      | Some (HOpen fi m st) =>
          let st' := match st with
                     | Some s => s
                     | None => compute_base (Some m) true (nth fi files elf0) a
                     end in
          (set_nth hs h (HOpen fi m (Some st')), OAddr (obj_addr_with st' a))
      | _ => (hs, OBad)
      end
  | SNop => (hs, ONone)
  end.

Fixpoint session_from (files : list elf) (hs : list hstate) (evs : list sev) : list sobs :=
  match evs with
  | [] => []
  | e :: r => let '(hs', o) := session_step files hs e in o :: session_from files hs' r
  end.

Definition session_run (files : list elf) (evs : list sev) : list sobs := session_from files [] evs.

(* ---- the conversation with addr2line (addr2liner.go readFrame :124, rawAddrInfo :171) ----
   One addr2Liner talks to one tool process over one pipe.  [pipe] = the lines the tool has printed
   and the code has not read yet.  The tool is an oracle: for a link address, the (function line,
   file:line line) pairs it prints; it answers every request line with an echo of the address
   ("0x...") followed by those pairs, "??" / "??:0" when it knows nothing. *)
Record frame := { fr_func : string; fr_file : string; fr_line : Z }.
Definition frame0 : frame := {| fr_func := ""; fr_file := ""; fr_line := 0 |}.
(* frame == (plugin.Frame{}) on the fields readFrame sets *)
Definition frame_empty (f : frame) : bool :=
  String.eqb (fr_func f) "" && String.eqb (fr_file f) "" && (fr_line f =? 0).

Definition a2l_tool := Z -> list (string * string).
Definition a2l_tool_pairs (tool : a2l_tool) (x : Z) : list (string * string) :=
  match tool x with [] => [("??", "??:0")] | l => l end.
Definition a2l_answer (tool : a2l_tool) (x : Z) : list string :=
  "0x" :: flat_map (fun p => [fst p; snd p]) (a2l_tool_pairs tool x).

(* strings.LastIndex(s, ":") *)
Fixpoint last_index_char (c : ascii) (s : string) (i : nat) (acc : option nat) : option nat :=
  match s with
  | EmptyString => acc
  | String a r => last_index_char c r (S i) (if Ascii.eqb a c then Some i else acc)
  end.
(* strings.Index(s, sub) *)
Fixpoint index_of_str (sub s : string) (i : nat) : option nat :=
  if has_prefix sub s then Some i
  else match s with
       | EmptyString => None
       | String _ r => index_of_str sub r (S i)
       end.
(* strconv.Atoi on optional sign + decimal digits (no overflow handling: lines are small) *)
Fixpoint all_digits (s : string) : bool :=
  match s with
  | EmptyString => true
  | String a r => (N.leb 48 (N_of_ascii a) && N.leb (N_of_ascii a) 57)%bool && all_digits r
  end.
Fixpoint digits_value (s : string) (acc : Z) : Z :=
  match s with
  | EmptyString => acc
  | String a r => digits_value r (acc * 10 + (Z.of_N (N_of_ascii a) - 48))
  end.
Definition atoi (s : string) : option Z :=
  let '(neg, d) := match s with
                   | String "-" r => (true, r)
                   | String "+" r => (false, r)
                   | _ => (false, s)
                   end in
  match d with
  | EmptyString => None
  | _ => if all_digits d then Some (if neg then - digits_value d 0 else digits_value d 0) else None
  end.

(* the file:line line -> (File, Line), addr2liner.go:147-165 *)
Definition a2l_parse_fileline (fl : string) : string * Z :=
  if String.eqb fl "??:0" then (""%string, 0)
  else match last_index_char ":" fl 0 None with
       | None => (fl, 0)
       | Some i =>
           let fl1 := match index_of_str " (discriminator" fl 0 with
                      | Some (S d) => take (S d) fl
                      | _ => fl
                      end in
           match atoi (drop (S i) fl1) with
           | Some n => (take i fl1, n)
           | None => (fl1, 0)
           end
       end.
Definition a2l_parse_pair (p : string * string) : frame :=
  let '(file, line) := a2l_parse_fileline (snd p) in
  {| fr_func := if String.eqb (fst p) "??" then "" else fst p; fr_file := file; fr_line := line |}.

(* readFrame: (frame, end, rest of the pipe) *)
Definition a2l_read_frame (pipe : list string) : frame * bool * list string :=
  match pipe with
  | [] => (frame0, true, [])
  | fn :: p1 =>
      if has_prefix "0x" fn then (frame0, true, tl (tl p1))   (* the sentinel's echo: skip its two lines *)
      else match p1 with
           | [] => (frame0, true, [])
           | fl :: p2 => (a2l_parse_pair (fn, fl), false, p2)
           end
  end.

(* the loop of rawAddrInfo: read frames until end, keep the non-empty ones *)
Fixpoint a2l_read_frames (fuel : nat) (pipe : list string) (acc : list frame) : list frame * list string :=
  match fuel with
  | O => (rev acc, pipe)
  | S f =>
      let '(fr, en, p') := a2l_read_frame pipe in
      if en then (rev acc, p')
      else a2l_read_frames f p' (if frame_empty fr then acc else fr :: acc)
  end.

Definition E_TOOL : Z := 20.  (* addr2liner.go:187 unexpected addr2line output / read error *)

(* rawAddrInfo: write addr-base, write the sentinel, read the echo, read the frames *)
Definition a2l_raw_addr_info (tool : a2l_tool) (base : Z) (pipe : list string) (addr : Z)
  : res (list frame) * list string :=
  let p := (pipe ++ a2l_answer tool (tool_addr base addr) ++ a2l_answer tool max_u64)%list in
  match p with
  | [] => (Err E_TOOL, [])
  | resp :: p1 =>
      if negb (has_prefix "0x" resp) then (Err E_TOOL, p1)
      else let '(st, p2) := a2l_read_frames (S (List.length p1)) p1 [] in (Ok st, p2)
  end.

(* addrInfo = rawAddrInfo + the nm fix-up of the last frame's name *)
Fixpoint set_funcs (st : list frame) (names : list string) : list frame :=
  match st, names with
  | f :: r, n :: rn => {| fr_func := n; fr_file := fr_file f; fr_line := fr_line f |} :: set_funcs r rn
  | _, _ => []
  end.
Definition a2l_full_addr_info (tool : a2l_tool) (base : Z) (nm : option (list sym)) (pipe : list string) (addr : Z)
  : res (list frame) * list string :=
  match a2l_raw_addr_info tool base pipe addr with
  | (Ok st, p) => (Ok (set_funcs st (a2l_addr_info base nm addr (map fr_func st))), p)
  | (Err e, p) => (Err e, p)
  end.

Fixpoint a2l_conversation (tool : a2l_tool) (base : Z) (nm : option (list sym)) (pipe : list string) (addrs : list Z)
  : list (res (list frame)) * list string :=
  match addrs with
  | [] => ([], pipe)
  | a :: r =>
      let '(x, p) := a2l_full_addr_info tool base nm pipe a in
      let '(xs, p') := a2l_conversation tool base nm p r in (x :: xs, p')
  end.

(* ---- llvm-symbolizer (addr2liner_llvm.go:177 addrInfo, code mode): one JSON line per request;
   the JSON text is outside the model, a line is the list of symbols it carries ---- *)
Definition llvm_tool := Z -> list frame.
Definition llvm_answer (tool : llvm_tool) (x : Z) : list frame :=
  match tool x with [] => [frame0] | l => l end.
Definition llvm_addr_info (tool : llvm_tool) (base : Z) (pipe : list (list frame)) (addr : Z)
  : res (list frame) * list (list frame) :=
  match (pipe ++ [llvm_answer tool (tool_addr base addr)])%list with
  | [] => (Err E_TOOL, [])
  | l :: p => (Ok l, p)
  end.
Fixpoint llvm_conversation (tool : llvm_tool) (base : Z) (pipe : list (list frame)) (addrs : list Z)
  : list (res (list frame)) * list (list frame) :=
  match addrs with
  | [] => ([], pipe)
  | a :: r =>
      let '(x, p) := llvm_addr_info tool base pipe a in
      let '(xs, p') := llvm_conversation tool base p r in (x :: xs, p')
  end.
