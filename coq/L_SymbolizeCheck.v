(* Soundness of the decidable checkers of S_Symbolize: when a checker (evaluated on the
   implementation's output by R_C12) answers true, the corresponding relation of the specification
   holds. *)
From Coq Require Import Lia ZifyBool.
From PV Require Import M_Symbolize S_Symbolize L_Symbolize.
Open Scope Z_scope.

Lemma list_eqb_eq {A} (e : A -> A -> bool) :
  (forall x y, e x y = true -> x = y) -> forall a b, list_eqb e a b = true -> a = b.
Proof.
  intros He a. induction a as [|x a IH]; intros [|y b]; simpl; try discriminate; [reflexivity|].
  intros H. apply andb_true_iff in H. destruct H as [H1 H2]. f_equal; [apply He; exact H1 | apply IH; exact H2].
Qed.

Lemma list_eqb_Forall2 {A} (e : A -> A -> bool) : forall a b, list_eqb e a b = true -> Forall2 (fun x y => e x y = true) a b.
Proof.
  intros a. induction a as [|x a IH]; intros [|y b]; simpl; try discriminate; [constructor|].
  intros H. apply andb_true_iff in H. destruct H as [H1 H2]. constructor; [exact H1 | apply IH; exact H2].
Qed.

Lemma list_eqb_map {A K} (e : A -> A -> bool) (k : A -> K) :
  (forall x y, e x y = true -> k x = k y) -> forall a b, list_eqb e a b = true -> map k a = map k b.
Proof.
  intros He a b H. apply list_eqb_Forall2 in H. induction H as [|x y a b Hxy _ IH]; simpl; [reflexivity|].
  f_equal; [apply He; exact Hxy | exact IH].
Qed.

Lemma prefix_rel_extended {A} (r : A -> A -> bool) : forall old new,
  prefix_rel r old new = true -> extended (fun x y => r x y = true) old new.
Proof.
  intros old. induction old as [|x o IH]; intros new; simpl.
  - intros _. exists [], new. split; [reflexivity | constructor].
  - destruct new as [|y n]; [discriminate|]. intros H. apply andb_true_iff in H. destruct H as [H1 H2].
    destruct (IH n H2) as [upd [ext [-> F]]]. exists (y :: upd), ext. split; [reflexivity | constructor; assumption].
Qed.

Lemma extended_impl {A} (R R' : A -> A -> Prop) old new :
  (forall a b, R a b -> R' a b) -> extended R old new -> extended R' old new.
Proof. intros H [upd [ext [E F]]]. exists upd, ext. split; [exact E | eapply Forall2_impl; eauto]. Qed.

Lemma pair_eqb_eq {A B} (ea : A -> A -> bool) (eb : B -> B -> bool) :
  (forall x y, ea x y = true -> x = y) -> (forall x y, eb x y = true -> x = y) ->
  forall x y, pair_eqb ea eb x y = true -> x = y.
Proof.
  intros Ha Hb [a b] [c d]. unfold pair_eqb. cbn [fst snd]. intros H. apply andb_true_iff in H.
  destruct H as [H1 H2]. f_equal; auto.
Qed.

Lemma string_eqb_eq x y : String.eqb x y = true -> x = y.
Proof. apply String.eqb_eq. Qed.
Lemma z_eqb_eq x y : Z.eqb x y = true -> x = y.
Proof. apply Z.eqb_eq. Qed.
Lemma bool_eqb_eq x y : Bool.eqb x y = true -> x = y.
Proof. apply Bool.eqb_prop. Qed.

Lemma sample_eqb_eq a b : sample_eqb a b = true -> a = b.
Proof.
  destruct a as [a1 a2 a3 a4 a5], b as [b1 b2 b3 b4 b5]. unfold sample_eqb. cbn [s_loc s_val s_label s_numlabel s_numunit].
  rewrite !andb_true_iff. intros [[[[H1 H2] H3] H4] H5].
  apply (list_eqb_eq _ z_eqb_eq) in H1. apply (list_eqb_eq _ z_eqb_eq) in H2.
  apply (list_eqb_eq _ (pair_eqb_eq _ _ string_eqb_eq (list_eqb_eq _ string_eqb_eq))) in H3.
  apply (list_eqb_eq _ (pair_eqb_eq _ _ string_eqb_eq (list_eqb_eq _ z_eqb_eq))) in H4.
  apply (list_eqb_eq _ (pair_eqb_eq _ _ string_eqb_eq (list_eqb_eq _ string_eqb_eq))) in H5.
  congruence.
Qed.

Lemma vt_eqb_eq a b : vt_eqb a b = true -> a = b.
Proof.
  destruct a as [a1 a2], b as [b1 b2]. unfold vt_eqb. cbn [vt_type vt_unit]. rewrite andb_true_iff. intros [H1 H2].
  apply String.eqb_eq in H1. apply String.eqb_eq in H2. congruence.
Qed.

Lemma opt_eqb_eq {A} (e : A -> A -> bool) : (forall x y, e x y = true -> x = y) -> forall a b, opt_eqb e a b = true -> a = b.
Proof. intros He [x|] [y|]; simpl; try discriminate; [intros H; f_equal; apply He; exact H | reflexivity]. Qed.

Lemma header_eqb_eq p q : header_eqb p q = true -> header_of p = header_of q.
Proof.
  unfold header_eqb, header_of. rewrite !andb_true_iff.
  intros [[[[[[[[[H1 H2] H3] H4] H5] H6] H7] H8] H9] H10].
  apply (list_eqb_eq _ vt_eqb_eq) in H1. apply String.eqb_eq in H2. apply (list_eqb_eq _ string_eqb_eq) in H3.
  apply String.eqb_eq in H4. apply String.eqb_eq in H5. apply String.eqb_eq in H6.
  apply Z.eqb_eq in H7. apply Z.eqb_eq in H8. apply (opt_eqb_eq _ vt_eqb_eq) in H9. apply Z.eqb_eq in H10.
  congruence.
Qed.

Lemma loc_key_eqb_eq a b : loc_key_eqb a b = true -> loc_key a = loc_key b.
Proof.
  unfold loc_key_eqb, loc_key. rewrite !andb_true_iff. intros [[H1 H2] H3].
  apply Z.eqb_eq in H1. apply Z.eqb_eq in H2. apply Z.eqb_eq in H3. congruence.
Qed.

Lemma map_key_eqb_eq a b : map_key_eqb a b = true -> map_key a = map_key b.
Proof.
  unfold map_key_eqb, map_key. rewrite !andb_true_iff. intros [[[[[H1 H2] H3] H4] H5] H6].
  apply Z.eqb_eq in H1. apply Z.eqb_eq in H2. apply Z.eqb_eq in H3. apply Z.eqb_eq in H4.
  apply String.eqb_eq in H5. apply String.eqb_eq in H6. congruence.
Qed.

Lemma fun_key_eqb_eq a b : fun_key_eqb a b = true -> fun_key b = fun_key a.
Proof.
  unfold fun_key_eqb, fun_key. rewrite !andb_true_iff. intros [[[H1 H2] H3] H4].
  apply Z.eqb_eq in H1. apply String.eqb_eq in H2. apply String.eqb_eq in H3. apply Z.eqb_eq in H4. congruence.
Qed.

Theorem frame_okb_sound_lemma p p' : frame_okb p p' = true -> frame_ok p p'.
Proof.
  unfold frame_okb. rewrite !andb_true_iff. intros [[[[H1 H2] H3] H4] H5]. constructor.
  - apply (list_eqb_eq _ sample_eqb_eq). exact H1.
  - apply header_eqb_eq. exact H2.
  - eapply list_eqb_map; [|exact H3]. apply loc_key_eqb_eq.
  - eapply list_eqb_map; [|exact H4]. apply map_key_eqb_eq.
  - eapply extended_impl; [|apply prefix_rel_extended; exact H5]. apply fun_key_eqb_eq.
Qed.

Lemma mapping_eqb_eq a b : mapping_eqb a b = true -> a = b.
Proof.
  unfold mapping_eqb. rewrite !andb_true_iff. intros [[[[H0 H1] H2] H3] H4].
  apply map_key_eqb_eq in H0. unfold map_key in H0.
  apply Bool.eqb_prop in H1. apply Bool.eqb_prop in H2. apply Bool.eqb_prop in H3. apply Bool.eqb_prop in H4.
  destruct a, b. cbn in *. congruence.
Qed.

Lemma line_eqb_eq a b : line_eqb a b = true -> a = b.
Proof.
  destruct a as [a1 a2 a3], b as [b1 b2 b3]. unfold line_eqb. cbn [ln_fn ln_line ln_col]. rewrite !andb_true_iff. intros [[H1 H2] H3].
  apply Z.eqb_eq in H1. apply Z.eqb_eq in H2. apply Z.eqb_eq in H3. congruence.
Qed.

Lemma location_eqb_eq a b : location_eqb a b = true -> a = b.
Proof.
  unfold location_eqb. rewrite !andb_true_iff. intros [[H0 H1] H2].
  apply loc_key_eqb_eq in H0. unfold loc_key in H0. apply (list_eqb_eq _ line_eqb_eq) in H1. apply Bool.eqb_prop in H2.
  destruct a, b. cbn in *. congruence.
Qed.

Lemma loc_protectedb_complete p l : loc_protected p l -> loc_protectedb p l = true.
Proof.
  intros H. unfold loc_protectedb. apply forallb_forall. intros m Hm.
  destruct (m_id m =? l_mapping l) eqn:E; [|reflexivity]. apply Z.eqb_eq in E. cbn [negb orb]. apply H; assumption.
Qed.

Theorem left_aloneb_sound_lemma p p' : left_aloneb p p' = true -> left_alone p p'.
Proof.
  unfold left_aloneb, left_alone. rewrite andb_true_iff. intros [H1 H2]. split.
  - eapply Forall2_impl; [|apply list_eqb_Forall2; exact H1]. cbn beta. intros m m' H Hfn.
    rewrite Hfn in H. cbn in H. apply mapping_eqb_eq. exact H.
  - eapply Forall2_impl; [|apply list_eqb_Forall2; exact H2]. cbn beta. intros l l' H Hp.
    rewrite (loc_protectedb_complete _ _ Hp) in H. cbn in H. apply location_eqb_eq. exact H.
Qed.

Theorem lines_attachedb_sound_lemma p p' : lines_attachedb p p' = true -> lines_attached p p'.
Proof.
  unfold lines_attachedb, lines_attached. intros H.
  eapply Forall2_impl; [|apply list_eqb_Forall2; exact H]. cbn beta. intros l l' Hr.
  apply orb_true_iff in Hr. destruct Hr as [Hr|Hr]; [left; apply location_eqb_eq; exact Hr | right].
  destruct (l_lines l'); [discriminate | discriminate].
Qed.

Theorem names_keptb_sound_lemma p p' : names_keptb p p' = true -> names_kept p p'.
Proof.
  unfold names_keptb, names_kept. intros H. eapply extended_impl; [|apply prefix_rel_extended; exact H].
  cbn beta. intros f f' Hr Hf. apply orb_true_iff in Hr. destruct Hr as [Hr|Hr].
  - apply str_empty_true in Hr. contradiction.
  - apply negb_true_iff in Hr. now apply str_empty_false.
Qed.

Theorem id_headroomb_spec_lemma p p' : id_headroomb p p' = true <-> id_headroom p p'.
Proof. unfold id_headroomb, id_headroom. apply Z.ltb_lt. Qed.

(* -symbolize=none (or no) does nothing at all *)
Lemma symbolize_none_lemma mode e script p :
  mo_none (parse_mode mode) = true -> symbolize mode e script p = Out p false [].
Proof.
  intros H. unfold symbolize, symbolize_w. rewrite H. cbn [w_of w_orc o_log rev]. destruct p; reflexivity.
Qed.
