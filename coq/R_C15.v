(* Case runner for C15: decodes harness cases, runs the model, judges the implementation. *)
From Coq Require Import QArith Qround Qabs.
From PV Require Import M_Measure M_MeasureF S_Measure Gen.Gen_UnitTable.
Open Scope Z_scope.

Definition of_Q (q : Q) : term := let r := Qred q in TL [TZ (Qnum r); TZ (Zpos (Qden r))].
Definition to_Q (t : term) : Q :=
  match gl t with
  | [TZ n; TZ (Zpos d)] => n # d
  | _ => 0%Q
  end.

Definition uts := unit_types.
Definition eps : Q := 1 # 1099511627776.
Open Scope Q_scope.

(* the physical value sits within float noise of a unit boundary of auto-scaling *)
Definition near_auto (x : Z) (from : string) : bool :=
  match family_of uts from with
  | None => false
  | Some (ut, u) =>
      let phys := Qabs (inject_Z x * u_factor u) in
      existsb (fun w => let m := phys / u_factor w in Qle_bool (1 - eps) m && Qle_bool m (1 + eps))
              (ut_units ut)
  end.

Definition near_label (x : Z) (from to : string) : bool :=
  near_half (fst (scale uts x from to)).

Fixpoint trim_spaces (s : string) : string :=
  match s with
  | String a r => if Ascii.eqb a " " then trim_spaces r else s
  | EmptyString => s
  end.

(* internal/report: New's format closure (divide_by ratio, truncation toward zero) and printText's
   rows for a profile of single-frame samples with pairwise distinct |value|: entries by decreasing
   |flat| (Nodes.Sort FlatNameOrder), total = sum of |value| (computeTotal), running flat sum *)
Fixpoint insert_abs (e : string * Z) (l : list (string * Z)) : list (string * Z) :=
  match l with
  | [] => [e]
  | h :: r => if (Z.abs (snd h) <? Z.abs (snd e))%Z then e :: l else h :: insert_abs e r
  end.
Definition sort_abs (l : list (string * Z)) : list (string * Z) := fold_right insert_abs [] l.

Definition ratio_value (ratio : Q) (v : Z) : Z :=
  if Qle_bool ratio 0 || Qeq_bool ratio 1 then v
  else trunc_Z (fmul (of_Z v) (of_Q_dyadic ratio)).

Fixpoint top_rows_loop (rows : list (string * Z)) (sum total : Z) (unit out : string) (ratio : Q) : list term :=
  match rows with
  | [] => []
  | (name, v) :: r =>
      let lbl := scaled_label_f uts (ratio_value ratio v) unit out in
      let sum' := (sum + v)%Z in
      TL [TS lbl; TS (trim_spaces (percentage_fl v total)); TS (trim_spaces (percentage_fl sum' total));
          TS lbl; TS (trim_spaces (percentage_fl v total)); TS name]
      :: top_rows_loop r sum' total unit out ratio
  end.

(* Report.selectOutputUnit: with -unit=minimum one unit is chosen for the whole report, from the
   smallest non-zero entry and the total (both after divide_by) *)
Definition select_output_unit (es : list (string * Z)) (total : Z) (unit out : string) (ratio : Q) : string :=
  if negb (String.eqb out "minimum") || (match es with [] => true | _ => false end) then out else
  let mn := fold_right (fun e a => let x := Z.abs (snd e) in
                                   if (0 <? x)%Z && ((a =? 0)%Z || (x <? a)%Z) then x else a) 0%Z es in
  let mn := if (mn =? 0)%Z then total else mn in
  let mn := ratio_value ratio mn in
  let mx := ratio_value ratio total in
  let u1 := snd (scale_f uts mn unit "minimum") in
  let u2 := snd (scale_f uts mx unit "minimum") in
  let u := if negb (String.eqb u1 u2) && (mn * 100 <? mx)%Z
           then snd (scale_f uts (100 * mn)%Z unit "minimum") else u1 in
  if String.eqb u "" then unit else u.

Definition top_rows (es : list (string * Z)) (unit out : string) (ratio : Q) : list term :=
  let total := fold_right (fun e a => (Z.abs (snd e) + a)%Z) 0%Z es in
  top_rows_loop (sort_abs es) 0%Z total unit (select_output_unit es total unit out ratio) ratio.

(* report.ProfileLabels, the "Duration" line of the legend: the total is related to the wall-clock
   duration (as a percentage) only when it is a time: Scale(total, unit, "nanoseconds") must answer in ns *)
Definition duration_line (es : list (string * Z)) (unit out : string) (ratio : Q) (dur : Z) : string :=
  if (dur =? 0)%Z then "" else
  let total := fold_right (fun e a => (Z.abs (snd e) + a)%Z) 0%Z es in
  let out' := select_output_unit es total unit out ratio in
  let '(tn, tu) := scale_f uts total unit "nanoseconds" in
  let pct := if String.eqb tu "ns" && negb (feqb tn f_zero) && fltb (fabs tn) (of_Z (2 ^ 63))
             then "(" ++ percentage_fl (trunc_Z tn) dur ++ ")" else "" in
  "Duration: " ++ label_f uts dur "nanoseconds" ++ ", Total samples = "
    ++ scaled_label_f uts (ratio_value ratio total) unit out' ++ " " ++ pct.

(* the implementation is compared, bit for bit, with the float model M_MeasureF (same operations in
   the same order as measurement.go); the exact-rational model M_Measure is what the specification
   below and the theorems of P_C15 are about *)
Definition run_C15 (i : term) : term :=
  let op := gs (gn i 0) in
  if String.eqb op "scale" then
    let '(v, u) := scale_f uts (gz (gn i 1)) (gs (gn i 2)) (gs (gn i 3)) in
    if is_finite v then TL [of_Q (F64.to_Q v); TS u] else TL [TL [TS "nonfinite"]; TS u]
  else if String.eqb op "label" then
    TS (scaled_label_f uts (gz (gn i 1)) (gs (gn i 2)) (gs (gn i 3)))
  else if String.eqb op "mono" then
    TL [TS (label_f uts (gz (gn i 1)) (gs (gn i 3))); TS (label_f uts (gz (gn i 2)) (gs (gn i 3)))]
  else if String.eqb op "pct" then TS (percentage_fl (gz (gn i 1)) (gz (gn i 2)))
  else if String.eqb op "toptext" then
    let es := map (fun e => (gs (gn e 0), gz (gn e 1))) (gl (gn i 1)) in
    TL [TS "ok"; TL (top_rows es (gs (gn i 2)) (gs (gn i 3)) (to_Q (gn i 4)));
        TS (duration_line es (gs (gn i 2)) (gs (gn i 3)) (to_Q (gn i 4)) (gz (gn i 5)))]
  else if String.eqb op "common" then
    match common_value_type_f uts (map (fun t => (gs (gn t 0), gs (gn t 1))) (gl (gn i 1))) with
    | CvtNil => TL [TS "nil"]
    | CvtErr => TL [TS "err"]
    | CvtOk (t, u) => TL [TS "ok"; TS t; TS u]
    end
  else TL [TS "unknown-op"].

(* classes: 17 = F17 (MinInt64 is never auto-scaled); 900 = the exact value is within float noise
   of a unit-SELECTION boundary of auto-scaling: there the clause "largest unit keeping the magnitude
   >= 1" (stated over exact rationals) is not applied to the float result.  Rounding of the printed
   digits needs no such class: the read-back / monotonicity / percentage clauses carry float64's
   relative precision in their tolerance.  The correspondence with the float model is exact everywhere *)
Definition cls_C15 (i : term) : list Z :=
  let op := gs (gn i 0) in
  let x := gz (gn i 1) in
  if String.eqb op "scale" || String.eqb op "label" then
    let from := gs (gn i 2) in let to := gs (gn i 3) in
    (if (x =? min_int64)%Z && is_auto to && match family_of uts from with Some _ => true | None => false end
     then [17%Z] else [])
    ++ (if is_auto to && near_auto x from then [900%Z] else [])

  else if String.eqb op "mono" then
    let u := gs (gn i 3) in
    (if ((x =? min_int64)%Z || (gz (gn i 2) =? min_int64)%Z) && match family_of uts u with Some _ => true | None => false end then [17%Z] else [])
    ++ (if near_auto x u || near_auto (gz (gn i 2)) u then [900%Z] else [])

  else [].

Definition skipped (i : term) : bool := existsb (fun c => (900 <=? c)%Z) (cls_C15 i).

(* parse "[-]ddd[.dd]" followed by a unit suffix *)
Fixpoint split_num (s : string) (acc : string) : string * string :=
  match s with
  | String a r =>
      if (Ascii.eqb a "-" || Ascii.eqb a "." || (N.leb 48 (N_of_ascii a) && N.leb (N_of_ascii a) 57))%bool
      then split_num r (acc ++ String a "") else (acc, s)
  | EmptyString => (acc, "")
  end.

Fixpoint digits_val (s : string) (acc : Z) : Z :=
  match s with
  | String a r => digits_val r (acc * 10 + (Z.of_N (N_of_ascii a) - 48))%Z
  | EmptyString => acc
  end.

Fixpoint split_dot (s acc : string) : string * string :=
  match s with
  | String a r => if Ascii.eqb a "." then (acc, r) else split_dot r (acc ++ String a "")
  | EmptyString => (acc, "")
  end.

Definition parse_dec (s : string) : Q :=
  let neg := has_prefix "-" s in
  let s := trim_prefix "-" s in
  let '(ip, fp) := split_dot s "" in
  let v := (digits_val ip 0%Z # 1) + (digits_val fp 0%Z # 1) / inject_Z (10 ^ Z.of_nat (String.length fp))%Z in
  if neg then - v else v.

(* two printed numbers-with-suffix agree: identical, or (beyond float64's 53 bits, where Go prints
   the float's own digits) equal suffix and numerically within 2^-40 relative *)
Definition label_close (a b : string) : bool :=
  String.eqb a b ||
  (let '(na, ua) := split_num (trim_prefix " " (trim_prefix " " a)) "" in
   let '(nb, ub) := split_num (trim_prefix " " (trim_prefix " " b)) "" in
   String.eqb ua ub && Qle_bool (10000000000000 # 1) (Qabs (parse_dec na)) && qclose (parse_dec na) (parse_dec nb)).

(* exact: the float model reproduces float64 arithmetic and fmt's rounding *)
Definition eqv_C15_in (i m o : term) : bool := term_eqb m o.

(* physical value (in base units) a printed label denotes when read back with its unit *)
Definition label_phys (ut : unit_type) (lbl : string) : option Q :=
  if String.eqb lbl "0" then Some 0 else
  let '(num, unit) := split_num lbl "" in
  match find (fun w => String.eqb (u_name w) unit) (ut_default ut :: ut_units ut) with
  | Some w => Some (parse_dec num * u_factor w)
  | None => None
  end.

Definition label_unit_factor (ut : unit_type) (lbl : string) : Q :=
  let '(num, unit) := split_num lbl "" in
  match find (fun w => String.eqb (u_name w) unit) (ut_default ut :: ut_units ut) with
  | Some w => u_factor w
  | None => 1
  end.

(* "multiplies by the exact ratio of the units", at float64's resolution: in the families whose
   factors are whole numbers (bytes, time) the product value*factor is exact below 2^53, so the result
   must be THE float nearest to the exact quotient (one correctly rounded division), whichever target
   the mode picked *)
Definition is_int_Q (q : Q) : bool := (Zpos (Qden (Qred q)) =? 1)%Z.
Definition rn_exact_ok (x : Z) (from : string) (o : term) : bool :=
  match family_of uts from with
  | Some (ut, fu) =>
      if is_int_Q (u_factor fu) then
        let v := (Z.abs x * Qnum (Qred (u_factor fu)))%Z in
        if (x =? min_int64)%Z || (2 ^ 53 <? v)%Z then true else
        match find (fun w => String.eqb (u_name w) (gs (gn o 1))) (ut_default ut :: ut_units ut) with
        | Some w => let r := fdiv (of_Z v) (uf w) in
                    let r := if (x <? 0)%Z then fopp r else r in
                    term_eqb (gn o 0) (of_Q (F64.to_Q r))
        | None => false
        end
      else true
  | None => true
  end.

(* a printed percentage ("33.33", "0.33", "3.3e-06", "100", "0") denotes |v/t|*100 within its printed
   precision: two decimals from 1% up, two significant digits below *)
Fixpoint split_at (c : Ascii.ascii) (s acc : string) : string * option string :=
  match s with
  | String a r => if Ascii.eqb a c then (acc, Some r) else split_at c r (acc ++ String a "")
  | EmptyString => (acc, None)
  end.
Definition parse_pct (s : string) : Q :=
  match split_at "e" s "" with
  | (m, Some ex) => parse_dec m / inject_Z (10 ^ digits_val (trim_prefix "-" ex) 0%Z)
  | (m, None) => parse_dec m
  end.
Definition pct_ok (v t : Z) (s : string) : bool :=
  let r := pct_ratio v t in
  let s := trim_suffix "%" (trim_spaces s) in
  if String.eqb s "100" then Qle_bool (Qabs (r - 100)) ((5 # 100) + eps * 100)
  else Qle_bool (Qabs (parse_pct s - r)) (if Qle_bool 1 r then (1 # 199) + eps * r else r * (1 # 19) + eps).

Fixpoint rows_pct_ok (es : list (string * Z)) (rows : list term) (sum total : Z) : bool :=
  match rows with
  | [] => true
  | row :: r =>
      match find (fun e => String.eqb (fst e) (gs (gn row 5))) es with
      | Some (_, v) =>
          let sum' := (sum + v)%Z in
          pct_ok v total (gs (gn row 1)) && pct_ok sum' total (gs (gn row 2)) && pct_ok v total (gs (gn row 4))
          && rows_pct_ok es r sum' total
      | None => false
      end
  end.

(* -unit=minimum: "the largest unit that keeps the magnitude at or above one", read on the smallest
   non-zero entry of the report (after divide_by): expressed in the one unit the report prints, that
   entry is at least 1/100 (selectOutputUnit's documented allowance when the total calls for a larger
   unit), unless the report is already in the family's finest unit.  Sign plays no role. *)
Definition min_unit_ok (es : list (string * Z)) (unit : string) (ratio : Q) (rows : list term) : bool :=
  match family_of uts unit with
  | None => true
  | Some (ut, fu) =>
      let mn0 := fold_right (fun e a => let x := Z.abs (snd e) in
                                        if (0 <? x)%Z && ((a =? 0)%Z || (x <? a)%Z) then x else a) 0%Z es in
      let mn := ratio_value ratio mn0 in   (* when divide_by takes it to 0 nothing is demanded *)
      match find (fun r => negb (String.eqb (gs (gn r 0)) "0")) rows with
      | None => true
      | Some r =>
          let '(_, u) := split_num (gs (gn r 0)) "" in
          match find (fun w => String.eqb (u_name w) u) (ut_default ut :: ut_units ut) with
          | None => false
          | Some w =>
              forallb (fun w' => Qle_bool (u_factor w) (u_factor w')) (ut_units ut)
              || (mn =? 0)%Z
              || Qle_bool ((1 # 100) * (1 - eps)) (inject_Z mn * u_factor fu / u_factor w)
          end
      end
  end.

Definition spec_C15 (i o : term) : bool :=
  let op := gs (gn i 0) in
  let x := gz (gn i 1) in
  if String.eqb op "scale" && negb (rn_exact_ok x (gs (gn i 2)) o) then false
  else if skipped i then true
  else if String.eqb op "scale" then
    scale_spec uts x (gs (gn i 2)) (gs (gn i 3)) (to_Q (gn o 0)) (gs (gn o 1))
  else if String.eqb op "label" then
    (* read-back: the label denotes the original physical value within display rounding
       (half a unit in the last printed place of the unit it is expressed in) *)
    let from := gs (gn i 2) in let to := gs (gn i 3) in
    match family_of uts from with
    | Some (ut, u) =>
        let phys := inject_Z x * u_factor u in
        let uf := if String.eqb (gs o) "0"
                  then (if is_auto to then 0   (* auto never rounds a non-zero value to "0" *)
                        else match sniff_unit ut to with Some v => u_factor v | None => u_factor (ut_default ut) end)
                  else label_unit_factor ut (gs o) in
        match label_phys ut (gs o) with
        | Some p => Qle_bool (Qabs (p - phys)) ((1 # 200) * uf * (1 + eps) + eps * Qabs phys)
        | None => false
        end
    | None => true
    end
  else if String.eqb op "mono" then
    match family_of uts (gs (gn i 3)) with
    | Some (ut, u) =>
        match label_phys ut (gs (gn o 0)), label_phys ut (gs (gn o 1)) with
        | Some a, Some b => Qle_bool a (b * (if Qle_bool 0 b then 1 + eps else 1 - eps))
        | _, _ => false
        end
    | None => true
    end
  else if String.eqb op "pct" then pct_ok x (gz (gn i 2)) (gs o)
  else if String.eqb op "toptext" then
    (* every entry is listed once, and its flat%, running sum% and cum% are the absolute ratios of
       the UNSCALED values to the total of absolute values, whatever unit and divide_by are in force *)
    let es := map (fun e => (gs (gn e 0), gz (gn e 1))) (gl (gn i 1)) in
    String.eqb (gs (gn o 0)) "ok" && (List.length (gl (gn o 1)) =? List.length es)%nat &&
    rows_pct_ok es (gl (gn o 1)) 0%Z (fold_right (fun e a => (Z.abs (snd e) + a)%Z) 0%Z es) &&
    (negb (String.eqb (gs (gn i 3)) "minimum") || min_unit_ok es (gs (gn i 2)) (to_Q (gn i 4)) (gl (gn o 1))) &&
    (* the legend relates the total to the duration only within the time family, as the absolute ratio *)
    (match split_at "(" (gs (gn o 2)) "" with
     | (_, Some rest) =>
         match family_of uts (gs (gn i 2)) with
         | Some (ut, fu) =>
             existsb (fun w => String.eqb (u_name w) "ns") (ut_units ut) &&
             (let total := fold_right (fun e a => (Z.abs (snd e) + a)%Z) 0%Z es in
              let tn := Qfloor (inject_Z total * u_factor fu) in
              Qle_bool (Qabs (parse_pct (trim_suffix "%" (trim_spaces (fst (split_at ")" rest "")))) - pct_ratio tn (gz (gn i 5))))
                       ((1 # 199) + (pct_ratio tn (gz (gn i 5))) * (1 # 19) + eps))
         | None => false
         end
     | (_, None) => true
     end)
  else if String.eqb op "common" then
    (* harmonising picks the FINEST unit of the list (so that no profile loses precision): every
       input unit is a whole-or-larger multiple of the chosen one *)
    match gl o with
    | [TS "ok"; TS t; TS u] =>
        forallb (fun e => let ui := gs (gn e 1) in
                          match family_of uts ui, family_of uts u with
                          | Some (_, a), Some (_, b) => Qle_bool (u_factor b) (u_factor a)
                          | _, _ => true
                          end) (gl (gn i 1))
    | _ => true
    end
  else true.

Definition judge_C15 := judge_all run_C15 eqv_C15_in spec_C15 cls_C15 0%Z.
