(* Case runner for C15: decodes harness cases, runs the model, judges the implementation. *)
From Coq Require Import QArith Qround Qabs.
From PV Require Import M_Measure S_Measure Gen.Gen_UnitTable.
Open Scope Z_scope.

Definition of_Q (q : Q) : term := let r := Qred q in TL [TZ (Qnum r); TZ (Zpos (Qden r))].
Definition to_Q (t : term) : Q :=
  match gl t with
  | [TZ n; TZ (Zpos d)] => n # d
  | _ => 0%Q
  end.

Definition uts := unit_types.
Definition eps : Q := 1 # 1099511627776.
Open Scope Q_scope.

(* the physical value sits within float noise of a unit boundary of auto-scaling *)
Definition near_auto (x : Z) (from : string) : bool :=
  match family_of uts from with
  | None => false
  | Some (ut, u) =>
      let phys := Qabs (inject_Z x * u_factor u) in
      existsb (fun w => let m := phys / u_factor w in Qle_bool (1 - eps) m && Qle_bool m (1 + eps))
              (ut_units ut)
  end.

Definition near_label (x : Z) (from to : string) : bool :=
  near_half (fst (scale uts x from to)).

Definition run_C15 (i : term) : term :=
  let op := gs (gn i 0) in
  if String.eqb op "scale" then
    let '(q, u) := scale uts (gz (gn i 1)) (gs (gn i 2)) (gs (gn i 3)) in TL [of_Q q; TS u]
  else if String.eqb op "label" then
    TS (scaled_label uts (gz (gn i 1)) (gs (gn i 2)) (gs (gn i 3)))
  else if String.eqb op "mono" then
    TL [TS (label uts (gz (gn i 1)) (gs (gn i 3))); TS (label uts (gz (gn i 2)) (gs (gn i 3)))]
  else if String.eqb op "pct" then
    let r := pct_ratio (gz (gn i 1)) (gz (gn i 2)) in
    match pct_class r with
    | 0%Z => TS "  100%"
    | 1%Z => TS (percentage_f r)
    | _ => TL [TS "g"]
    end
  else if String.eqb op "common" then
    match common_value_type uts (map (fun t => (gs (gn t 0), gs (gn t 1))) (gl (gn i 1))) with
    | CvtNil => TL [TS "nil"]
    | CvtErr => TL [TS "err"]
    | CvtOk (t, u) => TL [TS "ok"; TS t; TS u]
    end
  else TL [TS "unknown-op"].

(* classes: 17 = F17 (MinInt64 is never auto-scaled); 900.. = comparisons skipped because the
   exact value is within float noise of a rounding/selection boundary *)
Definition cls_C15 (i : term) : list Z :=
  let op := gs (gn i 0) in
  let x := gz (gn i 1) in
  if String.eqb op "scale" || String.eqb op "label" then
    let from := gs (gn i 2) in let to := gs (gn i 3) in
    (if (x =? min_int64)%Z && is_auto to && match family_of uts from with Some _ => true | None => false end
     then [17%Z] else [])
    ++ (if is_auto to && near_auto x from then [900%Z] else [])
    ++ (if String.eqb op "label" && near_label x from to then [901%Z] else [])
  else if String.eqb op "mono" then
    let u := gs (gn i 3) in
    (if ((x =? min_int64)%Z || (gz (gn i 2) =? min_int64)%Z) && match family_of uts u with Some _ => true | None => false end then [17%Z] else [])
    ++ (if near_auto x u || near_auto (gz (gn i 2)) u then [900%Z] else [])
    ++ (if near_label x u "auto" || near_label (gz (gn i 2)) u "auto" then [901%Z] else [])
  else if String.eqb op "pct" then
    let r := pct_ratio x (gz (gn i 2)) in
    if near_half r || Qle_bool (Qabs (r - 1)) eps || Qle_bool (Qabs (r - (9995#100))) eps || Qle_bool (Qabs (r - (10005#100))) eps
    then [901%Z] else []
  else [].

Definition skipped (i : term) : bool := existsb (fun c => (900 <=? c)%Z) (cls_C15 i).

(* parse "[-]ddd[.dd]" followed by a unit suffix *)
Fixpoint split_num (s : string) (acc : string) : string * string :=
  match s with
  | String a r =>
      if (Ascii.eqb a "-" || Ascii.eqb a "." || (N.leb 48 (N_of_ascii a) && N.leb (N_of_ascii a) 57))%bool
      then split_num r (acc ++ String a "") else (acc, s)
  | EmptyString => (acc, "")
  end.

Fixpoint digits_val (s : string) (acc : Z) : Z :=
  match s with
  | String a r => digits_val r (acc * 10 + (Z.of_N (N_of_ascii a) - 48))%Z
  | EmptyString => acc
  end.

Fixpoint split_dot (s acc : string) : string * string :=
  match s with
  | String a r => if Ascii.eqb a "." then (acc, r) else split_dot r (acc ++ String a "")
  | EmptyString => (acc, "")
  end.

Definition parse_dec (s : string) : Q :=
  let neg := has_prefix "-" s in
  let s := trim_prefix "-" s in
  let '(ip, fp) := split_dot s "" in
  let v := (digits_val ip 0%Z # 1) + (digits_val fp 0%Z # 1) / inject_Z (10 ^ Z.of_nat (String.length fp))%Z in
  if neg then - v else v.

(* two printed numbers-with-suffix agree: identical, or (beyond float64's 53 bits, where Go prints
   the float's own digits) equal suffix and numerically within 2^-40 relative *)
Definition label_close (a b : string) : bool :=
  String.eqb a b ||
  (let '(na, ua) := split_num (trim_prefix " " (trim_prefix " " a)) "" in
   let '(nb, ub) := split_num (trim_prefix " " (trim_prefix " " b)) "" in
   String.eqb ua ub && Qle_bool (10000000000000 # 1) (Qabs (parse_dec na)) && qclose (parse_dec na) (parse_dec nb)).

Definition eqv_C15_in (i m o : term) : bool :=
  let op := gs (gn i 0) in
  if skipped i then true
  else if String.eqb op "scale" then
    String.eqb (gs (gn m 1)) (gs (gn o 1)) && qclose (to_Q (gn m 0)) (to_Q (gn o 0))
  else if String.eqb op "label" then label_close (gs m) (gs o)
  else if String.eqb op "mono" then
    label_close (gs (gn m 0)) (gs (gn o 0)) && label_close (gs (gn m 1)) (gs (gn o 1))
  else if String.eqb op "pct" then
    match m with
    | TL [TS "g"] => true  (* %5.2g rendering is not modelled; its value is judged by the spec *)
    | _ => label_close (gs m) (gs o)
    end
  else term_eqb m o.

(* physical value (in base units) a printed label denotes when read back with its unit *)
Definition label_phys (ut : unit_type) (lbl : string) : option Q :=
  if String.eqb lbl "0" then Some 0 else
  let '(num, unit) := split_num lbl "" in
  match find (fun w => String.eqb (u_name w) unit) (ut_default ut :: ut_units ut) with
  | Some w => Some (parse_dec num * u_factor w)
  | None => None
  end.

Definition label_unit_factor (ut : unit_type) (lbl : string) : Q :=
  let '(num, unit) := split_num lbl "" in
  match find (fun w => String.eqb (u_name w) unit) (ut_default ut :: ut_units ut) with
  | Some w => u_factor w
  | None => 1
  end.

Definition spec_C15 (i o : term) : bool :=
  let op := gs (gn i 0) in
  let x := gz (gn i 1) in
  if skipped i then true
  else if String.eqb op "scale" then
    scale_spec uts x (gs (gn i 2)) (gs (gn i 3)) (to_Q (gn o 0)) (gs (gn o 1))
  else if String.eqb op "label" then
    (* read-back: the label denotes the original physical value within display rounding
       (half a unit in the last printed place of the unit it is expressed in) *)
    let from := gs (gn i 2) in let to := gs (gn i 3) in
    match family_of uts from with
    | Some (ut, u) =>
        let phys := inject_Z x * u_factor u in
        let uf := if String.eqb (gs o) "0"
                  then (if is_auto to then 0   (* auto never rounds a non-zero value to "0" *)
                        else match sniff_unit ut to with Some v => u_factor v | None => u_factor (ut_default ut) end)
                  else label_unit_factor ut (gs o) in
        match label_phys ut (gs o) with
        | Some p => Qle_bool (Qabs (p - phys)) ((1 # 200) * uf * (1 + eps) + eps * Qabs phys)
        | None => false
        end
    | None => true
    end
  else if String.eqb op "mono" then
    match family_of uts (gs (gn i 3)) with
    | Some (ut, u) =>
        match label_phys ut (gs (gn o 0)), label_phys ut (gs (gn o 1)) with
        | Some a, Some b => Qle_bool a (b * (if Qle_bool 0 b then 1 + eps else 1 - eps))
        | _, _ => false
        end
    | None => true
    end
  else if String.eqb op "pct" then
    let r := pct_ratio x (gz (gn i 2)) in
    match pct_class r with
    | 0%Z => String.eqb (gs o) "  100%"
    | 1%Z => Qle_bool (Qabs (parse_dec (trim_suffix "%" (trim_prefix " " (trim_prefix " " (gs o)))) - r)) ((1 # 199) + eps * r)
    | _ => true
    end
  else if String.eqb op "common" then
    (* harmonising picks the FINEST unit of the list (so that no profile loses precision): every
       input unit is a whole-or-larger multiple of the chosen one *)
    match gl o with
    | [TS "ok"; TS t; TS u] =>
        forallb (fun e => let ui := gs (gn e 1) in
                          match family_of uts ui, family_of uts u with
                          | Some (_, a), Some (_, b) => Qle_bool (u_factor b) (u_factor a)
                          | _, _ => true
                          end) (gl (gn i 1))
    | _ => true
    end
  else true.

Definition judge_C15 := judge_all run_C15 eqv_C15_in spec_C15 cls_C15 0%Z.
