(* Executable model of internal/graph/graph.go: graph and call-tree construction from samples
   (newGraph :326, newTree :406, AddToEdgeDiv :128, addSample :648, selectNodesForGraph :379),
   value accessors, node orders, edge trimming, redundant-edge removal, TrimTree.
   The model is generic in the entry key [K] (Go: NodeInfo for graphs, the node pointer = the
   path from the root for call trees).  int64 additions wrap explicitly.  No proofs here. *)
From PV Require Export M_Profile.
Open Scope list_scope.
Open Scope Z_scope.

(* ---- int64 helpers ---- *)
Definition wadd (a b : Z) : Z := wrap_i64 (a + b).
(* abs64 (graph.go:1173): -MinInt64 wraps back to MinInt64 *)
Definition abs64 (i : Z) : Z := if i <? 0 then wrap_i64 (- i) else i.
(* Go's int64 division: truncated; MinInt64 / -1 wraps *)
Definition div64 (a b : Z) : Z := wrap_i64 (Z.quot a b).
(* FlatValue / CumValue / WeightValue (graph.go:104,113,270) *)
Definition mean_value (v d : Z) : Z := if d =? 0 then v else div64 v d.

Record nval := mk_nval { nv_flat : Z; nv_flatdiv : Z; nv_cum : Z; nv_cumdiv : Z }.
Definition nval0 : nval := mk_nval 0 0 0 0.
Definition flat_value (v : nval) : Z := mean_value (nv_flat v) (nv_flatdiv v).
Definition cum_value (v : nval) : Z := mean_value (nv_cum v) (nv_cumdiv v).

Section Graph.
  Variable K : Type.
  Variable keqb : K -> K -> bool.

  Record edge := mk_edge { e_src : K; e_dst : K; e_w : Z; e_wdiv : Z; e_res : bool; e_inl : bool }.
  Record graph := mk_graph { g_nodes : list (K * nval); g_edges : list edge }.
  Definition empty_graph : graph := mk_graph [] [].

  Definition weight_value (e : edge) : Z := mean_value (e_w e) (e_wdiv e).

  Definition memK (k : K) (l : list K) : bool := existsb (keqb k) l.
  Definition pair_eqb (a b : K * K) : bool := keqb (fst a) (fst b) && keqb (snd a) (snd b).
  Definition memE (e : K * K) (l : list (K * K)) : bool := existsb (pair_eqb e) l.

  (* node table: find or insert (the Go code pre-creates every node with zero values; a node that
     is absent here has the same zero values) *)
  Fixpoint nupd (f : nval -> nval) (k : K) (l : list (K * nval)) : list (K * nval) :=
    match l with
    | [] => [(k, f nval0)]
    | e :: r => if keqb (fst e) k then (fst e, f (snd e)) :: r else e :: nupd f k r
    end.
  Fixpoint nget (k : K) (l : list (K * nval)) : nval :=
    match l with
    | [] => nval0
    | e :: r => if keqb (fst e) k then snd e else nget k r
    end.

  (* addSample (graph.go:648), values only *)
  Definition bump_cum (w dw : Z) (v : nval) : nval :=
    mk_nval (nv_flat v) (nv_flatdiv v) (wadd (nv_cum v) w) (wadd (nv_cumdiv v) dw).
  Definition bump_flat (w dw : Z) (v : nval) : nval :=
    mk_nval (wadd (nv_flat v) w) (wadd (nv_flatdiv v) dw) (nv_cum v) (nv_cumdiv v).
  Definition add_cum (g : graph) (n : K) (w dw : Z) : graph :=
    mk_graph (nupd (bump_cum w dw) n (g_nodes g)) (g_edges g).
  Definition add_flat (g : graph) (n : K) (w dw : Z) : graph :=
    mk_graph (nupd (bump_flat w dw) n (g_nodes g)) (g_edges g).

  (* AddToEdgeDiv (graph.go:128) *)
  Fixpoint eadd (p n : K) (w dw : Z) (res inl : bool) (l : list edge) : list edge :=
    match l with
    | [] => [mk_edge p n (wadd 0 w) (wadd 0 dw) res inl]   (* = w, dw for int64 values *)
    | e :: r =>
        if keqb (e_src e) p && keqb (e_dst e) n
        then mk_edge (e_src e) (e_dst e) (wadd (e_w e) w) (wadd (e_wdiv e) dw) (e_res e || res) (e_inl e && inl) :: r
        else e :: eadd p n w dw res inl r
    end.
  Definition add_edge (g : graph) (p n : K) (w dw : Z) (res inl : bool) : graph :=
    mk_graph (g_nodes g) (eadd p n w dw res inl (g_edges g)).
  Fixpoint eget (p n : K) (l : list edge) : option edge :=
    match l with
    | [] => None
    | e :: r => if keqb (e_src e) p && keqb (e_dst e) n then Some e else eget p n r
    end.

  (* ---- newGraph (graph.go:326-377) ---- *)
  (* a frame: the node of one line of one location (None: not in KeptNodes), and the inline flag
     ni != len(locNodes)-1 *)
  Definition frame := (option K * bool)%type.
  Record gsample := mk_gsample { gs_frames : list (K * bool) (* root first *); gs_w : Z; gs_dw : Z }.

  Record wst := mk_wst { w_g : graph; w_parent : option K; w_res : bool; w_seenN : list K; w_seenE : list (K * K) }.

  (* body of the inner loop, graph.go:351-367 *)
  Definition step (w dw : Z) (st : wst) (f : frame) : wst :=
    match fst f with
    | None => mk_wst (w_g st) (w_parent st) true (w_seenN st) (w_seenE st)
    | Some n =>
        let seen := memK n (w_seenN st) in
        let g1 := if seen then w_g st else add_cum (w_g st) n w dw in
        let sn := if seen then w_seenN st else n :: w_seenN st in
        match w_parent st with
        | Some p =>
            if negb (memE (n, p) (w_seenE st)) && negb (keqb n p)
            then mk_wst (add_edge g1 p n w dw (w_res st) (snd f)) (Some n) false sn ((n, p) :: w_seenE st)
            else mk_wst g1 (Some n) false sn (w_seenE st)
        | None => mk_wst g1 (Some n) false sn (w_seenE st)
        end
    end.

  (* FindOrInsertNode's kept test (graph.go:220-224) *)
  Definition keep_frame (kept : option (list K)) (f : K * bool) : frame :=
    match kept with
    | None => (Some (fst f), snd f)
    | Some ks => if memK (fst f) ks then (Some (fst f), snd f) else (None, snd f)
    end.

  Definition add_sample (kept : option (list K)) (g : graph) (s : gsample) : graph :=
    let w := gs_w s in
    let dw := gs_dw s in
    if (dw =? 0) && (w =? 0) then g
    else
      let st := fold_left (step w dw) (map (keep_frame kept) (gs_frames s)) (mk_wst g None false [] []) in
      match w_parent st with
      | Some p => if negb (w_res st) then add_flat (w_g st) p w dw else w_g st
      | None => w_g st
      end.

  Definition build_graph (kept : option (list K)) (ss : list gsample) : graph :=
    fold_left (add_sample kept) ss empty_graph.

  (* isNegative (graph.go:546) *)
  Definition is_negative (v : nval) : bool :=
    (nv_flat v <? 0) || ((nv_flat v =? 0) && (nv_cum v <? 0)).
  Definition node_dropped (drop_negative : bool) (v : nval) : bool :=
    ((nv_cum v =? 0) && (nv_flat v =? 0)) || (drop_negative && is_negative v).

  (* selectNodesForGraph (graph.go:379): dropped nodes lose their edges (F21 repaired) *)
  Definition select_nodes (drop_negative : bool) (g : graph) : graph :=
    let ns := filter (fun e => negb (node_dropped drop_negative (snd e))) (g_nodes g) in
    let alive k := existsb (fun e => keqb (fst e) k) ns in
    mk_graph ns (filter (fun e => alive (e_src e) && alive (e_dst e)) (g_edges g)).

  Definition new_graph (kept : option (list K)) (drop_negative : bool) (ss : list gsample) : graph :=
    select_nodes drop_negative (build_graph kept ss).

  (* ---- trimming helpers ---- *)
  (* getNodesAboveCumCutoff (graph.go:769) *)
  Definition above_cum_cutoff (cutoff : Z) (g : graph) : list K :=
    map fst (filter (fun e => negb (abs64 (nv_cum (snd e)) <? cutoff)) (g_nodes g)).
  (* TrimLowFrequencyEdges (graph.go:804) *)
  Definition trim_edges (cutoff : Z) (g : graph) : graph :=
    mk_graph (g_nodes g) (filter (fun e => negb (abs64 (e_w e) <? cutoff)) (g_edges g)).
  Definition dropped_edges (cutoff : Z) (g : graph) : Z :=
    Z.of_nat (List.length (filter (fun e => abs64 (e_w e) <? cutoff) (g_edges g))).

  Definition in_edges (g : graph) (n : K) : list edge := filter (fun e => keqb (e_dst e) n) (g_edges g).
  Definition out_edges (g : graph) (n : K) : list edge := filter (fun e => keqb (e_src e) n) (g_edges g).

  (* graphTotal (report.go:1198) and Nodes.Sum's flat part (graph.go:640) *)
  Definition graph_total (g : graph) : Z := fold_left (fun a e => wadd a (flat_value (snd e))) (g_nodes g) 0.
  Definition sum_flat (g : graph) : Z := fold_left (fun a e => wadd a (nv_flat (snd e))) (g_nodes g) 0.

  (* insertion sort by a strict order [less]; sort.Sort is not stable, but every order used on
     nodes is total on distinct keys (C08), so the sorted list is unique *)
  Section Sort.
    Variable A : Type.
    Variable less : A -> A -> bool.
    Fixpoint insert_by (x : A) (l : list A) : list A :=
      match l with
      | [] => [x]
      | y :: r => if less y x then y :: insert_by x r else x :: l
      end.
    Definition sort_by (l : list A) : list A := fold_right insert_by [] l.
  End Sort.

  (* ---- RemoveRedundantEdges (graph.go:893) / isRedundantEdge (:916) ---- *)
  Definition edge_same (a b : edge) : bool := keqb (e_src a) (e_src b) && keqb (e_dst a) (e_dst b).

  (* BFS over in-edges from e.Dest looking for e.Src, ignoring e itself; fuel = number of nodes + 1 *)
  Fixpoint bfs_reaches (fuel : nat) (es : list edge) (e : edge) (queue seen : list K) : bool :=
    match fuel with
    | O => false
    | S fuel' =>
        match queue with
        | [] => false
        | n :: q =>
            let ins := filter (fun ie => keqb (e_dst ie) n && negb (edge_same ie e)) es in
            (* walk the in-edges in order; sources already seen are skipped *)
            let '(hit, q', seen') :=
              fold_left (fun (acc : bool * list K * list K) (ie : edge) =>
                           let '(hit, q1, s1) := acc in
                           if hit then acc
                           else if memK (e_src ie) s1 then acc
                           else if keqb (e_src ie) (e_src e) then (true, q1, s1)
                           else (false, q1 ++ [e_src ie], e_src ie :: s1))
                        ins (false, q, seen) in
            if hit then true else bfs_reaches fuel' es e q' seen'
        end
    end.
  Definition is_redundant (nnodes : nat) (es : list edge) (e : edge) : bool :=
    bfs_reaches (S nnodes) es e [e_dst e] [e_dst e].

  Definition remove_edge (e : edge) (es : list edge) : list edge := filter (fun x => negb (edge_same x e)) es.

  (* for one node: its in-edges sorted by [eless] are walked from the last; stop at the first
     non-residual edge *)
  Fixpoint rr_edges (nnodes : nat) (rin : list edge) (es : list edge) : list edge :=
    match rin with
    | [] => es
    | e :: r => if negb (e_res e) then es
                else rr_edges nnodes r (if is_redundant nnodes es e then remove_edge e es else es)
    end.

  Variable eless : edge -> edge -> bool.   (* edgeList.Less on the entries' printable names *)

  Definition remove_redundant_edges (g : graph) : graph :=
    let nn := List.length (g_nodes g) in
    let es := fold_left (fun es n => rr_edges nn (rev (sort_by edge eless (filter (fun e => keqb (e_dst e) n) es))) es)
                        (rev (map fst (g_nodes g))) (g_edges g) in
    mk_graph (g_nodes g) es.
End Graph.

Arguments mk_edge {K}.
Arguments e_src {K}. Arguments e_dst {K}. Arguments e_w {K}. Arguments e_wdiv {K}.
Arguments e_res {K}. Arguments e_inl {K}.
Arguments mk_graph {K}. Arguments g_nodes {K}. Arguments g_edges {K}.
Arguments empty_graph {K}.
Arguments weight_value {K}.
Arguments mk_gsample {K}. Arguments gs_frames {K}. Arguments gs_w {K}. Arguments gs_dw {K}.
Arguments graph_total {K}. Arguments sum_flat {K}.
Arguments insert_by {A}. Arguments sort_by {A}.

(* ---- newTree (graph.go:406-453): one node per (parent node, info), i.e. per path ---- *)
Section Tree.
  Variable K : Type.
  Variable keqb : K -> K -> bool.

  Fixpoint list_eqb (a b : list K) : bool :=
    match a, b with
    | [], [] => true
    | x :: a', y :: b' => keqb x y && list_eqb a' b'
    | _, _ => false
    end.

  Definition tgraph := graph (list K).

  (* body of the inner loop, graph.go:427-440 (KeptNodes = nil) *)
  Definition tstep (w dw : Z) (st : tgraph * option (list K)) (f : K * bool) : tgraph * option (list K) :=
    let '(g, parent) := st in
    let n := match parent with Some p => p ++ [fst f] | None => [fst f] end in
    let g1 := add_cum (list K) list_eqb g n w dw in
    let g2 := match parent with Some p => add_edge (list K) list_eqb g1 p n w dw false (snd f) | None => g1 end in
    (g2, Some n).

  Definition tadd_sample (g : tgraph) (s : gsample K) : tgraph :=
    let w := gs_w s in
    let dw := gs_dw s in
    if (dw =? 0) && (w =? 0) then g
    else
      let '(g', parent) := fold_left (tstep w dw) (gs_frames s) (g, None) in
      match parent with
      | Some p => add_flat (list K) list_eqb g' p w dw
      | None => g'
      end.

  Definition build_tree (ss : list (gsample K)) : tgraph := fold_left tadd_sample ss empty_graph.
  Definition new_tree (drop_negative : bool) (ss : list (gsample K)) : tgraph :=
    select_nodes (list K) list_eqb drop_negative (build_tree ss).
End Tree.
