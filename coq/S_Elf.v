(* Specification side of C13: a model of what the system loader does with an ELF file (this is NOT
   a transcription of pprof code), the statement "runtime address - load bias", the class of the
   known finding F23, and the symbol-table lookup specification.  Every predicate is a bool so
   that it can be evaluated on the implementation's observable. *)
From PV Require Export M_Elf.
Open Scope Z_scope.

(* ---------------- the loader ---------------- *)
Definition page : Z := 4096.
Definition align_down (x : Z) : Z := x - x mod page.
Definition align_up (x : Z) : Z := align_down (x + (page - 1)).

(* a loadable segment as a linker emits it: file bytes exist, memory size covers them (the rest is
   bss), file offset and virtual address are congruent modulo the page size *)
Definition seg_okb (p : phdr) : bool :=
  (ph_type p =? PT_LOAD) && (0 <? ph_filesz p) && (ph_filesz p <=? ph_memsz p) &&
  (0 <=? ph_off p) && (0 <=? ph_vaddr p) && (ph_off p mod page =? ph_vaddr p mod page) &&
  (ph_off p + ph_memsz p <? two63).

(* the file-backed mapping the kernel creates for segment p of an object loaded at [bias]
   (fs/binfmt_elf.c elf_map: address and file offset rounded down to a page, length = file size
   plus the in-page offset rounded up; memory beyond the file bytes is anonymous) *)
Definition image (p : phdr) (bias : Z) : emap :=
  {| em_start := bias + align_down (ph_vaddr p);
     em_limit := bias + align_up (ph_vaddr p + ph_filesz p);
     em_offset := align_down (ph_off p);
     em_koff := None |}.

Definition loadable (p : phdr) : bool := (ph_type p =? PT_LOAD) && (0 <? ph_filesz p).
Definition load (ef : elf) (bias : Z) : list emap := map (fun p => image p bias) (filter loadable (e_progs ef)).

(* page-aligned bias, whole image in the user half of the address space *)
Definition load_okb (p : phdr) (bias : Z) : bool :=
  (0 <=? bias) && (bias mod page =? 0) && (bias + align_up (ph_vaddr p + ph_memsz p) <? two63).

(* /proc/<pid>/maps shows an image whole or split (mprotect, RELRO, partial unmapping): a runtime
   mapping is any non-empty page-aligned sub-range of an image, its file offset advanced accordingly *)
Definition pieceb (m img : emap) : bool :=
  (em_start m mod page =? 0) && (em_limit m mod page =? 0) &&
  (em_start img <=? em_start m) && (em_start m <? em_limit m) && (em_limit m <=? em_limit img) &&
  (em_offset m =? em_offset img + (em_start m - em_start img)) &&
  (match em_koff m with None => true | Some _ => false end).

(* the address is one of the segment's own bytes, not page padding shared with a neighbour *)
Definition ownb (p : phdr) (bias a : Z) : bool :=
  (bias + ph_vaddr p <=? a) && (a <? bias + ph_vaddr p + ph_memsz p).

Definition in_map (m : emap) (a : Z) : bool := (em_start m <=? a) && (a <? em_limit m).

Definition user_elfb (ef : elf) : bool := (e_type ef =? ET_DYN) || (e_type ef =? ET_EXEC).

(* everything the statement assumes about (object, bias, mapping, first address, owning segment) *)
Definition loaded_at (ef : elf) (bias : Z) (m : emap) (a : Z) (p : phdr) : bool :=
  user_elfb ef && seg_okb p && load_okb p bias && pieceb m (image p bias) && ownb p bias a && in_map m a &&
  (0 <? em_start m).

(* F23: ET_DYN object whose load bias equals the owning segment's file offset (bias 0 and first
   segment: a prelinked library), mapping = a later piece of the segment.  kernelBase's first rule
   fires for this user-space mapping and returns the mapping offset. *)
Definition in_F23 (ef : elf) (p : phdr) (bias : Z) (m : emap) : bool :=
  (e_type ef =? ET_DYN) && (bias =? ph_off p) && negb (em_offset m =? ph_off p).

(* ---- the statement, as a checker of one ObjAddr result ---- *)
Definition res_is_bias (bias a : Z) (r : res Z) : bool :=
  match r with Err _ => true | Ok v => v =? a - bias end.

Definition spec_obj_addr (ef : elf) (bias : Z) (m : emap) (a : Z) (r : res Z) : bool :=
  if existsb (fun p => loaded_at ef bias m a p) (e_progs ef) then res_is_bias bias a r else true.

(* the owner is identifiable: p is the only PT_LOAD header whose file range [Off, Off+Memsz)
   contains the file offset the address was loaded from; then an error is not an acceptable answer *)
Definition file_off_of (p : phdr) (bias a : Z) : Z := ph_off p + (a - bias - ph_vaddr p).
Definition sole_owner (ef : elf) (p : phdr) (bias a : Z) : bool :=
  match filter (off_in_header (file_off_of p bias a)) (filter (fun q => ph_type q =? PT_LOAD) (e_progs ef)) with
  | [q] => true
  | _ => false
  end.
Definition spec_obj_addr_live (ef : elf) (bias : Z) (m : emap) (a : Z) (r : res Z) : bool :=
  if existsb (fun p => loaded_at ef bias m a p && sole_owner ef p bias a) (e_progs ef)
  then match r with Ok _ => true | Err _ => false end else true.

(* a file object asked a sequence of addresses: once the first (own-byte) address was answered
   every later address of the image is translated by the same bias; an error stays an error *)
Definition spec_obj_addr_seq (ef : elf) (bias : Z) (m : emap) (addrs : list Z) (rs : list (res Z)) : bool :=
  match addrs, rs with
  | a0 :: _, r0 :: _ =>
      if existsb (fun p => loaded_at ef bias m a0 p) (e_progs ef) then
        (List.length addrs =? List.length rs)%nat &&
        match r0 with
        | Err _ => forallb (fun r => match r with Err _ => true | Ok _ => false end) rs
        | Ok _ => forallb (fun ar => match snd ar with
                                      | Ok v => if (bias <=? fst ar) && (fst ar <? two64) then v =? fst ar - bias else true
                                      | Err _ => false end) (combine addrs rs)
        end
      else true
  | [], [] => true
  | _, _ => false
  end.

Definition any_F23 (ef : elf) (bias : Z) (m : emap) (a : Z) : bool :=
  existsb (fun p => loaded_at ef bias m a p && in_F23 ef p bias m) (e_progs ef).

(* ---------------- symbol lookup ---------------- *)
Fixpoint sortedb (l : list sym) : bool :=
  match l with
  | a :: (b :: _) as r => (sy_addr a <=? sy_addr b) && sortedb r
  | _ => true
  end.

(* s is a symbol with the greatest start not above a *)
Definition greatest_le (m : list sym) (a : Z) (s : sym) : bool :=
  (sy_addr s <=? a) && forallb (fun s' => negb (sy_addr s' <=? a) || (sy_addr s' <=? sy_addr s)) m.

Definition sym_end (s : sym) : Z := uadd (sy_addr s) (sy_size s).

(* accepted answers for a sorted table:
   Some n : n names a greatest-start-not-above symbol, and if that symbol is data, a is within its size;
   None   : no symbol starts at or below a, or a is beyond the end of the last symbol of the table
            (the table-bounds rule of the code), or a greatest-start symbol is data and a is beyond its size *)
Definition spec_addr_info (m : list sym) (a : Z) (r : option string) : bool :=
  if sortedb m then
    match r with
    | Some n => existsb (fun s => String.eqb (sy_name s) n && greatest_le m a s &&
                                  (negb (sym_is_data s) || (a <? sym_end s))) m
    | None => negb (existsb (fun s => sy_addr s <=? a) m) ||
              (sym_end (sym_at m (List.length m - 1)) <=? a) ||
              existsb (fun s => greatest_le m a s && sym_is_data s && (sym_end s <=? a)) m
    end
  else true.

(* ---------------- addr2line names repaired from nm ---------------- *)
Fixpoint strs_eqb (a b : list string) : bool :=
  match a, b with
  | [], [] => true
  | x :: a', y :: b' => String.eqb x y && strs_eqb a' b'
  | _, _ => false
  end.

(* The nm symbol consulted is the one containing the RUNTIME address [addr] in the table keyed by
   runtime addresses ([tab] = link addresses + base): the frames returned must be the replacement
   rule applied to SOME answer the lookup specification accepts for [addr] in [tab]. *)
Definition spec_a2l_fixup (tab : list sym) (addr : Z) (stack out : list string) : bool :=
  if sortedb tab then
    existsb (fun r => spec_addr_info tab addr r && strs_eqb out (a2l_apply_nm r stack))
            (None :: map (fun s => Some (sy_name s)) tab)
  else true.

(* ---------------- sessions: one Binutils, many objects ---------------- *)
(* the addresses asked of handle h, in order, and the answers they got *)
Fixpoint addrs_of (h : nat) (evs : list sev) : list Z :=
  match evs with
  | [] => []
  | SAddr h' a :: r => if (h' =? h)%nat then a :: addrs_of h r else addrs_of h r
  | _ :: r => addrs_of h r
  end.

Fixpoint answers_of (h : nat) (evs : list sev) (obs : list sobs) : list (res Z) :=
  match evs, obs with
  | SAddr h' _ :: r, o :: ro =>
      if (h' =? h)%nat
      then (match o with OAddr x => x | _ => Err 99 end) :: answers_of h r ro
      else answers_of h r ro
  | _ :: r, _ :: ro => answers_of h r ro
  | _, _ => []
  end.

(* The statement does not mention histories: the object returned by an Open whose mapping was made
   by the loader at [bias] must translate its addresses to address - bias (or an error; no error
   when the owner is identifiable) WHATEVER else was done with the Binutils before or in between.
   [m] = the mapping given to that Open, [ef] = the file it named. *)
Definition spec_handle (ef : elf) (bias : Z) (m : emap) (addrs : list Z) (rs : list (res Z)) : bool :=
  spec_obj_addr_seq ef bias m addrs rs &&
  match addrs, rs with
  | a0 :: _, r0 :: _ => spec_obj_addr_live ef bias m a0 r0
  | _, _ => true
  end.

(* ---------------- conversations with a symbolizer tool ---------------- *)
(* What the tool said about ONE link address, as frames: the pairs it printed, unknown ones dropped. *)
Definition a2l_expected (tool : a2l_tool) (x : Z) : list frame :=
  filter (fun f => negb (frame_empty f)) (map a2l_parse_pair (a2l_tool_pairs tool x)).

Definition frame_loc_eqb (a b : frame) : bool :=
  String.eqb (fr_file a) (fr_file b) && (fr_line a =? fr_line b).
Fixpoint frames_loc_eqb (a b : list frame) : bool :=
  match a, b with
  | [], [] => true
  | x :: a', y :: b' => frame_loc_eqb x y && frames_loc_eqb a' b'
  | _, _ => false
  end.

(* The frames reported for an address are the ones the tool printed for THAT address minus base
   (= its link address), whatever was asked before on the same pipe; function names may be repaired
   from the attached nm table as [spec_a2l_fixup] allows. *)
Definition spec_conv_answer (tool : a2l_tool) (base : Z) (nm : option (list sym)) (a : Z) (r : res (list frame)) : bool :=
  match r with
  | Err _ => false
  | Ok st =>
      let e := a2l_expected tool (tool_addr base a) in
      frames_loc_eqb st e &&
      match nm with
      | None => strs_eqb (map fr_func st) (map fr_func e)
      | Some tab => spec_a2l_fixup tab a (map fr_func e) (map fr_func st)
      end
  end.
Fixpoint spec_conv (tool : a2l_tool) (base : Z) (nm : option (list sym)) (addrs : list Z) (rs : list (res (list frame))) : bool :=
  match addrs, rs with
  | [], [] => true
  | a :: ar, r :: rr => spec_conv_answer tool base nm a r && spec_conv tool base nm ar rr
  | _, _ => false
  end.

(* a well-behaved tool: no function line looks like an address echo, nothing known about the sentinel *)
Definition a2l_tool_ok (tool : a2l_tool) : Prop :=
  tool max_u64 = [] /\ forall x p, In p (tool x) -> has_prefix "0x" (fst p) = false.

(* llvm-symbolizer: the symbols of the line answering THAT address minus base *)
Definition frame_eqb (a b : frame) : bool := String.eqb (fr_func a) (fr_func b) && frame_loc_eqb a b.
Fixpoint frames_eqb (a b : list frame) : bool :=
  match a, b with
  | [], [] => true
  | x :: a', y :: b' => frame_eqb x y && frames_eqb a' b'
  | _, _ => false
  end.
Fixpoint spec_conv_llvm (tool : llvm_tool) (base : Z) (addrs : list Z) (rs : list (res (list frame))) : bool :=
  match addrs, rs with
  | [], [] => true
  | a :: ar, r :: rr =>
      match r with Ok st => frames_eqb st (llvm_answer tool (tool_addr base a)) | Err _ => false end &&
      spec_conv_llvm tool base ar rr
  | _, _ => false
  end.
