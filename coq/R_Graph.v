(* Shared pieces of the C04 / C05 case runners: option decoding, term encoders, canonical
   (order-insensitive) comparison of set-valued observables. *)
From PV Require Export M_Report S_Graph.
Open Scope string_scope.
Open Scope list_scope.
Open Scope Z_scope.

(* ---- total order on terms, canonical form of terms carrying sets ---- *)
Fixpoint term_cmp (a b : term) {struct a} : comparison :=
  match a, b with
  | TZ x, TZ y => Z.compare x y
  | TZ _, _ => Lt
  | _, TZ _ => Gt
  | TS x, TS y => String.compare x y
  | TS _, _ => Lt
  | _, TS _ => Gt
  | TL x, TL y =>
      (fix go (x y : list term) : comparison :=
         match x, y with
         | [], [] => Eq
         | [], _ => Lt
         | _, [] => Gt
         | a :: x', b :: y' => match term_cmp a b with Eq => go x' y' | c => c end
         end) x y
  end.
Definition term_ltb (a b : term) : bool := match term_cmp a b with Lt => true | _ => false end.

(* [TL (TS "#set" :: items)] denotes a multiset: items are sorted before comparison *)
Fixpoint canon (t : term) : term :=
  match t with
  | TL l =>
      let l' := map canon l in
      match l' with
      | TS tag :: items => if String.eqb tag "#set" then TL (TS tag :: sort_by term_ltb items) else TL l'
      | _ => TL l'
      end
  | _ => t
  end.
Definition set_of (l : list term) : term := TL (TS "#set" :: l).
Definition eqv_canon (i m o : term) : bool := term_eqb (canon m) (canon o).

(* ---- options ---- *)
(* the options as the entry point received them (fields 14.. are absent in older cases and then
   decode to "not set"), turned into what the report works with by the glue model of M_Report *)
Definition ropts_of (t : term) : ropts :=
  let format := gs (gn t 9) in
  let notrim := gb (gn t 14) in
  let legacy := gss (gn t 17) in
  let n0 := entry_nodecount (gs (gn t 18)) format (gb (gn t 19)) (gz (gn t 20)) (gz (gn t 11)) in
  mk_ropts (gs (gn t 0)) (gb (gn t 1)) (gb (gn t 2)) (gs (gn t 3)) (legacy_mean legacy (gb (gn t 4)))
           (gb (gn t 5)) (gb (gn t 6)) (gs (gn t 7)) (gs (gn t 8)) format (gb (gn t 10))
           (override_nodecount format notrim n0) (override_cutoff format notrim (gz (gn t 12)))
           (override_cutoff format notrim (gz (gn t 13))) (gs (gn t 15)) (gs (gn t 16)).

(* answer table for measurement.ScaledLabel on numeric tag values (tagroot/tagleaf):
   entries [value; unit-key; string] *)
Definition fmt_table (t : term) (v : Z) (u : string) : string :=
  match find (fun e => (gz (gn e 0) =? v) && String.eqb (gs (gn e 1)) u) (gl t) with
  | Some e => gs (gn e 2)
  | None => string_of_Z v
  end.

(* ---- encoders ---- *)
Definition of_ni (i : node_info) : term :=
  TL [TS (ni_name i); TS (ni_orig i); TZ (ni_addr i); TS (ni_file i); TZ (ni_startline i); TZ (ni_lineno i);
      TZ (ni_col i); TS (ni_obj i)].
Definition ni_of (t : term) : node_info :=
  mk_ni (gs (gn t 0)) (gs (gn t 1)) (gz (gn t 2)) (gs (gn t 3)) (gz (gn t 4)) (gz (gn t 5)) (gz (gn t 6)) (gs (gn t 7)).

Definition of_nval (k : term) (v : nval) : term :=
  TL [k; TZ (nv_flat v); TZ (nv_flatdiv v); TZ (nv_cum v); TZ (nv_cumdiv v)].
Definition of_edge {K} (f : K -> term) (e : edge K) : term :=
  TL [f (e_src e); f (e_dst e); TZ (e_w e); TZ (e_wdiv e); of_bool (e_res e); of_bool (e_inl e)].

Definition of_igraph (g : igraph) : list term :=
  [set_of (map (fun e => of_nval (of_ni (fst e)) (snd e)) (g_nodes g)); set_of (map (of_edge of_ni) (g_edges g))].
(* ordered node list (sorted graphs) *)
Definition of_igraph_ordered (g : igraph) : list term :=
  [TL (map (fun e => of_nval (of_ni (fst e)) (snd e)) (g_nodes g)); set_of (map (of_edge of_ni) (g_edges g))].

Definition last_ni (p : list node_info) : node_info := last p (mk_ni "" "" 0 "" 0 0 0 "").
Definition of_tgraph (g : graph (list node_info)) : list term :=
  [set_of (map (fun e => of_nval (of_ni (last_ni (fst e))) (snd e)) (g_nodes g));
   set_of (map (of_edge (fun p => of_ni (last_ni p))) (g_edges g))].

Definition igraph_of (nodes edges : term) : igraph :=
  let items t := match gl t with TS _ :: r => r | r => r end in
  mk_graph (map (fun e => (ni_of (gn e 0), mk_nval (gz (gn e 1)) (gz (gn e 2)) (gz (gn e 3)) (gz (gn e 4)))) (items nodes))
           (map (fun e => mk_edge (ni_of (gn e 0)) (ni_of (gn e 1)) (gz (gn e 2)) (gz (gn e 3)) (gb (gn e 4)) (gb (gn e 5)))
                (items edges)).

Definition err_term (e : sidx) : term :=
  match e with
  | SiRange => TL [TS "err"; TS "range"]
  | SiName => TL [TS "err"; TS "name"]
  | SiNoSamples => TL [TS "err"; TS "nosamples"]
  | SiOk _ => TL [TS "err"; TS "none"]
  end.

Definition with_inl (name inl : string) : string :=
  if String.eqb inl "" then name else (name ++ " " ++ inl)%string.
