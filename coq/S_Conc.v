(* C20 -- specification side.
   (1) Static obligations on the event lists regenerated from /repo (decidable, evaluated by vm_compute
       in P_C20.v): lock discipline of every thread root, one lock at a time, exclusive creation in the
       naming functions, barrier before results of goroutines are read, web handlers write no unguarded
       package-level variable, the guard table is not vacuous.
   (2) Decidable checkers of the property text on what the implementation was observed to do in the
       concurrent stress cases: results equal the sequential ones, names distinct and fresh, nothing
       overwritten, get/set outcomes linearizable. *)
From PV Require Import M_Conc.
Open Scope string_scope.

(* ---------------------------------------------------------------- (1) static obligations *)
Definition guards_of (tab : list (string * gkind)) (web : bool) (v : string) : option guard :=
  match assoc v tab with
  | Some (GG g) => Some g
  | Some GGlobal => if web then Some (GMu "!no-lock-protects-this-variable") else None
  | _ => None
  end.

Definition fuel0 : nat := 8.

Definition thread_of (funcs : list (string * list gev)) (root : string) : list ev :=
  match assoc root funcs with
  | Some b => expand fuel0 funcs b
  | None => [Fail]
  end.

Definition roots_ok (funcs : list (string * list gev)) (tab : list (string * gkind)) (web : bool) (roots : list string) : bool :=
  forallb (fun r => well_locked (guards_of tab web) (thread_of funcs r)) roots.

(* deadlock discipline.  Roots that hold at most one lock at a time are covered by the theorem
   no_deadlock_partial; for the others the nesting must be a two-level hierarchy: a lock that is
   acquired while another is held is never itself held while acquiring (so the "acquired while
   holding" relation is acyclic). *)
Definition single_roots (funcs : list (string * list gev)) (roots : list string) : list string :=
  filter (fun r => single_lock (thread_of funcs r)) roots.

Fixpoint nested_pairs (h : list string) (t : list ev) : list (string * string) :=
  match t with
  | [] => []
  | Acq m :: r => map (fun x => (x, m)) h ++ nested_pairs (m :: h) r
  | Rel m :: r => nested_pairs (remove string_dec m h) r
  | Once o b :: r => map (fun x => (x, o)) h ++ nested_pairs h r
  | _ :: r => nested_pairs h r
  end.
Definition lock_order_ok (funcs : list (string * list gev)) (roots : list string) : bool :=
  let ps := flat_map (fun r => nested_pairs [] (thread_of funcs r)) roots in
  forallb (fun p => negb (String.eqb (fst p) (snd p)) &&
                    negb (existsb (fun q => String.eqb (fst q) (snd p)) ps)) ps.

(* the functions that choose file names create them exclusively, and do create *)
Definition creates_exclusive (funcs : list (string * list gev)) (fs : list string) : bool :=
  forallb (fun f => match assoc f funcs with
                    | Some b => existsb (fun e => match e with GCreate _ => true | _ => false end) b &&
                                forallb (fun e => match e with GCreate x => x | _ => true end) b
                    | None => false
                    end) fs.

(* a function that obtained a name from a name-reserving function (newTempFile) keeps the reservation:
   it neither removes/renames a file nor creates one non-exclusively (the reserved, exclusively created
   file itself is what it hands on) *)
Definition reservations_kept (funcs : list (string * list gev)) (fs : list string) : bool :=
  forallb (fun f => match assoc f funcs with
                    | Some b => forallb (fun e => match e with GRelease => false | GCreate x => x | GBad _ => false | _ => true end) b
                    | None => true
                    end) fs.

(* between starting goroutines and the WaitGroup barrier the parent touches none of the variables
   handed to them; goroutine and parent both appear in the table as GBarrier variables *)
Fixpoint barrier_scan (tab : list (string * gkind)) (spawned waited : bool) (l : list gev) : bool :=
  match l with
  | [] => true
  | GSpawn _ :: r => barrier_scan tab true false r
  | GWait :: r => barrier_scan tab spawned true r
  | GRd v :: r | GWr v :: r =>
      match assoc v tab with
      | Some GBarrier => (negb spawned || waited) && barrier_scan tab spawned waited r
      | _ => barrier_scan tab spawned waited r
      end
  | GBad _ :: _ => false
  | _ :: r => barrier_scan tab spawned waited r
  end.
Definition barrier_ok (funcs : list (string * list gev)) (tab : list (string * gkind)) (fs : list string) : bool :=
  forallb (fun f => match assoc f funcs with Some b => barrier_scan tab false false b | None => false end) fs.

(* non-vacuity of the table: each variable the design lists is guarded as stated and is actually
   accessed by some thread root *)
Fixpoint mentions (v : string) (t : list ev) : bool :=
  match t with
  | [] => false
  | Rd x :: r | Wr x :: r => String.eqb x v || mentions v r
  | Once _ b :: r => existsb (fun a => String.eqb (snd a) v) b || mentions v r
  | _ :: r => mentions v r
  end.
Definition guard_eqb (a b : guard) : bool :=
  match a, b with
  | GMu x, GMu y => String.eqb x y
  | GOnceG x, GOnceG y => String.eqb x y
  | _, _ => false
  end.
Definition required : list (string * guard) := [
  ("Profile.stringTable", GMu "Profile.encodeMu"); ("Sample.labelX", GMu "Profile.encodeMu");
  ("ValueType.typeX", GMu "Profile.encodeMu"); ("Function.nameX", GMu "Profile.encodeMu");
  ("currentCfg", GMu "currentMu"); ("tempFiles", GMu "tempFilesMu"); ("settingsFile", GMu "settingsMu");
  ("htmlTemplates", GOnceG "once:htmlTemplateInit");
  ("Binutils.rep", GMu "Binutils.mu"); ("file.base", GOnceG "once:file.baseOnce");
  ("file.baseErr", GOnceG "once:file.baseOnce"); ("fileAddr2Line.llvmSymbolizer", GOnceG "once:fileAddr2Line.once");
  ("addr2Liner.rw", GMu "addr2Liner.mu"); ("llvmSymbolizer.rw", GMu "llvmSymbolizer.Mutex")
].
Definition table_not_vacuous (funcs : list (string * list gev)) (tab : list (string * gkind)) (roots : list string) : bool :=
  forallb (fun vg => match assoc (fst vg) tab with
                     | Some (GG g) => guard_eqb g (snd vg)
                     | _ => false
                     end && existsb (fun r => mentions (fst vg) (thread_of funcs r)) roots) required.
Definition required_roots : list string := [
  "profile:Profile.Write"; "profile:Profile.WriteUncompressed"; "profile:Profile.Copy";
  "driver:webInterface.makeReport"; "driver:webInterface.top"; "driver:webInterface.saveConfig";
  "driver:concurrentGrab$go1"; "binutils:Binutils.SetTools"; "binutils:Binutils.String";
  "binutils:file.ObjAddr"; "binutils:fileAddr2Line.SourceLine"].
Definition roots_present (roots : list string) : bool := forallb (fun r => mem r roots) required_roots.

(* ---------------------------------------------------------------- (2) observable checkers *)
Fixpoint nodupZ (l : list Z) : bool :=
  match l with [] => true | a :: r => negb (existsb (Z.eqb a) r) && nodupZ r end.

(* temp files: returned names pairwise distinct, none existed before, old files untouched *)
Definition tempfile_spec (existing created : list Z) (old_untouched : bool) (k : Z) : bool :=
  nodupZ created && forallb (fun c => negb (existsb (Z.eqb c) existing)) created &&
  old_untouched && (Z.of_nat (List.length created) =? k)%Z.

(* results equal to the same operations run one at a time *)
Definition all_equal_seq (flags : list Z) (k : Z) : bool :=
  forallb (fun z => (z =? 1)%Z) flags && (Z.of_nat (List.length flags) =? k)%Z.

(* linearizability of observed get results (oldest first per thread) and final value: search for a
   sequential order of the operations, respecting program order, that explains every observation *)
Definition cfgv_eqb (a b : cfgv) : bool := (fst a =? fst b)%Z && String.eqb (snd a) (snd b).

Fixpoint lin_search (fuel : nat) (c : cfgv) (todo : list (list cop)) (obs : list (list cfgv)) (final : cfgv) : bool :=
  match fuel with
  | O => false
  | S fuel' =>
      if forallb nilb todo then cfgv_eqb c final && forallb nilb obs
      else existsb (fun i =>
             match List.nth i todo [] with
             | [] => false
             | CGet :: r =>
                 match List.nth i obs [] with
                 | seen :: more => cfgv_eqb seen c && lin_search fuel' c (set_nth i r todo) (set_nth i more obs) final
                 | [] => false
                 end
             | CSet x :: r => lin_search fuel' (x, out_of x) (set_nth i r todo) obs final
             | CConf x :: r => lin_search fuel' (x, snd c) (set_nth i r todo) obs final
             end) (List.seq 0 (List.length todo))
  end.

(* ---------------------------------------------------------------- read-modify-write atomicity.
   The translator marks every write of a guarded variable whose value derives from a read of the
   same variable (directly, through a local snapshot, or through an accessor function that returns /
   assigns it under its own lock): [Nop "rmw-atomic v"] when read and write lie in ONE
   acquire..release region, [Nop "rmw-split v"] when the lock is dropped in between -- each half is
   then well locked and race free, but another thread's update made in between is overwritten.
   Functions listed in gen_rmw_exempt (with the reason) are blanked before inlining. *)
Definition blank (exempt : list string) (funcs : list (string * list gev)) : list (string * list gev) :=
  map (fun fb => if mem (fst fb) exempt then (fst fb, []) else fb) funcs.

Fixpoint rmw_single_section (t : list ev) : bool :=
  match t with
  | [] => true
  | Nop tag :: r => negb (has_prefix "rmw-split " tag) && rmw_single_section r
  | _ :: r => rmw_single_section r
  end.

Definition rmw_ok (funcs : list (string * list gev)) (exempt : list string) (roots : list string) : bool :=
  forallb (fun r => mem r exempt || rmw_single_section (thread_of (blank exempt funcs) r)) roots.

Fixpoint has_nop (tag : string) (t : list ev) : bool :=
  match t with
  | [] => false
  | Nop x :: r => String.eqb x tag || has_nop tag r
  | _ :: r => has_nop tag r
  end.
(* non-vacuity: the read-modify-writes the design relies on are seen, and seen as atomic *)
Definition required_rmw : list string :=
  ["rmw-atomic currentCfg"; "rmw-atomic tempFiles"; "rmw-atomic Binutils.rep"].
Definition rmw_seen (funcs : list (string * list gev)) (roots : list string) : bool :=
  forallb (fun tag => existsb (fun r => has_nop tag (thread_of funcs r)) roots) required_rmw.
