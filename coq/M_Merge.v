(* Executable model of profile.Merge and Profile.Compact (profile/merge.go), as the code is NOW
   (after the fix: commits for F1, F2, F3, F24).  No proofs here.

   Representation decisions (see DESIGN-notes/C03.md):
   * the merger state IS the output profile under construction (Go: pm.p): entities are appended in
     creation order with ids len+1, exactly as the Go code does, so the model's dump is compared
     with the implementation's dump field by field, ids and order included;
   * the four cross-profile memo tables pm.functions/mappings/locations/samples are not separate
     state: every insertion into one of them is paired with an append to the corresponding slice of
     pm.p and entries are immutable in their key fields, so "lookup k in the table" is modelled as
     "first element of the slice whose key is k";
   * the per-source tables functionsByID/mappingsByID/locationsByID are pure memoisation for a
     source whose ids are unique (CheckValid): the un-memoised path finds the entity created by the
     first call and changes nothing.  The model always takes the un-memoised path;
   * keys are the Go key STRUCTS as tuples (functionKey, mappingKey, locationKey field by field);
     locationKey.lines (hex numbers joined by "|", three slots per line) and sampleKey (varint byte
     string) are modelled by the tuples they encode; [skey_bytes] is the exact byte encoding, which
     is compared with the real sampleKey by the harness and proved injective in L_SampleKey. *)
From Coq Require Import List ZArith String Bool.
From PV Require Export M_Profile.
Import ListNotations.
Open Scope string_scope.
Open Scope Z_scope.

(* ------------------------------------------------------------------ record updates *)
Definition with_function (p : profile) (x : list function) : profile :=
  {| p_sampletype := p_sampletype p; p_defaultsampletype := p_defaultsampletype p; p_sample := p_sample p;
     p_mapping := p_mapping p; p_location := p_location p; p_function := x; p_comments := p_comments p;
     p_docurl := p_docurl p; p_dropframes := p_dropframes p; p_keepframes := p_keepframes p;
     p_timenanos := p_timenanos p; p_durationnanos := p_durationnanos p; p_periodtype := p_periodtype p;
     p_period := p_period p |}.
Definition with_mapping (p : profile) (x : list mapping) : profile :=
  {| p_sampletype := p_sampletype p; p_defaultsampletype := p_defaultsampletype p; p_sample := p_sample p;
     p_mapping := x; p_location := p_location p; p_function := p_function p; p_comments := p_comments p;
     p_docurl := p_docurl p; p_dropframes := p_dropframes p; p_keepframes := p_keepframes p;
     p_timenanos := p_timenanos p; p_durationnanos := p_durationnanos p; p_periodtype := p_periodtype p;
     p_period := p_period p |}.
Definition with_location (p : profile) (x : list location) : profile :=
  {| p_sampletype := p_sampletype p; p_defaultsampletype := p_defaultsampletype p; p_sample := p_sample p;
     p_mapping := p_mapping p; p_location := x; p_function := p_function p; p_comments := p_comments p;
     p_docurl := p_docurl p; p_dropframes := p_dropframes p; p_keepframes := p_keepframes p;
     p_timenanos := p_timenanos p; p_durationnanos := p_durationnanos p; p_periodtype := p_periodtype p;
     p_period := p_period p |}.
Definition with_sample (p : profile) (x : list sample) : profile :=
  {| p_sampletype := p_sampletype p; p_defaultsampletype := p_defaultsampletype p; p_sample := x;
     p_mapping := p_mapping p; p_location := p_location p; p_function := p_function p; p_comments := p_comments p;
     p_docurl := p_docurl p; p_dropframes := p_dropframes p; p_keepframes := p_keepframes p;
     p_timenanos := p_timenanos p; p_durationnanos := p_durationnanos p; p_periodtype := p_periodtype p;
     p_period := p_period p |}.

(* pointer dereference by id: 0 is the nil pointer *)
Definition lookup_fn (p : profile) (id : Z) : option function :=
  if id =? 0 then None else find_function p id.
Definition lookup_map (p : profile) (id : Z) : option mapping :=
  if id =? 0 then None else find_mapping p id.
Definition lookup_loc (p : profile) (id : Z) : option location :=
  if id =? 0 then None else find_location p id.

(* uint64(len(slice) + 1) *)
Definition next_id {A} (l : list A) : Z := Z.of_nat (List.length l) + 1.

(* ------------------------------------------------------------------ keys (merge.go:323-469) *)
Definition fkey := (Z * string * string * string)%type.
Definition fkey_of (f : function) : fkey := (f_startline f, f_name f, f_sysname f, f_file f).

Definition mkey := (Z * Z * string)%type.
(* Mapping.key: size rounded up to 4 KiB in uint64 arithmetic; build id, else file, else "" *)
Definition mkey_of (m : mapping) : mkey :=
  let size := wrap_u64 (m_limit m - m_start m) in
  let size := wrap_u64 (size + 4096 - 1) in
  let size := size - size mod 4096 in
  (size, m_offset m,
   if negb (String.eqb (m_buildid m) "") then m_buildid m
   else if negb (String.eqb (m_file m) "") then m_file m else "").

Definition lkey := (Z * Z * list (Z * Z * Z) * bool)%type.
(* Mapping.Start of the location's mapping in profile [p] (0 when there is none) *)
Definition start_of (p : profile) (mid : Z) : Z :=
  match lookup_map p mid with Some m => m_start m | None => 0 end.
Definition line_slots (ln : line) : Z * Z * Z := (ln_fn ln, ln_line ln, ln_col ln).
(* Location.key on a location whose Mapping/Function pointers are ids into [p] *)
Definition lkey_of (p : profile) (l : location) : lkey :=
  (wrap_u64 (l_addr l - start_of p (l_mapping l)), l_mapping l, map line_slots (l_lines l), l_folded l).

Definition numlabel_entry := (string * list Z * list string)%type.
Definition skey := (list Z * list (string * list string) * list numlabel_entry)%type.

Fixpoint assoc_units (k : string) (l : list (string * list string)) : list string :=
  match l with
  | [] => []
  | (k', v) :: r => if String.eqb k k' then v else assoc_units k r
  end.
(* NumLabel keys with their values and sample.NumUnit[key] (nil when absent) *)
Definition numlabels_with_units (s : sample) : list numlabel_entry :=
  map (fun e => (fst e, snd e, assoc_units (fst e) (s_numunit s))) (s_numlabel s).
(* sampleKey over already mapped location ids: nil locations are skipped *)
Definition skey_of (locs : list Z) (s : sample) : skey :=
  (filter (fun id => negb (id =? 0)) locs, s_label s, numlabels_with_units s).
Definition skey_of_sample (s : sample) : skey := skey_of (s_loc s) s.

Definition fkey_dec (a b : fkey) : {a = b} + {a <> b}.
Proof. repeat decide equality. Defined.
Definition mkey_dec (a b : mkey) : {a = b} + {a <> b}.
Proof. repeat decide equality. Defined.
Definition lkey_dec (a b : lkey) : {a = b} + {a <> b}.
Proof. repeat decide equality. Defined.
Definition skey_dec (a b : skey) : {a = b} + {a <> b}.
Proof. repeat decide equality. Defined.

Definition fkey_eqb (a b : fkey) : bool := if fkey_dec a b then true else false.
Definition mkey_eqb (a b : mkey) : bool := if mkey_dec a b then true else false.
Definition lkey_eqb (a b : lkey) : bool := if lkey_dec a b then true else false.
Definition skey_eqb (a b : skey) : bool := if skey_dec a b then true else false.

(* ------------------------------------------------------------------ mapFunction (merge.go:431) *)
Definition new_function (id : Z) (f : function) : function :=
  {| f_id := id; f_name := f_name f; f_sysname := f_sysname f; f_file := f_file f; f_startline := f_startline f |}.

Definition map_function_rec (st : profile) (f : function) : profile * Z :=
  match find (fun g => fkey_eqb (fkey_of g) (fkey_of f)) (p_function st) with
  | Some g => (st, f_id g)
  | None =>
      let id := next_id (p_function st) in
      (with_function st (p_function st ++ [new_function id f]), id)
  end.

Definition map_function (st src : profile) (fid : Z) : profile * Z :=
  match lookup_fn src fid with
  | None => (st, 0)
  | Some f => map_function_rec st f
  end.

(* ------------------------------------------------------------------ mapMapping (merge.go:351) *)
Definition new_mapping (id : Z) (m : mapping) : mapping :=
  {| m_id := id; m_start := m_start m; m_limit := m_limit m; m_offset := m_offset m; m_file := m_file m;
     m_buildid := m_buildid m; m_hasfn := m_hasfn m; m_hasfile := m_hasfile m; m_hasline := m_hasline m;
     m_hasinline := m_hasinline m |}.

(* returns the new state and mapInfo = (id of m, offset) *)
Definition map_mapping_rec (st : profile) (m : mapping) : profile * (Z * Z) :=
  match find (fun g => mkey_eqb (mkey_of g) (mkey_of m)) (p_mapping st) with
  | Some g => (st, (m_id g, wrap_i64 (m_start g - m_start m)))
  | None =>
      let id := next_id (p_mapping st) in
      (with_mapping st (p_mapping st ++ [new_mapping id m]), (id, 0))
  end.

Definition map_mapping (st src : profile) (mid : Z) : profile * (Z * Z) :=
  match lookup_map src mid with
  | None => (st, (0, 0))
  | Some m => map_mapping_rec st m
  end.

(* ------------------------------------------------------------------ mapLine / mapLocation *)
Fixpoint map_lines (st src : profile) (lns : list line) : profile * list line :=
  match lns with
  | [] => (st, [])
  | ln :: r =>
      let '(st1, fid) := map_function st src (ln_fn ln) in
      let '(st2, r') := map_lines st1 src r in
      (st2, {| ln_fn := fid; ln_line := ln_line ln; ln_col := ln_col ln |} :: r')
  end.

Definition map_location_rec (st src : profile) (l : location) : profile * Z :=
  let '(st1, (mid, off)) := map_mapping st src (l_mapping l) in
  let id := next_id (p_location st1) in
  let '(st2, lines) := map_lines st1 src (l_lines l) in
  let l' := {| l_id := id; l_mapping := mid; l_addr := wrap_u64 (l_addr l + off); l_lines := lines;
               l_folded := l_folded l |} in
  let k := lkey_of st2 l' in
  match find (fun g => lkey_eqb (lkey_of st2 g) k) (p_location st2) with
  | Some g => (st2, l_id g)
  | None => (with_location st2 (p_location st2 ++ [l']), id)
  end.

Definition map_location (st src : profile) (lid : Z) : profile * Z :=
  match lookup_loc src lid with
  | None => (st, 0)
  | Some l => map_location_rec st src l
  end.

Fixpoint map_locs (st src : profile) (ids : list Z) : profile * list Z :=
  match ids with
  | [] => (st, [])
  | id :: r =>
      let '(st1, id') := map_location st src id in
      let '(st2, r') := map_locs st1 src r in
      (st2, id' :: r')
  end.

(* ------------------------------------------------------------------ mapSample (merge.go:156) *)
(* ss.Value[i] += v for i in range src.Value.  (A src longer than ss panics in Go; that cannot
   happen for valid compatible inputs and is modelled by extending.) *)
Fixpoint add_vals (a b : list Z) : list Z :=
  match a, b with
  | x :: a', y :: b' => wrap_i64 (x + y) :: add_vals a' b'
  | _, [] => a
  | [], _ => map wrap_i64 b
  end.

Fixpoint upd_first {A} (pred : A -> bool) (f : A -> A) (l : list A) : list A :=
  match l with
  | [] => []
  | x :: r => if pred x then f x :: r else x :: upd_first pred f r
  end.

Definition add_to_sample (v : list Z) (ss : sample) : sample :=
  {| s_loc := s_loc ss; s_val := add_vals (s_val ss) v; s_label := s_label ss;
     s_numlabel := s_numlabel ss; s_numunit := s_numunit ss |}.

Definition new_sample (locs : list Z) (s : sample) : sample :=
  {| s_loc := locs; s_val := s_val s; s_label := s_label s; s_numlabel := s_numlabel s;
     s_numunit := map (fun e => (fst e, assoc_units (fst e) (s_numunit s))) (s_numlabel s) |}.

Definition map_sample (st src : profile) (s : sample) : profile :=
  let '(st1, locs) := map_locs st src (s_loc s) in
  let k := skey_of locs s in
  let hit := fun ss => skey_eqb (skey_of_sample ss) k in
  if existsb hit (p_sample st1)
  then with_sample st1 (upd_first hit (add_to_sample (s_val s)) (p_sample st1))
  else with_sample st1 (p_sample st1 ++ [new_sample locs s]).

Definition is_zero_sample (s : sample) : bool := forallb (fun v => v =? 0) (s_val s).

(* ------------------------------------------------------------------ combineHeaders *)
Definition vt_eqb (a b : valuetype) : bool :=
  String.eqb (vt_type a) (vt_type b) && String.eqb (vt_unit a) (vt_unit b).

Fixpoint vts_eqb (a b : list valuetype) : bool :=
  match a, b with
  | [], [] => true
  | x :: a', y :: b' => vt_eqb x y && vts_eqb a' b'
  | _, _ => false
  end.

Inductive cres := CompatOk | CompatErr | CompatPanic.

(* Profile.compatible: equalValueType dereferences both PeriodType pointers *)
Definition compatible (p pb : profile) : cres :=
  match p_periodtype p, p_periodtype pb with
  | Some a, Some b =>
      if vt_eqb a b && vts_eqb (p_sampletype p) (p_sampletype pb) then CompatOk else CompatErr
  | _, _ => CompatPanic
  end.

Fixpoint compat_all (p0 : profile) (rest : list profile) : cres :=
  match rest with
  | [] => CompatOk
  | p :: r => match compatible p0 p with CompatOk => compat_all p0 r | e => e end
  end.

Definition step_time (t : Z) (s : profile) : Z :=
  if negb (p_timenanos s =? 0) && ((t =? 0) || (p_timenanos s <? t)) then p_timenanos s else t.
Definition step_duration (d : Z) (s : profile) : Z := wrap_i64 (d + p_durationnanos s).
Definition step_period (pd : Z) (s : profile) : Z :=
  if (pd =? 0) || (pd <? p_period s) then p_period s else pd.
Definition add_comment (acc : list string) (c : string) : list string :=
  if existsb (String.eqb c) acc then acc else acc ++ [c].
Definition step_comments (acc : list string) (s : profile) : list string :=
  fold_left add_comment (p_comments s) acc.
Definition step_first_nonempty (get : profile -> string) (acc : string) (s : profile) : string :=
  if String.eqb acc "" then get s else acc.

Definition combine_headers (p0 : profile) (srcs : list profile) : profile :=
  {| p_sampletype := p_sampletype p0;
     p_defaultsampletype := fold_left (step_first_nonempty p_defaultsampletype) srcs "";
     p_sample := []; p_mapping := []; p_location := []; p_function := [];
     p_comments := fold_left step_comments srcs [];
     p_docurl := fold_left (step_first_nonempty p_docurl) srcs "";
     p_dropframes := p_dropframes p0; p_keepframes := p_keepframes p0;
     p_timenanos := fold_left step_time srcs 0;
     p_durationnanos := fold_left step_duration srcs 0;
     p_periodtype := p_periodtype p0;
     p_period := fold_left step_period srcs 0 |}.

(* ------------------------------------------------------------------ Merge *)
Definition merge_sample (src : profile) (st : profile) (s : sample) : profile :=
  if is_zero_sample s then st else map_sample st src s.

Definition eager_first_mapping (st src : profile) : profile :=
  match p_mapping st, p_mapping src with
  | [], m :: _ => fst (map_mapping_rec st m)
  | _, _ => st
  end.

Definition merge_src (st src : profile) : profile :=
  fold_left (merge_sample src) (p_sample src) (eager_first_mapping st src).

Inductive mres := MOk (p : profile) | MErr | MPanic | MFuel.

Definition merge_pass (srcs : list profile) : mres :=
  match srcs with
  | [] => MErr
  | p0 :: rest =>
      match compat_all p0 rest with
      | CompatOk => MOk (fold_left merge_src srcs (combine_headers p0 srcs))
      | CompatErr => MErr
      | CompatPanic => MPanic
      end
  end.

(* Merge re-merges its own result while it contains an all-zero sample.  L_Merge proves that the
   second pass never leaves one, i.e. [MFuel] is unreachable with fuel 1. *)
Fixpoint merge_fuel (n : nat) (srcs : list profile) : mres :=
  match merge_pass srcs with
  | MOk p =>
      if existsb is_zero_sample (p_sample p)
      then match n with O => MFuel | S n' => merge_fuel n' [p] end
      else MOk p
  | r => r
  end.

Definition merge (srcs : list profile) : mres := merge_fuel 2 srcs.
Definition compact (p : profile) : mres := merge [p].

(* ------------------------------------------------------------------ sampleKey, byte for byte *)
(* binary.PutUvarint *)
Fixpoint uvarint_fuel (n : nat) (v : Z) : list Z :=
  match n with
  | O => [v mod 128]
  | S n' => if v <? 128 then [v] else (v mod 128 + 128) :: uvarint_fuel n' (v / 128)
  end.
Definition uvarint (v : Z) : list Z := uvarint_fuel 10 v.
Definition put_string (s : string) : list Z :=
  (uvarint (Z.of_nat (String.length s)) ++ bytes_of_string s)%list.

Definition skey_bytes (k : skey) : list Z :=
  let '(locs, labels, nums) := k in
  (flat_map uvarint locs ++ uvarint 0 ++
  uvarint (Z.of_nat (List.length labels)) ++
  flat_map (fun e => put_string (fst e) ++ uvarint (Z.of_nat (List.length (snd e))) ++ flat_map put_string (snd e)) labels ++
  uvarint (Z.of_nat (List.length nums)) ++
  flat_map (fun e : numlabel_entry =>
              let '(key, vals, units) := e in
              put_string key ++ uvarint (Z.of_nat (List.length vals)) ++ flat_map (fun v => uvarint (wrap_u64 v)) vals ++
              uvarint (Z.of_nat (List.length units)) ++ flat_map put_string units) nums)%list.

(* ------------------------------------------------------------------ locationKey.lines, byte for byte *)
(* strconv.FormatUint(v, 16) / FormatInt(v, 16), strings.Join(slots, "|"): three slots per line, the
   first one empty for a nil function.  [lkey] above keeps the slots as numbers; this is the string
   the Go code builds from them, compared with the real one by the harness. *)
Definition hex_digit (d : Z) : Ascii.ascii :=
  nth (Z.to_nat d) (list_ascii_of_string "0123456789abcdef") "0"%char.
Fixpoint hex_fuel (n : nat) (v : Z) (acc : string) : string :=
  match n with
  | O => acc
  | S n' => if v =? 0 then acc else hex_fuel n' (v / 16) (String (hex_digit (v mod 16)) acc)
  end.
Definition format_uint16 (v : Z) : string := if v =? 0 then "0" else hex_fuel 17 v "".
Definition format_int16 (v : Z) : string :=
  if v <? 0 then ("-" ++ format_uint16 (- v))%string else format_uint16 v.
Definition lines_key (slots : list (Z * Z * Z)) : string :=
  concat_with "|" (flat_map (fun x : Z * Z * Z =>
                               let '(f, l, c) := x in
                               [if f =? 0 then "" else format_uint16 f; format_int16 l; format_int16 c]) slots).
