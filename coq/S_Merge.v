(* Specification of C03 (merging conserves every stack's weight and symbol information), written
   over the DATA of profiles only: what a frame is, what a stack and a label set are, the weight of
   a (stack, label set) in a profile, and the documented header rules.  Ids never occur in an
   identity.  Decidable checkers of every clause are at the end; they are evaluated on the
   implementation's output by R_C03.  No proofs here. *)
From Coq Require Import List ZArith String Bool.
From PV Require Export M_Merge.
Import ListNotations.
Open Scope string_scope.
Open Scope Z_scope.

(* ------------------------------------------------------------------ identities *)
(* function: name, system name, file, start line; binary: what Mapping.key documents as "the same
   binary under address-space randomisation" (page-rounded size, file offset, build id or else file
   name).  These two coincide with the code's key structs; everything above them does not. *)
Definition fn_ident := fkey.
Definition bin_ident := mkey.
Definition line_ident := (option fn_ident * Z * Z)%type.                       (* function, line, column *)
Definition frame_ident := (option bin_ident * Z * list line_ident * bool)%type. (* binary, address relative to the mapping, inline nesting, folded *)
Definition stack_ident := list frame_ident.
Definition labels_ident := (list (string * list string) * list numlabel_entry)%type.
Definition sample_ident := (stack_ident * labels_ident)%type.

Definition line_ident_of_slots (p : profile) (x : Z * Z * Z) : line_ident :=
  let '(f, l, c) := x in (option_map fkey_of (lookup_fn p f), l, c).
Definition line_ident_of (p : profile) (ln : line) : line_ident := line_ident_of_slots p (line_slots ln).

Definition frame_ident_of (p : profile) (l : location) : frame_ident :=
  (option_map mkey_of (lookup_map p (l_mapping l)),
   wrap_u64 (l_addr l - start_of p (l_mapping l)),
   map (line_ident_of p) (l_lines l),
   l_folded l).

(* a nil (or dangling) location pointer is no frame; valid profiles have none *)
Definition frames_of_id (p : profile) (id : Z) : list frame_ident :=
  match lookup_loc p id with Some l => [frame_ident_of p l] | None => [] end.
Definition stack_ident_of (p : profile) (ids : list Z) : stack_ident := flat_map (frames_of_id p) ids.

Definition labels_ident_of (s : sample) : labels_ident := (s_label s, numlabels_with_units s).
Definition sample_ident_of (p : profile) (s : sample) : sample_ident :=
  (stack_ident_of p (s_loc s), labels_ident_of s).

Definition sample_ident_dec (a b : sample_ident) : {a = b} + {a <> b}.
Proof. repeat decide equality. Defined.
Definition sid_eqb (a b : sample_ident) : bool := if sample_ident_dec a b then true else false.

(* ------------------------------------------------------------------ weights *)
Definition sumZ (l : list Z) : Z := fold_right Z.add 0 l.

(* weight of identity [k] in sample-type column [j] over a list of samples of profile [p] *)
Definition wt_list (p : profile) (l : list sample) (k : sample_ident) (j : nat) : Z :=
  sumZ (map (fun s => if sid_eqb (sample_ident_of p s) k then nth j (s_val s) 0 else 0) l).
Definition wt (p : profile) (k : sample_ident) (j : nat) : Z := wt_list p (p_sample p) k j.

(* int64 arithmetic: equal as Go int64 values *)
Definition eq64 (a b : Z) : Prop := wrap_i64 a = wrap_i64 b.

(* per-type totals *)
Definition total (p : profile) (j : nat) : Z := sumZ (map (fun s => nth j (s_val s) 0) (p_sample p)).

(* ------------------------------------------------------------------ header rules, as documented *)
Fixpoint min_list (x : Z) (l : list Z) : Z :=
  match l with [] => x | y :: r => min_list (Z.min x y) r end.
(* earliest non-zero collection time, 0 when there is none *)
Definition spec_time (ts : list Z) : Z :=
  match filter (fun t => negb (t =? 0)) ts with [] => 0 | x :: r => min_list x r end.
Definition spec_period (ps : list Z) : Z := fold_right Z.max 0 ps.
Definition spec_duration (ds : list Z) : Z := wrap_i64 (sumZ ds).
(* de-duplicated union in order of first occurrence *)
Fixpoint dedup (l : list string) : list string :=
  match l with
  | [] => []
  | x :: r => x :: filter (fun y => negb (String.eqb y x)) (dedup r)
  end.
Definition spec_comments (cs : list (list string)) : list string := dedup (List.concat cs).
Definition first_nonempty (l : list string) : string :=
  match filter (fun s => negb (String.eqb s "")) l with [] => "" | x :: _ => x end.

(* Known finding F25: "period is the maximum" fails when a negative period is present (the code
   treats 0 as "unset": periods [0; -5] give -5).  The class: some input has a negative period. *)
Definition in_F25 (ps : list profile) : bool := existsb (fun p => p_period p <? 0) ps.

(* ------------------------------------------------------------------ validity (Profile.CheckValid) *)
Fixpoint nodupZ (l : list Z) : bool :=
  match l with [] => true | a :: r => negb (existsb (Z.eqb a) r) && nodupZ r end.

Definition valid_b (p : profile) : bool :=
  let nst := List.length (p_sampletype p) in
  (negb (Nat.eqb nst 0) || match p_sample p with [] => true | _ => false end) &&
  forallb (fun s => Nat.eqb (List.length (s_val s)) nst &&
                    forallb (fun id => match lookup_loc p id with Some _ => true | None => false end) (s_loc s))
          (p_sample p) &&
  forallb (fun m => negb (m_id m =? 0)) (p_mapping p) && nodupZ (map m_id (p_mapping p)) &&
  forallb (fun f => negb (f_id f =? 0)) (p_function p) && nodupZ (map f_id (p_function p)) &&
  forallb (fun l => negb (l_id l =? 0)) (p_location p) && nodupZ (map l_id (p_location p)) &&
  forallb (fun l => ((l_mapping l =? 0) || match lookup_map p (l_mapping l) with Some _ => true | None => false end) &&
                    forallb (fun ln => match lookup_fn p (ln_fn ln) with Some _ => true | None => false end) (l_lines l))
          (p_location p).

(* ------------------------------------------------------------------ decidable checkers *)
Definition idents (p : profile) : list sample_ident := map (sample_ident_of p) (p_sample p).

Fixpoint nodup_sid (l : list sample_ident) : bool :=
  match l with [] => true | a :: r => negb (existsb (sid_eqb a) r) && nodup_sid r end.

(* the checkers compute every sample's identity once *)
Definition tagged (p : profile) : list (sample_ident * list Z) :=
  map (fun s => (sample_ident_of p s, s_val s)) (p_sample p).
Definition sel (t : list (sample_ident * list Z)) (k : sample_ident) : list (list Z) :=
  map snd (filter (fun e => sid_eqb (fst e) k) t).
Definition col (j : nat) (vs : list (list Z)) : Z := sumZ (map (fun v => nth j v 0) vs).

(* every identity that occurs anywhere has, in every column, the int64 sum of the inputs *)
Definition conserves_b (ps : list profile) (q : profile) : bool :=
  let cols := seq 0 (List.length (p_sampletype q)) in
  let tq := tagged q in
  let tps := map tagged ps in
  forallb (fun k =>
             let vq := sel tq k in
             let vps := flat_map (fun t => sel t k) tps in
             forallb (fun j => wrap_i64 (col j vq) =? wrap_i64 (col j vps)) cols)
          (map fst tq ++ flat_map (map fst) tps).

(* one sample per identity, none of them all-zero: stacks that sum to zero are gone, nothing is
   duplicated *)
Definition support_b (q : profile) : bool :=
  nodup_sid (idents q) && negb (existsb is_zero_sample (p_sample q)) &&
  forallb (fun s => forallb in_i64 (s_val s)) (p_sample q).

Definition totals_b (ps : list profile) (q : profile) : bool :=
  forallb (fun j => wrap_i64 (total q j) =? wrap_i64 (sumZ (map (fun p => total p j) ps)))
          (seq 0 (List.length (p_sampletype q))).

Definition strs_eqb (a b : list string) : bool :=
  if list_eq_dec string_dec a b then true else false.

Definition opt_vt_eqb (a b : option valuetype) : bool :=
  match a, b with Some x, Some y => vt_eqb x y | None, None => true | _, _ => false end.

Definition headers_b (ps : list profile) (q : profile) : bool :=
  match ps with
  | [] => false
  | p0 :: _ =>
      (p_timenanos q =? spec_time (map p_timenanos ps)) &&
      (p_durationnanos q =? spec_duration (map p_durationnanos ps)) &&
      (p_period q =? spec_period (map p_period ps)) &&
      strs_eqb (p_comments q) (spec_comments (map p_comments ps)) &&
      String.eqb (p_defaultsampletype q) (first_nonempty (map p_defaultsampletype ps)) &&
      String.eqb (p_docurl q) (first_nonempty (map p_docurl ps)) &&
      String.eqb (p_dropframes q) (p_dropframes p0) && String.eqb (p_keepframes q) (p_keepframes p0) &&
      vts_eqb (p_sampletype q) (p_sampletype p0) && opt_vt_eqb (p_periodtype q) (p_periodtype p0)
  end.

(* same weights in two results (order independence): every identity of either has equal columns *)
Definition same_weights_b (q q' : profile) : bool :=
  let cols := seq 0 (List.length (p_sampletype q)) in
  let tq := tagged q in
  let tq' := tagged q' in
  Nat.eqb (List.length (p_sampletype q)) (List.length (p_sampletype q')) &&
  forallb (fun k =>
             let v := sel tq k in
             let v' := sel tq' k in
             forallb (fun j => wrap_i64 (col j v) =? wrap_i64 (col j v')) cols)
          (map fst tq ++ map fst tq').
