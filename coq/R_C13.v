(* Case runner for C13: decodes harness cases, runs the model of M_Elf, judges the implementation
   with the checkers of S_Elf. *)
From PV Require Import M_Elf S_Elf M_ElfGlue S_ElfGlue.
Open Scope Z_scope.

Definition phdr_of (t : term) : phdr :=
  {| ph_type := gz (gn t 0); ph_flags := gz (gn t 1); ph_off := gz (gn t 2); ph_vaddr := gz (gn t 3);
     ph_filesz := gz (gn t 4); ph_memsz := gz (gn t 5) |}.
Definition of_phdr (p : phdr) : term :=
  TL [TZ (ph_type p); TZ (ph_flags p); TZ (ph_off p); TZ (ph_vaddr p); TZ (ph_filesz p); TZ (ph_memsz p)].
Definition optz_of (t : term) : option Z := match gl t with [x] => Some (gz x) | _ => None end.
Definition optphdr_of (t : term) : option phdr := match gl t with [x] => Some (phdr_of x) | _ => None end.
Definition of_res (r : res Z) : term :=
  match r with Ok v => TL [TS "ok"; TZ v] | Err e => TL [TS "err"; TZ e] end.
Definition res_of (t : term) : res Z :=
  if String.eqb (gs (gn t 0)) "ok" then Ok (gz (gn t 1)) else Err (gz (gn t 1)).
Definition elf_of (t : term) : elf :=
  {| e_type := gz (gn t 0); e_progs := map phdr_of (gl (gn t 1));
     e_sections := map (fun s => (gs (gn s 0), gz (gn s 1))) (gl (gn t 2)) |}.
Definition emap_of (t : term) : emap :=
  {| em_start := gz (gn t 0); em_limit := gz (gn t 1); em_offset := gz (gn t 2); em_koff := optz_of (gn t 3) |}.
Definition optemap_of (t : term) : option emap := match gl t with [x] => Some (emap_of x) | _ => None end.
Definition sym_of (t : term) : sym :=
  {| sy_addr := gz (gn t 0); sy_size := gz (gn t 1); sy_name := gs (gn t 2); sy_type := gs (gn t 3) |}.
Definition of_optname (o : option string) : term := match o with Some n => TL [TS n] | None => TL [] end.
Definition optname_of (t : term) : option string := match gl t with [x] => Some (gs x) | _ => None end.

(* ---- sessions ---- *)
Definition sev_of (t : term) : sev :=
  let k := gs (gn t 0) in
  if String.eqb k "open" then SOpen (Z.to_nat (gz (gn t 1))) (gz (gn t 2)) (gz (gn t 3)) (gz (gn t 4))
  else if String.eqb k "addr" then SAddr (Z.to_nat (gz (gn t 1))) (gz (gn t 2))
  else SNop.
Definition of_sobs (o : sobs) : term :=
  match o with
  | OOpen None => TL [TS "ok"]
  | OOpen (Some c) => TL [TS "err"; TZ c]
  | OAddr r => of_res r
  | ONone => TL []
  | OBad => TL [TS "bad-handle"]
  end.
Definition sobs_of (e : sev) (t : term) : sobs :=
  match e with
  | SOpen _ _ _ _ => if String.eqb (gs (gn t 0)) "ok" then OOpen None else OOpen (Some (gz (gn t 1)))
  | SAddr _ _ => OAddr (res_of t)
  | SNop => ONone
  end.
Fixpoint sobs_list (evs : list sev) (ts : list term) : list sobs :=
  match evs, ts with
  | e :: r, t :: rt => sobs_of e t :: sobs_list r rt
  | _, _ => []
  end.
Definition is_open (t : term) : bool := String.eqb (gs (gn t 0)) "open".
Definition open_emap (t : term) : emap :=
  {| em_start := gz (gn t 2); em_limit := gz (gn t 3); em_offset := gz (gn t 4); em_koff := None |}.
(* (handle, open event, its observable) for every Open of the history *)
Fixpoint opens_with_obs (h : nat) (evts obs : list term) : list (nat * term * term) :=
  match evts, obs with
  | e :: r, o :: ro => if is_open e then (h, e, o) :: opens_with_obs (S h) r ro else opens_with_obs h r ro
  | _, _ => []
  end.

Definition spec_session (i o : term) : bool :=
  let files := map elf_of (gl (gn i 1)) in
  let evts := gl (gn i 2) in
  let evs := map sev_of evts in
  let os := sobs_list evs (gl o) in
  (List.length evts =? List.length (gl o))%nat &&
  forallb (fun x =>
    let '(h, e, ob) := x in
    let bias := gz (gn e 5) in
    let ef := nth (Z.to_nat (gz (gn e 1))) files elf0 in
    let m := open_emap e in
    if 0 <=? bias then
      (* a loader-made mapping of a user-space object can always be opened ... *)
      (if user_elfb ef && (0 <? em_start m) && (em_start m <? two63) then String.eqb (gs (gn ob 0)) "ok" else true) &&
      (* ... and the object translates by its own bias, whatever the rest of the history is *)
      spec_handle ef bias m (addrs_of h evs) (answers_of h evs os)
    else true) (opens_with_obs 0 evts (gl o)).

Definition cls_session (i : term) : list Z :=
  let files := map elf_of (gl (gn i 1)) in
  let evts := gl (gn i 2) in
  let evs := map sev_of evts in
  if existsb (fun x =>
       let '(h, e, _) := x in
       let bias := gz (gn e 5) in
       (0 <=? bias) &&
       match addrs_of h evs with
       | a0 :: _ => any_F23 (nth (Z.to_nat (gz (gn e 1))) files elf0) bias (open_emap e) a0
       | [] => false
       end) (opens_with_obs 0 evts evts)
  then [23] else [].

(* ---- conversations with a simulated tool ---- *)
Definition conv_entry (tab : list term) (x : Z) : list term :=
  match find (fun e => gz (gn e 0) =? x) tab with Some e => gl (gn e 1) | None => [] end.
Definition conv_a2l_tool (tab : list term) : a2l_tool :=
  fun x => map (fun f => (gs (gn f 0), gs (gn f 1))) (conv_entry tab x).
Definition conv_llvm_tool (tab : list term) : llvm_tool :=
  fun x => map (fun f => {| fr_func := gs (gn f 0); fr_file := gs (gn f 1); fr_line := gz (gn f 2) |}) (conv_entry tab x).
Definition of_frame (f : frame) : term := TL [TS (fr_func f); TS (fr_file f); TZ (fr_line f)].
Definition frame_of (t : term) : frame := {| fr_func := gs (gn t 0); fr_file := gs (gn t 1); fr_line := gz (gn t 2) |}.
Definition of_conv_res (r : res (list frame)) : term :=
  match r with Ok st => TL [TS "ok"; TL (map of_frame st)] | Err _ => TL [TS "err"] end.
Definition conv_res_of (t : term) : res (list frame) :=
  if String.eqb (gs (gn t 0)) "ok" then Ok (map frame_of (gl (gn t 1))) else Err E_TOOL.
Definition conv_nm (i : term) : option (list sym) :=
  if gb (gn i 5) then Some (shift_syms (gz (gn i 2)) (map sym_of (gl (gn i 4)))) else None.

Definition run_conv (i : term) : term :=
  let base := gz (gn i 2) in
  let tab := gl (gn i 3) in
  let addrs := gzs (gn i 6) in
  if String.eqb (gs (gn i 1)) "a2l" then
    let '(rs, p) := a2l_conversation (conv_a2l_tool tab) base (conv_nm i) [] addrs in
    TL [TL (map of_conv_res rs); TZ (Z.of_nat (List.length p))]
  else
    let '(rs, p) := llvm_conversation (conv_llvm_tool tab) base [] addrs in
    TL [TL (map of_conv_res rs); TZ (Z.of_nat (List.length p))].

Definition spec_conv_case (i o : term) : bool :=
  let base := gz (gn i 2) in
  let tab := gl (gn i 3) in
  let addrs := gzs (gn i 6) in
  let rs := map conv_res_of (gl (gn o 0)) in
  (gz (gn o 1) =? 0) &&     (* nothing of the conversation is left unread in the pipe *)
  if String.eqb (gs (gn i 1)) "a2l" then spec_conv (conv_a2l_tool tab) base (conv_nm i) addrs rs
  else spec_conv_llvm (conv_llvm_tool tab) base addrs rs.

(* ---- end-to-end worlds ---- *)
Definition gfile_of (t : term) : gfile :=
  {| gf_elf := elf_of (gn t 1); gf_syms := map sym_of (gl (gn t 2)); gf_buildid := gs (gn t 3) |}.
Definition gmapping_of (t : term) : gmapping :=
  {| gm_start := gz (gn t 0); gm_limit := gz (gn t 1); gm_offset := gz (gn t 2); gm_buildid := gs (gn t 3);
     gm_rec := gz (gn t 4); gm_cands := gzs (gn t 5); gm_truth := gz (gn t 6); gm_bias := gz (gn t 7); gm_fkind := gz (gn t 8) |}.
Definition gprofile_of (t : term) : gprofile :=
  {| gp_scale := gz (gn t 0); gp_maps := map gmapping_of (gl (gn t 1));
     gp_samples := map (fun s => (map (fun f => (Z.to_nat (gz (gn f 0)), gz (gn f 1))) (gl (gn s 0)), gz (gn s 1))) (gl (gn t 2)) |}.
(* pprof merges the sources first, then the diff base *)
Definition e2e_order (ps : list gprofile) : list gprofile :=
  (filter (fun p => 0 <=? gp_scale p) ps ++ filter (fun p => gp_scale p <? 0) ps)%list.
Definition of_agg (l : list (string * Z)) : term := TL (map (fun kv => TL [TS (fst kv); TZ (snd kv)]) l).
Definition agg_of (t : term) : list (string * Z) := map (fun kv => (gs (gn kv 0), gz (gn kv 1))) (gl t).
(* what each entry point shows of the named samples *)
Definition e2e_views (format : string) (ns : list (list string * Z)) : list (list (string * Z)) :=
  if String.eqb format "top" then [report_flat ns]
  else if String.eqb format "interactive" then [report_flat ns; report_stacks ns; report_flat ns; report_stacks ns]
  else if String.eqb format "web" then [report_flat ns; report_flat ns; report_flat ns]
  else [report_stacks ns].
(* a legacy profile's map entries first go through massageMappings / remapMappingIDs *)
Definition gprofile_model_of (t : term) : gprofile :=
  if gb (gn t 3) then legacy_profile (gprofile_of t) else gprofile_of t.
Definition run_e2e (i : term) : term :=
  let files := map gfile_of (gl (gn i 1)) in
  let ps := e2e_order (map gprofile_model_of (gl (gn i 2))) in
  TL (TS "ok" :: map of_agg (e2e_views (gs (gn i 4)) (named_samples files ps))).
Fixpoint views_eqb (a : list (list (string * Z))) (b : list term) : bool :=
  match a, b with
  | [], [] => true
  | x :: a', y :: b' => agg_eqb x (agg_of y) && views_eqb a' b'
  | _, _ => false
  end.
Definition spec_e2e (i o : term) : bool :=
  let files := map gfile_of (gl (gn i 1)) in
  let ps := e2e_order (map gprofile_of (gl (gn i 2))) in
  negb (world_in_scope files ps) ||
  (String.eqb (gs (gn o 0)) "ok" &&
   views_eqb (e2e_views (gs (gn i 4)) (truth_samples files ps)) (tl (gl o))).

Definition run_C13 (i : term) : term :=
  let op := gs (gn i 0) in
  if String.eqb op "getbase" then
    of_res (get_base (gz (gn i 1)) (optphdr_of (gn i 2)) (optz_of (gn i 3)) (gz (gn i 4)) (gz (gn i 5)) (gz (gn i 6)))
  else if String.eqb op "phm" then
    TL (map of_phdr (program_headers_for_mapping (map phdr_of (gl (gn i 1))) (gz (gn i 2)) (gz (gn i 3))))
  else if String.eqb op "hffo" then
    match header_for_file_offset (map phdr_of (gl (gn i 1))) (gz (gn i 2)) with
    | Ok h => TL [TS "ok"; of_phdr h]
    | Err e => TL [TS "err"; TZ e]
    end
  else if String.eqb op "objaddr" then
    let ef := elf_of (gn i 1) in
    let m := optemap_of (gn i 2) in
    let ok := gb (gn i 3) in
    let addrs := gzs (gn i 4) in
    let st := match addrs with a0 :: _ => compute_base m ok ef a0 | [] => Ok (0, false) end in
    TL [TL (map of_res (obj_addr_seq m ok ef addrs));
        match st with Ok (b, d) => TL [TZ b; of_bool d] | Err _ => TL [TZ 0; of_bool false] end]
  else if String.eqb op "nm" then
    let tab := shift_syms (gz (gn i 1)) (map sym_of (gl (gn i 2))) in
    TL (map (fun a => of_optname (addr_info tab a)) (gzs (gn i 3)))
  else if String.eqb op "maps" then TL []
  else if String.eqb op "conv" then run_conv i
  else if String.eqb op "e2e" then run_e2e i
  else if String.eqb op "realsym" then TL (map (fun q => TS (gs (gn q 1))) (gl (gn i 2)))
  else if String.eqb op "session" then
    TL (map of_sobs (session_run (map elf_of (gl (gn i 1))) (map sev_of (gl (gn i 2)))))
  else if String.eqb op "a2lnm" then
    let base := gz (gn i 1) in
    let nm := if gb (gn i 3) then Some (shift_syms base (map sym_of (gl (gn i 2)))) else None in
    of_ss (a2l_addr_info base nm (gz (gn i 4)) (gss (gn i 5)))
  else if String.eqb op "tooladdr" then
    let v := tool_addr (gz (gn i 1)) (gz (gn i 2)) in TL [TZ v; TZ v; TZ v]
  else TL [TS "unknown-op"].

(* objaddr cases produced by the loader-driven generators carry the load bias (-1 = none) *)
Definition case_bias (i : term) : Z := gz (gn i 5).
Definition case_emap (i : term) : emap :=
  match optemap_of (gn i 2) with Some m => m | None => {| em_start := 0; em_limit := 0; em_offset := 0; em_koff := None |} end.

Definition cls_C13 (i : term) : list Z :=
  if String.eqb (gs (gn i 0)) "objaddr" && (0 <=? case_bias i) && gb (gn i 3) then
    match gzs (gn i 4) with
    | a0 :: _ => if any_F23 (elf_of (gn i 1)) (case_bias i) (case_emap i) a0 then [23] else []
    | [] => []
    end
  else if String.eqb (gs (gn i 0)) "session" then cls_session i
  else [].

Definition spec_C13 (i o : term) : bool :=
  let op := gs (gn i 0) in
  if String.eqb op "objaddr" then
    if (0 <=? case_bias i) && gb (gn i 3) then
      let ef := elf_of (gn i 1) in
      let addrs := gzs (gn i 4) in
      let rs := map res_of (gl (gn o 0)) in
      spec_obj_addr_seq ef (case_bias i) (case_emap i) addrs rs &&
      match addrs, rs with
      | a0 :: _, r0 :: _ => spec_obj_addr_live ef (case_bias i) (case_emap i) a0 r0
      | _, _ => true
      end
    else true
  else if String.eqb op "nm" then
    let tab := shift_syms (gz (gn i 1)) (map sym_of (gl (gn i 2))) in
    let addrs := gzs (gn i 3) in
    (List.length addrs =? List.length (gl o))%nat &&
    forallb (fun ar => spec_addr_info tab (fst ar) (optname_of (snd ar))) (combine addrs (gl o))
  else if String.eqb op "session" then spec_session i o
  else if String.eqb op "conv" then spec_conv_case i o
  else if String.eqb op "e2e" then spec_e2e i o
  else if String.eqb op "realsym" then
    (* real tools, real binary: the function reported for the address of main / hot is main / hot at
       every position of the conversation ("" = an address without symbol, answer not judged) *)
    strs_eqb (gss o) (map (fun q => gs (gn q 1)) (gl (gn i 2)))
  else if String.eqb op "a2lnm" then
    if gb (gn i 3) then spec_a2l_fixup (shift_syms (gz (gn i 1)) (map sym_of (gl (gn i 2)))) (gz (gn i 4)) (gss (gn i 5)) (gss o)
    else strs_eqb (gss o) (gss (gn i 5))
  else if String.eqb op "tooladdr" then
    let base := gz (gn i 1) in let a := gz (gn i 2) in
    if (0 <=? base) && (base <=? a) && (a <? two64)
    then forallb (fun t => gz t =? a - base) (gl o) && (List.length (gl o) =? 3)%nat else true
  else if String.eqb op "maps" then
    (* a file-backed line of /proc/self/maps of a real process: it must be a piece of the image the
       loader model predicts for one of the segments (validates S_Elf against the kernel) *)
    let ef := elf_of (gn i 1) in
    let bias := gz (gn i 3) in
    existsb (fun p => loadable p && seg_okb p && load_okb p bias && pieceb (case_emap i) (image p bias)) (e_progs ef)
  else true.

Definition judge_C13 := judge_all run_C13 eqv_exact spec_C13 cls_C13 0%Z.
