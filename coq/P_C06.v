From PV Require Import M_Filter S_Filter.
