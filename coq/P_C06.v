(* Property C06: sample filters keep exactly the documented samples, values untouched.
   Statements only; proofs are in L_Filter.v.  M is ANY match predicate (regexp engine abstract).
   A sample is compared as a FRAME SAMPLE (values, labels, expanded frames leaf first), so every
   equation below also says: kept samples retain their values, labels and relative frame order,
   whatever in-place surgery was done on locations shared between samples. *)
From Coq Require Import Permutation.
From PV Require Import M_Filter M_Prune M_TagFilter S_Filter S_Prune S_TagFilter L_FilterBase L_Filter L_Prune M_Driver L_Driver.
Open Scope Z_scope.
Open Scope string_scope.

(* focus / ignore / hide / show in any combination: the samples kept are exactly those with a frame
   matching focus and none matching ignore that still have a visible frame; of each kept sample
   exactly the frames matching hide or not matching show are removed.  Outside F16 and F24. *)
Theorem name_filter_meets_spec : forall M p focus ignore hide show,
  wf_profile p = true ->
  in_F16 p focus ignore hide show = false -> in_F24 M p show = false ->
  fsamples (fst (filter_samples_by_name M p focus ignore hide show))
  = spec_name M p focus ignore hide show (fsamples p).
Proof. intros M p fo ig hi sh Hwf. exact (name_filter_meets_spec_l M p Hwf fo ig hi sh). Qed.
Print Assumptions name_filter_meets_spec.

(* focus keeps precisely the samples having at least one matching frame (unconditional) *)
Theorem focus_exact : forall M p R, wf_profile p = true ->
  fsamples (fst (filter_samples_by_name M p (Some R) None None None)) = filter (has_match M p R) (fsamples p).
Proof. exact focus_exact_l. Qed.
Print Assumptions focus_exact.

(* ignore drops precisely those having one -- when no sample has an empty stack (F16) *)
Theorem ignore_exact : forall M p R, wf_profile p = true ->
  existsb (fun s => is_nil (s_loc s)) (p_sample p) = false ->
  fsamples (fst (filter_samples_by_name M p None (Some R) None None))
  = filter (fun s => negb (has_match M p R s)) (fsamples p).
Proof. exact ignore_exact_l. Qed.
Print Assumptions ignore_exact.

(* for any expression R the focus=R and ignore=R results partition the profile and their totals
   (every value column, exact integers) add up to the unfiltered total *)
Theorem focus_ignore_partition : forall M p R, wf_profile p = true ->
  existsb (fun s => is_nil (s_loc s)) (p_sample p) = false ->
  let A := fsamples (fst (filter_samples_by_name M p (Some R) None None None)) in
  let B := fsamples (fst (filter_samples_by_name M p None (Some R) None None)) in
  Permutation (A ++ B) (fsamples p) /\ forall k, total k A + total k B = total k (fsamples p).
Proof. exact focus_ignore_partition_l. Qed.
Print Assumptions focus_ignore_partition.

(* show_from keeps the highest matching frame and everything leaf-side of it; a sample without a
   match is dropped.  Outside F25. *)
Theorem show_from_meets_spec : forall M p re, wf_profile p = true ->
  in_F25 M p (Some re) = false ->
  fsamples (fst (show_from M p (Some re))) = spec_show_from M p (Some re) (fsamples p).
Proof. exact show_from_meets_spec_l. Qed.
Print Assumptions show_from_meets_spec.

Theorem show_from_nil_identity : forall M p, show_from M p None = (p, false).
Proof. reflexivity. Qed.
Print Assumptions show_from_nil_identity.

(* tagshow / taghide remove only the labels they describe: frames, values, units untouched *)
Theorem tagshow_taghide_exact : forall M p show hide,
  fsamples (fst (filter_tags_by_name M p show hide)) = spec_tags_by_name M show hide (fsamples p).
Proof. exact tags_by_name_meets_spec_l. Qed.
Print Assumptions tagshow_taghide_exact.

(* tagfocus / tagignore select samples by a label predicate and change nothing else *)
Theorem tagfocus_tagignore_exact : forall p focus ignore,
  match focus with Some f => label_pred p f | None => True end ->
  match ignore with Some f => label_pred p f | None => True end ->
  fsamples (fst (filter_samples_by_tag p focus ignore)) = spec_tag focus ignore (fsamples p).
Proof. exact tag_filter_meets_spec_l. Qed.
Print Assumptions tagfocus_tagignore_exact.

(* Not proved (fallback ladder of DESIGN 5.22): that apply_focus is the COMPOSITION of the stage
   rules (name filters, show_from, tag filters, tagshow/taghide, prune_from, in this order) and the
   grammar of compile_tag_filter.  The statement is kept here in full; it is tied to the
   implementation by the correspondence cases and judged on every case by the evaluated checker
   (R_C06.spec_C06 evaluates spec_apply_focus on the implementation's output). *)
Definition full_statement_apply_focus : Prop :=
  forall M V uts p units c p' msgs,
    wf_profile p = true ->
    apply_focus M V uts p units c = ("", p', msgs) ->
    in_F16 p (opt_rx (c_focus c)) (opt_rx (c_ignore c)) (opt_rx (c_hide c)) (opt_rx (c_show c)) = false ->
    in_F24 M p (opt_rx (c_show c)) = false ->
    in_F25 M (fst (af_stages M V uts p units c)) (opt_rx (c_showfrom c)) = false ->
    match opt_rx (c_prunefrom c) with
    | Some re => in_F15 M (snd (af_stages M V uts p units c)) re = false
    | None => True
    end ->
    fsamples p' = spec_apply_focus M V uts p units c.

(* ---- the glue of the driver (model M_Driver, tied to driver.PProf / sessions / web by the e2e cases) *)

(* tagroot / tagleaf only add frames: number of samples, values and labels are untouched *)
Theorem tag_roots_keep_samples : forall p rootkeys leafkeys,
  map payload (p_sample (add_label_nodes p rootkeys leafkeys)) = map payload (p_sample p).
Proof. exact add_label_nodes_payload. Qed.
Print Assumptions tag_roots_keep_samples.

(* the filters of a report run on the profile that already has its tag roots / leaves, whatever
   relative_percentages says, and every report starts from the profile it is given (no state) *)
Theorem report_filters_after_tag_roots : forall M V uts p units rc,
  report_model M V uts p units rc
  = (fst (fst (apply_focus M V uts (with_label_nodes p rc) units (rc_cfg rc))),
     snd (fst (apply_focus M V uts (with_label_nodes p rc) units (rc_cfg rc)))).
Proof.
  intros. unfold report_model. destruct (apply_focus M V uts (with_label_nodes p rc) units (rc_cfg rc)) as [[e q] m].
  reflexivity.
Qed.
Print Assumptions report_filters_after_tag_roots.

(* ---------------------------------------------------------------- witnesses *)
Definition Meq (rx s : string) : bool := String.eqb rx s.
Definition mkf (id : Z) (n : string) : function :=
  {| f_id := id; f_name := n; f_sysname := n; f_file := "a.go"; f_startline := 0 |}.
Definition mkl (id mp : Z) (fns : list Z) : location :=
  {| l_id := id; l_mapping := mp; l_addr := id;
     l_lines := map (fun f => {| ln_fn := f; ln_line := 1; ln_col := 0 |}) fns; l_folded := false |}.
Definition mks (v : Z) (locs : list Z) : sample :=
  {| s_loc := locs; s_val := [v]; s_label := []; s_numlabel := []; s_numunit := [] |}.
Definition map1 : mapping :=
  {| m_id := 1; m_start := 4096; m_limit := 8192; m_offset := 0; m_file := "app"; m_buildid := "";
     m_hasfn := false; m_hasfile := false; m_hasline := false; m_hasinline := false |}.
Definition mkp (ls : list location) (ss : list sample) : profile :=
  {| p_sampletype := [{| vt_type := "samples"; vt_unit := "count" |}]; p_defaultsampletype := "";
     p_sample := ss; p_mapping := [map1]; p_location := ls;
     p_function := [mkf 1 "main"; mkf 2 "foo"; mkf 3 "bar"]; p_comments := [];
     p_docurl := ""; p_dropframes := ""; p_keepframes := ""; p_timenanos := 0; p_durationnanos := 0;
     p_periodtype := None; p_period := 0 |}.

(* F16: samples [main]=1 and []=10; ignore=foo keeps only the first: 0 + 1 <> 11 *)
Definition w16 := mkp [mkl 1 1 [1]] [mks 1 [1]; mks 10 []].
Theorem focus_ignore_partition_refuted : exists M p R,
  wf_profile p = true /\ in_F16 p None (Some R) None None = true
  /\ total 0 (fsamples (fst (filter_samples_by_name M p (Some R) None None None)))
     + total 0 (fsamples (fst (filter_samples_by_name M p None (Some R) None None)))
     <> total 0 (fsamples p).
Proof. exists Meq, w16, "foo". vm_compute. repeat split; discriminate. Qed.
Print Assumptions focus_ignore_partition_refuted.

(* F24: an unsymbolized location in "app"; show=app removes it *)
Definition w24 := mkp [mkl 1 1 []] [mks 1 [1]].
Theorem name_filter_meets_spec_refuted : exists M p show,
  wf_profile p = true /\ in_F24 M p show = true
  /\ fsamples_eqb (fsamples (fst (filter_samples_by_name M p None None None show)))
                  (spec_name M p None None None show (fsamples p)) = false.
Proof. exists Meq, w24, (Some "app"). vm_compute. auto. Qed.
Print Assumptions name_filter_meets_spec_refuted.

(* F25: leaf [bar foo main] <- root [foo]; show_from=foo loses "main" *)
Definition w25 := mkp [mkl 1 0 [3; 2; 1]; mkl 2 0 [2]] [mks 1 [1; 2]].
Theorem show_from_meets_spec_refuted : exists M p re,
  wf_profile p = true /\ in_F25 M p (Some re) = true
  /\ fsamples_eqb (fsamples (fst (show_from M p (Some re)))) (spec_show_from M p (Some re) (fsamples p)) = false.
Proof. exists Meq, w25, "foo". vm_compute. auto. Qed.
Print Assumptions show_from_meets_spec_refuted.

(* the hypotheses are satisfiable, non-trivially: hide removes a line from a location shared by two
   samples, one of which is dropped by ignore *)
Definition wok := mkp [mkl 1 0 [3; 2; 1]; mkl 2 0 [2]; mkl 3 1 [1]] [mks 1 [1; 3]; mks 2 [2; 1]; mks 4 [3]].
Example name_filter_hyps_satisfiable :
  wf_profile wok = true
  /\ in_F16 wok None (Some "bar") (Some "foo") None = false /\ in_F24 Meq wok None = false
  /\ in_F25 Meq wok (Some "foo") = false
  /\ existsb (fun s => is_nil (s_loc s)) (p_sample wok) = false
  /\ fsamples_eqb (fsamples (fst (filter_samples_by_name Meq wok (Some "main") None (Some "foo") None))) (fsamples wok) = false
  /\ fsamples_eqb (fsamples (fst (show_from Meq wok (Some "foo")))) (fsamples wok) = false.
Proof. vm_compute. auto 10. Qed.
