(* C18 lemmas for DOT, part 2: identifiers and numerals, attribute lists, statements. *)
From Coq Require Import Lia DecimalString.
From PV Require Import M_Dot S_Dot S_DotClass L_Dot.
Open Scope string_scope.
Open Scope Z_scope.

(* ---------------- more character facts ---------------- *)
Lemma digit_idchar : forall c, is_digit c = true -> is_id_char c = true.
Proof. intro c. unfold is_digit, is_id_char. destruct (cclass c); intro H; try discriminate H; reflexivity. Qed.
Lemma digit_not_alpha : forall c, is_digit c = true -> is_alpha c = false.
Proof. intro c. unfold is_digit, is_alpha. destruct (cclass c); intro H; try discriminate H; reflexivity. Qed.
Lemma digit_plain : forall c, is_digit c = true -> plain_char c = true.
Proof. intro c. unfold is_digit, plain_char. destruct (cclass c); intro H; try discriminate H; reflexivity. Qed.
Lemma idstart_idchar : forall c, is_id_start c = true -> is_id_char c = true.
Proof. intro c. unfold is_id_start, is_id_char. destruct (cclass c); intro H; try discriminate H; reflexivity. Qed.

Lemma forallb_app : forall f a b, str_forallb f (a ++ b) = str_forallb f a && str_forallb f b.
Proof. induction a as [|c r IH]; simpl; intros; [reflexivity|]. now rewrite IH, andb_assoc. Qed.

Lemma forallb_impl : forall (f g : ascii -> bool) s,
  (forall c, f c = true -> g c = true) -> str_forallb f s = true -> str_forallb g s = true.
Proof.
  intros f g s H. induction s as [|c r IH]; simpl; intro Hs; [reflexivity|].
  apply andb_prop in Hs. destruct Hs as [Hc Hr]. now rewrite (H _ Hc), IH.
Qed.

(* ---------------- decimal numbers ---------------- *)
Lemma uint_digits : forall d, str_forallb is_digit (NilEmpty.string_of_uint d) = true.
Proof. induction d; simpl; try reflexivity; exact IHd. Qed.

Lemma nz_uint_digits : forall d, str_forallb is_digit (NilZero.string_of_uint d) = true.
Proof. intro d. destruct d; try reflexivity; apply (uint_digits _). Qed.
Lemma nz_uint_nonempty : forall d, NilZero.string_of_uint d <> "".
Proof. intro d. destruct d; simpl; discriminate. Qed.

Lemma zs_digits : forall z, 0 <= z -> all_digits (zs z) = true /\ zs z <> "".
Proof.
  intros z Hz. unfold zs, string_of_Z, all_digits.
  destruct z as [|p|p]; simpl.
  - split; [reflexivity | discriminate].
  - split; [apply nz_uint_digits | apply nz_uint_nonempty].
  - lia.
Qed.

Lemma zs_plain : forall z, str_forallb plain_char (zs z) = true.
Proof.
  intro z. unfold zs, string_of_Z. destruct z as [|p|p]; simpl.
  - reflexivity.
  - apply (forallb_impl is_digit plain_char _ digit_plain), nz_uint_digits.
  - apply (forallb_impl is_digit plain_char _ digit_plain), nz_uint_digits.
Qed.
Lemma zs_safe : forall z, qsafe (zs z) = true.
Proof. intro z. apply qsafe_plain, zs_plain. Qed.

(* ---------------- hexadecimal ---------------- *)
Lemma hex_nibble_plain : forall v, 0 <= v < 16 -> plain_char (hex_nibble v) = true.
Proof.
  intros v Hv.
  assert (H : v = 0 \/ v = 1 \/ v = 2 \/ v = 3 \/ v = 4 \/ v = 5 \/ v = 6 \/ v = 7 \/ v = 8 \/ v = 9 \/
              v = 10 \/ v = 11 \/ v = 12 \/ v = 13 \/ v = 14 \/ v = 15) by lia.
  repeat (destruct H as [H|H]; [subst v; reflexivity|]). subst v. reflexivity.
Qed.
Lemma hex_fixed_plain : forall n z acc,
  str_forallb plain_char acc = true -> str_forallb plain_char (hex_fixed n z acc) = true.
Proof.
  induction n as [|k IH]; simpl; intros z acc H; [exact H|].
  apply IH. simpl. rewrite H, hex_nibble_plain; [reflexivity|]. apply Z.mod_pos_bound. lia.
Qed.
Lemma hex16_safe : forall z, qsafe (hex16 z) = true.
Proof. intro z. apply qsafe_plain. unfold hex16. now apply hex_fixed_plain. Qed.

(* ---------------- strings.ReplaceAll keeps a quoted body safe ---------------- *)
Lemma has_prefix_split : forall p s, has_prefix p s = true -> s = p ++ drop (String.length p) s.
Proof.
  induction p as [|a p IH]; simpl; intros s H; [reflexivity|].
  destruct s as [|b s]; [discriminate H|].
  apply andb_prop in H. destruct H as [Hab Hp]. apply Ascii.eqb_eq in Hab. subst b.
  simpl. now rewrite <- (IH s Hp).
Qed.

Lemma replace_go_qscan : forall old new,
  old <> "" -> str_forallb plain_char old = true -> (forall e, qscan e new = Some false) ->
  forall fuel s e, qscan e (replace_go fuel old new s) = qscan e s.
Proof.
  intros old new Hne Hplain Hnew. induction fuel as [|f IH]; intros s e; [reflexivity|].
  simpl. destruct s as [|c r]; [reflexivity|].
  destruct (has_prefix old (String c r)) eqn:Hp.
  - rewrite qscan_app, Hnew, IH.
    rewrite (has_prefix_split _ _ Hp) at 2. rewrite qscan_app, (qscan_plain old e Hplain Hne). reflexivity.
  - simpl. destruct (cclass c); try apply IH. destruct e; [apply IH | reflexivity].
Qed.

Lemma replace_all_qsafe : forall old new s,
  str_forallb plain_char old = true -> (forall e, qscan e new = Some false) ->
  qsafe s = true -> qsafe (replace_all old new s) = true.
Proof.
  intros old new s Hp Hn Hs. unfold replace_all. destruct old as [|a o]; [exact Hs|].
  unfold qsafe. rewrite replace_go_qscan; [exact Hs | discriminate | exact Hp | exact Hn].
Qed.

Lemma bs_n_any : forall e, qscan e s_bs_n = Some false.
Proof. intro e. destruct e; reflexivity. Qed.

Lemma ml_name_safe : forall s, qsafe (ml_name s) = true.
Proof.
  intro s. unfold ml_name.
  apply replace_all_qsafe; [reflexivity | exact bs_n_any |].
  apply replace_all_qsafe; [reflexivity | intro e; destruct e; reflexivity |].
  apply replace_all_qsafe; [reflexivity | exact bs_n_any |].
  apply escape_safe.
Qed.

(* ---------------- identifiers ---------------- *)
Definition ident_chars (s : string) : bool :=
  match s with EmptyString => false | String c r => is_id_start c && str_forallb is_id_char r end.
(* an identifier that cannot be a keyword: it has a byte that is not a letter *)
Definition good_id (s : string) : bool := ident_chars s && negb (str_forallb is_alpha s).

Lemma classify_good : forall s, good_id s = true -> classify s = TId s.
Proof.
  intros s H. unfold good_id in H. apply andb_prop in H. destruct H as [_ H].
  unfold classify. destruct (str_forallb is_alpha s); [discriminate H | reflexivity].
Qed.

Lemma good_id_app : forall a b, good_id a = true -> str_forallb is_id_char b = true -> good_id (a ++ b) = true.
Proof.
  intros a b Ha Hb. unfold good_id in *. apply andb_prop in Ha. destruct Ha as [Hi Hn].
  destruct a as [|c r]; [discriminate Hi|]. simpl in *.
  apply andb_prop in Hi. destruct Hi as [Hc Hr].
  rewrite Hc, !forallb_app, Hr, Hb. simpl.
  destruct (is_alpha c); [|reflexivity]. simpl in *.
  destruct (str_forallb is_alpha r); [discriminate Hn | reflexivity].
Qed.

Lemma digits_idchars : forall d, all_digits d = true -> str_forallb is_id_char d = true.
Proof. intros d H. exact (forallb_impl is_digit is_id_char d digit_idchar H). Qed.

Lemma good_id_N : forall d, all_digits d = true -> d <> "" -> good_id ("N" ++ d) = true.
Proof.
  intros d Hd Hne. unfold good_id. simpl. rewrite (digits_idchars d Hd). simpl.
  destruct d as [|c r]; [congruence|]. simpl in *. apply andb_prop in Hd. destruct Hd as [Hc _].
  now rewrite (digit_not_alpha c Hc).
Qed.

Lemma good_id_idchars : forall s, good_id s = true -> str_forallb is_id_char s = true.
Proof.
  intros s H. unfold good_id in H. apply andb_prop in H. destruct H as [H _].
  destruct s as [|c r]; [discriminate H|]. simpl in *. apply andb_prop in H. destruct H as [Hc Hr].
  now rewrite (idstart_idchar c Hc), Hr.
Qed.

(* node and nodelet identifiers *)
Definition nid (id : Z) : string := "N" ++ zs id.
Lemma nid_good : forall id, 0 <= id -> good_id (nid id) = true.
Proof. intros id H. destruct (zs_digits id H) as [Hd Hn]. now apply good_id_N. Qed.
Lemma sub_good : forall s i, good_id s = true -> 0 <= i -> good_id (s ++ "_" ++ zs i) = true.
Proof.
  intros s i Hs Hi. apply good_id_app; [exact Hs|]. simpl.
  apply digits_idchars. now destruct (zs_digits i Hi).
Qed.
Lemma N_good : forall s, good_id s = true -> good_id ("N" ++ s) = true.
Proof.
  intros s H. pose proof (good_id_idchars s H) as Hc.
  unfold good_id in *. apply andb_prop in H. destruct H as [_ Hn].
  simpl. rewrite Hc. simpl. destruct (str_forallb is_alpha s); [discriminate Hn | reflexivity].
Qed.

(* ---------------- lexing identifiers and numerals ---------------- *)
Definition delim (c : ascii) : bool :=
  match cclass c with CSp | CNl | CQuo | CLb | CRb | CLs | CRs | CEq | CSemi | CComma => true | _ => false end.
Definition dstart (s : string) : bool := match s with String c _ => delim c | EmptyString => false end.

Lemma lex_id_run : forall s racc, str_forallb is_id_char s = true ->
  lex_go (LId racc) s = (LId (rev_string_acc s racc), []).
Proof.
  induction s as [|c r IH]; simpl; intros racc H; [reflexivity|].
  apply andb_prop in H. destruct H as [Hc Hr]. rewrite Hc, (IH _ Hr). reflexivity.
Qed.

Lemma lex_id_flush : forall racc d X, delim d = true ->
  lex_go (LId racc) (String d X) =
  let '(m, t) := lex_go LInit (String d X) in (m, classify (rev_string racc) :: t).
Proof.
  intros racc d X H. simpl.
  assert (Hn : is_id_char d = false).
  { unfold delim in H. unfold is_id_char. destruct (cclass d); try discriminate H; reflexivity. }
  rewrite Hn. destruct (lstart d) as [m1 t1]. destruct (lex_go m1 X) as [m2 t2]. reflexivity.
Qed.

Lemma lstart_id : forall c, is_id_start c = true -> lstart c = (LId (String c ""), []).
Proof. intro c. unfold is_id_start, lstart. destruct (cclass c); intro H; try discriminate H; reflexivity. Qed.

Lemma rev_of_racc : forall c r, rev_string (rev_string_acc r (String c "")) = String c r.
Proof. intros c r. change (rev_string_acc r (String c "")) with (rev_string (String c r)). apply rev_string_involutive. Qed.

Lemma LxC_ident_gen : forall s b tb, ident_chars s = true -> classify s = TId s -> dstart b = true ->
  LxC b tb -> LxC (s ++ b) (TId s :: tb).
Proof.
  intros s b tb Hi Hcl Hb Lb rest.
  destruct s as [|c r]; [discriminate Hi|]. simpl in Hi. apply andb_prop in Hi. destruct Hi as [Hc Hr].
  destruct b as [|d b']; [discriminate Hb|]. simpl in Hb.
  rewrite append_assoc.
  change (String c r ++ String d b' ++ rest) with (String c (r ++ String d (b' ++ rest))).
  change (lex_go LInit (String c (r ++ String d (b' ++ rest))))
    with (let '(m1, t1) := lstart c in let '(m2, t2) := lex_go m1 (r ++ String d (b' ++ rest)) in (m2, (t1 ++ t2)%list)).
  rewrite (lstart_id c Hc), lex_go_app, (lex_id_run r _ Hr), (lex_id_flush _ d _ Hb), rev_of_racc, Hcl.
  pose proof (Lb rest) as E. change (String d b' ++ rest) with (String d (b' ++ rest)) in E. rewrite E.
  destruct (lex_go LInit rest). reflexivity.
Qed.

Lemma LxC_ident : forall s b tb, good_id s = true -> dstart b = true -> LxC b tb -> LxC (s ++ b) (TId s :: tb).
Proof.
  intros s b tb Hs. apply LxC_ident_gen; [|now apply classify_good].
  unfold good_id in Hs. apply andb_prop in Hs. now destruct Hs.
Qed.

(* a caller-supplied identifier (DotNodeAttributes.Shape) *)
Lemma ident_ok_spec : forall s, ident_ok s = true -> ident_chars s = true /\ classify s = TId s.
Proof.
  intros s H. destruct s as [|c r]; [discriminate H|]. unfold ident_ok in H.
  apply andb_prop in H. destruct H as [H Hk]. split; [exact H|].
  unfold classify in *. destruct (str_forallb is_alpha (String c r)); [|reflexivity].
  repeat match goal with
  | H : match (if ?b then _ else _) with _ => _ end = true |- _ => destruct b; try discriminate H
  end; reflexivity.
Qed.

(* numerals *)
Lemma split_nodot : forall s acc, all_digits s = true ->
  split_at_dot s acc = (rev_string (rev_string_acc s acc), None).
Proof.
  induction s as [|c r IH]; simpl; intros acc H; [reflexivity|].
  apply andb_prop in H. destruct H as [Hc Hr]. unfold is_digit in Hc.
  destruct (cclass c); try discriminate Hc. apply IH. exact Hr.
Qed.

Lemma num_tok_digits : forall s, all_digits s = true -> s <> "" -> num_tok s = TNum s.
Proof.
  intros s H Hne. unfold num_tok, num_ok.
  destruct s as [|c r]; [congruence|].
  assert (Hd : match cclass c with CDash => true | _ => false end = false).
  { simpl in H. apply andb_prop in H. destruct H as [Hc _]. unfold is_digit in Hc. destruct (cclass c); try discriminate Hc; reflexivity. }
  rewrite Hd, (split_nodot _ "" H).
  change (rev_string_acc (String c r) "") with (rev_string (String c r)).
  rewrite rev_string_involutive, H. reflexivity.
Qed.

Lemma lex_num_run : forall s racc, all_digits s = true ->
  lex_go (LNum racc) s = (LNum (rev_string_acc s racc), []).
Proof.
  induction s as [|c r IH]; simpl; intros racc H; [reflexivity|].
  apply andb_prop in H. destruct H as [Hc Hr]. unfold is_digit in Hc.
  destruct (cclass c); try discriminate Hc. rewrite (IH _ Hr). reflexivity.
Qed.

Lemma lex_num_flush : forall racc d X, delim d = true ->
  lex_go (LNum racc) (String d X) =
  let '(m, t) := lex_go LInit (String d X) in (m, num_tok (rev_string racc) :: t).
Proof.
  intros racc d X H. simpl. unfold delim in H.
  destruct (cclass d) eqn:E; try discriminate H;
    destruct (lstart d) as [m1 t1]; destruct (lex_go m1 X) as [m2 t2]; reflexivity.
Qed.

Lemma LxC_num : forall s b tb, all_digits s = true -> s <> "" -> dstart b = true -> LxC b tb ->
  LxC (s ++ b) (TNum s :: tb).
Proof.
  intros s b tb Hs Hne Hb Lb rest.
  pose proof (num_tok_digits s Hs Hne) as Hnt.
  destruct s as [|c r]; [congruence|]. simpl in Hs. apply andb_prop in Hs. destruct Hs as [Hc Hr].
  destruct b as [|d b']; [discriminate Hb|]. simpl in Hb.
  rewrite append_assoc.
  change (String c r ++ String d b' ++ rest) with (String c (r ++ String d (b' ++ rest))).
  change (lex_go LInit (String c (r ++ String d (b' ++ rest))))
    with (let '(m1, t1) := lstart c in let '(m2, t2) := lex_go m1 (r ++ String d (b' ++ rest)) in (m2, (t1 ++ t2)%list)).
  assert (Hst : lstart c = (LNum (String c ""), [])).
  { unfold is_digit in Hc. unfold lstart. destruct (cclass c); try discriminate Hc; reflexivity. }
  rewrite Hst, lex_go_app, (lex_num_run r _ Hr), (lex_num_flush _ d _ Hb), rev_of_racc, Hnt.
  pose proof (Lb rest) as E. change (String d b' ++ rest) with (String d (b' ++ rest)) in E. rewrite E.
  destruct (lex_go LInit rest). reflexivity.
Qed.

Lemma q_quoted : forall s, q s = quoted s.
Proof. intro s. reflexivity. Qed.

(* ---------------- attribute lists ---------------- *)
Definition is_idtok (t : token) : bool := match id_of t with Some _ => true | None => false end.

Inductive attrs_body : list token -> Prop :=
| ab_nil : attrs_body []
| ab_cons : forall k v r, is_idtok k = true -> is_idtok v = true -> attrs_body r ->
                          attrs_body (k :: TEq :: v :: r).

Lemma attrs_body_app : forall a b, attrs_body a -> attrs_body b -> attrs_body (a ++ b).
Proof. intros a b Ha Hb. induction Ha; simpl; [exact Hb | now constructor]. Qed.

(* text of the remaining attributes of a statement, up to and including its closing tokens *)
Definition ATailE (e : list token) (s : string) : Prop :=
  exists body, attrs_body body /\ LxC s (body ++ e).
Definition ATail := ATailE [TRs].

Lemma ATail_end : forall e lit, lex_go LInit lit = (LInit, e) -> ATailE e lit.
Proof. intros e lit H. exists []. split; [constructor | now apply LxC_lit]. Qed.

Lemma ATail_lit : forall e lit ts rest, lex_go LInit lit = (LInit, ts) -> attrs_body ts ->
  ATailE e rest -> ATailE e (lit ++ rest).
Proof.
  intros e lit ts rest Hl Hb [body [Hbody Lr]]. exists (ts ++ body)%list. split.
  - now apply attrs_body_app.
  - rewrite <- app_assoc. apply LxC_app; [now apply LxC_lit | exact Lr].
Qed.

Lemma ATail_q : forall e klit k body rest, lex_go LInit klit = (LInit, [TId k; TEq]) -> qsafe body = true ->
  ATailE e rest -> ATailE e (klit ++ q body ++ rest).
Proof.
  intros e klit k body rest Hk Hq [b [Hb Lr]].
  exists (TId k :: TEq :: TStr (qview body) :: b). split.
  - now constructor.
  - change ((TId k :: TEq :: TStr (qview body) :: b) ++ e)%list
      with ([TId k; TEq] ++ [TStr (qview body)] ++ b ++ e)%list.
    apply LxC_app; [now apply LxC_lit|]. apply LxC_app; [rewrite q_quoted; now apply LxC_quoted | exact Lr].
Qed.

Lemma ATail_id : forall e klit k v rest, lex_go LInit klit = (LInit, [TId k; TEq]) -> good_id v = true ->
  dstart rest = true -> ATailE e rest -> ATailE e (klit ++ v ++ rest).
Proof.
  intros e klit k v rest Hk Hv Hd [b [Hb Lr]].
  exists (TId k :: TEq :: TId v :: b). split.
  - now constructor.
  - change ((TId k :: TEq :: TId v :: b) ++ e)%list with ([TId k; TEq] ++ TId v :: b ++ e)%list.
    apply LxC_app; [now apply LxC_lit|]. now apply LxC_ident.
Qed.

Lemma ATail_num : forall e klit k v rest, lex_go LInit klit = (LInit, [TId k; TEq]) -> all_digits v = true -> v <> "" ->
  dstart rest = true -> ATailE e rest -> ATailE e (klit ++ v ++ rest).
Proof.
  intros e klit k v rest Hk Hv Hne Hd [b [Hb Lr]].
  exists (TId k :: TEq :: TNum v :: b). split.
  - now constructor.
  - change ((TId k :: TEq :: TNum v :: b) ++ e)%list with ([TId k; TEq] ++ TNum v :: b ++ e)%list.
    apply LxC_app; [now apply LxC_lit|]. now apply LxC_num.
Qed.

Lemma ATail_dstart_lit : forall c r rest, delim c = true -> dstart (String c r ++ rest) = true.
Proof. intros. exact H. Qed.

(* ---------------- the recogniser on attribute lists and statements ---------------- *)
Definition in_attrs (st : pstate) : Prop := p_st st = PAttr \/ p_st st = PAttrSep.
Definition same_but_st (a b : pstate) : Prop :=
  p_depth a = p_depth b /\ p_decl a = p_decl b /\ p_edges a = p_edges b.

Lemma with_st_same : forall s x, same_but_st (with_st s x) s.
Proof. intros. repeat split. Qed.

Lemma idtok_cases : forall t, is_idtok t = true -> exists x, id_of t = Some x /\ (t = TId x \/ t = TNum x \/ t = TStr x).
Proof. intros t H. destruct t; try discriminate H; eexists; split; try reflexivity; auto. Qed.

Lemma same_trans : forall a b c, same_but_st a b -> same_but_st b c -> same_but_st a c.
Proof. intros a b c [A [B C]] [A' [B' C']]. repeat split; congruence. Qed.

Lemma attrs_run : forall body, attrs_body body -> forall st, in_attrs st ->
  in_attrs (fold_left pstep body st) /\ same_but_st (fold_left pstep body st) st.
Proof.
  intros body Hb. induction Hb as [|k v r Hk Hv Hr IH]; intros st Hin.
  - split; [exact Hin | repeat split].
  - simpl.
    assert (H1 : p_st (pstep st k) = PAttrEq /\ same_but_st (pstep st k) st).
    { destruct (idtok_cases k Hk) as [x [_ [E|[E|E]]]]; subst k;
        destruct Hin as [Hin|Hin]; unfold pstep; rewrite Hin; cbv beta iota; simpl id_of; cbv beta iota;
        (split; [reflexivity | apply with_st_same]). }
    destruct H1 as [E1 S1].
    assert (H2 : p_st (pstep (pstep st k) TEq) = PAttrVal /\ same_but_st (pstep (pstep st k) TEq) st).
    { unfold pstep at 1 3. rewrite E1. cbv beta iota.
      split; [reflexivity | exact (same_trans _ _ _ (with_st_same _ _) S1)]. }
    destruct H2 as [E2 S2].
    assert (H3 : p_st (pstep (pstep (pstep st k) TEq) v) = PAttrSep /\ same_but_st (pstep (pstep (pstep st k) TEq) v) st).
    { destruct (idtok_cases v Hv) as [x [_ [E|[E|E]]]]; subst v;
        unfold pstep at 1 4; rewrite E2; cbv beta iota; simpl id_of; cbv beta iota;
        (split; [reflexivity | exact (same_trans _ _ _ (with_st_same _ _) S2)]). }
    destruct H3 as [E3 S3].
    destruct (IH _ (or_intror E3)) as [I4 S4]. split; [exact I4|].
    exact (same_trans _ _ _ S4 S3).
Qed.

Lemma attrs_close : forall st, in_attrs st ->
  p_st (pstep st TRs) = PAfterAttr /\ same_but_st (pstep st TRs) st.
Proof.
  intros st [H|H]; unfold pstep; rewrite H; simpl; split; try reflexivity; apply with_st_same.
Qed.

Definition ready (st : pstate) : Prop := (p_st st = PS \/ p_st st = PAfterAttr) /\ (1 <= p_depth st)%nat.

(* [StmtText s d e]: s is a sequence of statements that declare the nodes d and use the edge
   endpoints e, readable wherever a statement may start *)
Definition StmtPost (st st' : pstate) (d e : list string) : Prop :=
  ready st' /\ p_depth st' = p_depth st /\ p_decl st' = (rev d ++ p_decl st)%list /\
  p_edges st' = (rev e ++ p_edges st)%list.
Definition StmtText (s : string) (d e : list string) : Prop :=
  exists ts, LxC s ts /\ forall st, ready st -> StmtPost st (fold_left pstep ts st) d e.

Lemma Stmt_nil : StmtText "" [] [].
Proof. exists []. split; [apply LxC_nil|]. intros st H. repeat split; try apply H; reflexivity. Qed.

Lemma Stmt_app : forall a b d1 e1 d2 e2, StmtText a d1 e1 -> StmtText b d2 e2 ->
  StmtText (a ++ b) (d1 ++ d2) (e1 ++ e2).
Proof.
  intros a b d1 e1 d2 e2 [ta [La Pa]] [tb [Lb Pb]]. exists (ta ++ tb)%list. split; [now apply LxC_app|].
  intros st Hr. rewrite fold_left_app.
  destruct (Pa st Hr) as [R1 [D1 [C1 E1]]]. destruct (Pb _ R1) as [R2 [D2 [C2 E2]]].
  repeat split; try apply R2.
  - congruence.
  - rewrite C2, C1, rev_app_distr, app_assoc. reflexivity.
  - rewrite E2, E1, rev_app_distr, app_assoc. reflexivity.
Qed.

(* a token that begins a statement with an identifier, from a ready state *)
Lemma ready_id : forall st x, ready st ->
  p_st (pstep st (TId x)) = PId x /\ same_but_st (pstep st (TId x)) st.
Proof.
  intros st x [[H|H] _]; unfold pstep; rewrite H; simpl; split; try reflexivity; repeat split.
Qed.
Lemma ready_str : forall st x, ready st ->
  p_st (pstep st (TStr x)) = PId x /\ same_but_st (pstep st (TStr x)) st.
Proof.
  intros st x [[H|H] _]; unfold pstep; rewrite H; simpl; split; try reflexivity; repeat split.
Qed.

Lemma Stmt_node : forall x rest, good_id x = true -> ATail rest -> StmtText (x ++ " [" ++ rest) [x] [].
Proof.
  intros x rest Hx [body [Hb Lr]].
  exists (TId x :: TLs :: body ++ [TRs])%list. split.
  - apply LxC_ident; [exact Hx | reflexivity|].
    change (TLs :: body ++ [TRs])%list with ([TLs] ++ body ++ [TRs])%list.
    apply LxC_app; [apply LxC_lit; reflexivity | exact Lr].
  - intros st Hr. simpl. rewrite fold_left_app. simpl.
    destruct (ready_id st x Hr) as [E1 [A1 [B1 C1]]].
    set (s1 := pstep st (TId x)) in *.
    assert (E2 : p_st (pstep s1 TLs) = PAttr /\ p_depth (pstep s1 TLs) = p_depth st /\
                 p_decl (pstep s1 TLs) = x :: p_decl st /\ p_edges (pstep s1 TLs) = p_edges st).
    { unfold pstep. rewrite E1. simpl. repeat split; congruence. }
    destruct E2 as [E2 [A2 [B2 C2]]]. set (s2 := pstep s1 TLs) in *.
    destruct (attrs_run body Hb s2 (or_introl E2)) as [I3 [A3 [B3 C3]]].
    set (s3 := fold_left pstep body s2) in *.
    destruct (attrs_close s3 I3) as [E4 [A4 [B4 C4]]].
    destruct Hr as [_ Hd].
    repeat split.
    + right. exact E4.
    + rewrite A4, A3, A2. exact Hd.
    + congruence.
    + simpl. congruence.
    + simpl. congruence.
Qed.

Lemma Stmt_edge : forall a b rest, good_id a = true -> good_id b = true -> ATail rest ->
  StmtText (a ++ " -> " ++ b ++ " [" ++ rest) [] [a; b].
Proof.
  intros a b rest Ha Hb [body [Hbody Lr]].
  exists (TId a :: TArrow :: TId b :: TLs :: body ++ [TRs])%list. split.
  - apply LxC_ident; [exact Ha | reflexivity|].
    change (TArrow :: TId b :: TLs :: body ++ [TRs])%list with ([TArrow] ++ TId b :: [TLs] ++ body ++ [TRs])%list.
    apply LxC_app; [apply LxC_lit; reflexivity|].
    apply LxC_ident; [exact Hb | reflexivity|].
    apply LxC_app; [apply LxC_lit; reflexivity | exact Lr].
  - intros st Hr. simpl. rewrite fold_left_app. simpl.
    destruct (ready_id st a Hr) as [E1 [A1 [B1 C1]]].
    set (s1 := pstep st (TId a)) in *.
    assert (E2 : p_st (pstep s1 TArrow) = PEdge /\ p_depth (pstep s1 TArrow) = p_depth st /\
                 p_decl (pstep s1 TArrow) = p_decl st /\ p_edges (pstep s1 TArrow) = a :: p_edges st).
    { unfold pstep. rewrite E1. simpl. repeat split; congruence. }
    destruct E2 as [E2 [A2 [B2 C2]]]. set (s2 := pstep s1 TArrow) in *.
    assert (E3 : p_st (pstep s2 (TId b)) = PEdgeId b /\ same_but_st (pstep s2 (TId b)) s2).
    { unfold pstep. rewrite E2. simpl. split; [reflexivity | repeat split]. }
    destruct E3 as [E3 [A3 [B3 C3]]]. set (s3 := pstep s2 (TId b)) in *.
    assert (E4 : p_st (pstep s3 TLs) = PAttr /\ p_depth (pstep s3 TLs) = p_depth st /\
                 p_decl (pstep s3 TLs) = p_decl st /\ p_edges (pstep s3 TLs) = b :: a :: p_edges st).
    { unfold pstep. rewrite E3. simpl. repeat split; congruence. }
    destruct E4 as [E4 [A4 [B4 C4]]]. set (s4 := pstep s3 TLs) in *.
    destruct (attrs_run body Hbody s4 (or_introl E4)) as [I5 [A5 [B5 C5]]].
    set (s5 := fold_left pstep body s4) in *.
    destruct (attrs_close s5 I5) as [E6 [A6 [B6 C6]]].
    destruct Hr as [_ Hd].
    repeat split.
    + right. exact E6.
    + rewrite A6, A5, A4. exact Hd.
    + congruence.
    + simpl. congruence.
    + simpl. congruence.
Qed.
