(* Model of the glue through which C14's values are OBSERVED with pprof on a legacy file:
   profile/index.go SampleIndexByName, internal/driver/cli.go (the -sample_index / -mean flags and
   the legacy -inuse_space ... -mean_delay flags), internal/driver/interactive.go (assignments,
   the per-profile shortcuts <type> / total_<type> / mean_<type>), internal/driver/driver.go
   sampleFormat + reportOptions (value extractor, mean divisor, "mean_" type label), and what
   report.printTraces / the web top page show of a profile at address granularity.
   No proofs here. *)
From PV Require Export M_LegacyDoc.
Open Scope Z_scope.

(* ---------------- SampleIndexByName ---------------- *)
(* strconv.Atoi on the strings the harness uses: optional sign, decimal digits (no overflow) *)
Definition atoi (s : string) : option Z :=
  let '(neg, d) := split_sign s in
  if nonempty d && str_all is_digit d then Some (if neg then - dec_val d else dec_val d) else None.

Fixpoint find_type (p : string -> bool) (types : list string) (i : Z) : option Z :=
  match types with [] => None | t :: r => if p t then Some i else find_type p r (i + 1) end.

(* None = error *)
Definition sample_index_by_name (types : list string) (dflt : string) (si : string) : option Z :=
  let n := Z.of_nat (List.length types) in
  if negb (nonempty si) then
    match (if nonempty dflt then find_type (String.eqb dflt) types 0 else None) with
    | Some i => Some i
    | None => Some (n - 1)
    end
  else match atoi si with
       | Some i => if (i <? 0) || (n <=? i) then None else Some i
       | None =>
           let no_inuse := trim_prefix "inuse_" si in
           find_type (fun t => String.eqb t si || String.eqb t no_inuse) types 0
       end.

(* ---------------- selection state: config fields sample_index and mean ---------------- *)
Record gstate := { g_si : string; g_mean : bool }.
Definition g0 : gstate := {| g_si := ""; g_mean := false |}.

(* cli.go: the legacy flags in the order they are consulted; the first one given wins, and only
   when -sample_index was not given; -mean_delay also switches mean on *)
Definition legacy_table : list (string * string) :=
  [("total_delay", "delay"); ("mean_delay", "delay"); ("contentions", "contentions"); ("inuse_space", "inuse_space");
   ("inuse_objects", "inuse_objects"); ("alloc_space", "alloc_space"); ("alloc_objects", "alloc_objects")]%string.

Definition has_flag (f : string) (flags : list string) : bool := existsb (String.eqb f) flags.

(* steps of a command line: ("si", v) = -sample_index=v ; ("mean", "1"/"0") = -mean / -mean=false ;
   ("legacy", name) = -name.  Config flags: the last assignment wins. *)
Fixpoint cli_config (steps : list (string * string)) (st : gstate) : gstate :=
  match steps with
  | [] => st
  | (k, v) :: r =>
      cli_config r (if String.eqb k "si" then {| g_si := v; g_mean := g_mean st |}
                    else if String.eqb k "mean" then {| g_si := g_si st; g_mean := String.eqb v "1" |}
                    else st)
  end.
Definition cli_legacy (steps : list (string * string)) : list string :=
  flat_map (fun kv => if String.eqb (fst kv) "legacy" then [snd kv] else []) steps.
Definition cli_state (steps : list (string * string)) : gstate :=
  let st := cli_config steps g0 in
  let flags := cli_legacy steps in
  let si := fold_left (fun si e => if has_flag (fst e) flags && negb (nonempty si) then snd e else si) legacy_table (g_si st) in
  {| g_si := si; g_mean := g_mean st || has_flag "mean_delay" flags |}.

(* interactive.go: one input line.  "sample_index=v" is checked against the profile and stores the
   resolved type NAME (an invalid value leaves the state alone); shortcuts expand to assignments. *)
Definition set_si (types : list string) (dflt : string) (v : string) (st : gstate) : gstate :=
  match sample_index_by_name types dflt v with
  | Some i => {| g_si := nth (Z.to_nat i) types ""%string; g_mean := g_mean st |}
  | None => st
  end.
Definition set_mean (b : bool) (st : gstate) : gstate := {| g_si := g_si st; g_mean := b |}.

(* ("si", v) sample_index=v ; ("mean", "1"/"0") ; ("type", t) the shortcut t ; ("total", t) total_t ;
   ("meanof", t) mean_t ; anything else (unit=, granularity=, report commands) leaves the selection alone *)
Definition int_step (types : list string) (dflt : string) (st : gstate) (kv : string * string) : gstate :=
  let '(k, v) := kv in
  let is_type := existsb (String.eqb v) types in
  if String.eqb k "si" then set_si types dflt v st
  else if String.eqb k "mean" then set_mean (String.eqb v "1") st
  else if String.eqb k "type" then (if is_type then set_si types dflt v st else st)
  else if String.eqb k "total" then (if is_type then set_si types dflt v (set_mean false st) else st)
  else if String.eqb k "meanof" then (if is_type then set_si types dflt v (set_mean true st) else st)
  else st.

(* ---------------- what a report shows ---------------- *)
(* sampleFormat + printTraces: the selected value, divided by column 0 in mean mode when that is non-zero *)
Definition shown_value (idx : Z) (mean : bool) (vals : list Z) : Z :=
  let v := nth (Z.to_nat idx) vals 0 in
  let d := nth 0 vals 0 in
  if mean && negb (d =? 0) then Z.quot v d else v.

Definition sample_stack (p : profile) (s : sample) : list Z :=
  map (fun id => match find_location p id with Some l => l_addr l | None => -1 end) (s_loc s).

Definition type_names (p : profile) : list string := map vt_type (p_sampletype p).

(* -traces at address granularity: the "Type:" legend and one row (value, addresses) per sample with
   a non-empty stack, in profile order; None = the report fails (bad selection) *)
Definition traces_view (p : profile) (st : gstate) : option (string * list (Z * list Z)) :=
  match p_sampletype p with
  | [] => None
  | _ =>
      match sample_index_by_name (type_names p) (p_defaultsampletype p) (g_si st) with
      | None => None
      | Some idx =>
          let ty := nth (Z.to_nat idx) (type_names p) ""%string in
          Some (((if g_mean st then "mean_" else "") ++ ty)%string,
                flat_map (fun s => match s_loc s with
                                   | [] => []
                                   | _ => [(shown_value idx (g_mean st) (s_val s), sample_stack p s)]
                                   end) (p_sample p))
      end
  end.

(* web /top at address granularity: flat value per leaf address (sum of the selected column over
   the samples whose leaf it is, divided by the summed column 0 in mean mode), non-zero rows only,
   sorted by address *)
Fixpoint add_leaf (a v d : Z) (acc : list (Z * (Z * Z))) : list (Z * (Z * Z)) :=
  match acc with
  | [] => [(a, (v, d))]
  | (b, (v', d')) :: r => if a =? b then (b, (wrap_i64 (v' + v), wrap_i64 (d' + d))) :: r
                          else if a <? b then (a, (v, d)) :: acc else (b, (v', d')) :: add_leaf a v d r
  end.
Definition top_view (p : profile) (st : gstate) : option (string * list (Z * Z)) :=
  match p_sampletype p with
  | [] => None
  | _ =>
      match sample_index_by_name (type_names p) (p_defaultsampletype p) (g_si st) with
      | None => None
      | Some idx =>
          let ty := nth (Z.to_nat idx) (type_names p) ""%string in
          let acc := fold_left (fun acc s => match sample_stack p s with
                                             | [] => acc
                                             | a :: _ => add_leaf a (nth (Z.to_nat idx) (s_val s) 0)
                                                                  (if g_mean st then nth 0 (s_val s) 0 else 0) acc
                                             end) (p_sample p) [] in
          Some (((if g_mean st then "mean_" else "") ++ ty)%string,
                flat_map (fun e => let '(a, (v, d)) := e in
                                   let f := if d =? 0 then v else Z.quot v d in
                                   if f =? 0 then [] else [(a, f)]) acc)
      end
  end.

(* ---------------- Java heapz / contentionz as observed with pprof -traces ----------------
   The Java legacy formats carry their own symbol table, so the drop/keep-frame tables that
   addLegacyFrameInfo attaches are APPLIED by the driver (fetchProfiles -> RemoveUninteresting ->
   Prune) before anything is shown.  Document: records "A B @ addrs", a location table addr -> name;
   [droppable name] is the answer of the drop/keep regular expressions (supplied by the harness from
   the real tables; names are chosen so that simplifyFunc is the identity).
   Prune, per sample, scanning from the root: frames up to and including the first user frame are
   kept; the first droppable frame after it is removed together with everything leaf-ward of it. *)
Record jrec := { jr_a : string; jr_b : string; jr_addrs : list string }.
Record jdoc := { jd_contention : bool; jd_period : string; jd_recs : list jrec; jd_locs : list (string * string) }.

Fixpoint prune_root_first (droppable : string -> bool) (rl : list string) (found : bool) (acc : list string) : list string :=
  match rl with
  | [] => rev acc
  | x :: r => if droppable x then (if found then rev acc else prune_root_first droppable r found (x :: acc))
              else prune_root_first droppable r true (x :: acc)
  end.
(* leaf-first in, leaf-first out *)
Definition prune_stack (droppable : string -> bool) (names : list string) : list string :=
  rev (prune_root_first droppable (rev names) false []).

Definition jname (d : jdoc) (addr : string) : string :=
  match find (fun e => hex_val (fst e) =? hex_val addr) (jd_locs d) with Some e => snd e | None => "?"%string end.

(* one trace per record with a non-empty stack: the shown value (contention: the delay column = first number x
   period; heap: unsampled, not compared: 0) and the frame names after pruning *)
Definition java_traces (droppable : string -> bool) (d : jdoc) : list (Z * list string) :=
  flat_map (fun r =>
    match prune_stack droppable (map (jname d) (jr_addrs r)) with
    | [] => []
    | st => [((if jd_contention d
               then (let p := if nonempty (jd_period d) then dec_val (jd_period d) else 0 in
                     if p =? 0 then dec_val (jr_a r) else wrap_i64 (dec_val (jr_a r) * p))
               else 0), st)]
    end) (jd_recs d).
