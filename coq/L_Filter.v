(* Proofs for C06: the filters of M_Filter meet the frame-sample rules of S_Filter outside the
   classes of the known findings F16 / F24 / F25. *)
From Coq Require Import Lia.
From PV Require Import M_Filter S_Filter L_FilterBase.
Open Scope Z_scope.
Open Scope list_scope.

(* ================================================================ generic list facts *)
Lemma filter_true {A} (l : list A) : filter (fun _ => true) l = l.
Proof. induction l as [|x r IH]; [reflexivity|]. cbn. now rewrite IH. Qed.

Lemma filter_false {A} (l : list A) : filter (fun _ => false) l = [].
Proof. induction l as [|x r IH]; [reflexivity|]. exact IH. Qed.

Lemma filter_ext_in' {A} (f g : A -> bool) (l : list A) :
  (forall x, In x l -> f x = g x) -> filter f l = filter g l.
Proof.
  induction l as [|x r IH]; intros H; [reflexivity|]. cbn.
  rewrite (H x (or_introl eq_refl)), IH; [reflexivity|]. intros y Hy. apply H. now right.
Qed.

Lemma filter_filter {A} (f g : A -> bool) (l : list A) :
  filter g (filter f l) = filter (fun x => f x && g x) l.
Proof.
  induction l as [|x r IH]; [reflexivity|]. cbn. destruct (f x); cbn; [|exact IH].
  destruct (g x); now rewrite IH.
Qed.

Lemma filter_none_match {A} (f : A -> bool) (l : list A) :
  existsb f l = false -> filter (fun x => negb (f x)) l = l.
Proof.
  induction l as [|x r IH]; [reflexivity|]. cbn. intros H. apply orb_false_iff in H.
  destruct H as [H1 H2]. rewrite H1. cbn. now rewrite IH.
Qed.

Lemma filter_map_comm {A B} (f : B -> bool) (h : A -> B) (l : list A) :
  filter f (map h l) = map h (filter (fun x => f (h x)) l).
Proof. induction l as [|x r IH]; [reflexivity|]. cbn. destruct (f (h x)); cbn; now rewrite IH. Qed.

Lemma filter_flat_map {A B} (f : B -> bool) (F : A -> list B) (l : list A) :
  filter f (flat_map F l) = flat_map (fun x => filter f (F x)) l.
Proof. induction l as [|x r IH]; [reflexivity|]. cbn. now rewrite filter_app, IH. Qed.

Lemma existsb_flat_map' {A B} (m : B -> bool) (F : A -> list B) (l : list A) :
  existsb m (flat_map F l) = existsb (fun x => existsb m (F x)) l.
Proof. induction l as [|x r IH]; [reflexivity|]. cbn. now rewrite existsb_app, IH. Qed.

Lemma existsb_orb_const {A} (f : A -> bool) (c : bool) (l : list A) :
  l <> [] -> existsb (fun x => f x || c) l = existsb f l || c.
Proof.
  induction l as [|x r IH]; [congruence|]. intros _. cbn.
  destruct r as [|y t].
  - cbn. now rewrite !orb_false_r.
  - rewrite IH by discriminate. destruct (f x), c, (existsb f (y :: t)); reflexivity.
Qed.

Lemma existsb_filter_nonempty {A} (f : A -> bool) (l : list A) :
  existsb f l = negb (is_nil (filter f l)).
Proof. induction l as [|x r IH]; [reflexivity|]. cbn. destruct (f x); [reflexivity|exact IH]. Qed.

Lemma find_map_key {A} (h : location -> A) (key : A -> Z) (L : list location) (id : Z) :
  (forall l, key (h l) = l_id l) ->
  find (fun r => key r =? id) (map h L) = option_map h (find (fun l => l_id l =? id) L).
Proof.
  intros Hk. induction L as [|l r IH]; [reflexivity|].
  cbn [map find]. rewrite Hk. destruct (l_id l =? id); [reflexivity|exact IH].
Qed.

(* ================================================================ frames vs the line predicates *)
Section Frames.
  Variable M : string -> string -> bool.
  Variable p : profile.

  Lemma fm_mk (re : string) (l : location) (ln : line) :
    find_location p (l_id l) = Some l ->
    frame_matches M p re (mk_frame l ln) = line_matches M p re ln || mapping_matches M p re l.
  Proof.
    intros Hl. unfold frame_matches, frame_fn, frame_binary, line_matches, mapping_matches, mk_frame.
    cbn. rewrite Hl. destruct (find_function p (ln_fn ln)); destruct (find_mapping p (l_mapping l)); reflexivity.
  Qed.

  Lemma fm_addr (re : string) (l : location) :
    find_location p (l_id l) = Some l ->
    frame_matches M p re {| fr_loc := l_id l; fr_line := None |} = mapping_matches M p re l.
  Proof.
    intros Hl. unfold frame_matches, frame_fn, frame_binary, mapping_matches. cbn. rewrite Hl.
    destruct (find_mapping p (l_mapping l)); reflexivity.
  Qed.

  Lemma matches_name_frames (re : string) (l : location) :
    find_location p (l_id l) = Some l ->
    matches_name M p re l = existsb (frame_matches M p re) (loc_frames l).
  Proof.
    intros Hl. unfold matches_name, loc_frames.
    destruct (l_lines l) as [|ln0 lns] eqn:El.
    - cbn [existsb]. rewrite (fm_addr re l Hl). now rewrite orb_false_r.
    - rewrite existsb_map.
      rewrite (existsb_ext_in _ (fun ln => line_matches M p re ln || mapping_matches M p re l) _
                 (fun x _ => fm_mk re l x Hl)).
      now rewrite existsb_orb_const by discriminate.
  Qed.
End Frames.

(* ================================================================ FilterSamplesByName *)
Section NameFilter.
  Variable M : string -> string -> bool.
  Variable p : profile.
  Hypothesis Hwf : wf_profile p = true.

  Definition ng (focus ignore hide show : option string) (l : location) : location :=
    lr_loc (name_loc M p focus ignore hide show l).

  Lemma ng_id focus ignore hide show l : l_id (ng focus ignore hide show l) = l_id l.
  Proof.
    unfold ng, name_loc. cbn [lr_loc].
    destruct show; destruct hide as [re|]; cbn; try reflexivity; destruct (matches_name M p re l); reflexivity.
  Qed.

  (* the lines left in a location are exactly those whose frame is visible *)
  Definition hidefm (hide : option string) (l : location) (ln : line) : bool :=
    match hide with Some re => line_matches M p re ln || mapping_matches M p re l | None => false end.
  Definition showfm (show : option string) (l : location) (ln : line) : bool :=
    match show with Some re => line_matches M p re ln || mapping_matches M p re l | None => true end.

  Lemma vis_mk hide show (l : location) (ln : line) :
    find_location p (l_id l) = Some l ->
    visible M p hide show (mk_frame l ln) = negb (hidefm hide l ln) && showfm show l ln.
  Proof.
    intros Hl. unfold visible, hidefm, showfm.
    destruct hide; destruct show; rewrite ?(fm_mk M p _ l ln Hl); reflexivity.
  Qed.

  Definition lines1 hide (l : location) : list line := filter (fun ln => negb (hidefm hide l ln)) (l_lines l).
  Definition lines2 hide show (l : location) : list line := filter (showfm show l) (lines1 hide l).

  Lemma hide_step (re : string) (l : location) :
    (if matches_name M p re l then unmatched_lines M p re l else l_lines l) = lines1 (Some re) l.
  Proof.
    unfold lines1, hidefm, matches_name, unmatched_lines.
    destruct (mapping_matches M p re l) eqn:Em.
    - rewrite orb_true_r. symmetry. erewrite filter_ext_in'; [apply filter_false|].
      intros x _. cbn. now rewrite orb_true_r.
    - rewrite orb_false_r.
      erewrite (filter_ext_in' (fun ln => negb (line_matches M p re ln || false)));
        [|intros x _; now rewrite orb_false_r].
      destruct (existsb (line_matches M p re) (l_lines l)) eqn:E; [reflexivity|].
      symmetry. now apply filter_none_match.
  Qed.

  Lemma show_step hide (re : string) (l : location) (id : Z) :
    find_location p id = Some l ->
    matched_lines M p re (set_loc_lines l (lines1 hide l)) = lines2 hide (Some re) l.
  Proof.
    intros Hl. unfold lines2, showfm, matched_lines.
    unfold mapping_matches at 1. cbn [l_mapping set_loc_lines l_lines].
    fold (mapping_matches M p re l).
    destruct (mapping_matches M p re l) eqn:Em.
    - symmetry. erewrite filter_ext_in'; [apply filter_true|]. intros x _. now rewrite orb_true_r.
    - apply filter_ext_in'. intros ln Hln. rewrite orb_false_r.
      assert (Hin : In ln (l_lines l)) by (unfold lines1 in Hln; apply filter_In in Hln; tauto).
      destruct (wf_line_fn p id l ln Hwf Hl Hin) as [f Hf].
      unfold line_shown, line_matches. now rewrite Hf.
  Qed.

  Lemma set_loc_lines_self (l : location) : set_loc_lines l (l_lines l) = l.
  Proof. destruct l; reflexivity. Qed.

  Lemma name_loc_lines focus ignore hide show (l : location) (id : Z) :
    find_location p id = Some l -> l_lines (ng focus ignore hide show l) = lines2 hide show l.
  Proof.
    intros Hl. unfold ng, name_loc. cbn [lr_loc].
    assert (H1 : match hide with
                 | Some re => if matches_name M p re l then set_loc_lines l (unmatched_lines M p re l) else l
                 | None => l
                 end = set_loc_lines l (lines1 hide l)).
    { destruct hide as [rh|].
      - rewrite <- (hide_step rh l). destruct (matches_name M p rh l); [reflexivity|].
        now rewrite set_loc_lines_self.
      - unfold lines1, hidefm. rewrite filter_true. now rewrite set_loc_lines_self. }
    rewrite H1. destruct show as [rs|].
    - cbn [l_lines set_loc_lines]. exact (show_step hide rs l id Hl).
    - cbn [l_lines set_loc_lines]. unfold lines2, showfm. now rewrite filter_true.
  Qed.

  Lemma name_loc_hidden focus ignore hide show (l : location) (id : Z) :
    find_location p id = Some l ->
    lr_hidden (name_loc M p focus ignore hide show l)
    = (opt_match hide (fun re => matches_name M p re l) && is_nil (lines1 hide l))
      || match show with Some _ => is_nil (lines2 hide show l) | None => false end.
  Proof.
    intros Hl. unfold name_loc. cbn [lr_hidden].
    assert (H1 : match hide with
                 | Some re => if matches_name M p re l then set_loc_lines l (unmatched_lines M p re l) else l
                 | None => l
                 end = set_loc_lines l (lines1 hide l)).
    { destruct hide as [rh|].
      - rewrite <- (hide_step rh l). destruct (matches_name M p rh l); [reflexivity|].
        now rewrite set_loc_lines_self.
      - unfold lines1, hidefm. rewrite filter_true. now rewrite set_loc_lines_self. }
    rewrite H1. cbn [l_lines set_loc_lines]. f_equal.
    destruct show as [rs|]; [|reflexivity].
    cbn [l_lines set_loc_lines]. now rewrite (show_step hide rs l id Hl).
  Qed.

  Lemma mk_frame_id (a b : location) : l_id a = l_id b -> mk_frame a = mk_frame b.
  Proof. intros H. unfold mk_frame. now rewrite H. Qed.

  (* hidden locations have no visible frame; the others hold exactly their visible frames *)
  Lemma name_loc_frames focus ignore hide show (l : location) (id : Z) :
    find_location p id = Some l -> in_F24 M p show = false ->
    (lr_hidden (name_loc M p focus ignore hide show l) = true ->
       filter (visible M p hide show) (loc_frames l) = [])
    /\ (lr_hidden (name_loc M p focus ignore hide show l) = false ->
       loc_frames (ng focus ignore hide show l) = filter (visible M p hide show) (loc_frames l)).
  Proof.
    intros Hl H24.
    pose proof (find_location_self p id l Hl) as Hself.
    rewrite (name_loc_hidden focus ignore hide show l id Hl).
    pose proof (name_loc_lines focus ignore hide show l id Hl) as Hlines.
    destruct (l_lines l) as [|ln0 lns] eqn:El.
    - (* address frame *)
      assert (L1 : lines1 hide l = []) by (unfold lines1; now rewrite El).
      assert (L2 : lines2 hide show l = []) by (unfold lines2; now rewrite L1).
      rewrite L1, L2 in *. cbn [is_nil]. rewrite andb_true_r.
      assert (Hlf : loc_frames l = [{| fr_loc := l_id l; fr_line := None |}])
        by (unfold loc_frames; now rewrite El).
      assert (Hlf' : loc_frames (ng focus ignore hide show l) = [{| fr_loc := l_id l; fr_line := None |}])
        by (unfold loc_frames; rewrite Hlines, ng_id; reflexivity).
      rewrite Hlf, Hlf'. cbn [filter]. unfold visible.
      assert (Hmn : forall re, matches_name M p re l = mapping_matches M p re l)
        by (intros re; unfold matches_name; now rewrite El).
      assert (Hshow : forall rs, show = Some rs -> mapping_matches M p rs l = false).
      { intros rs Hs. unfold in_F24 in H24. rewrite Hs in H24.
        apply find_some in Hl. destruct Hl as [Hin _].
        pose proof (existsb_false_forall _ _ H24 l Hin) as H. cbn beta in H.
        rewrite El in H. exact H. }
      destruct hide as [rh|]; destruct show as [rs|]; cbn [opt_match];
        rewrite ?Hmn, ?(fm_addr M p _ l Hself); try rewrite (Hshow rs eq_refl);
        try (destruct (mapping_matches M p rh l)); cbn; split; intros; congruence.
    - assert (Hne : l_lines l <> []) by (rewrite El; discriminate).
      assert (Hvis : filter (visible M p hide show) (loc_frames l) = map (mk_frame l) (lines2 hide show l)).
      { rewrite (loc_frames_lines l Hne), filter_map_comm. f_equal. unfold lines2, lines1.
        rewrite filter_filter. apply filter_ext_in'. intros ln _. apply (vis_mk hide show l ln Hself). }
      rewrite Hvis. split.
      + intros H. apply orb_true_iff in H. destruct H as [H|H].
        * apply andb_true_iff in H. destruct H as [_ H]. unfold lines2.
          destruct (lines1 hide l); [reflexivity|discriminate].
        * destruct show; [|discriminate]. destruct (lines2 hide (Some s) l); [reflexivity|discriminate].
      + intros H. apply orb_false_iff in H. destruct H as [Ha Hb].
        assert (Hne2 : lines2 hide show l <> []).
        { destruct show as [rs|].
          - intros E. rewrite E in Hb. discriminate.
          - unfold lines2, showfm. rewrite filter_true.
            destruct hide as [rh|].
            + cbn [opt_match] in Ha. pose proof (hide_step rh l) as Hs.
              destruct (matches_name M p rh l).
              * cbn in Ha. intros E. rewrite E in Ha. discriminate.
              * now rewrite <- Hs.
            + unfold lines1, hidefm. now rewrite filter_true. }
        unfold loc_frames. rewrite Hlines.
        destruct (lines2 hide show l) as [|x r] eqn:E2; [congruence|].
        rewrite ng_id. reflexivity.
  Qed.

  Definition is_t (o : option bool) : bool := match o with Some true => true | _ => false end.
  Definition is_f (o : option bool) : bool := match o with Some false => true | _ => false end.

  Lemma fani_char (m : Z -> option bool) (locs : list Z) (f : bool) :
    fani m locs f = forallb (fun id => negb (is_f (m id))) locs && (f || existsb (fun id => is_t (m id)) locs).
  Proof.
    revert f. induction locs as [|id r IH]; intros f.
    - cbn. now rewrite orb_false_r.
    - cbn [fani forallb existsb]. destruct (m id) as [[|]|]; cbn [is_f is_t negb andb orb].
      + rewrite IH. now rewrite orb_true_r.
      + reflexivity.
      + apply IH.
  Qed.

  Lemma forall_exists_bool {A} (a b : A -> bool) (l : list A) :
    forallb (fun x => negb (a x)) l && existsb (fun x => negb (a x) && b x) l
    = negb (existsb a l) && existsb b l.
  Proof.
    induction l as [|x r IH]; [reflexivity|]. cbn.
    destruct (a x) eqn:Ea; cbn; [reflexivity|].
    destruct (b x) eqn:Eb; cbn.
    - rewrite !andb_true_r. clear IH. induction r as [|y t IHt]; [reflexivity|]. cbn. rewrite IHt.
      now destruct (a y).
    - exact IH.
  Qed.

  Section OneConfig.
    Variables focus ignore hide show : option string.
    Hypothesis H24 : in_F24 M p show = false.

    Let nl := name_loc M p focus ignore hide show.
    Let rs := map nl (p_location p).
    Let vis := visible M p hide show.
    Let F := loc_frames_of p.
    Let F' := fun id => match find_location p id with Some l => loc_frames (ng focus ignore hide show l) | None => [] end.
    Let igm := fun id => match ignore with Some re => existsb (frame_matches M p re) (F id) | None => false end.
    Let focm := fun id => match focus with Some re => existsb (frame_matches M p re) (F id) | None => true end.
    Let nh := fun id => negb (hidden_of rs id).

    Lemma foi_char (id : Z) (l : location) :
      find_location p id = Some l ->
      is_f (foi_of rs id) = igm id /\ is_t (foi_of rs id) = negb (igm id) && focm id.
    Proof.
      intros Hl. pose proof (find_location_self p id l Hl) as Hself.
      unfold foi_of, rs.
      rewrite (find_map_key nl (fun r => l_id (lr_loc r)) (p_location p) id (ng_id focus ignore hide show)).
      unfold find_location in Hl. rewrite Hl. cbn [option_map].
      unfold igm, focm, F, loc_frames_of. fold (find_location p id). unfold find_location. rewrite Hl.
      unfold nl, name_loc. cbn [lr_foi].
      destruct ignore as [ri|]; destruct focus as [rf|]; cbn [opt_match];
        rewrite <- ?(matches_name_frames M p _ l Hself);
        try (destruct (matches_name M p ri l)); try (destruct (matches_name M p rf l)); split; reflexivity.
    Qed.

    Lemma hidden_char (id : Z) (l : location) :
      find_location p id = Some l -> hidden_of rs id = lr_hidden (nl l).
    Proof.
      intros Hl. unfold hidden_of, rs. rewrite existsb_map.
      rewrite (existsb_ext_in _ (fun l0 => (l_id l0 =? id) && lr_hidden (nl l0)) (p_location p)).
      - exact (id_flag_find (fun l0 => lr_hidden (nl l0)) (p_location p) id l (wf_nodup p Hwf) Hl).
      - intros x _. unfold nl. pose proof (ng_id focus ignore hide show x) as Hx. unfold ng in Hx. now rewrite Hx.
    Qed.

    Lemma fani_sample (s : sample) :
      In s (p_sample p) ->
      fani (foi_of rs) (s_loc s) false = negb (existsb igm (s_loc s)) && existsb focm (s_loc s).
    Proof.
      intros Hs. rewrite fani_char. cbn [orb].
      rewrite (existsb_ext_in _ (fun id => negb (igm id) && focm id) (s_loc s)).
      2:{ intros id Hid. destruct (wf_present p s id Hwf Hs Hid) as [l Hl]. apply (foi_char id l Hl). }
      assert (E : forallb (fun id => negb (is_f (foi_of rs id))) (s_loc s) = forallb (fun id => negb (igm id)) (s_loc s)).
      { assert (H : forall id, In id (s_loc s) -> is_f (foi_of rs id) = igm id).
        { intros id Hid. destruct (wf_present p s id Hwf Hs Hid) as [l Hl]. apply (foi_char id l Hl). }
        revert H. generalize (s_loc s). intros l. induction l as [|x r IH]; intros H; [reflexivity|].
        cbn. rewrite (H x (or_introl eq_refl)), IH; [reflexivity|]. intros y Hy. apply H. now right. }
      rewrite E. apply forall_exists_bool.
    Qed.

    (* per location of the sample: visible frames *)
    Lemma loc_vis (s : sample) (id : Z) :
      In s (p_sample p) -> In id (s_loc s) ->
      (nh id = false -> filter vis (F id) = []) /\ (nh id = true -> F' id = filter vis (F id) /\ F' id <> []).
    Proof.
      intros Hs Hid. destruct (wf_present p s id Hwf Hs Hid) as [l Hl].
      unfold nh. rewrite (hidden_char id l Hl). unfold F, F', loc_frames_of. rewrite Hl.
      destruct (name_loc_frames focus ignore hide show l id Hl H24) as [Ha Hb]. fold nl in Ha, Hb.
      split; intros H.
      - apply negb_false_iff in H. now apply Ha.
      - apply negb_true_iff in H. split; [now apply Hb|apply loc_frames_nonempty].
    Qed.

    Lemma flat_map_filter {A B} (f : A -> bool) (G : A -> list B) (l : list A) :
      flat_map G (filter f l) = flat_map (fun x => if f x then G x else []) l.
    Proof. induction l as [|x r IH]; [reflexivity|]. cbn. destruct (f x); cbn; now rewrite IH. Qed.

    Lemma sample_vis_frames (s : sample) :
      In s (p_sample p) ->
      flat_map F' (filter nh (s_loc s)) = filter vis (flat_map F (s_loc s))
      /\ existsb vis (flat_map F (s_loc s)) = negb (is_nil (filter nh (s_loc s))).
    Proof.
      intros Hs. split.
      - rewrite flat_map_filter, filter_flat_map. apply flat_map_ext_in. intros id Hid.
        destruct (loc_vis s id Hs Hid) as [Ha Hb]. destruct (nh id).
        + now apply Hb.
        + symmetry. now apply Ha.
      - rewrite existsb_flat_map', <- existsb_filter_nonempty. apply existsb_ext_in. intros id Hid.
        destruct (loc_vis s id Hs Hid) as [Ha Hb]. rewrite existsb_filter_nonempty. destruct (nh id).
        + destruct (Hb eq_refl) as [H1 H2]. rewrite <- H1. destruct (F' id); [congruence|reflexivity].
        + now rewrite (Ha eq_refl).
    Qed.
  
    Hypothesis Hsome : is_some focus || is_some ignore || is_some hide || is_some show = true.
    Hypothesis H16 : in_F16 p focus ignore hide show = false.

    Let ah := existsb lr_hidden rs.
    Let hs := is_some hide || is_some show.
    Let keepf := fun s : fsample =>
      match focus with Some re => has_match M p re s | None => true end
      && negb (match ignore with Some re => has_match M p re s | None => false end)
      && match hide, show with
         | None, None => true
         | _, _ => existsb vis (fs_frames s)
         end.
    Let gsm := fun s : sample => if ah then set_sample_locs s (filter nh (s_loc s)) else s.

    Lemma existsb_const_false {A} (l : list A) : existsb (fun _ => false) l = false.
    Proof. induction l; [reflexivity|exact IHl]. Qed.
    Lemma existsb_const_true {A} (l : list A) : existsb (fun _ => true) l = negb (is_nil l).
    Proof. destruct l; reflexivity. Qed.

    Lemma nh_all_when_none_hidden (locs : list Z) : ah = false -> filter nh locs = locs.
    Proof.
      intros Hah. erewrite filter_ext_in'; [apply filter_true|]. intros id _. unfold nh.
      apply negb_true_iff. destruct (hidden_of rs id) eqn:E; [|reflexivity].
      unfold hidden_of in E. apply existsb_exists in E. destruct E as [r [Hr E]].
      apply andb_true_iff in E. destruct E as [_ E].
      assert (ah = true); [|congruence]. unfold ah. apply existsb_exists. now exists r.
    Qed.

    Lemma hs_false_no_hidden : hs = false -> ah = false.
    Proof.
      unfold hs. intros H. apply orb_false_iff in H. destruct H as [Hh Hsw].
      destruct hide; [discriminate|]. destruct show; [discriminate|].
      unfold ah, rs. rewrite existsb_map. erewrite existsb_ext_in; [apply existsb_const_false|].
      intros l _. unfold nl, name_loc. reflexivity.
    Qed.

    Lemma name_sample_char (s : sample) :
      In s (p_sample p) ->
      name_sample rs ah s = if keepf (fsample_of p s) then Some (gsm s) else None.
    Proof.
      intros Hs. unfold name_sample. rewrite (fani_sample s Hs).
      change (filter (fun id : Z => negb (hidden_of rs id)) (s_loc s)) with (filter nh (s_loc s)).
      destruct (sample_vis_frames s Hs) as [_ Hex].
      set (n := is_nil (s_loc s)).
      set (z := is_nil (filter nh (s_loc s))) in *.
      assert (Hig : existsb igm (s_loc s) = match ignore with Some re => has_match M p re (fsample_of p s) | None => false end).
      { unfold igm. destruct ignore as [re|]; [|apply existsb_const_false].
        unfold has_match, fsample_of. cbn [fs_frames]. unfold sample_frames, frames_of.
        fold (loc_frames_of p). fold F. now rewrite existsb_flat_map'. }
      assert (Hfo : existsb focm (s_loc s) = match focus with Some re => has_match M p re (fsample_of p s) | None => negb n end).
      { unfold focm. destruct focus as [re|]; [|apply existsb_const_true].
        unfold has_match, fsample_of. cbn [fs_frames]. unfold sample_frames, frames_of.
        fold (loc_frames_of p). fold F. now rewrite existsb_flat_map'. }
      assert (Hthird : match hide, show with None, None => true | _, _ => existsb vis (fs_frames (fsample_of p s)) end
                       = if hs then negb z else true).
      { unfold hs. cbn [fsample_of fs_frames]. unfold sample_frames, frames_of. fold (loc_frames_of p). fold F.
        rewrite Hex. destruct hide; destruct show; reflexivity. }
      unfold keepf. rewrite Hthird, Hig, Hfo. clear Hthird Hig Hfo.
      assert (Hfo_ne : forall re, has_match M p re (fsample_of p s) = true -> n = false).
      { intros re H. unfold n. unfold has_match, fsample_of in H. cbn [fs_frames] in H. unfold sample_frames in H.
        destruct (s_loc s); [cbn in H; discriminate|reflexivity]. }
      assert (Hz_ne : z = false -> n = false).
      { unfold z, n. destruct (s_loc s); [discriminate|reflexivity]. }
      assert (Hah_z : ah = false -> z = n).
      { intros H. unfold z. now rewrite (nh_all_when_none_hidden (s_loc s) H). }
      assert (H16s : focus = None -> hs = false -> n = false).
      { intros Hf Hh. unfold hs in Hh. apply orb_false_iff in Hh. destruct Hh as [Hh1 Hh2].
        destruct hide; [discriminate|]. destruct show; [discriminate|].
        rewrite Hf in *. destruct ignore; [|discriminate].
        cbn in H16. exact (existsb_false_forall _ _ H16 s Hs). }
      pose proof hs_false_no_hidden as Hhs.
      unfold gsm.
      set (igb := negb match ignore with Some re => has_match M p re (fsample_of p s) | None => false end).
      clearbody igb. clearbody n. clearbody z.
      destruct focus as [rf|].
      - specialize (Hfo_ne rf). destruct (has_match M p rf (fsample_of p s)); clear H16s.
        + specialize (Hfo_ne eq_refl). subst n.
          destruct igb; [|reflexivity]. cbn [andb].
          destruct hs; destruct ah; destruct z; try reflexivity;
            try (specialize (Hah_z eq_refl); discriminate);
            try (specialize (Hhs eq_refl); discriminate).
        + destruct igb; reflexivity.
      - clear Hfo_ne. specialize (H16s eq_refl).
        destruct igb; [|reflexivity]. cbn [andb].
        destruct hs; destruct ah; destruct z; destruct n; try reflexivity;
          try (specialize (Hah_z eq_refl); discriminate);
          try (specialize (Hz_ne eq_refl); discriminate);
          try (specialize (Hhs eq_refl); discriminate);
          try (specialize (H16s eq_refl); discriminate).
    Qed.

    Lemma name_sample_frames (s : sample) (ss : list sample) :
      In s (p_sample p) ->
      sample_frames (set_samples (set_locations p (map lr_loc rs)) ss) (gsm s) = filter vis (sample_frames p s).
    Proof.
      intros Hs. unfold rs. rewrite map_map. fold (ng focus ignore hide show).
      unfold sample_frames.
      rewrite (frames_of_rewritten p (ng focus ignore hide show) ss _ (ng_id focus ignore hide show)).
      fold F'. destruct (sample_vis_frames s Hs) as [Hfr _].
      unfold frames_of. fold (loc_frames_of p). fold F. rewrite <- Hfr.
      unfold gsm. destruct ah eqn:Eah; cbn [s_loc set_sample_locs]; [reflexivity|].
      now rewrite (nh_all_when_none_hidden (s_loc s) Eah).
    Qed.

    Lemma name_filter_main :
      fsamples (fst (filter_samples_by_name M p focus ignore hide show))
      = spec_name M p focus ignore hide show (fsamples p).
    Proof.
      assert (Hmodel : fst (filter_samples_by_name M p focus ignore hide show)
                       = set_samples (set_locations p (map lr_loc rs)) (filter_map (name_sample rs ah) (p_sample p))).
      { unfold filter_samples_by_name. destruct focus, ignore, hide, show; try reflexivity. discriminate. }
      rewrite Hmodel. clear Hmodel.
      unfold spec_name, fsamples at 2. rewrite filter_map_comm. fold keepf. fold vis.
      rewrite map_map.
      rewrite (filter_map_spec (name_sample rs ah) (fun s => keepf (fsample_of p s)) gsm (p_sample p)
                 (fun s Hs => name_sample_char s Hs)).
      unfold fsamples. cbn [p_sample set_samples]. rewrite map_map.
      apply map_ext_in. intros s Hs. apply filter_In in Hs. destruct Hs as [Hs _].
      unfold fsample_of at 1. unfold on_frames.
      rewrite (name_sample_frames s _ Hs).
      unfold gsm. destruct ah; reflexivity.
    Qed.
  End OneConfig.

  Lemma spec_name_none (ss : list fsample) : spec_name M p None None None None ss = ss.
  Proof.
    unfold spec_name. cbn. rewrite filter_true. erewrite map_ext; [apply map_id|].
    intros s. unfold on_frames. rewrite filter_true. now destruct s.
  Qed.

  Lemma name_filter_meets_spec_l focus ignore hide show :
    in_F16 p focus ignore hide show = false -> in_F24 M p show = false ->
    fsamples (fst (filter_samples_by_name M p focus ignore hide show))
    = spec_name M p focus ignore hide show (fsamples p).
  Proof.
    intros H16 H24.
    destruct (is_some focus || is_some ignore || is_some hide || is_some show) eqn:E.
    - exact (name_filter_main focus ignore hide show H24 E H16).
    - destruct focus; [discriminate|]. destruct ignore; [discriminate|].
      destruct hide; [discriminate|]. destruct show; [discriminate|].
      cbn [filter_samples_by_name fst]. now rewrite spec_name_none.
  Qed.
End NameFilter.

(* ================================================================ focus / ignore partition *)
Definition total (k : nat) (ss : list fsample) : Z :=
  fold_right (fun s acc => nth k (fs_val s) 0 + acc) 0 ss.

Lemma total_partition (k : nat) (f : fsample -> bool) (l : list fsample) :
  total k (filter f l) + total k (filter (fun s => negb (f s)) l) = total k l.
Proof.
  unfold total. induction l as [|x r IH]; [reflexivity|]. cbn [filter]. destruct (f x); cbn [negb fold_right]; lia.
Qed.

From Coq Require Import Permutation.
Lemma filter_partition_perm {A} (f : A -> bool) (l : list A) :
  Permutation (filter f l ++ filter (fun x => negb (f x)) l) l.
Proof.
  induction l as [|x r IH]; [constructor|]. cbn [filter]. destruct (f x); cbn [negb app].
  - now constructor.
  - apply Permutation_sym. apply Permutation_cons_app. now apply Permutation_sym.
Qed.

Lemma on_frames_filter_true (s : fsample) : on_frames (filter (fun _ => true)) s = s.
Proof. unfold on_frames. rewrite filter_true. now destruct s. Qed.

Section Partition.
  Variable M : string -> string -> bool.
  Variable p : profile.
  Variable R : string.
  Hypothesis Hwf : wf_profile p = true.

  Lemma focus_exact_l :
    fsamples (fst (filter_samples_by_name M p (Some R) None None None))
    = filter (has_match M p R) (fsamples p).
  Proof.
    rewrite (name_filter_meets_spec_l M p Hwf (Some R) None None None eq_refl eq_refl).
    unfold spec_name, visible. cbn [negb andb].
    erewrite map_ext; [rewrite map_id|exact on_frames_filter_true].
    apply filter_ext_in'. intros s _. now rewrite !andb_true_r.
  Qed.

  Lemma ignore_exact_l :
    existsb (fun s => is_nil (s_loc s)) (p_sample p) = false ->
    fsamples (fst (filter_samples_by_name M p None (Some R) None None))
    = filter (fun s => negb (has_match M p R s)) (fsamples p).
  Proof.
    intros Hne.
    rewrite (name_filter_meets_spec_l M p Hwf None (Some R) None None Hne eq_refl).
    unfold spec_name, visible. cbn [negb andb].
    erewrite map_ext; [rewrite map_id|exact on_frames_filter_true].
    apply filter_ext_in'. intros s _. now rewrite !andb_true_r.
  Qed.

  Lemma focus_ignore_partition_l :
    existsb (fun s => is_nil (s_loc s)) (p_sample p) = false ->
    let A := fsamples (fst (filter_samples_by_name M p (Some R) None None None)) in
    let B := fsamples (fst (filter_samples_by_name M p None (Some R) None None)) in
    Permutation (A ++ B) (fsamples p) /\ forall k, total k A + total k B = total k (fsamples p).
  Proof.
    intros Hne A B. unfold A, B. rewrite focus_exact_l, (ignore_exact_l Hne). split.
    - apply filter_partition_perm.
    - intros k. apply total_partition.
  Qed.
End Partition.

(* ================================================================ tag filters *)
Section Tags.
  Variable M : string -> string -> bool.
  Variable p : profile.

  Lemma frames_set_samples (ss : list sample) (s : sample) :
    sample_frames (set_samples p ss) s = sample_frames p s.
  Proof. reflexivity. Qed.

  Lemma tags_by_name_meets_spec_l (show hide : option string) :
    fsamples (fst (filter_tags_by_name M p show hide)) = spec_tags_by_name M show hide (fsamples p).
  Proof.
    unfold filter_tags_by_name, spec_tags_by_name, fsamples. cbn [fst p_sample set_samples].
    rewrite !map_map. apply map_ext. intros s. unfold fsample_of.
    cbn [s_val s_label s_numlabel s_numunit fs_val fs_label fs_numlabel fs_numunit fs_frames].
    assert (H : forall k, negb (tag_removed M show hide k) = label_kept M show hide k).
    { intros k. unfold tag_removed, label_kept. destruct show; destruct hide; try destruct (M s0 k);
        try destruct (M s1 k); reflexivity. }
    f_equal; try (apply filter_ext_in'; intros kv _; apply H).
  Qed.

  (* a label predicate: it looks at the labels of a sample only *)
  Definition label_pred (f : sample -> bool) : Prop :=
    forall s, f s = f (as_sample (fsample_of p s)).

  Lemma tag_filter_meets_spec_l (focus ignore : option (sample -> bool)) :
    match focus with Some f => label_pred f | None => True end ->
    match ignore with Some f => label_pred f | None => True end ->
    fsamples (fst (filter_samples_by_tag p focus ignore)) = spec_tag focus ignore (fsamples p).
  Proof.
    intros Hf Hi. unfold filter_samples_by_tag, spec_tag, fsamples. cbn [fst p_sample set_samples].
    rewrite filter_map_comm. f_equal. apply filter_ext_in'. intros s _.
    destruct focus as [f|]; destruct ignore as [i|]; try rewrite <- (Hf s); try rewrite <- (Hi s); reflexivity.
  Qed.
End Tags.

(* ================================================================ ShowFrom *)
Lemma ktl_ext_in {A} (f g : A -> bool) (l : list A) :
  (forall x, In x l -> f x = g x) -> keep_through_last f l = keep_through_last g l.
Proof.
  induction l as [|x r IH]; intros H; [reflexivity|].
  cbn. rewrite IH by (intros y Hy; apply H; now right). now rewrite (H x (or_introl eq_refl)).
Qed.

Lemma upto_last_all {A} (m : A -> bool) (a : list A) : forallb m a = true -> upto_last m a = a.
Proof.
  induction a as [|x r IH]; [reflexivity|]. cbn. intros H. apply andb_true_iff in H.
  destruct H as [H1 H2]. rewrite (IH H2), H1. destruct r as [|y t]; [reflexivity|].
  cbn in H2. apply andb_true_iff in H2. destruct H2 as [H2 _]. cbn. now rewrite H2.
Qed.

Lemma upto_last_map {A B} (f : A -> bool) (mk : A -> B) (m : B -> bool) (l : list A) :
  (forall x, m (mk x) = f x) -> upto_last m (map mk l) = map mk (upto_last f l).
Proof.
  intros H. induction l as [|x r IH]; [reflexivity|]. cbn [map upto_last].
  rewrite existsb_map. rewrite (existsb_ext_in _ f r (fun y _ => H y)), H, IH.
  destruct (existsb f r); [reflexivity|]. destruct (f x); reflexivity.
Qed.

Section ShowFromSample.
  Variable mt : frame -> bool.
  Variables F F' : Z -> list frame.
  Variable flag : Z -> bool.

  Definition sf_trimmed (id : Z) : bool :=
    existsb mt (F id) && negb (match rev (F id) with f :: _ => mt f | [] => true end).
  Definition sf_class (locs : list Z) : bool :=
    match keep_through_last flag locs with
    | Some kept => existsb sf_trimmed (removelast kept)
    | None => false
    end.

  Lemma show_from_sample (locs : list Z) :
    (forall id, In id locs -> flag id = existsb mt (F id)) ->
    (forall id, In id locs -> F' id = if existsb mt (F id) then upto_last mt (F id) else F id) ->
    sf_class locs = false ->
    match keep_through_last flag locs with
    | Some kept => existsb mt (flat_map F locs) = true /\ flat_map F' kept = upto_last mt (flat_map F locs)
    | None => existsb mt (flat_map F locs) = false
    end.
  Proof.
    unfold sf_class. induction locs as [|id r IH]; intros Hflag HF' Hcls; [reflexivity|].
    assert (Hflag_r : forall j, In j r -> flag j = existsb mt (F j)) by (intros j Hj; apply Hflag; now right).
    assert (HF'_r : forall j, In j r -> F' j = if existsb mt (F j) then upto_last mt (F j) else F j)
      by (intros j Hj; apply HF'; now right).
    cbn [keep_through_last flat_map] in *. rewrite existsb_app, upto_last_app.
    destruct (keep_through_last flag r) as [r'|] eqn:E.
    - pose proof (ktl_some_nonempty _ _ _ E) as Hne.
      assert (Hrl : removelast (id :: r') = id :: removelast r') by (destruct r'; [congruence|reflexivity]).
      rewrite Hrl in Hcls. cbn [existsb] in Hcls. apply orb_false_iff in Hcls. destruct Hcls as [Ht Hc].
      destruct (IH Hflag_r HF'_r Hc) as [H1 H2]. rewrite H1, orb_true_r. split; [reflexivity|].
      cbn [flat_map]. rewrite H2. f_equal. rewrite (HF' id (or_introl eq_refl)).
      destruct (existsb mt (F id)) eqn:Em; [|reflexivity].
      unfold sf_trimmed in Ht. rewrite Em in Ht. cbn [andb] in Ht. apply negb_false_iff in Ht.
      apply upto_last_full. destruct (rev (F id)) as [|f t] eqn:Er; [|exact Ht].
      apply (f_equal (@rev frame)) in Er. rewrite rev_involutive in Er. rewrite Er in Em. discriminate.
    - specialize (IH Hflag_r HF'_r eq_refl). rewrite IH, orb_false_r.
      rewrite (Hflag id (or_introl eq_refl)). destruct (existsb mt (F id)) eqn:Em.
      + split; [reflexivity|]. cbn [flat_map]. rewrite app_nil_r.
        now rewrite (HF' id (or_introl eq_refl)), Em.
      + reflexivity.
  Qed.
End ShowFromSample.

Section ShowFromProfile.
  Variable M : string -> string -> bool.
  Variable p : profile.
  Variable re : string.
  Hypothesis Hwf : wf_profile p = true.

  Let mt := frame_matches M p re.
  Let g := fun l => match show_from_loc M p re l with Some l' => l' | None => l end.

  Lemma sg_id l : l_id (g l) = l_id l.
  Proof.
    unfold g, show_from_loc. destruct (mapping_matches M p re l); [reflexivity|].
    destruct (keep_through_last _ _); reflexivity.
  Qed.

  Lemma sf_loc_facts (l : location) (id : Z) :
    find_location p id = Some l ->
    is_some (show_from_loc M p re l) = existsb mt (loc_frames l)
    /\ loc_frames (g l) = if existsb mt (loc_frames l) then upto_last mt (loc_frames l) else loc_frames l.
  Proof.
    intros Hl. pose proof (find_location_self p id l Hl) as Hself.
    unfold g, show_from_loc.
    destruct (mapping_matches M p re l) eqn:Em.
    - assert (Hall : forallb mt (loc_frames l) = true).
      { apply forallb_forall. intros fr Hfr. unfold loc_frames in Hfr.
        destruct (l_lines l) as [|ln0 lns].
        - destruct Hfr as [<-|[]]. unfold mt. now rewrite (fm_addr M p re l Hself).
        - apply in_map_iff in Hfr. destruct Hfr as [ln [<- _]].
          change {| fr_loc := l_id l; fr_line := Some ln |} with (mk_frame l ln).
          unfold mt. rewrite (fm_mk M p re l ln Hself), Em. apply orb_true_r. }
      assert (Hex : existsb mt (loc_frames l) = true).
      { pose proof (loc_frames_nonempty l) as Hne. destruct (loc_frames l) as [|f t]; [congruence|].
        cbn in Hall. apply andb_true_iff in Hall. destruct Hall as [Hf _]. cbn. now rewrite Hf. }
      rewrite Hex. cbn [is_some]. split; [reflexivity|]. now rewrite upto_last_all.
    - assert (Hmk : forall ln, mt (mk_frame l ln) = line_matches M p re ln)
        by (intros ln; unfold mt; rewrite (fm_mk M p re l ln Hself), Em; apply orb_false_r).
      destruct (l_lines l) as [|ln0 lns] eqn:El.
      + cbn [keep_through_last is_some]. unfold loc_frames. rewrite El. cbn [existsb].
        unfold mt. rewrite (fm_addr M p re l Hself), Em. split; reflexivity.
      + assert (Hne : l_lines l <> []) by (rewrite El; discriminate).
        rewrite <- El. rewrite (loc_frames_lines l Hne).
        rewrite existsb_map. rewrite (existsb_ext_in _ (line_matches M p re) _ (fun x _ => Hmk x)).
        rewrite (upto_last_map (line_matches M p re) (mk_frame l) mt _ Hmk), ktl_upto_last.
        destruct (keep_through_last (line_matches M p re) (l_lines l)) as [r|] eqn:Ek.
        * assert (Hex : existsb (line_matches M p re) (l_lines l) = true).
          { destruct (existsb (line_matches M p re) (l_lines l)) eqn:E2; [reflexivity|].
            apply ktl_none in E2. congruence. }
          rewrite Hex. cbn [is_some]. split; [reflexivity|].
          apply loc_frames_set_lines. exact (ktl_some_nonempty _ _ _ Ek).
        * apply ktl_none in Ek. rewrite Ek. cbn [is_some]. split; [reflexivity|].
          now rewrite (loc_frames_lines l Hne).
  Qed.

  Let flag := id_flag (fun l => is_some (show_from_loc M p re l)) (p_location p).
  Let F := loc_frames_of p.
  Let F' := fun id => match find_location p id with Some l => loc_frames (g l) | None => [] end.

  Lemma show_from_sample_char (s : sample) :
    In s (p_sample p) -> in_F25_sample M p re s = false ->
    match keep_through_last flag (s_loc s) with
    | Some kept => has_match M p re (fsample_of p s) = true
                   /\ flat_map F' kept = upto_last mt (sample_frames p s)
    | None => has_match M p re (fsample_of p s) = false
    end.
  Proof.
    intros Hs Hcls.
    assert (Hflag : forall id, In id (s_loc s) -> flag id = existsb mt (F id)).
    { intros id Hid. destruct (wf_present p s id Hwf Hs Hid) as [l Hl].
      unfold flag. rewrite (id_flag_find (fun l => is_some (show_from_loc M p re l)) _ id l (wf_nodup p Hwf) Hl).
      unfold F, loc_frames_of. rewrite Hl. apply (sf_loc_facts l id Hl). }
    assert (HF' : forall id, In id (s_loc s) -> F' id = if existsb mt (F id) then upto_last mt (F id) else F id).
    { intros id Hid. destruct (wf_present p s id Hwf Hs Hid) as [l Hl].
      unfold F', F, loc_frames_of. rewrite Hl. apply (sf_loc_facts l id Hl). }
    assert (Hc : sf_class mt F flag (s_loc s) = false).
    { unfold sf_class. unfold in_F25_sample in Hcls. fold mt in Hcls. fold F in Hcls.
      rewrite (ktl_ext_in flag (fun id => existsb mt (F id)) (s_loc s) Hflag). exact Hcls. }
    pose proof (show_from_sample mt F F' flag (s_loc s) Hflag HF' Hc) as H.
    unfold has_match, fsample_of. cbn [fs_frames]. unfold sample_frames, frames_of.
    fold (loc_frames_of p). fold F. fold mt. exact H.
  Qed.

  Lemma show_from_meets_spec_l :
    in_F25 M p (Some re) = false ->
    fsamples (fst (show_from M p (Some re))) = spec_show_from M p (Some re) (fsamples p).
  Proof.
    intros Hcls. unfold show_from. cbn [fst]. fold flag.
    unfold spec_show_from, fsamples at 2. rewrite filter_map_comm, map_map.
    set (gs := fun s : sample => match keep_through_last flag (s_loc s) with
                                  | Some locs => set_sample_locs s locs | None => s end).
    rewrite (filter_map_spec _ (fun s => has_match M p re (fsample_of p s)) gs (p_sample p)).
    2:{ intros s Hs.
        assert (Hc : in_F25_sample M p re s = false)
          by (unfold in_F25 in Hcls; exact (existsb_false_forall _ _ Hcls s Hs)).
        pose proof (show_from_sample_char s Hs Hc) as H. unfold gs.
        destruct (keep_through_last flag (s_loc s)).
        - destruct H as [H _]. now rewrite H.
        - now rewrite H. }
    unfold fsamples. cbn [p_sample set_samples]. rewrite map_map.
    apply map_ext_in. intros s Hs. apply filter_In in Hs. destruct Hs as [Hs Hm].
    assert (Hc : in_F25_sample M p re s = false)
      by (unfold in_F25 in Hcls; exact (existsb_false_forall _ _ Hcls s Hs)).
    pose proof (show_from_sample_char s Hs Hc) as H.
    unfold fsample_of at 1. unfold on_frames. cbn [fsample_of fs_val fs_label fs_numlabel fs_numunit fs_frames].
    unfold sample_frames at 1.
    rewrite (frames_of_rewritten p g _ _ sg_id). fold F'. fold mt.
    unfold gs. destruct (keep_through_last flag (s_loc s)) as [kept|].
    - destruct H as [_ H]. cbn [s_loc set_sample_locs s_val s_label s_numlabel s_numunit]. now rewrite H.
    - rewrite H in Hm. discriminate.
  Qed.
End ShowFromProfile.
