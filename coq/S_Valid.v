(* Specification of C02: the validity contract of the property statement. *)
From PV Require Import M_Profile.
Open Scope list_scope.
Open Scope Z_scope.

Definition once (id : Z) (ids : list Z) : Prop := count_occ Z.eq_dec ids id = 1%nat.

(* every sample has exactly one value per sample type, and every location, function and mapping it
   references exists once with a non-zero id *)
Definition contract (p : profile) : Prop :=
  (forall s, In s (p_sample p) ->
     List.length (s_val s) = List.length (p_sampletype p) /\
     forall id, In id (s_loc s) -> id <> 0 /\ once id (map l_id (p_location p))) /\
  (forall l, In l (p_location p) ->
     (l_mapping l = 0 \/ once (l_mapping l) (map m_id (p_mapping p))) /\
     forall x, In x (l_lines l) -> ln_fn x <> 0 /\ once (ln_fn x) (map f_id (p_function p))).

Definition once_b (id : Z) (ids : list Z) : bool := Nat.eqb (count_occ Z.eq_dec ids id) 1.

Definition contract_b (p : profile) : bool :=
  forallb (fun s => Nat.eqb (List.length (s_val s)) (List.length (p_sampletype p)) &&
                    forallb (fun id => negb (id =? 0) && once_b id (map l_id (p_location p))) (s_loc s)) (p_sample p) &&
  forallb (fun l => ((l_mapping l =? 0) || once_b (l_mapping l) (map m_id (p_mapping p))) &&
                    forallb (fun x => negb (ln_fn x =? 0) && once_b (ln_fn x) (map f_id (p_function p))) (l_lines l)) (p_location p).

(* references resolve through the tables (what every parser guarantees by construction) *)
Definition refs_listed (p : profile) : Prop :=
  (forall s id, In s (p_sample p) -> In id (s_loc s) -> id = -1 \/ In id (map l_id (p_location p))) /\
  (forall l, In l (p_location p) ->
     (l_mapping l = 0 \/ In (l_mapping l) (map m_id (p_mapping p))) /\
     forall x, In x (l_lines l) -> ln_fn x = 0 \/ In (ln_fn x) (map f_id (p_function p))).
