(* Model of concurrent editSettings calls (internal/driver/settings.go): every request runs
     settingsMu.Lock(); s := read(file); s' := fn(s); write(file, s'); settingsMu.Unlock()
   as four atomic events; a schedule is the list of thread ids in the order the scheduler lets
   them take their next event.  [locked = false] is the same program without the mutex (the code
   before the repair of F18), kept to show that the mutex is what the theorem needs.
   No proofs in this file. *)
From Coq Require Export List Arith Bool.
Export ListNotations.

Section Sched.
  Variable F : Type.                        (* contents of the settings file *)
  Variable edit : nat -> F -> option F.     (* request i: None = fn (or the read) failed, nothing is written *)

  Record st := { file : F; holder : option nat; pc : nat -> nat; loc : nat -> option F }.

  Definition set_at {A} (g : nat -> A) (i : nat) (v : A) : nat -> A :=
    fun j => if Nat.eqb j i then v else g j.

  Definition apply_edit (i : nat) (f : F) : F := match edit i f with Some f' => f' | None => f end.

  (* thread i takes its next event; None = it cannot (blocked on the mutex, or finished) *)
  Definition step_thread (locked : bool) (s : st) (i : nat) : option st :=
    match pc s i with
    | 0 => if locked
           then match holder s with
                | None => Some {| file := file s; holder := Some i; pc := set_at (pc s) i 1; loc := loc s |}
                | Some _ => None
                end
           else Some {| file := file s; holder := holder s; pc := set_at (pc s) i 1; loc := loc s |}
    | 1 => Some {| file := file s; holder := holder s; pc := set_at (pc s) i 2; loc := set_at (loc s) i (Some (file s)) |}
    | 2 => Some {| file := match loc s i with
                           | Some f => match edit i f with Some f' => f' | None => file s end
                           | None => file s
                           end;
                   holder := holder s; pc := set_at (pc s) i 3; loc := loc s |}
    | 3 => Some {| file := file s; holder := if locked then None else holder s; pc := set_at (pc s) i 4; loc := loc s |}
    | _ => None
    end.

  (* run a schedule; the second component records the order in which requests started
     (= acquired the mutex when there is one) *)
  Fixpoint exec (locked : bool) (sched : list nat) (s : st) (order : list nat) : option (st * list nat) :=
    match sched with
    | [] => Some (s, order)
    | i :: r =>
        match step_thread locked s i with
        | Some s' => exec locked r s' (if Nat.eqb (pc s i) 0 then order ++ [i] else order)
        | None => None
        end
    end.

  Definition init (f0 : F) : st := {| file := f0; holder := None; pc := fun _ => 0; loc := fun _ => None |}.

  Definition sequential (order : list nat) (f0 : F) : F := fold_left (fun f i => apply_edit i f) order f0.
End Sched.
