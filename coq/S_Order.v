(* C08 -- specification, written from the property text: "every ordering used in output (entries,
   edges, tags, labels, legend lines) is a strict total order on the things it orders", and
   "the same input gives exactly the same bytes regardless of map iteration order".
   Independent of the chain representation of M_Order: it talks about an arbitrary boolean
   relation and about the implementation's observed answers. *)
From Coq Require Import Sorting.Permutation Sorting.Sorted.
From PV Require Import M_Order.
Open Scope Z_scope.

Section Laws.
  Context {A : Type}.
  Variable lt : A -> A -> bool.
  Definition irreflexive := forall x, lt x x = false.
  Definition asymmetric := forall x y, lt x y = true -> lt y x = false.
  Definition transitive := forall x y z, lt x y = true -> lt y z = true -> lt x z = true.
  (* incomparability is transitive (what makes "sorted" meaningful: a strict weak order) *)
  Definition neg_transitive := forall x y z, lt x y = false -> lt y z = false -> lt x z = false.
  Definition strict_weak_order := irreflexive /\ asymmetric /\ transitive /\ neg_transitive.
  (* total on the things ordered: two different things are never tied *)
  Definition total_on (same : A -> A -> bool) (l : list A) :=
    forall x y, In x l -> In y l -> same x y = false -> lt x y = true \/ lt y x = true.
  Definition strict_total_order_on (same : A -> A -> bool) (l : list A) :=
    strict_weak_order /\ total_on same l.
  (* what sort.Sort guarantees about its result: no element is less than an earlier one *)
  Definition sorted_by (l : list A) := StronglySorted (fun x y => lt y x = false) l.
End Laws.

(* determinism of a sorting step: whatever order the elements arrive in (map iteration) and
   whatever (unstable) algorithm sorts them, the result is the same list *)
Definition sort_deterministic {A} (lt : A -> A -> bool) (l : list A) :=
  forall l1 l2, Permutation l l1 -> Permutation l l2 -> sorted_by lt l1 -> sorted_by lt l2 -> l1 = l2.

(* an accumulation over the entries of a map does not depend on the iteration order *)
Definition order_insensitive {A B} (f : list A -> B) := forall l l', Permutation l l' -> f l = f l'.

(* ---- decidable checker of the order laws on observed answers: m i j = "Less(x_i, x_j)" ---- *)
Definition idx (k : nat) : list nat := seq 0 k.
Definition matrix_laws (k : nat) (same m : nat -> nat -> bool) : bool :=
  forallb (fun i => negb (m i i)) (idx k)
  && forallb (fun i => forallb (fun j => negb (m i j && m j i)) (idx k)) (idx k)
  && forallb (fun i => forallb (fun j => forallb (fun l =>
        (negb (m i j && m j l) || m i l) && (m i j || m j l || negb (m i l))) (idx k)) (idx k)) (idx k)
  && forallb (fun i => forallb (fun j => same i j || m i j || m j i) (idx k)) (idx k).

Fixpoint count_occ_z (l : list Z) (z : Z) : nat :=
  match l with [] => O | a :: r => ((if Z.eqb a z then 1 else 0) + count_occ_z r z)%nat end.
Definition is_perm_z (a b : list Z) : bool :=
  Nat.eqb (List.length a) (List.length b) && forallb (fun z => Nat.eqb (count_occ_z a z) (count_occ_z b z)) a.

(* ---- sorting one REPRESENTATIVE per group (printSource: one node per function name, one node per
   source file, taken in map order).  The order of the groups may depend only on the groups:
   whatever member stands for a group, the sequence of group keys after sorting is the same. *)
Definition group_order_independent {A} (g : A -> val) (lt : A -> A -> bool) :=
  forall l1 l2 : list A, NoDup (map g l1) -> Permutation (map g l1) (map g l2) ->
    sorted_by lt l1 -> sorted_by lt l2 -> map g l1 = map g l2.

(* decidable obligation on a generated site (file, function, slice, node order, how the slice was
   filled -- see harness cmpscan): a slice of representatives chosen by key K must be sorted by a
   comparator whose FIRST step guards and decides on K *)
Definition first_key (c : chain) : option string :=
  match c with s :: _ => if step_ok s then Some (guard s) else None | [] => None end.
Definition rep_sort_ok (chain_named : string -> chain) (s : string * string * string * string * string) : bool :=
  let '(_, _, _, order, kind) := s in
  if String.eqb kind "all" || String.eqb kind "given" then true
  else if has_prefix "rep:" kind then
    match first_key (chain_named order) with
    | Some k => String.eqb k (drop 4 kind)
    | None => false
    end
  else false.
