(* Case runner for C05: trimmed reports (nodecount / nodefraction / edgefraction) vs the model, and
   the specification checker (numbers unchanged, removed exactly, accounting-for, edges closed,
   residual marking) evaluated on the implementation's output.
   input = TL [profile; options; TS form; fmt-table; order]
   forms = tgraph | top | tree | dotgraph | dot
   [order]: for the dot forms, the node list of the implementation's final graph (survivor choice and
   order under EntropyOrder are float heuristics outside the model). *)
From PV Require Import R_Graph R_C04.
Open Scope string_scope.
Open Scope list_scope.
Open Scope Z_scope.

Definition c05_order (i : term) : list node_info := map ni_of (gl (gn i 4)).

(* legend lines of reportLabels (report.go:1226-1239): dropped nodes, dropped edges, top N out of M *)
Definition legend_extras (total : Z) (tr : trimmed) (visual : bool) : list term :=
  let n := nlen (t_g tr) in
  if total =? 0 then [TZ 0; TZ 0; TZ 0; TZ 0]
  else [TZ (if 0 <? t_dropped_nodes tr then t_dropped_nodes tr else 0);
        TZ (if visual && (0 <? t_dropped_edges tr) then t_dropped_edges tr else 0);
        TZ (if (0 <? n) && (n <? t_orig tr) then n else 0);
        TZ (if (0 <? n) && (n <? t_orig tr) then t_orig tr else 0)].

Definition of_trimmed (tr : trimmed) : list term :=
  [TZ (t_orig tr); TZ (t_dropped_nodes tr); TZ (t_dropped_edges tr)] ++ of_igraph_ordered (t_g tr).

Definition run_C05 (i : term) : term :=
  let '(o, (si, pr)) := c04_prepare i in
  let form := gs (gn i 2) in
  match si with
  | SiOk _ =>
      if String.eqb form "tgraph" then TL (TS "ok" :: of_trimmed (new_trimmed_text o pr))
      else if String.eqb form "top" then
        let tr := new_trimmed_text o pr in
        TL ([TS "ok"; TZ (legend_of tr); TZ (pr_total pr)] ++ legend_extras (pr_total pr) tr false ++
            [TL (map (fun it => TL [TS (with_inl (ti_name it) (ti_inl it)); TZ (ti_flat it); TZ (ti_cum it)]) (text_items (t_g tr)))])
      else if String.eqb form "webtop" then
        let tr := new_trimmed_text o pr in
        TL [TS "ok"; TZ (pr_total pr); TZ (legend_of tr); TL (map of_item (text_items (t_g tr)))]
      else if String.eqb form "tree" then
        let tr := new_trimmed_text o pr in
        TL ([TS "ok"; TZ (legend_of tr); TZ (pr_total pr)] ++ legend_extras (pr_total pr) tr false ++
            [TL (map (tree_block (t_g tr)) (g_nodes (t_g tr)))])
      else if String.eqb form "dotgraph" then TL (TS "ok" :: of_trimmed (new_trimmed_dot o pr (c05_order i)))
      else if String.eqb form "dot" then
        let tr := new_trimmed_dot o pr (c05_order i) in
        TL ([TS "ok"; TZ (legend_of tr); TZ (pr_total pr)] ++ legend_extras (pr_total pr) tr true ++ dot_obs printable_name (t_g tr))
      else TL [TS "unknown-form"]
  | e => err_term e
  end.

Definition eqv_C05 (i m o : term) : bool := eqv_canon i m o.

(* ---------------- specification checker ---------------- *)
Definition nodup_ni (l : list node_info) : list node_info :=
  fold_right (fun k acc => if memK node_info ni_eqb k acc then acc else k :: acc) [] l.

(* text reports: the entries shown are exactly those that are not hidden for having no numbers,
   whose |cum| reaches the node cutoff, and that are among the first N under the active order --
   computed from the definition sums only *)
Definition expected_shown (o : ropts) (ss : list (gsample node_info)) : list (node_info * nval) :=
  let all := map (fun k => (k, spec_nval node_info ni_eqb None ss k)) (nodup_ni (all_keys node_info ss)) in
  let live := filter (fun e => negb (node_dropped (o_drop_negative o) (snd e))) all in
  let cut := if 0 <? o_nodecutoff o
             then filter (fun e => negb (abs64 (nv_cum (snd e)) <? o_nodecutoff o)) live else live in
  let sorted := sort_by (if o_cumsort o then cum_name_less else flat_name_less) cut in
  if 0 <? o_nodecount o
  then (let top := filter (fun e => negb (abs64 (nv_cum (snd e)) <? 0)) (firstn (Z.to_nat (o_nodecount o)) sorted) in
        if Nat.eqb (List.length top) (List.length sorted) then sorted else top)
  else sorted.

(* a graph observed from the implementation obeys the invariance clause of C05 *)
Definition graph_invariant (o : ropts) (ss : list (gsample node_info)) (g : igraph) : bool :=
  let shown := map fst (g_nodes g) in
  forallb (fun e => nval_eqb (snd e) (spec_nval node_info ni_eqb None ss (fst e))
                    && negb (node_dropped (o_drop_negative o) (snd e))) (g_nodes g)
  && forallb (fun e => memK node_info ni_eqb (e_src e) shown && memK node_info ni_eqb (e_dst e) shown
                       && (if e_res e
                           then existsb (fun s => counted node_info s &&
                                                  gap_adjb node_info ni_eqb (Some shown) (e_src e) (e_dst e) (keys node_info s)) ss
                           else (e_w e =? wrap_i64 (edge_spec node_info ni_eqb false None ss (e_src e) (e_dst e)))
                                && (e_wdiv e =? wrap_i64 (edge_spec node_info ni_eqb true None ss (e_src e) (e_dst e)))))
             (g_edges g).

Definition rows_sum (rows : list term) (ix : nat) : Z := fold_left (fun a r => wadd a (gz (gn r ix))) rows 0.

Definition names_match (exp : list (node_info * nval)) (rows : list term) : bool :=
  Nat.eqb (List.length exp) (List.length rows) &&
  forallb (fun er => String.eqb (printable_name (fst (fst er))) (strip_inl (gs (gn (snd er) 0)))
                     && (flat_value (snd (fst er)) =? gz (gn (snd er) 1))
                     && (cum_value (snd (fst er)) =? gz (gn (snd er) 2)))
          (combine exp rows).

Definition edge_row_ok_kept (shown : list node_info) (ss : list (gsample node_info)) (a b : string) (w : Z) : bool :=
  if edge_row_ok ss a b w then true else
  existsb (fun ka => if String.eqb (printable_name ka) a then
     existsb (fun kb => if String.eqb (printable_name kb) b then
        (mean_value (wrap_i64 (edge_spec node_info ni_eqb false (Some shown) ss ka kb))
                    (wrap_i64 (edge_spec node_info ni_eqb true (Some shown) ss ka kb)) =? w) else false) shown else false) shown.

Definition spec_C05 (i ob : term) : bool :=
  let '(o, (si, pr)) := c04_prepare i in
  let form := gs (gn i 2) in
  match si with
  | SiOk ix =>
      let ss := report_samples o (rebuild o pr) in
      if negb (String.eqb (gs (gn ob 0)) "ok") then false
      else if String.eqb form "tgraph" then
        let g := mk_graph (g_nodes (igraph_of (gn ob 4) (gn ob 5))) (g_edges (igraph_of (gn ob 4) (gn ob 5))) in
        graph_invariant o ss g &&
        (* removed exactly *)
        term_eqb (TL (map (fun e => of_nval (of_ni (fst e)) (snd e)) (expected_shown o ss)))
                 (TL (map (fun e => of_nval (of_ni (fst e)) (snd e)) (g_nodes g)))
      else if String.eqb form "dotgraph" then
        graph_invariant o ss (igraph_of (gn ob 4) (gn ob 5))
      else if String.eqb form "top" then
        let rows := gl (gn ob 7) in
        names_match (expected_shown o ss) rows && (gz (gn ob 1) =? rows_sum rows 1)
      else if String.eqb form "webtop" then
        let rows := map (fun r => TL [gn r 0; gn r 2; gn r 3]) (gl (gn ob 3)) in
        names_match (expected_shown o ss) rows && (gz (gn ob 2) =? rows_sum rows 1)
      else if String.eqb form "tree" then
        let blocks := gl (gn ob 7) in
        let exp := expected_shown o ss in
        let shown := map fst exp in
        names_match exp blocks && (gz (gn ob 1) =? rows_sum blocks 1) &&
        forallb (fun b =>
                   forallb (fun e => edge_row_ok_kept shown ss (strip_inl (gs (gn e 0))) (gs (gn b 0)) (gz (gn e 1))) (items_of (gn b 3)) &&
                   forallb (fun e => edge_row_ok_kept shown ss (gs (gn b 0)) (strip_inl (gs (gn e 0))) (gz (gn e 1))) (items_of (gn b 4)))
                blocks
      else if String.eqb form "dot" then
        let nodes := items_of (gn ob 7) in
        let names := map (fun r => gs (gn r 0)) nodes in
        forallb (fun r => row_ok o ss (gs (gn r 0)) (gz (gn r 1)) (gz (gn r 2))) nodes &&
        (gz (gn ob 1) =? rows_sum nodes 1) &&
        forallb (fun e => existsb (String.eqb (gs (gn e 0))) names && existsb (String.eqb (gs (gn e 1))) names &&
                          (gb (gn e 3) || edge_row_ok ss (gs (gn e 0)) (gs (gn e 1)) (gz (gn e 2))))
                (items_of (gn ob 8))
      else true
  | _ => String.eqb (gs (gn ob 0)) "err"
  end.

Definition cls_C05 (i : term) : list Z := [].

Definition judge_C05 := judge_all run_C05 eqv_C05 spec_C05 cls_C05 0%Z.
