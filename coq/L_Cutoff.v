(* C05, "the entries removed are exactly those below the cutoff": the half that can be proved
   without uniqueness of the sorted order -- NOTHING BELOW THE CUM CUTOFF IS EVER SHOWN by the text
   pipeline (cum cutoff, sort, top N, rebuilds), whatever the node count and the edge cutoff. *)
From Coq Require Import Lia.
From PV Require Import M_Graph S_Graph M_Report L_Graph L_Report.
Open Scope list_scope.
Open Scope Z_scope.

Lemma nodup_keys_filter : forall (A B : Type) (f : A * B -> bool) (l : list (A * B)),
  NoDup (map fst l) -> NoDup (map fst (filter f l)).
Proof.
  intros A B f l. induction l as [|x r IH]; simpl; intros Hnd; [constructor|].
  inversion Hnd as [|y ys Hnot Hr]; subst.
  destruct (f x); simpl; [|apply IH; exact Hr].
  constructor; [|apply IH; exact Hr].
  intros Hin. apply Hnot. apply in_map_iff in Hin. destruct Hin as [z [Hz Hin]].
  apply filter_In in Hin. apply in_map_iff. exists z. split; [exact Hz|apply Hin].
Qed.

Lemma filter_full_length : forall (A : Type) (f : A -> bool) (l : list A),
  List.length (filter f l) = List.length l -> forall x, In x l -> f x = true.
Proof.
  intros A f l. induction l as [|y r IH]; simpl; intros Hlen x Hin; [contradiction|].
  assert (Hle : (List.length (filter f r) <= List.length r)%nat).
  { clear. induction r as [|z r IH]; simpl; [lia|]. destruct (f z); simpl; lia. }
  destruct (f y) eqn:Ey; simpl in Hlen.
  - destruct Hin as [Hin|Hin]; [subst; exact Ey|]. apply IH; [lia|exact Hin].
  - lia.
Qed.

Lemma firstn_In_ : forall (A : Type) (k : nat) (l : list A) x, In x (firstn k l) -> In x l.
Proof.
  intros A k. induction k as [|k IH]; intros l x H; simpl in H; [contradiction|].
  destruct l as [|y r]; simpl in H; [contradiction|].
  destruct H as [H|H]; [left; exact H|right; apply IH; exact H].
Qed.

Lemma new_graph_nodup : forall kept dn ss,
  NoDup (map fst (g_nodes (new_graph node_info ni_eqb kept dn ss))).
Proof.
  intros kept dn ss. unfold new_graph, select_nodes. cbn [g_nodes].
  apply nodup_keys_filter. exact (build_nodup node_info ni_eqb ni_eqb_spec kept ss).
Qed.

Definition above (o : ropts) (v : nval) : Prop := (abs64 (nv_cum v) <? o_nodecutoff o) = false.

(* first pass: with an active cutoff every entry of the first-pass graph is an entry of the
   untrimmed graph whose |cum| is not below the cutoff *)
Lemma pass1_above : forall o pr1 n v, 0 < o_nodecutoff o ->
  In (n, v) (g_nodes (fst (trim_pass1 o pr1))) ->
  In (n, v) (g_nodes (report_graph o pr1 None)) /\ above o v.
Proof.
  intros o pr1 n v Hc. unfold trim_pass1.
  assert (Hb : (0 <? o_nodecutoff o) = true) by (apply Z.ltb_lt; exact Hc). rewrite Hb.
  set (g0 := report_graph o pr1 None).
  set (flt := fun e : node_info * nval => negb (abs64 (nv_cum (snd e)) <? o_nodecutoff o)).
  unfold above_cum_cutoff. fold flt.
  match goal with |- context [if ?c then _ else _] => destruct c eqn:Ec end; cbn [fst]; intros Hin.
  - (* rebuilt from the kept set *)
    pose proof (shown_is_kept_lemma node_info ni_eqb ni_eqb_spec _ _ _ _ _ Hin) as Hk.
    pose proof (kept_nodes_unchanged_graph_lemma node_info ni_eqb ni_eqb_spec _ _ _ _ _ Hin) as H0.
    split; [exact H0|].
    unfold keptb in Hk. apply (memK_In node_info ni_eqb ni_eqb_spec) in Hk.
    apply in_map_iff in Hk. destruct Hk as [[n' v'] [Hn Hf]]. cbn [fst] in Hn. rewrite Hn in Hf. clear n' Hn.
    apply filter_In in Hf. destruct Hf as [Hf1 Hf2].
    assert (Hnd : NoDup (map fst (g_nodes g0))) by apply new_graph_nodup.
    pose proof (nget_in node_info ni_eqb ni_eqb_spec _ _ _ Hnd Hf1) as E1.
    pose proof (nget_in node_info ni_eqb ni_eqb_spec _ _ _ Hnd H0) as E2.
    rewrite E1 in E2. rewrite E2 in *. unfold flt in Hf2. cbn [snd] in Hf2. unfold above.
    destruct (abs64 (nv_cum v) <? o_nodecutoff o); [discriminate|reflexivity].
  - split; [exact Hin|].
    apply negb_false_iff, Z.eqb_eq in Ec. unfold nlen in Ec. rewrite map_length in Ec.
    apply Nat2Z.inj in Ec.
    pose proof (filter_full_length _ flt (g_nodes g0) (eq_sym Ec) _ Hin) as Hf.
    unfold flt in Hf. cbn [snd] in Hf. unfold above.
    destruct (abs64 (nv_cum v) <? o_nodecutoff o); [discriminate|reflexivity].
Qed.

Theorem shown_not_below_cutoff_lemma : forall o pr n v, 0 < o_nodecutoff o ->
  In (n, v) (g_nodes (t_g (new_trimmed_text o pr))) ->
  (abs64 (nv_cum v) <? o_nodecutoff o) = false.
Proof.
  intros o pr n v Hc. unfold new_trimmed_text. cbv zeta. set (pr1 := rebuild o pr).
  pose proof (pass1_above o pr1) as HA.
  destruct (trim_pass1 o pr1) as [g1 dropped]. cbn [fst] in HA.
  cbn [t_g]. unfold trim_edges. cbn [g_nodes].
  assert (Hsorted : In (n, v) (sort_by (if o_cumsort o then cum_name_less else flat_name_less) (g_nodes g1)) ->
                    (abs64 (nv_cum v) <? o_nodecutoff o) = false).
  { intros H. apply sort_by_in in H. exact (proj2 (HA n v Hc H)). }
  destruct (0 <? o_nodecount o).
  - match goal with |- context [if ?c then _ else _] => destruct c end.
    + unfold sort_nodes. cbn [g_nodes]. intros H. apply sort_by_in in H.
      unfold report_graph in H.
      pose proof (shown_is_kept_lemma node_info ni_eqb ni_eqb_spec _ _ _ _ _ H) as Hk.
      pose proof (kept_nodes_unchanged_graph_lemma node_info ni_eqb ni_eqb_spec _ _ _ _ _ H) as H0.
      unfold keptb in Hk. apply (memK_In node_info ni_eqb ni_eqb_spec) in Hk.
      unfold above_cum_cutoff in Hk. cbn [g_nodes] in Hk.
      apply in_map_iff in Hk. destruct Hk as [[n' v'] [Hn Hf]]. cbn [fst] in Hn. rewrite Hn in Hf. clear n' Hn.
      apply filter_In in Hf. destruct Hf as [Hf1 _].
      apply firstn_In_ in Hf1. apply sort_by_in in Hf1.
      destruct (HA n v' Hc Hf1) as [Hg0 Hab].
      assert (Hnd : NoDup (map fst (g_nodes (report_graph o pr1 None)))) by apply new_graph_nodup.
      pose proof (nget_in node_info ni_eqb ni_eqb_spec _ _ _ Hnd Hg0) as E1.
      pose proof (nget_in node_info ni_eqb ni_eqb_spec _ _ _ Hnd H0) as E2.
      rewrite E1 in E2. rewrite E2 in *. exact Hab.
    + cbn [g_nodes]. unfold sort_nodes. cbn [g_nodes]. exact Hsorted.
  - unfold sort_nodes. cbn [g_nodes]. exact Hsorted.
Qed.

(* ---- the converse for reports without a node count (nodecount 0): every entry of the untrimmed
   graph whose |cum| is not below the cutoff IS shown, with its numbers ---- *)
Lemma kept_entry_survives : forall kept dn ss n v,
  keptb node_info ni_eqb kept n = true ->
  In (n, v) (g_nodes (new_graph node_info ni_eqb None dn ss)) ->
  In (n, v) (g_nodes (new_graph node_info ni_eqb kept dn ss)).
Proof.
  intros kept dn ss n v Hk Hin. unfold new_graph, select_nodes in *. cbn [g_nodes] in *.
  apply filter_In in Hin. destruct Hin as [Hin Hd]. cbn [snd] in Hd.
  apply filter_In. split; [|exact Hd].
  apply (nget_found node_info ni_eqb ni_eqb_spec).
  - rewrite (kept_nodes_unchanged_lemma node_info ni_eqb ni_eqb_spec kept ss n Hk).
    apply (nget_in node_info ni_eqb ni_eqb_spec); [|exact Hin].
    exact (build_nodup node_info ni_eqb ni_eqb_spec None ss).
  - intros E. rewrite E in Hd. rewrite dropped_nval0 in Hd. discriminate.
Qed.

Theorem above_cutoff_is_shown_lemma : forall o pr n v, o_nodecount o = 0 ->
  In (n, v) (g_nodes (report_graph o (rebuild o pr) None)) ->
  (abs64 (nv_cum v) <? o_nodecutoff o) = false ->
  In (n, v) (g_nodes (t_g (new_trimmed_text o pr))).
Proof.
  intros o pr n v Hn Hin Hab. unfold new_trimmed_text. cbv zeta. set (pr1 := rebuild o pr) in *.
  assert (H1 : In (n, v) (g_nodes (fst (trim_pass1 o pr1)))).
  { unfold trim_pass1. destruct (0 <? o_nodecutoff o); [|exact Hin].
    match goal with |- context [if ?c then _ else _] => destruct c end; [|exact Hin].
    cbn [fst]. unfold report_graph in *. apply kept_entry_survives; [|exact Hin].
    unfold keptb. apply (memK_In node_info ni_eqb ni_eqb_spec).
    unfold above_cum_cutoff. apply in_map_iff. exists (n, v). split; [reflexivity|].
    apply filter_In. split; [exact Hin|]. cbn [snd]. rewrite Hab. reflexivity. }
  destruct (trim_pass1 o pr1) as [g1 dropped]. cbn [fst] in H1.
  rewrite Hn. change (0 <? 0) with false. cbv iota.
  cbn [t_g]. unfold trim_edges, sort_nodes. cbn [g_nodes].
  apply sort_by_in. exact H1.
Qed.

(* the edge cutoff: no shown edge weighs less than it *)
Theorem shown_edge_not_below_cutoff_lemma : forall o pr e,
  In e (g_edges (t_g (new_trimmed_text o pr))) -> (abs64 (e_w e) <? o_edgecutoff o) = false.
Proof.
  intros o pr e. unfold new_trimmed_text. cbv zeta.
  destruct (trim_pass1 o (rebuild o pr)) as [g1 dropped]. cbn [t_g].
  unfold trim_edges at 1. cbn [g_edges]. intros H. apply filter_In in H. destruct H as [_ H].
  apply negb_true_iff in H. exact H.
Qed.
