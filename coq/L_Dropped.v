(* C05: the "Dropped N nodes (cum <= X)" figure of the header -- the entries the first (cutoff)
   pass reports as dropped plus the entries it leaves add up to the entries of the untrimmed graph. *)
From Coq Require Import Lia Permutation.
From PV Require Import M_Graph S_Graph M_Report L_Graph L_Report L_Cutoff.
Open Scope list_scope.
Open Scope Z_scope.

Lemma rebuilt_keys_are_kept : forall o pr1 kept,
  (forall n, In n kept -> exists v, In (n, v) (g_nodes (report_graph o pr1 None))) ->
  NoDup kept ->
  List.length (g_nodes (report_graph o pr1 (Some kept))) = List.length kept.
Proof.
  intros o pr1 kept Hsrc Hnd. rewrite <- (map_length fst).
  apply Permutation_length. apply NoDup_Permutation.
  - apply new_graph_nodup.
  - exact Hnd.
  - intros n. split.
    + intros H. apply in_map_iff in H. destruct H as [[n' v] [E H]]. cbn [fst] in E. rewrite E in H. clear n' E.
      unfold report_graph in H.
      pose proof (shown_is_kept_lemma node_info ni_eqb ni_eqb_spec _ _ _ _ _ H) as Hk.
      unfold keptb in Hk. apply (memK_In node_info ni_eqb ni_eqb_spec) in Hk. exact Hk.
    + intros H. destruct (Hsrc n H) as [v Hv]. apply in_map_iff. exists (n, v). split; [reflexivity|].
      unfold report_graph in *. apply kept_entry_survives; [|exact Hv].
      unfold keptb. apply (memK_In node_info ni_eqb ni_eqb_spec). exact H.
Qed.

Theorem dropped_nodes_add_up_lemma : forall o pr,
  t_orig (new_trimmed_text o pr) + t_dropped_nodes (new_trimmed_text o pr) =
  nlen (report_graph o (rebuild o pr) None).
Proof.
  intros o pr. unfold new_trimmed_text. cbv zeta. set (pr1 := rebuild o pr).
  assert (H : nlen (fst (trim_pass1 o pr1)) + snd (trim_pass1 o pr1) = nlen (report_graph o pr1 None)).
  { unfold trim_pass1. destruct (0 <? o_nodecutoff o); [|cbn [fst snd]; lia].
    match goal with |- context [if ?c then _ else _] => destruct c end; [|cbn [fst snd]; lia].
    cbn [fst snd]. unfold nlen at 1. rewrite rebuilt_keys_are_kept; [lia| |].
    - intros n Hn. unfold above_cum_cutoff in Hn. apply in_map_iff in Hn.
      destruct Hn as [[n' v] [E Hf]]. cbn [fst] in E. rewrite E in Hf. apply filter_In in Hf.
      exists v. apply Hf.
    - unfold above_cum_cutoff. apply nodup_keys_filter. apply new_graph_nodup. }
  destruct (trim_pass1 o pr1) as [g1 dropped]. cbn [fst snd] in H.
  cbn [t_orig t_dropped_nodes]. exact H.
Qed.
