(* Executable model of the multi-source fetch of internal/driver/fetch.go (C16):
     grabProfile (:323)  ->  [grab_profile]
     concurrentGrab (:205) -> [run_goroutines] (one atomic write per goroutine, ANY completion order),
                              the WaitGroup barrier, then [collect] (left-to-right pass over the slots)
     chunkedGrab (:168)  ->  [chunks_of] + [chunk_loop]
     grabSourcesAndBases (:124) -> [grab_sources_and_bases]
   The profile type [P] and combineProfiles (:242, i.e. CompatibilizeSampleTypes + ScaleProfiles +
   profile.Merge + mapping-source union; None = error) are SECTION VARIABLES: C16 is about which
   profiles are combined, in which order and grouping, not about Merge itself (C03/C07).
   A concrete toy instance ([tprof], [toy_combine]) used by the case runner is at the end.
   No proofs in this file. *)
From PV Require Export Base.Term Base.Str.
From PV Require Import M_Profile.
Open Scope Z_scope.

Definition chunk_size : nat := 128.     (* fetch.go:169 const chunkSize = 128 *)

Section Fetch.
  Variable P : Type.
  Variable combine : list P -> option P.

  (* ---------------- grabProfile ---------------- *)
  (* answers of the outside world for one source (oracles, shipped in the case) *)
  Inductive fetcher_ans := FaProfile (p : P) (src : string) | FaDecline (* (nil, "", nil) *) | FaErr (e : string).
  Inductive fetch_ans := FtProfile (p : P) (src : string) | FtErr (e : string).   (* fetch(): file or URL + Parse *)

  Inductive grab_res := GOk (p : P) (remote : bool) | GErr (e : string).

  Definition test_prefix : string := "http://pproftest.local".

  (* [valid p] = p.CheckValid() : None = valid, Some msg = error.  locateBinaries is the identity on
     the observables of this model (no object files in scope). *)
  Definition grab_profile (valid : P -> option string) (fa : fetcher_ans) (ft : fetch_ans) : grab_res :=
    let after (p : P) (src : string) :=
      match valid p with
      | Some e => GErr e
      | None => GOk p (negb (String.eqb src "") && negb (has_prefix test_prefix src))
      end in
    match fa with
    | FaErr e => GErr e
    | FaProfile p src => after p src
    | FaDecline => match ft with FtErr e => GErr e | FtProfile p src => after p src end
    end.

  (* ---------------- concurrentGrab ---------------- *)
  Record source := { s_addr : string; s_res : grab_res }.   (* s_res: what this source's goroutine will compute *)

  Fixpoint upd {A} (i : nat) (v : A) (l : list A) : list A :=
    match l, i with
    | [], _ => []
    | _ :: r, O => v :: r
    | a :: r, S i' => a :: upd i' v r
    end.

  (* goroutine i finishing = one atomic write of its result into slot i (sources[i].p/.err) *)
  Definition finish (ch : list source) (slots : list (option grab_res)) (i : nat) : list (option grab_res) :=
    match nth_error ch i with
    | Some s => upd i (Some (s_res s)) slots
    | None => slots
    end.

  Definition run_goroutines (ch : list source) (order : list nat) : list (option grab_res) :=
    fold_left (finish ch) order (repeat None (List.length ch)).

  Inductive cres :=
  | CNil                                   (* (nil, nil, false, 0, nil) *)
  | COk (p : P) (save : bool) (count : nat)
  | CErr                                   (* combineProfiles failed *)
  | CPanic.                                (* a slot read before its goroutine wrote it (excluded by the barrier) *)

  Definition err_line (addr e : string) : string := (addr ++ ": " ++ e)%string.

  (* the pass after wg.Wait(): errors printed and skipped, the rest collected in index order *)
  Fixpoint collect (ch : list source) (slots : list (option grab_res))
    : option (list string * list P * bool) :=
    match ch, slots with
    | [], _ => Some ([], [], false)
    | s :: ch', Some r :: sl' =>
        match collect ch' sl' with
        | None => None
        | Some (lines, ps, save) =>
            match r with
            | GErr e => Some (err_line (s_addr s) e :: lines, ps, save)
            | GOk p remote => Some (lines, p :: ps, remote || save)
            end
        end
    | _ :: _, _ => None
    end.

  Definition finish_chunk (ps : list P) (save : bool) : cres :=
    match ps with
    | [] => CNil
    | _ => match combine ps with
           | None => CErr
           | Some p => COk p save (List.length ps)
           end
    end.

  Definition concurrent_grab (ch : list source) (order : list nat) : cres * list string :=
    match collect ch (run_goroutines ch order) with
    | None => (CPanic, [])
    | Some (lines, ps, save) => (finish_chunk ps save, lines)
    end.

  (* ---------------- chunkedGrab ---------------- *)
  Fixpoint chunks_of (fuel k : nat) (l : list source) : list (list source) :=
    match fuel with
    | O => []
    | S f => match l with
             | [] => []
             | _ => firstn k l :: chunks_of f k (skipn k l)
             end
    end.

  (* the part of a global completion order that concerns the chunk [start, start+len) *)
  Definition chunk_order (start len : nat) (sched : list nat) : list nat :=
    map (fun g => (g - start)%nat) (filter (fun g => (start <=? g)%nat && (g <? start + len)%nat) sched).

  Fixpoint chunk_loop (chs : list (list source)) (start : nat) (sched : list nat)
           (acc : option (P * bool * nat)) (lines : list string) : cres * list string :=
    match chs with
    | [] => (match acc with None => CNil | Some (p, s, c) => COk p s c end, lines)
    | ch :: r =>
        let '(cr, ls) := concurrent_grab ch (chunk_order start (List.length ch) sched) in
        let lines' := (lines ++ ls)%list in
        let start' := (start + List.length ch)%nat in
        match cr with
        | CPanic => (CPanic, lines')
        | CErr => (CErr, lines')
        | CNil => chunk_loop r start' sched acc lines'
        | COk cp cs cc =>
            match acc with
            | None => chunk_loop r start' sched (Some (cp, cs, cc)) lines'
            | Some (p, s, c) =>
                match combine [p; cp] with
                | None => (CErr, lines')
                | Some p' => chunk_loop r start' sched (Some (p', s || cs, (c + cc)%nat)) lines'
                end
            end
        end
    end.

  Definition chunked_grab (k : nat) (l : list source) (sched : list nat) : cres * list string :=
    chunk_loop (chunks_of (List.length l) k l) 0 sched None [].

  (* ---------------- grabSourcesAndBases ---------------- *)
  Inductive status := StOk | StErrSrc | StErrBase | StNoSrc | StNoBase | StPanic.

  Record gsb_out := {
    g_status : status;
    g_src : option P; g_base : option P; g_save : bool;
    g_err_src : list string;     (* stderr of the source group's goroutine, in print order *)
    g_err_base : list string;    (* stderr of the base group's goroutine (interleaved with the former in reality) *)
    g_tail : list string         (* printed after both groups are done *)
  }.

  Definition count_of (c : cres) : nat := match c with COk _ _ n => n | _ => O end.
  Definition prof_of (c : cres) : option P := match c with COk p _ _ => Some p | _ => None end.
  Definition save_of (c : cres) : bool := match c with COk _ s _ => s | _ => false end.

  Definition fetched_msg (what : string) (got want : nat) : string :=
    ("Fetched " ++ string_of_Z (Z.of_nat got) ++ " " ++ what ++ " profiles out of " ++ string_of_Z (Z.of_nat want))%string.

  Definition grab_sources_and_bases (k : nat) (srcs bases : list source) (sched_s sched_b : list nat) : gsb_out :=
    let '(rs, ls) := chunked_grab k srcs sched_s in
    let '(rb, lb) := chunked_grab k bases sched_b in
    let fail st := {| g_status := st; g_src := None; g_base := None; g_save := false;
                      g_err_src := ls; g_err_base := lb; g_tail := [] |} in
    match rs, rb with
    | CPanic, _ | _, CPanic => fail StPanic
    | CErr, _ => fail StErrSrc
    | _, CErr => fail StErrBase
    | _, _ =>
        if (count_of rs =? 0)%nat then fail StNoSrc
        else if (count_of rb =? 0)%nat && negb (List.length bases =? 0)%nat then fail StNoBase
        else {| g_status := StOk; g_src := prof_of rs; g_base := prof_of rb;
                g_save := save_of rs || save_of rb;
                g_err_src := ls; g_err_base := lb;
                g_tail := (if (List.length srcs =? count_of rs)%nat then [] else [fetched_msg "source" (count_of rs) (List.length srcs)])
                          ++ (if (List.length bases =? count_of rb)%nat then [] else [fetched_msg "base" (count_of rb) (List.length bases)]) |}
    end.
End Fetch.

Arguments FaProfile {P}. Arguments FaDecline {P}. Arguments FaErr {P}.
Arguments FtProfile {P}. Arguments FtErr {P}.
Arguments GOk {P}. Arguments GErr {P}.
Arguments CNil {P}. Arguments COk {P}. Arguments CErr {P}. Arguments CPanic {P}.
Arguments g_status {P}. Arguments g_src {P}. Arguments g_base {P}. Arguments g_save {P}.
Arguments g_err_src {P}. Arguments g_err_base {P}. Arguments g_tail {P}.
Arguments Build_source {P}. Arguments s_addr {P}. Arguments s_res {P}.

(* ================= command line -> the two source lists (cli.go parseFlags) =================
   The positional arguments ARE the source list, in order and with repetitions (cli.go:139
   `Sources: args`); the first one is taken off only when there are at least two and the object tool
   opens it as a binary (oracle [first_is_binary], cli.go:97-105).  -base / -diff_base values are
   kept in order, empty values dropped (dropEmpty), giving both is an error (addBaseProfiles). *)
Section Cli.
  Variable A : Type.
  Variable is_empty : A -> bool.
  Inductive cli_res := CliErr | CliOk (sources bases : list A) (diff : bool).
  Definition drop_empty (l : list A) : list A := filter (fun a => negb (is_empty a)) l.
  Definition cli_source_lists (first_is_binary : bool) (args base diff_base : list A) : cli_res :=
    match args with
    | [] => CliErr                                     (* "no profile source specified" *)
    | _ :: rest =>
        let srcs := match rest with
                    | [] => args
                    | _ => if first_is_binary then rest else args
                    end in
        match drop_empty base, drop_empty diff_base with
        | _ :: _, _ :: _ => CliErr                     (* "-base and -diff_base flags cannot both be specified" *)
        | b, [] => CliOk srcs b false
        | _, d => CliOk srcs d true
        end
    end.
End Cli.
Arguments CliErr {A}. Arguments CliOk {A}.

(* ================= the HTTP transport shared by all fetches of one run =================
   internal/transport/transport.go: ONE transport object serves every HTTP fetch of a pprof run
   (sources, bases, symbolz).  RoundTrip loads the -tls_cert/-tls_key/-tls_ca files once (initOnce:
   the only state that survives between requests) and then builds the TLS policy PER REQUEST:
   RootCAs / client certificates from the loaded files, InsecureSkipVerify iff the request's scheme is
   https+insecure; a fresh http.Transport per request.  [rq_trusted] is the oracle "the server's
   certificate verifies against RootCAs (the -tls_ca pool, else the system roots)".  The result is
   whether the connection is established; the server's answer is the source's own oracle. *)
Record tr_req := { rq_scheme : string; rq_trusted : bool }.
Inductive tr_state := TrFresh | TrReady.

Definition tr_round_trip (st : tr_state) (r : tr_req) : tr_state * bool :=
  (TrReady,
   if String.eqb (rq_scheme r) "http" then true
   else if String.eqb (rq_scheme r) "https+insecure" then true
   else if String.eqb (rq_scheme r) "https" then rq_trusted r
   else false).

(* the requests of a run in the order they reach the transport: (who, request) |-> (who, connected) *)
Fixpoint tr_run {W} (st : tr_state) (rs : list (W * tr_req)) : list (W * bool) :=
  match rs with
  | [] => []
  | (w, r) :: t => let '(st', ok) := tr_round_trip st r in (w, ok) :: tr_run st' t
  end.

(* ================= toy instance used by the case runner =================
   A profile is (sample type name, [(key, value)]): one sample type, one value per sample, the key
   stands for the sample's stack.  "" as type = a profile without sample types.
   [toy_combine] mirrors combineProfiles on such profiles: CompatibilizeSampleTypes fails when the
   sample types have no common name; a single profile is returned as is (fetch.go:256); otherwise
   profile.Merge: zero-valued samples are skipped, equal keys are summed (int64 wrap-around) in order
   of first appearance, and samples whose sum is zero are dropped (merge.go:81-87).
   [tp_comments] stands for the header fields that record WHICH profiles went in and in WHAT ORDER
   (Profile.Comments: combineHeaders appends the comments of the sources in order, merge.go:493; the
   harness gives every source one distinct comment, so the de-duplication there never fires and is
   not modelled). *)
Record tprof := { tp_type : string; tp_comments : list string; tp_samples : list (string * Z) }.

Fixpoint tp_add (acc : list (string * Z)) (k : string) (v : Z) : list (string * Z) :=
  match acc with
  | [] => [(k, v)]
  | (k', v') :: r => if String.eqb k' k then (k', wrap_i64 (v' + v)) :: r else (k', v') :: tp_add r k v
  end.

Definition tp_step (acc : list (string * Z)) (kv : string * Z) : list (string * Z) :=
  if snd kv =? 0 then acc else tp_add acc (fst kv) (snd kv).

Definition toy_merge_samples (ps : list tprof) : list (string * Z) :=
  filter (fun kv => negb (snd kv =? 0)) (fold_left tp_step (List.concat (map tp_samples ps)) []).

Definition toy_compat (ps : list tprof) : bool :=
  match ps with
  | [] => false
  | p :: r => negb (String.eqb (tp_type p) "") && forallb (fun q => String.eqb (tp_type q) (tp_type p)) r
  end.

Definition toy_combine (ps : list tprof) : option tprof :=
  if toy_compat ps then
    match ps with
    | [p] => Some p
    | p :: _ => Some {| tp_type := tp_type p; tp_comments := List.concat (map tp_comments ps);
                        tp_samples := toy_merge_samples ps |}
    | [] => None
    end
  else None.

(* fetchProfiles (fetch.go:58-78) on the toy instance: when bases were fetched the profile pprof goes
   on to report on is combine [merged sources; merged bases scaled by -1].  Scale(-1) = ScaleN, which
   negates every value and drops the samples that end up zero (profile.go:810-823; the float64 round
   trip is exact for the harness's values, all below 2^53). *)
Definition toy_neg (p : tprof) : tprof :=
  {| tp_type := tp_type p; tp_comments := tp_comments p;
     tp_samples := filter (fun kv => negb (snd kv =? 0)) (map (fun kv => (fst kv, - snd kv)) (tp_samples p)) |}.

Inductive fetch_out := FoStatus (st : status) | FoDiffErr | FoOk (p : tprof).

Definition toy_fetch_profiles (o : gsb_out tprof) : fetch_out :=
  match g_status o with
  | StOk =>
      match g_src o, g_base o with
      | Some p, None => FoOk p
      | Some p, Some b => match toy_combine [p; toy_neg b] with Some r => FoOk r | None => FoDiffErr end
      | None, _ => FoStatus StPanic
      end
  | st => FoStatus st
  end.

(* ================= header side of the merge (round 5) =================
   What combineProfiles' helpers decide from ALL merged profiles:
   - measurement.CommonValueType (via ScaleProfiles): the common unit is the FINEST unit among the
     profiles (running minimum over the list, ties keep the earlier one); units are coded by their
     rank 1 = ns < 2 = us < 3 = ms < 4 = s (0 = not a time unit), values are rescaled to it;
   - profile.combineHeaders: DefaultSampleType is the first non-empty one in list order. *)
Definition unit_factor (code : Z) : Z :=
  if code =? 2 then 1000 else if code =? 3 then 1000000 else if code =? 4 then 1000000000 else 1.

Definition common_unit (us : list Z) : Z :=
  match us with [] => 0 | a :: r => fold_left Z.min r a end.

Fixpoint first_nonempty (l : list string) : string :=
  match l with
  | [] => ""
  | a :: r => if String.eqb a "" then first_nonempty r else a
  end.

(* ================= how long an HTTP fetch may take (round 6) =================
   adjustURL (fetch.go:591-622) and fetchURL (:521-525), in milliseconds.  [sec_flag]/[tmo_flag] are
   source.Seconds / source.Timeout (-1 = flag not given), [url_sec] the URL's own seconds= parameter
   when it parses as an integer.  The duration is -seconds when positive, else the URL's value; the
   timeout is -timeout when positive, else 1.5 x a positive duration, else 60 s; the http.Client is
   given that timeout PLUS 5 s, and a source whose server answers within it is a fetched source. *)
Definition fetch_timeout_ms (sec_flag tmo_flag : Z) (url_sec : option Z) : Z :=
  let dur := if 0 <? sec_flag then sec_flag * 1000
             else match url_sec with Some u => u * 1000 | None => sec_flag * 1000 end in
  if 0 <? tmo_flag then tmo_flag * 1000
  else if 0 <? dur then dur + dur / 2
  else 60000.

Definition client_allowance_ms (sec_flag tmo_flag : Z) (url_sec : option Z) : Z :=
  fetch_timeout_ms sec_flag tmo_flag url_sec + 5000.

(* ================= file or URL? (round 7) =================
   fetch() (fetch.go:492-512) stats the source string: only when stat SUCCEEDS is the source read as
   a local file; every failure (not found, name too long, not a directory, permission denied, ...)
   sends it to adjustURL / fetchURL.  [stat_res] is the oracle answer of the file system. *)
Inductive stat_res := StatOk | StatNotExist | StatOther (errno : string).
Inductive fetch_route := RouteFile | RouteURL.
Definition route_of_stat (st : stat_res) : fetch_route :=
  match st with StatOk => RouteFile | _ => RouteURL end.
