(* Lemmas about M_Symbolize (C12): the has-symbols flags of a mapping are only ever raised. *)
From PV Require Import M_Symbolize S_Symbolize L_Symbolize L_SymbolizeCheck.
Open Scope Z_scope.

Lemma flags_le_refl m : flags_le m m.
Proof. unfold flags_le. tauto. Qed.
Lemma flags_le_trans a b c : flags_le a b -> flags_le b c -> flags_le a c.
Proof. unfold flags_le. tauto. Qed.

Lemma sym_frame_flags s fr : flags_le (q_m s) (q_m (fst (sym_frame s fr))).
Proof.
  unfold sym_frame, flags_le. cbn [fst q_m set_flags m_hasfn m_hasfile m_hasline m_hasinline].
  repeat split; intros H; try rewrite H; auto.
Qed.

Definition Tfl (a b : lst) : Prop := flags_le (q_m a) (q_m b).

Lemma sym_frames_flags frs s : Tfl s (fst (mapacc sym_frame s frs)).
Proof.
  destruct (mapacc_inv sym_frame (fun _ => True) Tfl (fun _ _ => True) frs) with (s := s) as [_ [H _]].
  - intros s0. apply flags_le_refl.
  - intros a b c. apply flags_le_trans.
  - intros s0 fr _ _. split; [exact I | split; [apply sym_frame_flags | exact I]].
  - exact I.
  - exact H.
Qed.

Lemma sym_loc_flags s l : Tfl s (fst (sym_loc s l)).
Proof.
  unfold sym_loc, Tfl. destruct (negb (l_mapping l =? m_id (q_m s))); [apply flags_le_refl|].
  destruct (a_err _ || is_nil _); cbn [fst q_m]; [apply flags_le_refl|].
  match goal with |- context [mapacc sym_frame ?s0 ?frs] => pose proof (sym_frames_flags frs s0) as H end.
  unfold Tfl in H. cbn [q_m] in H. eapply flags_le_trans; [exact H|].
  unfold flags_le. cbn [set_flags m_hasfn m_hasfile m_hasline m_hasinline]. tauto.
Qed.

Lemma sym_locs_flags locs s : Tfl s (fst (mapacc sym_loc s locs)).
Proof.
  destruct (mapacc_inv sym_loc (fun _ => True) Tfl (fun _ _ => True) locs) with (s := s) as [_ [H _]].
  - intros s0. apply flags_le_refl.
  - intros a b c. apply flags_le_trans.
  - intros s0 l _ _. split; [exact I | split; [apply sym_loc_flags | exact I]].
  - exact I.
  - exact H.
Qed.

Lemma local_mapping_flags force http g m : flags_le m (snd (local_mapping force http g m)).
Proof.
  unfold local_mapping.
  destruct (negb (existsb _ (g_locs g))); [apply flags_le_refl|].
  destruct (negb force && _); [apply flags_le_refl|].
  destruct (str_empty (m_file m)); [apply flags_le_refl|].
  destruct (unsymbolizable m); [apply flags_le_refl|].
  destruct (str_empty (m_buildid m) && http (m_file m)); [apply flags_le_refl|].
  destruct (a_err (fst (ask (g_orc g) _))); [apply flags_le_refl|].
  match goal with |- context [if ?c then _ else _] => destruct c end; [apply flags_le_refl|].
  cbn [snd].
  match goal with |- context [mapacc sym_loc ?s0 ?locs] => pose proof (sym_locs_flags locs s0) as H end.
  exact H.
Qed.

Lemma remote_mapping_flags force srcs symz s m : flags_le m (snd (remote_mapping force srcs symz s m)).
Proof.
  unfold remote_mapping. destruct (r_err s); [apply flags_le_refl|].
  destruct (negb force && m_hasfn m); [apply flags_le_refl|].
  destruct (find _ _) as [e|]; [|apply flags_le_refl].
  destruct (r_err (symbolize_mapping _ _ _ _)); cbn [snd]; [apply flags_le_refl|].
  unfold flags_le. cbn [set_flags m_hasfn m_hasfile m_hasline m_hasinline]. tauto.
Qed.

Lemma mapacc_snd_rel {St A} (f : St -> A -> St * A) (R : A -> A -> Prop) l :
  (forall s a, R a (snd (f s a))) -> forall s, Forall2 R l (snd (mapacc f s l)).
Proof.
  intros H s. destruct (mapacc_inv f (fun _ => True) (fun _ _ => True) R l) with (s := s) as [_ [_ F]].
  - intros; exact I.
  - intros; exact I.
  - intros s0 a _ _. split; [exact I | split; [exact I | apply H]].
  - exact I.
  - exact F.
Qed.

Lemma symbolize_flags_lemma mode e script p p' err calls :
  symbolize mode e script p = Out p' err calls -> flags_raised p p'.
Proof.
  unfold symbolize. destruct (symbolize_w mode e (w_of p script)) as [w' err'|] eqn:E; [|discriminate].
  intros H; inversion H; subst. unfold flags_raised. cbn [with_w p_mapping].
  revert E. unfold symbolize_w. set (mo := parse_mode mode). set (force := mo_force mo).
  destruct (mo_none mo); [intros E; inversion E; subst; apply Forall2_refl; apply flags_le_refl|].
  set (w1 := if mo_local mo then local_symbolize force (e_http e) (w_of p script) else w_of p script).
  assert (F1 : Forall2 flags_le (p_mapping p) (w_maps w1)).
  { subst w1. destruct (mo_local mo); [|apply Forall2_refl; apply flags_le_refl].
    unfold local_symbolize. cbn [w_maps w_of]. apply mapacc_snd_rel. intros s a. apply local_mapping_flags. }
  set (re := if mo_remote mo then remote_symbolize force (e_srcs e) (e_symz e) w1 else (w1, false)).
  assert (F2 : Forall2 flags_le (p_mapping p) (w_maps (fst re))).
  { subst re. destruct (mo_remote mo); [|exact F1].
    eapply Forall2_trans; [apply flags_le_trans | exact F1|].
    unfold remote_symbolize. cbn [fst w_maps]. apply mapacc_snd_rel. intros s a. apply remote_mapping_flags. }
  clearbody re. destruct (snd re); [intros E; inversion E; subst; exact F2|].
  destruct (demangle _ _ _ _); [|discriminate]. intros E; inversion E; subst. exact F2.
Qed.

Lemma flags_raisedb_sound_lemma p p' : flags_raisedb p p' = true -> flags_raised p p'.
Proof.
  unfold flags_raisedb, flags_raised. intros H.
  eapply Forall2_impl; [|apply list_eqb_Forall2; exact H]. cbn beta. intros m m'. unfold flags_leb, flags_le.
  rewrite !andb_true_iff. intros [[[H1 H2] H3] H4].
  repeat split; intros Hm; [rewrite Hm in H1 | rewrite Hm in H2 | rewrite Hm in H3 | rewrite Hm in H4]; assumption.
Qed.
