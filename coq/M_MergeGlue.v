(* Executable model of the GLUE between profile.Merge and what pprof writes, on the paths where C03
   is observed end to end (internal/driver: fetch.go fetchProfiles / chunkedGrab / concurrentGrab /
   combineProfiles, driver.go generateRawReport / aggregate / applyCommandOverrides for the proto and
   raw formats, report.go printProto, interactive.go and webui.go as far as they decide WHICH profile a
   command or request writes).  Assumptions stated where they are used.  No proofs here. *)
From Coq Require Import List ZArith String Bool.
From PV Require Export M_Merge.
Import ListNotations.
Open Scope string_scope.
Open Scope Z_scope.

(* ------------------------------------------------------------------ fetching and combining *)
(* a source is either fetched (Some profile) or failed (None): concurrentGrab reports the failure and
   goes on *)
(* grabProfile -> locateBinaries (no binary is ever found in the harness's empty search path, no
   -buildid / executable override): a profile WITHOUT mappings gets a fake one, {ID 1, everything else
   zero}, and every location is attached to it ("to attempt symbolization") *)
Definition fake_mapping : mapping :=
  {| m_id := 1; m_start := 0; m_limit := 0; m_offset := 0; m_file := ""; m_buildid := "";
     m_hasfn := false; m_hasfile := false; m_hasline := false; m_hasinline := false |}.
Definition located (p : profile) : profile :=
  match p_mapping p with
  | [] => with_mapping (with_location p (map (fun l => {| l_id := l_id l; l_mapping := 1; l_addr := l_addr l;
                                                          l_lines := l_lines l; l_folded := l_folded l |}) (p_location p)))
                       [fake_mapping]
  | _ => p
  end.

Definition successes (l : list (option profile)) : list profile :=
  flat_map (fun o => match o with Some p => [located p] | None => [] end) l.

(* combineProfiles: CompatibilizeSampleTypes and ScaleProfiles are the identity for inputs with equal
   sample types and units (what the generators produce); ONE profile is handed on as it is -- not
   merged, hence not compacted -- otherwise profile.Merge *)
(* CompatibilizeSampleTypes counts sample types BY NAME over all profiles and keeps those counted once
   per profile: with equal sample type lists that is every type iff the names are pairwise distinct;
   when none is left (all names duplicated, or no sample type at all) combineProfiles fails -- also
   for a single profile.  (Lists where only some names repeat lose columns: C07's, not generated.) *)
Fixpoint nodup_str (l : list string) : bool :=
  match l with [] => true | a :: r => negb (existsb (String.eqb a) r) && nodup_str r end.
Definition types_combinable (p : profile) : bool :=
  match p_sampletype p with [] => false | l => nodup_str (map vt_type l) end.

Definition combine (ps : list profile) : mres :=
  match ps with
  | [] => MErr
  | p0 :: _ =>
      if negb (types_combinable p0) then MErr
      else match ps with
           | [p] => MOk p
           | _ => merge ps
           end
  end.

Inductive gres := GNone | GOk (p : profile) | GErr.

(* chunkedGrab: chunks of [n] sources (128); the sources of a chunk that could be fetched are
   combined, the chunk results are combined pairwise from left to right *)
Fixpoint cgrab (n : nat) (fuel : nat) (l : list (option profile)) (acc : gres) : gres :=
  match fuel with
  | O => acc
  | S f =>
      match l with
      | [] => acc
      | _ =>
          let r := skipn n l in
          match successes (firstn n l) with
          | [] => cgrab n f r acc
          | ps =>
              match combine ps with
              | MOk cp =>
                  match acc with
                  | GNone => cgrab n f r (GOk cp)
                  | GOk p => match combine [p; cp] with
                             | MOk q => cgrab n f r (GOk q)
                             | _ => GErr
                             end
                  | GErr => GErr
                  end
              | _ => GErr
              end
          end
      end
  end.

Definition chunk_size : nat := 128.
Definition chunked_grab (l : list (option profile)) : gres := cgrab chunk_size (S (List.length l)) l GNone.

(* Profile.Scale(-1) on the base: every value negated (float64 arithmetic, exact below 2^53), samples
   that are all zero afterwards dropped (ScaleN) *)
Definition negate_sample (s : sample) : sample :=
  {| s_loc := s_loc s; s_val := map (fun v => wrap_i64 (- v)) (s_val s); s_label := s_label s;
     s_numlabel := s_numlabel s; s_numunit := s_numunit s |}.
Definition negate (p : profile) : profile :=
  with_sample p (filter (fun s => negb (is_zero_sample s)) (map negate_sample (p_sample p))).

(* Profile.SetLabel on a label map kept sorted by key *)
Fixpoint set_label (k : string) (v : list string) (l : list (string * list string)) : list (string * list string) :=
  match l with
  | [] => [(k, v)]
  | (k', v') :: r =>
      if String.eqb k k' then (k, v) :: r
      else if str_ltb k k' then (k, v) :: l
      else (k', v') :: set_label k v r
  end.
Definition mark_base (p : profile) : profile :=
  with_sample p (map (fun s => {| s_loc := s_loc s; s_val := s_val s; s_label := set_label "pprof::base" ["true"] (s_label s);
                                  s_numlabel := s_numlabel s; s_numunit := s_numunit s |}) (p_sample p)).

Definition with_comments (p : profile) (x : list string) : profile :=
  {| p_sampletype := p_sampletype p; p_defaultsampletype := p_defaultsampletype p; p_sample := p_sample p;
     p_mapping := p_mapping p; p_location := p_location p; p_function := p_function p; p_comments := x;
     p_docurl := p_docurl p; p_dropframes := p_dropframes p; p_keepframes := p_keepframes p;
     p_timenanos := p_timenanos p; p_durationnanos := p_durationnanos p; p_periodtype := p_periodtype p;
     p_period := p_period p |}.

(* fetchProfiles (symbolisation off, no frame dropping, no URL-like mapping files): sources, bases,
   -diff_base, -add_comment *)
Definition fetch_profiles (srcs bases : list (option profile)) (diff : bool) (comment : string) : mres :=
  match chunked_grab srcs with
  | GErr => MErr
  | GNone => MErr                                     (* "failed to fetch any source profiles" *)
  | GOk p =>
      let with_base :=
        match bases with
        | [] => MOk p
        | _ =>
            match chunked_grab bases with
            | GOk b => combine [p; negate (if diff then mark_base b else b)]
            | _ => MErr                               (* "failed to fetch any base profiles" *)
            end
        end in
      match with_base with
      | MOk q => MOk (if String.eqb comment "" then q else with_comments q (p_comments q ++ [comment]))
      | r => r
      end
  end.

(* ------------------------------------------------------------------ what proto / raw write *)
(* the options that change the written profile; every other option (sample_index, sort, granularity,
   nodecount, unit, mean, call_tree, trim, ...) is ignored by these two formats:
   applyCommandOverrides forces granularity=addresses for them *)
Record gcfg := { g_noinlines : bool; g_showcolumns : bool; g_divide : Z }.
Definition gcfg0 : gcfg := {| g_noinlines := false; g_showcolumns := false; g_divide := 1 |}.

Definition bool_of_string (s : string) : bool := String.eqb s "true" || String.eqb s "1" || String.eqb s "t".
Fixpoint digits_Z (s : string) (acc : Z) : Z :=
  match s with
  | String a r => digits_Z r (acc * 10 + (Z.of_N (Ascii.N_of_ascii a) - 48))
  | EmptyString => acc
  end.

Definition gcfg_set (c : gcfg) (name value : string) : gcfg :=
  if String.eqb name "noinlines" then {| g_noinlines := bool_of_string value; g_showcolumns := g_showcolumns c; g_divide := g_divide c |}
  else if String.eqb name "showcolumns" then {| g_noinlines := g_noinlines c; g_showcolumns := bool_of_string value; g_divide := g_divide c |}
  else if String.eqb name "divide_by" then {| g_noinlines := g_noinlines c; g_showcolumns := g_showcolumns c; g_divide := digits_Z value 0 |}
  else c.

(* aggregate() at address granularity: nothing with inlines; with noinlines Profile.Aggregate(false,
   true, true, true, showcolumns, true): only the last line of every location is kept, columns are
   cleared unless showcolumns, and no mapping claims inline frames any more *)
Definition last_line (l : list line) : list line :=
  match l with
  | [] => []
  | _ => [last l {| ln_fn := 0; ln_line := 0; ln_col := 0 |}]
  end.
Definition agg_location (showcol : bool) (l : location) : location :=
  {| l_id := l_id l; l_mapping := l_mapping l; l_addr := l_addr l;
     l_lines := map (fun ln => {| ln_fn := ln_fn ln; ln_line := ln_line ln; ln_col := if showcol then ln_col ln else 0 |})
                    (last_line (l_lines l));
     l_folded := l_folded l |}.
Definition agg_mapping (m : mapping) : mapping :=
  {| m_id := m_id m; m_start := m_start m; m_limit := m_limit m; m_offset := m_offset m; m_file := m_file m;
     m_buildid := m_buildid m; m_hasfn := m_hasfn m; m_hasfile := m_hasfile m; m_hasline := m_hasline m;
     m_hasinline := false |}.
Definition glue_aggregate (c : gcfg) (p : profile) : profile :=
  if g_noinlines c
  then with_mapping (with_location p (map (agg_location (g_showcolumns c)) (p_location p))) (map agg_mapping (p_mapping p))
  else p.

(* printProto: values multiplied by 1/divide_by in float64 and truncated (exact for the powers of two
   and the small values generated) *)
Definition glue_divide (c : gcfg) (p : profile) : profile :=
  if (g_divide c =? 1) || (g_divide c <=? 0) then p
  else with_sample p (map (fun s => {| s_loc := s_loc s; s_val := map (fun v => Z.quot v (g_divide c)) (s_val s);
                                       s_label := s_label s; s_numlabel := s_numlabel s; s_numunit := s_numunit s |})
                          (p_sample p)).

(* every command of a session and every web request starts from the fetched profile: what an earlier
   command did to ITS copy is gone, option assignments persist *)
Definition written_proto (c : gcfg) (fetched : profile) : profile := glue_divide c (glue_aggregate c fetched).
Definition written_raw (c : gcfg) (fetched : profile) : profile := glue_aggregate c fetched.
Definition written_download (fetched : profile) : profile := fetched.

(* ------------------------------------------------------------------ observables *)
(* proto write + parse drops the unit list of a numeric label none of whose values has a unit *)
Definition has_unit (u : list string) : bool := existsb (fun s => negb (String.eqb s "")) u.
Definition norm_sample (s : sample) : sample :=
  {| s_loc := s_loc s; s_val := s_val s; s_label := s_label s; s_numlabel := s_numlabel s;
     s_numunit := filter (fun e => has_unit (snd e)) (s_numunit s) |}.
Definition norm_profile (p : profile) : profile := with_sample p (map norm_sample (p_sample p)).

(* Profile.String (the raw format) as the structure the harness parses it back into: time and
   duration (printed lossily) and what String does not print (function ids, drop/keep frames, default
   sample type beyond the [dflt] mark, unit lists of another length than the values) are absent *)
Fixpoint interleave (vs : list Z) (us : list string) : list string :=
  match vs, us with
  | v :: vs', u :: us' => string_of_Z v :: u :: interleave vs' us'
  | _, _ => []
  end.
Definition raw_labels (s : sample) : list term :=
  (match s_label s with
   | [] => []
   | l => [TL (map (fun e => TL [TS (fst e); of_ss (snd e)]) l)]
   end) ++
  (match s_numlabel s with
   | [] => []
   | l => [TL (map (fun e => let u := assoc_units (fst e) (s_numunit s) in
                             TL [TS (fst e);
                                 of_ss (if Nat.eqb (List.length u) (List.length (snd e))
                                        then interleave (snd e) u else map string_of_Z (snd e))]) l)]
   end).
Definition raw_line (p : profile) (ln : line) : term :=
  match lookup_fn p (ln_fn ln) with
  | Some f => TL [TS (f_name f); TS (f_file f); TZ (ln_line ln); TZ (ln_col ln); TZ (f_startline f);
                  TS (if String.eqb (f_name f) (f_sysname f) then "" else f_sysname f)]
  | None => TL [TS "??"]
  end.
Definition raw_view (p : profile) : term :=
  TL [of_ss (p_comments p); TS (p_docurl p);
      match p_periodtype p with Some v => TL [TL [TS (vt_type v); TS (vt_unit v)]] | None => TL [] end;
      TZ (p_period p);
      TL (map (fun v => TL [TS (vt_type v); TS (vt_unit v); of_bool (String.eqb (vt_type v) (p_defaultsampletype p))]) (p_sampletype p));
      TL (map (fun s => TL [of_zs (s_val s); of_zs (s_loc s); TL (raw_labels s)]) (p_sample p));
      TL (map (fun l => TL [TZ (l_id l); TZ (l_addr l); TZ (l_mapping l); of_bool (l_folded l); TL (map (raw_line p) (l_lines l))]) (p_location p));
      TL (map (fun m => TL [TZ (m_id m); TZ (m_start m); TZ (m_limit m); TZ (m_offset m); TS (m_file m); TS (m_buildid m);
                            of_bool (m_hasfn m); of_bool (m_hasfile m); of_bool (m_hasline m); of_bool (m_hasinline m)]) (p_mapping p))].
