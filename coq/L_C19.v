(* Lemmas of C19 that mention the generated field table or glue several L files. *)
From PV Require Import Base.Term M_Config M_Settings M_Fs M_Sched S_Config L_Config L_Settings L_Fs L_Sched Gen.Gen_ConfigTable.
Open Scope string_scope.
Open Scope Z_scope.

Lemma existsb_false_in : forall (A : Type) (g : A -> bool) l x, existsb g l = false -> In x l -> g x = false.
Proof.
  intros A g l x H Hin. destruct (g x) eqn:E; [|reflexivity].
  assert (existsb g l = true) by (apply existsb_exists; exists x; split; assumption). congruence.
Qed.

Definition url_roundtrip_all_saved_statement (pf : string -> option string) (fs : list field) : Prop :=
  forall c, wf_cfgb pf fs c = true ->
    exists c', apply_url_go pf fs (default_cfg fs) (fst (make_url fs c [])) = Ok c' /\
      forall f, In f fs -> f_saved f = true -> c' (f_name f) = canon f (c (f_name f)).

Definition js_F25 (s : string) : string :=
  if String.eqb s (B [107; 255]) then B [107; 239; 191; 189] else s.

Definition request_edit pf js fs cur (reqs : list sop) (i : nat) (st : fstate) : option fstate :=
  match nth_error reqs i with Some o => Some (snd (run_sop pf js fs cur st o)) | None => None end.

Lemma url_roundtrip_all_saved_unless_F26_lemma : forall pf fs c,
  table_ok fs = true -> wf_cfgb pf fs c = true -> in_F26 fs c = false ->
  exists c', apply_url_go pf fs (default_cfg fs) (fst (make_url fs c [])) = Ok c' /\
    forall f, In f fs -> f_saved f = true -> c' (f_name f) = canon f (c (f_name f)).
Proof.
  intros pf fs c T W N. destruct (url_roundtrip_lemma pf fs c T W) as [c' [R H]].
  exists c'. split; [exact R|]. intros f Hin S.
  destruct (String.eqb (f_url f) "") eqn:U.
  - apply String.eqb_eq in U. destruct (table_ok_split fs T) as [N1 _].
    rewrite (url_drops_saved_without_param pf fs c c' f N1 Hin S U R).
    unfold in_F26 in N. pose proof (existsb_false_in _ _ _ f N Hin) as X. cbv beta in X.
    rewrite S, U in X. cbn [andb String.eqb] in X.
    apply negb_false_iff in X. apply String.eqb_eq in X. symmetry. exact X.
  - apply H; [exact Hin|]. unfold url_field. rewrite S, U. reflexivity.
Qed.

Lemma url_roundtrip_all_saved_refuted_lemma : forall pf,
  wf_cfgb pf config_fields (default_cfg config_fields) = true ->
  ~ url_roundtrip_all_saved_statement pf config_fields.
Proof.
  intros pf W St.
  set (c := upd (default_cfg config_fields) "tagroot" "k").
  assert (Wc : wf_cfgb pf config_fields c = true).
  { unfold wf_cfgb in *. rewrite forallb_forall in *. intros f Hin. pose proof (W f Hin) as X.
    unfold c, upd. destruct (String.eqb (f_name f) "tagroot") eqn:E; [|exact X].
    apply String.eqb_eq in E.
    cbn in Hin. repeat (destruct Hin as [Hin|Hin]; [subst f; first [discriminate E | reflexivity]|]). contradiction. }
  destruct (St c Wc) as [c' [R H]].
  set (f := {| f_name := "tagroot"; f_url := ""; f_saved := true; f_kind := KStr; f_choices := []; f_default := ""; f_transient := false |}).
  assert (Hin : In f config_fields) by (vm_compute; tauto).
  pose proof (H f Hin eq_refl) as X.
  rewrite (url_drops_saved_without_param pf config_fields c c' f) in X; try reflexivity; try assumption.
  vm_compute in X. discriminate.
Qed.

Lemma settings_restore_refuted_lemma :
  exists c, reread js_F25 config_fields (default_cfg config_fields) c "focus" <> c "focus".
Proof.
  exists (upd (default_cfg config_fields) "focus" (B [107; 255])). vm_compute. discriminate.
Qed.

Lemma set_preserves_others_lemma : forall name c ss,
  others name (snd (set_fn name c ss)) = others name ss /\
  lookup_first (snd (set_fn name c ss)) name = Some c.
Proof. intros name c ss. destruct (set_fn_spec name c ss) as [_ [A [B _]]]. split; assumption. Qed.

Lemma remove_preserves_others_lemma : forall name ss,
  fst (remove_fn name ss) = 0 -> others name (snd (remove_fn name ss)) = others name ss.
Proof.
  intros name ss H. destruct (remove_fn_spec name ss) as [[_ [A _]]|[X _]]; [exact A|]. rewrite X in H. discriminate.
Qed.

Lemma in_place_write_not_atomic_lemma :
  let s0 := {| files := [("f", "OLD")]; fds := [] |} in
  let ops := [FOpen 3 "f" true true; FWrite 3 "NEW"] in
  protocol_ok "f" false s0 ops = false /\
  (exists s, crashed s0 ops s /\ content s "f" = Some "") /\
  (exists s, crashed s0 ops s /\ content s "f" = Some "NE").
Proof.
  cbn zeta. split; [vm_compute; reflexivity|]. split.
  - eexists. split.
    + exists [FOpen 3 "f" true true], [FWrite 3 "NEW"]. split; [reflexivity|left; reflexivity].
    + vm_compute. reflexivity.
  - eexists. split.
    + exists [FOpen 3 "f" true true], [FWrite 3 "NEW"]. split; [reflexivity|].
      right. exists 3, "NEW", "NE", []. split; [reflexivity|]. split; [vm_compute; reflexivity|reflexivity].
    + vm_compute. reflexivity.
Qed.

Lemma concurrent_requests_serializable_lemma : forall pf js fs cur reqs st0 sched s order,
  exec fstate (request_edit pf js fs cur reqs) true sched (init fstate st0) [] = Some (s, order) ->
  (forall i, In i sched -> pc fstate s i = 4%nat) ->
  file fstate s = sequential fstate (request_edit pf js fs cur reqs) order st0 /\ NoDup order.
Proof.
  intros pf js fs cur reqs st0 sched s order E Fin.
  pose proof (L_Sched.all_finished_unlocked _ _ _ _ _ _ E Fin) as H.
  destruct (edits_serializable_lemma _ _ _ _ _ _ E H) as [A [B _]]. split; assumption.
Qed.

(* end to end: the options in force when a view is saved (command-line flags, anything the URL does
   not override) are part of the stored configuration *)
Lemma save_keeps_options_in_force_lemma : forall pf js fs cur,
  (forall s, js s = s) -> nodup_str (map f_name fs) = true ->
  forallb (fun f => negb (f_saved f && f_transient f)) fs = true ->
  forall st q st' c before f,
    set_config pf js fs cur st q = (0, st') ->
    apply_url_go pf fs cur q = Ok c ->
    read_settings fs cur st = Some before ->
    In f fs -> f_saved f = true -> (f_url f = "" \/ vget q (f_url f) = "") ->
    exists aft c', read_settings fs cur st' = Some aft /\ lookup_first aft (vget q "config") = Some c' /\
      norm_val (f_kind f) (c' (f_name f)) = norm_val (f_kind f) (cur (f_name f)).
Proof.
  intros pf js fs cur Hjs Hnd Hst st q st' c before f H A R Hin S U.
  destruct (save_meets_spec_lemma pf js fs cur Hjs Hnd Hst st q st' c before H A R) as [aft [Ra Ok1]].
  unfold save_ok in Ok1. apply andb_true_iff in Ok1. destruct Ok1 as [Ok1 _].
  apply andb_true_iff in Ok1. destruct Ok1 as [_ Ok2].
  destruct (lookup_first aft (vget q "config")) as [c'|] eqn:L; [|discriminate].
  exists aft, c'. split; [exact Ra|]. split; [exact L|].
  unfold saved_eqb in Ok2. rewrite forallb_forall in Ok2. pose proof (Ok2 f Hin) as X.
  rewrite S in X. cbn [negb orb] in X. apply String.eqb_eq in X. rewrite <- X.
  rewrite (apply_url_untouched_lemma pf fs cur q c f Hnd A Hin U). reflexivity.
Qed.
