(* Lemmas and proofs for C07 (combining and subtracting profiles is linear in every entry). *)
From Coq Require Import QArith Qround Qabs Lia Lqa ZifyBool.
From PV Require Import M_Combine S_Measure S_Combine.
Open Scope Z_scope.

(* ------------------------------------------------------------------ int64 congruence *)
Lemma eq64_refl a : eq64 a a.
Proof. exists 0. lia. Qed.
Lemma eq64_sym a b : eq64 a b -> eq64 b a.
Proof. intros [k H]. exists (- k). lia. Qed.
Lemma eq64_trans a b c : eq64 a b -> eq64 b c -> eq64 a c.
Proof. intros [k H] [l G]. exists (k + l). lia. Qed.
Lemma eq64_add a b c d : eq64 a b -> eq64 c d -> eq64 (a + c) (b + d).
Proof. intros [k H] [l G]. exists (k + l). lia. Qed.
Lemma eq64_sub a b c d : eq64 a b -> eq64 c d -> eq64 (a - c) (b - d).
Proof. intros [k H] [l G]. exists (k - l). lia. Qed.
Lemma eq64_opp a b : eq64 a b -> eq64 (- a) (- b).
Proof. intros [k H]. exists (- k). lia. Qed.
Lemma eq64_mul_l m a b : eq64 a b -> eq64 (m * a) (m * b).
Proof. intros [k H]. exists (m * k). lia. Qed.

Lemma wrap_eq64 a : eq64 (wrap_i64 a) a.
Proof.
  unfold eq64, wrap_i64. exists (- ((a + two63) / two64)).
  pose proof (Z.div_mod (a + two63) two64) as D.
  assert (two64 <> 0) as NZ by (unfold two64; lia).
  specialize (D NZ). lia.
Qed.

Lemma wrap_range a : - two63 <= wrap_i64 a < two63.
Proof.
  unfold wrap_i64. assert (0 < two64) as P by (unfold two64; lia).
  pose proof (Z.mod_pos_bound (a + two63) two64 P) as B.
  unfold two64, two63 in *. lia.
Qed.

Lemma eq64_range a b : eq64 a b -> - two63 <= a < two63 -> - two63 <= b < two63 -> a = b.
Proof.
  intros [k H] A Bd. unfold two63, two64 in *. assert (k = 0) by lia. subst. lia.
Qed.

Lemma eq64_wrap a b : eq64 a b -> wrap_i64 a = wrap_i64 b.
Proof.
  intros H. apply eq64_range; [| apply wrap_range | apply wrap_range].
  eapply eq64_trans; [apply wrap_eq64|]. eapply eq64_trans; [exact H|]. apply eq64_sym, wrap_eq64.
Qed.

Lemma wrap_id a : - two63 <= a < two63 -> wrap_i64 a = a.
Proof. intros R. apply eq64_range; [apply wrap_eq64 | apply wrap_range | exact R]. Qed.

(* ------------------------------------------------------------------ math.Round on exact products *)
Lemma Qfloor_Z_half z : Qfloor (inject_Z z + (1 # 2)) = z.
Proof.
  assert (inject_Z z <= inject_Z z + (1 # 2))%Q as L by lra.
  assert (inject_Z z + (1 # 2) < inject_Z (z + 1))%Q as U by (rewrite inject_Z_plus; change (inject_Z 1) with (1 # 1)%Q; lra).
  apply Qfloor_resp_le in L. rewrite Qfloor_Z in L.
  pose proof (Qfloor_le (inject_Z z + (1 # 2))) as F.
  assert (inject_Z (Qfloor (inject_Z z + (1 # 2))) < inject_Z (z + 1))%Q as G by lra.
  rewrite <- Zlt_Qlt in G. lia.
Qed.

Lemma round_away_Z z : round_away (inject_Z z) = z.
Proof.
  unfold round_away. destruct (Qle_bool 0 (inject_Z z)) eqn:E.
  - apply Qfloor_Z_half.
  - assert (- inject_Z z + (1 # 2) == inject_Z (- z) + (1 # 2))%Q as R by (rewrite inject_Z_opp; reflexivity).
    rewrite (Qfloor_comp _ _ R), Qfloor_Z_half. lia.
Qed.

Lemma round_away_comp a b : (a == b)%Q -> round_away a = round_away b.
Proof.
  intros H. unfold round_away.
  assert (Qle_bool 0 a = Qle_bool 0 b) as E.
  { destruct (Qle_bool 0 a) eqn:A; destruct (Qle_bool 0 b) eqn:Bb; try reflexivity.
    - apply Qle_bool_iff in A. rewrite H in A. apply Qle_bool_iff in A. congruence.
    - apply Qle_bool_iff in Bb. rewrite <- H in Bb. apply Qle_bool_iff in Bb. congruence. }
  rewrite E. destruct (Qle_bool 0 b).
  - apply Qfloor_comp. rewrite H. reflexivity.
  - f_equal. apply Qfloor_comp. rewrite H. reflexivity.
Qed.

Lemma round_away_mulZ v k : round_away (inject_Z v * inject_Z k) = v * k.
Proof.
  transitivity (round_away (inject_Z (v * k))); [|apply round_away_Z].
  apply round_away_comp. rewrite inject_Z_mult. reflexivity.
Qed.

(* |round(q) - q| <= 1/2 *)
Lemma round_away_close q : (Qabs (inject_Z (round_away q) - q) <= 1 # 2)%Q.
Proof.
  unfold round_away. destruct (Qle_bool 0 q) eqn:E.
  - pose proof (Qfloor_le (q + (1 # 2))) as L. pose proof (Qlt_floor (q + (1 # 2))) as U.
    rewrite inject_Z_plus in U. change (inject_Z 1) with (1 # 1)%Q in U. apply Qabs_Qle_condition. split; lra.
  - pose proof (Qfloor_le (- q + (1 # 2))) as L. pose proof (Qlt_floor (- q + (1 # 2))) as U.
    rewrite inject_Z_plus in U. change (inject_Z 1) with (1 # 1)%Q in U. rewrite inject_Z_opp. apply Qabs_Qle_condition. split; lra.
Qed.

(* ------------------------------------------------------------------ lin *)
Lemma lin_app g i a b : lin g i (a ++ b) = lin g i a + lin g i b.
Proof. induction a as [|s r IH]; simpl; [reflexivity | rewrite IH; lia]. Qed.

Lemma lin_flat_map g i (ps : list profile) :
  lin g i (flat_map p_sample ps) = fold_right (fun p acc => lin g i (p_sample p) + acc) 0 ps.
Proof. induction ps as [|p r IH]; simpl; [reflexivity | rewrite lin_app, IH; reflexivity]. Qed.

Lemma lin_ext (g h : sample -> bool) i ss : (forall s, In s ss -> (if g s then val_at i s else 0) = (if h s then val_at i s else 0)) ->
  lin g i ss = lin h i ss.
Proof.
  induction ss as [|s r IH]; simpl; intros H; [reflexivity|].
  rewrite (H s (or_introl eq_refl)), IH; [reflexivity | intros x Hx; apply H; now right].
Qed.

(* dropping samples whose selected column is zero changes nothing *)
Lemma lin_filter g i (keepb : sample -> bool) ss :
  (forall s, In s ss -> keepb s = false -> val_at i s = 0) ->
  lin g i (filter keepb ss) = lin g i ss.
Proof.
  induction ss as [|s r IH]; simpl; intros H; [reflexivity|].
  destruct (keepb s) eqn:K; simpl.
  - rewrite IH; [reflexivity | intros x Hx; apply H; now right].
  - rewrite IH; [| intros x Hx; apply H; now right].
    rewrite (H s (or_introl eq_refl) K). destruct (g s); lia.
Qed.

(* ------------------------------------------------------------------ ScaleN *)
Definition ignores_values (g : sample -> bool) : Prop := forall s v, g (set_val s v) = g s.

Lemma set_val_same s : set_val s (s_val s) = s.
Proof. destruct s; reflexivity. Qed.

Lemma scale_vals_ones rs vals : forallb is_one rs = true -> scale_vals rs vals = vals.
Proof.
  revert vals. induction rs as [|r rr IH]; intros vals H; destruct vals as [|v vr]; simpl; try reflexivity.
  simpl in H. apply andb_true_iff in H as [H1 H2]. rewrite H1, IH; [reflexivity | exact H2].
Qed.

Lemma round_away_zero_mul r : round_away (inject_Z 0 * r) = 0.
Proof.
  transitivity (round_away (inject_Z 0)); [|apply round_away_Z].
  apply round_away_comp. change (inject_Z 0) with 0%Q. ring.
Qed.

Lemma scale_vals_nth rs : forall vals i,
  nth i (scale_vals rs vals) 0 =
  match nth_error rs i with
  | Some r => if is_one r then nth i vals 0 else round_away (inject_Z (nth i vals 0) * r)
  | None => nth i vals 0
  end.
Proof.
  induction rs as [|r rr IH]; intros vals i.
  - destruct vals; destruct i; reflexivity.
  - destruct vals as [|v vr].
    + simpl. destruct i; simpl.
      * destruct (is_one r); [reflexivity | symmetry; apply round_away_zero_mul].
      * destruct (nth_error rr i) as [r'|]; [|reflexivity].
        destruct (is_one r'); [reflexivity | symmetry; apply round_away_zero_mul].
    + destruct i; simpl; [reflexivity | apply IH].
Qed.

Lemma nth_all_zero l i : forallb (fun v => v =? 0) l = true -> nth i l 0 = 0.
Proof.
  revert i. induction l as [|a r IH]; intros i H; destruct i; simpl; try reflexivity.
  - simpl in H. apply andb_true_iff in H as [H _]. lia.
  - simpl in H. apply andb_true_iff in H as [_ H]. apply IH, H.
Qed.

Lemma keep_documented_false rs l : keep_documented rs l = false -> forallb (fun v => v =? 0) l = true.
Proof.
  unfold keep_documented. induction l as [|a r IH]; simpl; intros H; [reflexivity|].
  apply orb_false_iff in H as [H1 H2]. apply negb_false_iff in H1. rewrite H1. simpl. apply IH, H2.
Qed.

Lemma scale_n_samples keep rs p :
  p_sample (scale_n keep rs p) =
  if forallb is_one rs then p_sample p
  else filter (fun s => keep rs (s_val s)) (map (scale_sample rs) (p_sample p)).
Proof. unfold scale_n. destruct (forallb is_one rs); reflexivity. Qed.

Lemma map_scale_ones rs ss : forallb is_one rs = true -> map (scale_sample rs) ss = ss.
Proof.
  intros H. induction ss as [|s r IH]; simpl; [reflexivity|].
  unfold scale_sample at 1. rewrite (scale_vals_ones rs _ H), set_val_same, IH. reflexivity.
Qed.

(* the statement "values are converted, never dropped": every entry-level sum over the result of
   ScaleN equals the sum over ALL samples with their scaled values *)
Lemma scale_n_keeps_nonzero_lemma rs p g i :
  in_F4 rs p = false ->
  lin g i (p_sample (scale_n keep_written rs p)) = lin g i (map (scale_sample rs) (p_sample p)).
Proof.
  intros F. rewrite scale_n_samples. destruct (forallb is_one rs) eqn:A.
  - rewrite map_scale_ones; [reflexivity | exact A].
  - apply lin_filter. intros s' Hs' K.
    unfold in_F4 in F. rewrite A in F. simpl in F.
    apply in_map_iff in Hs' as [s [E Hs]]. subst s'.
    assert (f4_sample rs s = false) as Fs.
    { destruct (f4_sample rs s) eqn:Fs; [|reflexivity].
      assert (existsb (f4_sample rs) (p_sample p) = true) as X by (apply existsb_exists; eauto). congruence. }
    unfold f4_sample in Fs. unfold scale_sample in K. simpl in K. rewrite K in Fs. simpl in Fs.
    unfold val_at, scale_sample. simpl. apply nth_all_zero, (keep_documented_false rs), Fs.
Qed.

Lemma scale_n_documented_lemma rs p g i :
  lin g i (p_sample (scale_n keep_documented rs p)) = lin g i (map (scale_sample rs) (p_sample p)).
Proof.
  rewrite scale_n_samples. destruct (forallb is_one rs) eqn:A.
  - rewrite map_scale_ones; [reflexivity | exact A].
  - apply lin_filter. intros s' Hs' K. unfold val_at. apply nth_all_zero, (keep_documented_false rs), K.
Qed.

(* the two rules agree outside the F4 class *)
Lemma scale_n_rules_agree rs p : in_F4 rs p = false -> scale_n keep_written rs p = scale_n keep_documented rs p.
Proof.
  intros F. unfold scale_n. destruct (forallb is_one rs) eqn:A; [reflexivity|].
  f_equal. unfold in_F4 in F. rewrite A in F. simpl in F.
  induction (p_sample p) as [|s r IH]; simpl; [reflexivity|].
  simpl in F. apply orb_false_iff in F as [F1 F2]. rewrite (IH F2).
  unfold f4_sample in F1. unfold scale_sample at 1 3. simpl.
  destruct (keep_written rs (scale_vals rs (s_val s))) eqn:K; simpl in F1.
  - assert (keep_documented rs (scale_vals rs (s_val s)) = true) as D.
    { clear - K. revert K. generalize (scale_vals rs (s_val s)) as l. intros l. revert rs.
      induction l as [|v vr IH]; intros rs K; destruct rs as [|q qr]; simpl in K; try discriminate.
      unfold keep_documented. simpl. apply orb_true_iff in K as [K|K].
      - apply andb_true_iff in K as [_ K]. rewrite K. reflexivity.
      - apply orb_true_iff. right. apply (IH qr K). }
    rewrite D. reflexivity.
  - rewrite F1. reflexivity.
Qed.

(* values of a scaled sample, column by column *)
Lemma val_at_scale rs s i :
  val_at i (scale_sample rs s) =
  match nth_error rs i with
  | Some r => if is_one r then val_at i s else round_away (inject_Z (val_at i s) * r)
  | None => val_at i s
  end.
Proof. unfold val_at, scale_sample. simpl. apply scale_vals_nth. Qed.

Lemma is_one_spec r : is_one r = true -> (r == 1)%Q.
Proof. unfold is_one. apply Qeq_bool_eq. Qed.

(* unit harmonisation with an integer ratio multiplies exactly *)
Lemma val_at_scale_int rs s i k :
  nth_error rs i = Some (inject_Z k) -> val_at i (scale_sample rs s) = val_at i s * k.
Proof.
  intros H. rewrite val_at_scale, H. destruct (is_one (inject_Z k)) eqn:O.
  - apply is_one_spec in O. assert (k = 1) as ->.
    { change 1%Q with (inject_Z 1) in O. exact (proj1 (inject_Z_injective k 1) O). }
    lia.
  - apply round_away_mulZ.
Qed.

Lemma lin_map_scale g rs i k ss :
  ignores_values g -> nth_error rs i = Some (inject_Z k) ->
  lin g i (map (scale_sample rs) ss) = k * lin g i ss.
Proof.
  intros G H. induction ss as [|s r IH]; simpl; [lia|].
  rewrite IH. unfold scale_sample at 1. rewrite G. fold (scale_sample rs s).
  rewrite (val_at_scale_int rs s i k H). destruct (g s); lia.
Qed.

(* ------------------------------------------------------------------ keyed merge conserves weights *)
Lemma list_eqb_refl {A} (eqb : A -> A -> bool) (l : list A) :
  (forall x, eqb x x = true) -> list_eqb eqb l l = true.
Proof. intros R. induction l as [|a r IH]; simpl; [reflexivity | rewrite R, IH; reflexivity]. Qed.

Lemma key_eqb_refl s : key_eqb s s = true.
Proof.
  unfold key_eqb, kss_eqb, kzs_eqb.
  rewrite (list_eqb_refl Z.eqb), !(list_eqb_refl _ (s_label s)), !(list_eqb_refl _ (s_numlabel s)), !(list_eqb_refl _ (s_numunit s));
    try reflexivity; try apply Z.eqb_refl;
    intros x; rewrite String.eqb_refl; simpl; apply list_eqb_refl; first [apply String.eqb_refl | apply Z.eqb_refl].
Qed.

Lemma respects_ignores g : respects_key g -> ignores_values g.
Proof. intros R s v. apply R. unfold key_eqb. simpl. apply (key_eqb_refl s). Qed.

Lemma vadd_length a : forall b, List.length (vadd a b) = List.length a.
Proof. induction a as [|x a IH]; intros b; destruct b; simpl; try reflexivity. rewrite IH. reflexivity. Qed.

Lemma vadd_nth a : forall b i, List.length a = List.length b ->
  eq64 (nth i (vadd a b) 0) (nth i a 0 + nth i b 0).
Proof.
  induction a as [|x a IH]; intros b i L; destruct b as [|y b]; simpl in L; try discriminate.
  - destruct i; simpl; apply eq64_refl.
  - destruct i; simpl; [apply wrap_eq64 | apply IH; lia].
Qed.

Definition uniform (n : nat) (ss : list sample) : Prop := forall s, In s ss -> List.length (s_val s) = n.

Lemma add_sample_uniform n acc s : uniform n acc -> List.length (s_val s) = n -> uniform n (add_sample acc s).
Proof.
  induction acc as [|a r IH]; intros U L x Hx; simpl in Hx.
  - destruct Hx as [<-|[]]. exact L.
  - destruct (key_eqb a s).
    + destruct Hx as [<-|Hx]; [simpl; rewrite vadd_length; apply U; now left | apply U; now right].
    + destruct Hx as [<-|Hx]; [apply U; now left|].
      apply IH; [intros y Hy; apply U; now right | exact L | exact Hx].
Qed.

Lemma add_sample_lin g i n acc s :
  respects_key g -> uniform n acc -> List.length (s_val s) = n ->
  eq64 (lin g i (add_sample acc s)) (lin g i acc + (if g s then val_at i s else 0)).
Proof.
  intros R. induction acc as [|a r IH]; intros U L; simpl.
  - exists 0. lia.
  - destruct (key_eqb a s) eqn:K; simpl.
    + rewrite (respects_ignores g R a). rewrite <- (R a s K).
      destruct (g a).
      * unfold val_at at 1. simpl.
        assert (eq64 (nth i (vadd (s_val a) (s_val s)) 0) (val_at i a + val_at i s)) as E.
        { apply vadd_nth. rewrite L. apply U. now left. }
        destruct E as [k E]. exists k. lia.
      * exists 0. lia.
    + assert (uniform n r) as Ur by (intros y Hy; apply U; now right).
      destruct (IH Ur L) as [k E]. exists k. lia.
Qed.

Lemma fold_add_sample_lin g i n ss : forall acc,
  respects_key g -> uniform n acc -> uniform n ss ->
  eq64 (lin g i (fold_left add_sample ss acc)) (lin g i acc + lin g i ss) /\ uniform n (fold_left add_sample ss acc).
Proof.
  induction ss as [|s r IH]; intros acc R Ua Us; simpl.
  - split; [exists 0; lia | exact Ua].
  - assert (List.length (s_val s) = n) as L by (apply Us; now left).
    assert (uniform n r) as Ur by (intros y Hy; apply Us; now right).
    destruct (IH (add_sample acc s) R (add_sample_uniform n acc s Ua L) Ur) as [E U']. split; [|exact U'].
    destruct E as [k E]. destruct (add_sample_lin g i n acc s R Ua L) as [k' E'].
    exists (k + k'). lia.
Qed.

Lemma zero_sample_val s i : is_zero_sample s = true -> val_at i s = 0.
Proof. unfold is_zero_sample, val_at. apply nth_all_zero. Qed.

Lemma lin_filter_nonzero (g : sample -> bool) i ss : lin g i (filter (fun s => negb (is_zero_sample s)) ss) = lin g i ss.
Proof. apply lin_filter. intros s _ K. apply negb_false_iff in K. apply zero_sample_val, K. Qed.

(* weights are additive per stack identity: the law of Merge that C07 needs *)
Lemma merge_samples_conserves g i n ss :
  respects_key g -> uniform n ss -> eq64 (lin g i (merge_samples ss)) (lin g i ss).
Proof.
  intros R U. unfold merge_samples. rewrite lin_filter_nonzero.
  assert (uniform n (filter (fun s => negb (is_zero_sample s)) ss)) as U'.
  { intros s Hs. apply filter_In in Hs as [Hs _]. apply U, Hs. }
  destruct (fold_add_sample_lin g i n _ [] R (fun s (H : In s []) => match H with end) U') as [E _].
  simpl in E. rewrite lin_filter_nonzero in E. exact E.
Qed.

(* ------------------------------------------------------------------ the report's numbers *)
Lemma fold_wrap_lin (g : sample -> bool) i ss : forall a,
  fold_left (fun acc s => if g s then wrap_i64 (acc + val_at i s) else acc) ss (wrap_i64 a) = wrap_i64 (a + lin g i ss).
Proof.
  induction ss as [|s r IH]; intros a; simpl.
  - f_equal. lia.
  - destruct (g s).
    + replace (wrap_i64 (wrap_i64 a + val_at i s)) with (wrap_i64 (a + val_at i s)).
      * rewrite IH. f_equal. lia.
      * apply eq64_wrap. apply eq64_add; [apply eq64_sym, wrap_eq64 | apply eq64_refl].
    + rewrite IH. f_equal.
Qed.

Lemma wrap_zero : wrap_i64 0 = 0.
Proof. reflexivity. Qed.

Lemma flat_of_spec p i e : flat_of p i e = wrap_i64 (flatZ p i e).
Proof.
  unfold flat_of, flatZ, flat_g. rewrite <- wrap_zero at 1.
  rewrite (fold_wrap_lin (fun s => leaf_is e (frames_of p s)) i (p_sample p) 0). reflexivity.
Qed.

Lemma cum_of_spec p i e : cum_of p i e = wrap_i64 (cumZ p i e).
Proof.
  unfold cum_of, cumZ, cum_g. rewrite <- wrap_zero at 1.
  rewrite (fold_wrap_lin (fun s => has_name e (frames_of p s)) i (p_sample p) 0). reflexivity.
Qed.

(* ------------------------------------------------------------------ merge, negation, subtraction *)
Definition wf_profile (p : profile) : Prop := uniform (List.length (p_sampletype p)) (p_sample p).

Lemma compatible_ok_len p pb : compatible p pb = Ok true -> List.length (p_sampletype p) = List.length (p_sampletype pb).
Proof.
  unfold compatible. destruct (negb (ovt_eqb _ _)); [discriminate|].
  destruct (list_eqb vt_eqb (p_sampletype p) (p_sampletype pb)) eqn:E; simpl; [|discriminate].
  intros _. revert E. generalize (p_sampletype pb). induction (p_sampletype p) as [|a r IH]; intros l E; destruct l; simpl in E; try discriminate; [reflexivity|].
  apply andb_true_iff in E as [_ E]. simpl. f_equal. apply IH, E.
Qed.

Lemma first_err_compat p0 l : first_err (map (compatible p0) l) = Ok true ->
  forall x, In x l -> List.length (p_sampletype p0) = List.length (p_sampletype x).
Proof.
  induction l as [|a r IH]; simpl; intros H x Hx; [destruct Hx|].
  destruct (compatible p0 a) as [b|e] eqn:E; [|discriminate].
  destruct Hx as [<-|Hx]; [| apply IH; assumption].
  apply compatible_ok_len. unfold compatible in *.
  destruct (negb (ovt_eqb _ _)); [discriminate|]. destruct (negb (list_eqb _ _ _)); [discriminate|]. reflexivity.
Qed.

Lemma first_err_true l : forall b, first_err l = Ok b -> b = true.
Proof.
  induction l as [|a r IH]; simpl; intros b H; [inversion H; reflexivity|].
  destruct a; [apply IH, H | discriminate].
Qed.

(* report_additive: every entry-level sum of the merged profile is the sum over the inputs *)
Lemma merge_additive_lemma ps r g i :
  merge ps = Ok r -> (forall p, In p ps -> wf_profile p) -> respects_key g ->
  eq64 (lin g i (p_sample r)) (fold_right (fun p acc => lin g i (p_sample p) + acc) 0 ps).
Proof.
  intros M W R. pose proof M as M0. unfold merge in M. destruct ps as [|p0 rest]; [discriminate|].
  destruct (first_err (map (compatible p0) rest)) as [b|e] eqn:F; [|discriminate].
  pose proof (first_err_true _ _ F) as ->.
  inversion M as [Hr]. clear M. rewrite <- lin_flat_map.
  cbn [p_sample set_samples].
  apply (merge_samples_conserves g i (List.length (p_sampletype p0))); [exact R|].
  intros s Hs. apply in_flat_map in Hs as [p [Hp Hs]].
  destruct Hp as [<-|Hp]; [apply (W p0 (or_introl eq_refl)), Hs|].
  rewrite (first_err_compat p0 rest F p Hp). apply (W p (or_intror Hp)), Hs.
Qed.

(* Scale(-1): every column is scaled, so the keep rule coincides with the documented one *)
Lemma keep_written_all_scaled rs : forall l,
  forallb (fun r => negb (is_one r)) rs = true -> List.length l = List.length rs ->
  keep_written rs l = keep_documented rs l.
Proof.
  unfold keep_documented. induction rs as [|r rr IH]; intros l A L; destruct l as [|v vr]; simpl in *; try discriminate; [reflexivity|].
  apply andb_true_iff in A as [A1 A2]. rewrite A1. simpl. f_equal. apply IH; [exact A2 | lia].
Qed.

Lemma scale_vals_length rs : forall l, List.length (scale_vals rs l) = List.length l.
Proof. induction rs as [|r rr IH]; intros l; destruct l; simpl; try reflexivity. rewrite IH. reflexivity. Qed.

Lemma neg_ratios_spec (sts : list valuetype) :
  let rs := map (fun _ => (-1)%Q) sts in
  forallb (fun r => negb (is_one r)) rs = true /\ List.length rs = List.length sts
  /\ forall i, (i < List.length sts)%nat -> nth_error rs i = Some (inject_Z (-1)).
Proof.
  induction sts as [|a r IH]; simpl.
  - repeat split. intros i Hi. lia.
  - destruct IH as [A [B C]]. repeat split.
    + exact A.
    + simpl in B. rewrite B. reflexivity.
    + intros i Hi. destruct i; [reflexivity|]. simpl. apply C. lia.
Qed.

Lemma scale_neg_lemma p g i :
  wf_profile p -> ignores_values g ->
  lin g i (p_sample (scale_all keep_written (-1) p)) = - lin g i (p_sample p).
Proof.
  intros W G. unfold scale_all. change (is_one (-1)) with false. cbv iota.
  set (rs := map (fun _ => (-1)%Q) (p_sampletype p)).
  destruct (neg_ratios_spec (p_sampletype p)) as [A [B C]]. fold rs in A, B, C.
  assert (in_F4 rs p = false) as F.
  { unfold in_F4. destruct (forallb is_one rs); [reflexivity|]. simpl.
    apply not_true_is_false. intros X. apply existsb_exists in X as [s [Hs X]].
    unfold f4_sample in X. rewrite keep_written_all_scaled in X.
    - destruct (keep_documented rs _); discriminate.
    - exact A.
    - rewrite scale_vals_length, B. apply W, Hs. }
  rewrite (scale_n_keeps_nonzero_lemma rs p g i F).
  destruct (Nat.ltb i (List.length (p_sampletype p))) eqn:Li.
  - apply Nat.ltb_lt in Li. rewrite (lin_map_scale g rs i (-1) _ G (C i Li)). lia.
  - apply Nat.ltb_ge in Li.
    assert (forall ss, (forall s, In s ss -> val_at i s = 0) -> lin g i ss = 0) as Z0.
    { induction ss as [|s r IH]; simpl; intros H; [reflexivity|].
      rewrite (H s (or_introl eq_refl)), IH; [destruct (g s); reflexivity | intros x Hx; apply H; now right]. }
    rewrite (Z0 (p_sample p)), Z0; [reflexivity | |].
    + intros s' Hs'. apply in_map_iff in Hs' as [s [<- Hs]]. unfold val_at, scale_sample. simpl.
      apply nth_overflow. rewrite scale_vals_length. rewrite (W s Hs). exact Li.
    + intros s Hs. unfold val_at. apply nth_overflow. rewrite (W s Hs). exact Li.
Qed.

(* diff_is_subtraction at the merge: negating the base and merging subtracts, entry by entry *)
Lemma diff_subtracts_lemma p pb r g i :
  merge [p; scale_all keep_written (-1) pb] = Ok r ->
  wf_profile p -> wf_profile pb -> respects_key g ->
  eq64 (lin g i (p_sample r)) (lin g i (p_sample p) - lin g i (p_sample pb)).
Proof.
  intros M Wp Wb R.
  assert (wf_profile (scale_all keep_written (-1) pb)) as Wn.
  { unfold wf_profile, scale_all. change (is_one (-1)) with false. cbv iota.
    unfold scale_n. destruct (forallb is_one _); [exact Wb|].
    intros s Hs. cbn [p_sample set_samples p_sampletype] in *.
    apply filter_In in Hs as [Hs _]. apply in_map_iff in Hs as [s0 [<- Hs0]].
    unfold scale_sample. simpl. rewrite scale_vals_length. apply Wb, Hs0. }
  pose proof (merge_additive_lemma _ r g i M) as A. simpl in A.
  rewrite (scale_neg_lemma pb g i Wb (respects_ignores g R)) in A.
  destruct A as [k A].
  - intros q [<-|[<-|[]]]; assumption.
  - exact R.
  - exists k. lia.
Qed.

(* ------------------------------------------------------------------ the report's selectors depend
   only on the stack identity *)
Lemma list_eqb_Z_eq a : forall b, list_eqb Z.eqb a b = true -> a = b.
Proof.
  induction a as [|x a IH]; intros b H; destruct b as [|y b]; simpl in H; try discriminate; [reflexivity|].
  apply andb_true_iff in H as [H1 H2]. apply Z.eqb_eq in H1. subst. f_equal. apply IH, H2.
Qed.

Lemma key_eqb_loc a b : key_eqb a b = true -> s_loc a = s_loc b.
Proof.
  unfold key_eqb. intros H. apply andb_true_iff in H as [H _]. apply andb_true_iff in H as [H _].
  apply andb_true_iff in H as [H _]. apply list_eqb_Z_eq, H.
Qed.

Lemma flat_g_respects p e : respects_key (flat_g p e).
Proof. intros a b K. unfold flat_g, frames_of. rewrite (key_eqb_loc a b K). reflexivity. Qed.
Lemma cum_g_respects p e : respects_key (cum_g p e).
Proof. intros a b K. unfold cum_g, frames_of. rewrite (key_eqb_loc a b K). reflexivity. Qed.

Lemma self_diff_zero_lemma p r g i :
  merge [p; scale_all keep_written (-1) p] = Ok r -> wf_profile p -> respects_key g ->
  eq64 (lin g i (p_sample r)) 0.
Proof.
  intros M W R. destruct (diff_subtracts_lemma p p r g i M W W R) as [k H]. exists k. lia.
Qed.

(* ------------------------------------------------------------------ CompatibilizeSampleTypes aligns columns by name *)
Lemma remap_of_nth names : forall st rm j t,
  remap_of names st = Some rm -> nth_error st j = Some t ->
  exists i, index_of t names 0%nat = Some i /\ nth_error rm j = Some i.
Proof.
  induction st as [|a r IH]; intros rm j t H N; [destruct j; discriminate|].
  simpl in H. destruct (index_of a names 0%nat) as [ia|] eqn:E; [|discriminate].
  destruct (remap_of names r) as [l|] eqn:R; [|discriminate]. inversion H. subst rm.
  destruct j; simpl in N.
  - inversion N. subst. exists ia. split; [exact E | reflexivity].
  - apply (IH l j t eq_refl N).
Qed.

Lemma val_at_remap rm s j i : nth_error rm j = Some i -> val_at j (remap_sample rm s) = val_at i s.
Proof.
  intros H. unfold val_at, remap_sample. simpl.
  revert j H. induction rm as [|a r IH]; intros j H; [destruct j; discriminate|].
  destruct j; simpl in *; [inversion H; reflexivity | apply IH, H].
Qed.

(* compat_aligns_columns: the result has the same samples in the same order (none dropped, stack
   identity untouched) and column j of the result is the column of the profile that carries the
   j-th common type's NAME *)
Lemma compat_aligns_lemma st p p' :
  compat_one st p = Ok p' ->
  exists f, p_sample p' = map f (p_sample p)
    /\ (forall s, key_eqb (f s) s = true)
    /\ forall j t, nth_error st j = Some t ->
         exists i, index_of t (type_names p) 0%nat = Some i
                   /\ (forall s, val_at j (f s) = val_at i s)
                   /\ nth j (p_sampletype p') dummy_vt = nth i (p_sampletype p) dummy_vt.
Proof.
  unfold compat_one. destruct (remap_of (type_names p) st) as [rm|] eqn:R; [|discriminate].
  destruct (is_identity_from 0 rm && Nat.eqb (List.length st) (List.length (p_sampletype p))) eqn:I.
  - intros H. inversion H. subst p'. exists (fun s => s). split; [symmetry; apply map_id|].
    split; [apply key_eqb_refl|].
    intros j t N. destruct (remap_of_nth _ st rm j t R N) as [i [E Nj]].
    apply andb_true_iff in I as [I _].
    assert (forall k l jj ii, is_identity_from k l = true -> nth_error l jj = Some ii -> ii = (k + jj)%nat) as ID.
    { intros k l. revert k. induction l as [|a r IH]; intros k jj ii Hid Hn; [destruct jj; discriminate|].
      simpl in Hid. apply andb_true_iff in Hid as [H1 H2]. apply Nat.eqb_eq in H1. subst a.
      destruct jj; simpl in Hn; [inversion Hn; lia|]. rewrite (IH (S k) jj ii H2 Hn). lia. }
    pose proof (ID 0%nat rm j i I Nj) as Eq. simpl in Eq. subst i.
    exists j. split; [exact E|]. split; [intros s; reflexivity | reflexivity].
  - intros H. inversion H. subst p'. clear H. exists (remap_sample rm). cbn [p_sample set_samples].
    split; [reflexivity|]. split; [intros s; unfold key_eqb; simpl; apply (key_eqb_refl s)|].
    intros j t N. destruct (remap_of_nth _ st rm j t R N) as [i [E Nj]].
    exists i. split; [exact E|]. split; [intros s; apply val_at_remap, Nj|].
    cbn [p_sampletype set_samples set_types].
    clear - Nj. revert j Nj. induction rm as [|a r IH]; intros j Nj; [destruct j; discriminate|].
    destruct j; simpl in *; [inversion Nj; reflexivity | apply IH, Nj].
Qed.

(* ------------------------------------------------------------------ a scaled column's total: rounding only *)
Lemma keep_written_false_scaled rs : forall nv i r,
  keep_written rs nv = false -> nth_error rs i = Some r -> is_one r = false -> nth i nv 0 = 0.
Proof.
  induction rs as [|q qr IH]; intros nv i r K N O; [destruct i; discriminate|].
  destruct nv as [|v vr]; [destruct i; reflexivity|].
  simpl in K. apply orb_false_iff in K as [K1 K2].
  destruct i; simpl in *.
  - inversion N. subst q. rewrite O in K1. simpl in K1. apply negb_false_iff in K1. lia.
  - apply (IH vr i r K2 N O).
Qed.

Lemma lin_scale_n_scaled_column rs p i r :
  nth_error rs i = Some r -> is_one r = false ->
  lin (fun _ => true) i (p_sample (scale_n keep_written rs p)) = lin (fun _ => true) i (map (scale_sample rs) (p_sample p)).
Proof.
  intros N O. rewrite scale_n_samples. destruct (forallb is_one rs) eqn:A.
  - rewrite map_scale_ones; [reflexivity | exact A].
  - apply lin_filter. intros s' _ K. unfold val_at. apply (keep_written_false_scaled rs _ i r K N O).
Qed.

Lemma lin_cons (g : sample -> bool) i s t : lin g i (s :: t) = (if g s then val_at i s else 0) + lin g i t.
Proof. reflexivity. Qed.

Lemma scaled_total_close rs i r ss :
  nth_error rs i = Some r -> is_one r = false ->
  (Qabs (inject_Z (lin (fun _ => true) i (map (scale_sample rs) ss)) - r * inject_Z (lin (fun _ => true) i ss))
   <= inject_Z (Z.of_nat (List.length ss)) / 2)%Q.
Proof.
  intros N O. induction ss as [|s t IH].
  - cbn [map lin List.length].
    assert ((inject_Z 0 - r * inject_Z 0) == 0)%Q as E by (change (inject_Z 0) with 0%Q; ring).
    rewrite E. vm_compute. discriminate.
  - cbn [map List.length]. rewrite !lin_cons. cbv iota. rewrite Nat2Z.inj_succ. unfold Z.succ. rewrite !inject_Z_plus.
    rewrite (val_at_scale rs s i), N, O.
    pose proof (round_away_close (inject_Z (val_at i s) * r)) as C.
    set (a := inject_Z (round_away (inject_Z (val_at i s) * r))) in *.
    set (b := inject_Z (lin (fun _ : sample => true) i (map (scale_sample rs) t))) in *.
    set (L := inject_Z (lin (fun _ : sample => true) i t)) in *.
    set (v := inject_Z (val_at i s)) in *.
    setoid_replace (a + b - r * (v + L))%Q with ((a - v * r) + (b - r * L))%Q by ring.
    eapply Qle_trans; [apply Qabs_triangle|].
    change (inject_Z 1) with 1%Q.
    set (X := Qabs (a - v * r)) in *. set (Y := Qabs (b - r * L)) in *.
    set (n := inject_Z (Z.of_nat (Datatypes.length t))) in *. clearbody X Y n. clear - C IH. unfold Qdiv in *. change (/ 2)%Q with (1 # 2)%Q in *. lra.
Qed.

(* ScaleN on a scaled column: the new total is ratio * old total within half a unit per sample;
   with ratio = base total / source total (Normalize) this is |new total - base total| <= n/2 *)
Lemma scale_n_total_close rs p i r :
  nth_error rs i = Some r -> is_one r = false ->
  (Qabs (inject_Z (lin (fun _ => true) i (p_sample (scale_n keep_written rs p))) - r * inject_Z (lin (fun _ => true) i (p_sample p)))
   <= inject_Z (Z.of_nat (List.length (p_sample p))) / 2)%Q.
Proof. intros N O. rewrite (lin_scale_n_scaled_column rs p i r N O). apply scaled_total_close; assumption. Qed.

Lemma normalize_total_partial_lemma rs p i B :
  let S := lin (fun _ => true) i (p_sample p) in
  S <> 0 -> nth_error rs i = Some (inject_Z B / inject_Z S)%Q -> is_one (inject_Z B / inject_Z S) = false ->
  (Qabs (inject_Z (lin (fun _ => true) i (p_sample (scale_n keep_written rs p))) - inject_Z B)
   <= inject_Z (Z.of_nat (List.length (p_sample p))) / 2)%Q.
Proof.
  intros S NZ N O. pose proof (scale_n_total_close rs p i _ N O) as H. fold S in H.
  assert (~ inject_Z S == 0)%Q as NQ.
  { intros E. apply NZ. change 0%Q with (inject_Z 0) in E. exact (proj1 (inject_Z_injective S 0) E). }
  setoid_replace (inject_Z B)%Q with (inject_Z B / inject_Z S * inject_Z S)%Q by (field; exact NQ).
  exact H.
Qed.

(* ------------------------------------------------------------------ -proto + reopen *)
Lemma proto_roundtrip_lemma p i :
  print_proto (report_new p i) = p /\ snd (report_new (print_proto (report_new p i)) i) = snd (report_new p i).
Proof. split; reflexivity. Qed.

(* ------------------------------------------------------------------ chunkedGrab: no source is left out *)
Lemma chunks_fuel_concat {A} n : (0 < n)%nat -> forall fuel (l : list A),
  (List.length l <= fuel)%nat -> List.concat (chunks_fuel fuel n l) = l.
Proof.
  intros N. induction fuel as [|f IH]; intros l L.
  - destruct l; [reflexivity | simpl in L; lia].
  - destruct l as [|a r]; [reflexivity|].
    cbn [chunks_fuel List.concat]. rewrite IH.
    + apply firstn_skipn.
    + rewrite skipn_length. cbn [List.length] in *. lia.
Qed.

Lemma chunks_concat_lemma {A} n (l : list A) : (0 < n)%nat -> List.concat (chunks n l) = l.
Proof. intros N. unfold chunks. apply chunks_fuel_concat; [exact N | lia]. Qed.

Lemma chunks_small {A} n (l : list A) : l <> [] -> (List.length l <= n)%nat -> chunks n l = [l].
Proof.
  intros NE L. unfold chunks. destruct l as [|a r]; [contradiction|].
  cbn [chunks_fuel List.length]. rewrite firstn_all2 by exact L. rewrite skipn_all2 by exact L.
  destruct (List.length r); reflexivity.
Qed.

(* up to 128 profiles on one side chunkedGrab is combineProfiles *)
Lemma chunked_grab_small_lemma keep uts ps :
  (List.length ps <= chunk_size)%nat -> chunked_grab keep uts ps = combine_profiles keep uts ps.
Proof.
  intros L. unfold chunked_grab. destruct ps as [|a r] eqn:E; [reflexivity|]. rewrite <- E in *.
  rewrite chunks_small; [| subst; discriminate | exact L].
  destruct (combine_profiles keep uts ps); reflexivity.
Qed.
