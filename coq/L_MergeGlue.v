(* Theorems about the glue model (M_MergeGlue): what the driver's fetch pipeline hands to the report
   code conserves every stack's weight -- over failed sources, fetch chunks of any size and a
   subtracted base. *)
From Coq Require Import List ZArith Lia Bool String.
From PV Require Import M_Merge S_Merge L_Assoc L_Merge M_MergeGlue.
Import ListNotations.
Open Scope Z_scope.
Open Scope list_scope.

Definition wsum (ps : list profile) (k : sample_ident) (j : nat) : Z := sumZ (map (fun p => wt p k j) ps).

Lemma wsum_app : forall a b k j, wsum (a ++ b) k j = wsum a k j + wsum b k j.
Proof. intros. unfold wsum. rewrite map_app, sumZ_app. reflexivity. Qed.

Lemma combine_conserves : forall ps q, combine ps = MOk q -> forall k j, eq64 (wt q k j) (wsum ps k j).
Proof.
  intros ps q H k j. unfold combine in H. destruct ps as [|p [|p2 r]].
  - discriminate.
  - destruct (negb (types_combinable p)); [discriminate|]. inversion H; subst. unfold wsum. cbn [map]. rewrite sumZ_cons. cbn [sumZ fold_right].
    rewrite Z.add_0_r. apply eq64_refl.
  - destruct (negb (types_combinable p)); [discriminate|]. exact (merge_conserves_lemma _ _ H k j).
Qed.

Lemma successes_app : forall a b, successes (a ++ b) = successes a ++ successes b.
Proof. intros. unfold successes. apply flat_map_app. Qed.

Definition wacc (acc : gres) (k : sample_ident) (j : nat) : Z :=
  match acc with GOk p => wt p k j | _ => 0 end.

Lemma cgrab_err : forall n fuel l, cgrab n fuel l GErr = GErr.
Proof.
  intros n. induction fuel as [|f IH]; intros l; cbn [cgrab]; [reflexivity|].
  destruct l as [|x l]; [reflexivity|].
  destruct (successes (firstn n (x :: l))) as [|p ps]; [apply IH|].
  destruct (combine (p :: ps)); reflexivity.
Qed.

Lemma skipn_shorter : forall {A} n (l : list A), (1 <= n)%nat -> l <> [] -> (List.length (skipn n l) < List.length l)%nat.
Proof.
  intros A n l Hn Hl. rewrite skipn_length. destruct l as [|y l]; [congruence|].
  change (List.length (y :: l)) with (S (List.length l)). lia.
Qed.

Lemma cgrab_conserves : forall n, (1 <= n)%nat -> forall fuel l acc q,
  (List.length l < fuel)%nat -> cgrab n fuel l acc = GOk q ->
  forall k j, eq64 (wt q k j) (wacc acc k j + wsum (successes l) k j).
Proof.
  intros n Hn. induction fuel as [|f IH]; intros l acc q Hf H k j; [lia|].
  cbn [cgrab] in H. destruct l as [|x l].
  - subst acc. unfold wsum. cbn. rewrite Z.add_0_r. apply eq64_refl.
  - set (L := x :: l) in *.
    assert (Hr : (List.length (skipn n L) < f)%nat).
    { pose proof (skipn_shorter n L Hn ltac:(discriminate)). lia. }
    assert (S : successes L = successes (firstn n L) ++ successes (skipn n L))
      by (rewrite <- successes_app, firstn_skipn; reflexivity).
    rewrite S, wsum_app.
    destruct (successes (firstn n L)) as [|p ps] eqn:E.
    + pose proof (IH _ _ _ Hr H k j) as W. unfold wsum at 1. cbn [map sumZ fold_right]. rewrite Z.add_0_l. exact W.
    + destruct (combine (p :: ps)) as [cp| | |] eqn:C; try discriminate.
      pose proof (combine_conserves _ _ C k j) as Wc.
      destruct acc as [|p0|].
      * pose proof (IH _ _ _ Hr H k j) as W. cbn [wacc] in *.
        apply eq64_iff in W. destruct W as [a Wa]. apply eq64_iff in Wc. destruct Wc as [b Wb].
        apply (eq64_by _ _ (a + b)). lia.
      * destruct (combine [p0; cp]) as [q'| | |] eqn:C2; try discriminate.
        pose proof (combine_conserves _ _ C2 k j) as W2. unfold wsum in W2 at 1. cbn [map] in W2.
        rewrite !sumZ_cons in W2. cbn [sumZ fold_right] in W2.
        pose proof (IH _ _ _ Hr H k j) as W. cbn [wacc] in *.
        apply eq64_iff in W. destruct W as [a Wa]. apply eq64_iff in Wc. destruct Wc as [b Wb].
        apply eq64_iff in W2. destruct W2 as [c Wc2].
        apply (eq64_by _ _ (a + b + c)). lia.
      * discriminate.
Qed.

(* chunked fetch: whatever the chunk size, the fetched profile carries, per stack, the sum over the
   sources that could be fetched *)
Theorem chunked_grab_conserves_lemma : forall l q,
  chunked_grab l = GOk q -> forall k j, eq64 (wt q k j) (wsum (successes l) k j).
Proof.
  intros l q H k j. unfold chunked_grab in H.
  assert (Hc : (1 <= chunk_size)%nat) by (unfold chunk_size; lia).
  pose proof (cgrab_conserves chunk_size Hc (S (List.length l)) l GNone q (Nat.lt_succ_diag_r _) H k j) as W.
  cbn [wacc] in W. rewrite Z.add_0_l in W. exact W.
Qed.

(* ------------------------------------------------------------------ subtraction *)
Lemma nth_negate : forall vs j, eq64 (nth j (map (fun v => wrap_i64 (- v)) vs) 0) (- nth j vs 0).
Proof.
  induction vs as [|v vs IH]; intros j; destruct j; cbn [map nth]; try apply eq64_refl; try apply eq64_wrap.
  apply IH.
Qed.

Lemma wt_negate : forall b k j, eq64 (wt (negate b) k j) (- wt b k j).
Proof.
  intros b k j. unfold wt, negate. cbn [p_sample with_sample].
  change (wt_list (with_sample b (filter (fun s => negb (is_zero_sample s)) (map negate_sample (p_sample b)))))
    with (wt_list b).
  generalize (p_sample b). induction l as [|s l IH]; cbn [map filter]; [apply eq64_refl|].
  assert (Hs : eq64 (if sid_eqb (sample_ident_of b (negate_sample s)) k then nth j (s_val (negate_sample s)) 0 else 0)
                    (- (if sid_eqb (sample_ident_of b s) k then nth j (s_val s) 0 else 0))).
  { change (sample_ident_of b (negate_sample s)) with (sample_ident_of b s).
    destruct (sid_eqb (sample_ident_of b s) k); [apply nth_negate | apply eq64_refl]. }
  destruct (is_zero_sample (negate_sample s)) eqn:Z; cbn [negb].
  - (* dropped: it contributed nothing *)
    unfold wt_list in *. cbn [map]. rewrite sumZ_cons.
    assert (Z0 : (if sid_eqb (sample_ident_of b (negate_sample s)) k then nth j (s_val (negate_sample s)) 0 else 0) = 0).
    { destruct (sid_eqb _ _); [apply zero_sample_nth; exact Z | reflexivity]. }
    rewrite Z0 in Hs.
    apply eq64_iff in IH. destruct IH as [a Ha]. apply eq64_iff in Hs. destruct Hs as [c Hc].
    apply (eq64_by _ _ (a + c)). lia.
  - unfold wt_list in *. cbn [map]. rewrite !sumZ_cons.
    apply eq64_iff in IH. destruct IH as [a Ha]. apply eq64_iff in Hs. destruct Hs as [c Hc].
    apply (eq64_by _ _ (a + c)). lia.
Qed.

(* `pprof -base b... s...`: per stack, the sources minus the bases *)
Theorem fetch_base_subtracts_lemma : forall srcs bases q,
  bases <> [] -> fetch_profiles srcs bases false "" = MOk q ->
  forall k j, eq64 (wt q k j) (wsum (successes srcs) k j - wsum (successes bases) k j).
Proof.
  intros srcs bases q Hb H k j. unfold fetch_profiles in H.
  destruct (chunked_grab srcs) as [|p|] eqn:Gs; try discriminate.
  destruct bases as [|b0 br]; [congruence|].
  destruct (chunked_grab (b0 :: br)) as [|b|] eqn:Gb; try discriminate.
  cbn [String.eqb] in H.
  destruct (combine [p; negate b]) as [q'| | |] eqn:C; try discriminate. inversion H; subst q'.
  pose proof (combine_conserves _ _ C k j) as W. unfold wsum in W at 1. cbn [map] in W.
  rewrite !sumZ_cons in W. cbn [sumZ fold_right] in W.
  pose proof (chunked_grab_conserves_lemma _ _ Gs k j) as Ws.
  pose proof (chunked_grab_conserves_lemma _ _ Gb k j) as Wb.
  pose proof (wt_negate b k j) as Wn.
  apply eq64_iff in W. destruct W as [a Ha]. apply eq64_iff in Ws. destruct Ws as [c Hc].
  apply eq64_iff in Wb. destruct Wb as [d Hd]. apply eq64_iff in Wn. destruct Wn as [e He].
  apply (eq64_by _ _ (a + c - d + e)). lia.
Qed.

(* without a base and without -add_comment the fetched profile is the chunked grab *)
Theorem fetch_conserves_lemma : forall srcs comment q,
  fetch_profiles srcs [] false comment = MOk q ->
  forall k j, eq64 (wt q k j) (wsum (successes srcs) k j).
Proof.
  intros srcs comment q H k j. unfold fetch_profiles in H.
  destruct (chunked_grab srcs) as [|p|] eqn:Gs; try discriminate.
  pose proof (chunked_grab_conserves_lemma _ _ Gs k j) as Ws.
  destruct (String.eqb comment ""); inversion H; subst; exact Ws.
Qed.

Theorem written_ignores_lemma : forall c name value f,
  name <> "noinlines"%string -> name <> "showcolumns"%string -> name <> "divide_by"%string ->
  written_proto (gcfg_set c name value) f = written_proto c f /\ written_raw (gcfg_set c name value) f = written_raw c f.
Proof.
  intros c name value f H1 H2 H3. unfold gcfg_set.
  destruct (String.eqb_spec name "noinlines"); [contradiction|].
  destruct (String.eqb_spec name "showcolumns"); [contradiction|].
  destruct (String.eqb_spec name "divide_by"); [contradiction|]. split; reflexivity.
Qed.

(* at the default options proto / raw / download write the fetched profile itself: every weight
   exactly as merged, whatever its magnitude (no pass through floating point at ratio 1) *)
Theorem written_default_exact_lemma : forall f,
  written_proto gcfg0 f = f /\ written_raw gcfg0 f = f /\ written_download f = f.
Proof. intros f. repeat split. Qed.
