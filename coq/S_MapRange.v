(* C08 (b) -- the committed classification of every `range` over a map (or over an operand the
   translator could not resolve) in profile, internal/{graph,report,driver,measurement}.
   Gen/Gen_MapRange.v is regenerated from the source on every run; P_C08 proves by computation
   that every generated site appears here.  A new or moved map range breaks that theorem until it
   is classified.  Each class names the lemma of L_Order that makes it order-insensitive. *)
From Coq Require Import List String ZArith Bool.
Import ListNotations.
Open Scope string_scope.
Open Scope Z_scope.

Inductive mr_class :=
| MRAccum      (* commutative accumulation: int64 `+=`, counters, `||`, "at most one entry qualifies"
                  -- sum_i64_order_insensitive, any_order_insensitive *)
| MRFill       (* independent per-key effect: fills / updates / deletes entries of maps or sets keyed by
                  the entry (distinct keys)  -- map_fill_order_insensitive *)
| MRSearch     (* order-independent boolean search (any / all / reachability)  -- any_order_insensitive *)
| MRSorted (cmpname : string)
               (* collected into a slice that is sorted before any use, by the named comparator chain of
                  Gen_Comparators or by "strings"/"ints"  -- sorted_unique + <chain>_total /
                  sort_strings_deterministic / sort_ints_deterministic *)
| MRSortedLater (cmpname : string)
               (* as MRSorted, but the sort happens in a caller / callee (node lists: Graph.SortNodes in
                  report.newTrimmedGraph; numeric tags: collapsedTags) *)
| MRNotMap     (* resolved by hand: the operand is a slice or string *)
| MRDiag       (* only the order of diagnostics on the UI error stream depends on it, no report byte *)
| MROutOfScope (* not on the path of -top/-tree/-peek/-dot/-callgrind/-tags/-traces/-raw/-proto/-topproto:
                  interactive UI and web UI, source/disassembly listings, debug String() *)
| MRFloat.     (* float64 accumulation in iteration order: order-SENSITIVE (was edgeEntropyScore, F28, repaired: no site has this class) *)

Definition site := (string * string * string * Z)%type.

Definition maprange_table : list (site * mr_class) := [
  (("internal/driver/cli.go", "installConfigFlags", "bools", 1), MRAccum);        (* collects the set flags; 0/1 -> value, >=2 -> error *)
  (("internal/driver/cli.go", "outputFormat", "acmd", 1), MRAccum);               (* at most one may be set, else error *)
  (("internal/driver/cli.go", "outputFormat", "bcmd", 1), MRAccum);
  (("internal/driver/cli.go", "parseFlags", "pprofCommands", 1), MRFill);         (* registers one flag per command *)
  (("internal/driver/commands.go", "usage", "pprofCommands", 1), MRSorted "strings");
  (("internal/driver/config.go", "completeConfig", "configFieldMap", 1), MROutOfScope);   (* readline completion *)
  (("internal/driver/driver.go", "identifyNumLabelUnits", "ignoredUnits", 1), MRSorted "strings");   (* keys sorted before the warnings are printed (fix 609811b, F40) *)
  (("internal/driver/driver_focus.go", "compileTagFilter", "s.Label", 1), MRSearch);
  (("internal/driver/driver_focus.go", "compileTagFilter", "s.NumLabel", 1), MRSearch);
  (("internal/driver/driver_focus.go", "compileTagFilter", "vals", 1), MRNotMap);
  (("internal/driver/driver_focus.go", "compileTagFilter", "vals", 2), MRNotMap);
  (("internal/driver/fetch.go", "combineProfiles", "ms", 1), MRFill);             (* msrc[m] append per key; outer slice in command-line order *)
  (("internal/driver/interactive.go", "matchVariableOrCommand", "pprofCommands", 1), MROutOfScope);
  (("internal/driver/webui.go", "serveWebInterface", "configHelp", 1), MROutOfScope);
  (("internal/driver/webui.go", "serveWebInterface", "pprofCommands", 1), MROutOfScope);
  (("internal/graph/dotgraph.go", "ComposeDot", "n.Out", 1), MRSorted "edgeList.Less");   (* gathered into an EdgeMap, then EdgeMap.Sort *)
  (("internal/graph/dotgraph.go", "builder.addNodelets", "node.LabelTags", 1), MRSorted "tags.Less/flat");  (* SortTags(ts, flatTags) *)
  (("internal/graph/dotgraph.go", "builder.addNodelets", "node.NumericTags", 1), MRFill);  (* lnts[l] per key *)
  (("internal/graph/dotgraph.go", "builder.addNodelets", "tm", 1), MRSortedLater "tags.Less/flat"); (* collapsedTags sorts *)
  (("internal/graph/graph.go", "EdgeMap.Sort", "e", 1), MRSorted "edgeList.Less");
  (("internal/graph/graph.go", "EdgeMap.Sum", "e", 1), MRAccum);
  (("internal/graph/graph.go", "Graph.String", "n.In", 1), MROutOfScope);         (* debug dump *)
  (("internal/graph/graph.go", "Graph.String", "n.Out", 1), MROutOfScope);
  (("internal/graph/graph.go", "Graph.TrimLowFrequencyEdges", "n.In", 1), MRFill);   (* deletes the entries below the cutoff, counts them *)
  (("internal/graph/graph.go", "Graph.TrimLowFrequencyTags", "n.NumericTags", 1), MRFill);
  (("internal/graph/graph.go", "Graph.TrimTree", "cur.In", 1), MRAccum);          (* exactly one entry (asserted just before) *)
  (("internal/graph/graph.go", "Graph.TrimTree", "cur.Out", 1), MRFill);          (* per child: delete the in-edge *)
  (("internal/graph/graph.go", "Graph.TrimTree", "cur.Out", 2), MRFill);          (* per child: rewire to the parent; children are distinct keys *)
  (("internal/graph/graph.go", "Node.addSample", "numLabel", 1), MRFill);         (* findOrAddTag + int64 += per (formatted) tag: commutative sums *)
  (("internal/graph/graph.go", "NodeMap.nodes", "nm", 1), MRSortedLater "FlatNameOrder");   (* node lists are sorted by Graph.SortNodes before selection/printing *)
  (("internal/graph/graph.go", "countTags", "n.LabelTags", 1), MRAccum);
  (("internal/graph/graph.go", "countTags", "n.NumericTags", 1), MRAccum);
  (("internal/graph/graph.go", "countTags", "t", 1), MRAccum);
  (("internal/graph/graph.go", "edgeEntropyScore", "edges", 1), MRAccum);         (* int64 total *)
  (("internal/graph/graph.go", "isRedundantEdge", "n.In", 1), MRSearch);          (* reachability *)
  (("internal/graph/graph.go", "joinLabels", "s.Label", 1), MRSorted "strings");
  (("internal/graph/graph.go", "newTree", "parentNodeMap", 1), MRSortedLater "FlatNameOrder");
  (("internal/graph/graph.go", "selectNodesForGraph", "n.In", 1), MRFill);
  (("internal/graph/graph.go", "selectNodesForGraph", "n.Out", 1), MRFill);
  (("internal/graph/graph.go", "trimLowFreqTags", "tags", 1), MRFill);
  (("internal/report/report.go", "PrintAssembly", "symNodes", 1), MROutOfScope);  (* disasm; sorted by orderSyms *)
  (("internal/report/report.go", "Report.newGraph", "s.NumLabel", 1), MRFill);
  (("internal/report/report.go", "TextItems", "n.In", 1), MRAccum);               (* inline flag: && over the in-edges *)
  (("internal/report/report.go", "printTags", "s.Label", 1), MRFill);             (* tagMap[key][val] += v : commutative sums per key *)
  (("internal/report/report.go", "printTags", "s.NumLabel", 1), MRFill);
  (("internal/report/report.go", "printTags", "tagMap", 1), MRSorted "tags.Less/flat");
  (("internal/report/report.go", "printTags", "tagMap[key]", 1), MRSorted "tags.Less/flat");
  (("internal/report/report.go", "printTags", "vals", 1), MRNotMap);
  (("internal/report/report.go", "printTraces", "sample.Label", 1), MRSorted "strings");
  (("internal/report/report.go", "printTraces", "sample.NumLabel", 1), MRSorted "strings");
  (("internal/report/shortnames.go", "allSuffixes", "seps", 1), MRNotMap);
  (("internal/report/source.go", "newSourcePrinter", "loc.Line", 1), MRNotMap);
  (("internal/report/source.go", "newSourcePrinter", "loc.Line", 2), MRNotMap);
  (("internal/report/source.go", "sourcePrinter.close", "sp.objects", 1), MROutOfScope);
  (("internal/report/source.go", "sourcePrinter.functions", "f.lines", 1), MROutOfScope);
  (("internal/report/source.go", "sourcePrinter.generate", "file.lines", 1), MROutOfScope);
  (("internal/report/source.go", "sourcePrinter.generate", "sp.files", 1), MROutOfScope);
  (("internal/report/source.go", "sourcePrinter.generate", "sp.files", 2), MROutOfScope);
  (("internal/report/source.go", "sourcePrinter.initSamples", "sp.insts", 1), MROutOfScope);
  (("internal/report/source.go", "sourcePrinter.splitIntoRanges", "addrMap", 1), MRSorted "ints");   (* both address lists are sorted by address (addrs; unprocessed since 5f2b7e6) *)
  (("profile/encode.go", "Profile.postDecode", "numUnits", 1), MRFill);           (* pads each key's own list *)
  (("profile/encode.go", "Profile.preEncode", "s.Label", 1), MRSorted "strings");
  (("profile/encode.go", "Profile.preEncode", "s.NumLabel", 1), MRSorted "strings");
  (("profile/encode.go", "Profile.preEncode", "strings", 1), MRFill);             (* stringTable[index] = s : distinct indices *)
  (("profile/encode.go", "Profile.preEncode", "vs", 1), MRNotMap);
  (("profile/filter.go", "Profile.FilterTagsByName", "s.Label", 1), MRFill);      (* deletes matching keys *)
  (("profile/filter.go", "Profile.FilterTagsByName", "s.NumLabel", 1), MRFill);
  (("profile/legacy_profile.go", "cpuProfile", "addr1", 1), MRAccum);             (* count >= n - n/32 holds for at most one address *)
  (("profile/legacy_profile.go", "parseHexAddresses", "hexStrings", 1), MRNotMap);
  (("profile/merge.go", "profileMerger.mapSample", "src.Label", 1), MRFill);
  (("profile/merge.go", "profileMerger.mapSample", "src.NumLabel", 1), MRFill);
  (("profile/merge.go", "profileMerger.sampleKey", "values", 1), MRNotMap);
  (("profile/merge.go", "sortedKeys1", "m", 1), MRSorted "strings");
  (("profile/merge.go", "sortedKeys2", "m", 1), MRSorted "strings");
  (("profile/profile.go", "Profile.NumLabelUnits", "encounteredKeys", 1), MRFill);
  (("profile/profile.go", "Profile.NumLabelUnits", "ignoredUnits", 1), MRFill);
  (("profile/profile.go", "Profile.NumLabelUnits", "s.NumLabel", 1), MRFill);     (* per key: first unit in slice order *)
  (("profile/profile.go", "Profile.NumLabelUnits", "values", 1), MRSorted "strings");
  (("profile/profile.go", "labelsToString", "labels", 1), MRSorted "strings");
  (("profile/profile.go", "numLabelsToString", "numLabels", 1), MRSorted "strings");
  (("profile/prune.go", "simplifyFunc", "bracketRx.FindAllStringSubmatchIndex(funcName, -1)", 1), MRNotMap)
].

Definition site_eqb (a b : site) : bool :=
  let '(f1, g1, e1, n1) := a in let '(f2, g2, e2, n2) := b in
  String.eqb f1 f2 && String.eqb g1 g2 && String.eqb e1 e2 && (n1 =? n2).

Definition class_of (s : site) : option mr_class :=
  match find (fun e => site_eqb (fst e) s) maprange_table with
  | Some e => Some (snd e)
  | None => None
  end.

(* a generated site is acceptable when it is in the table; an operand the translator RESOLVED as a
   map may not be waved through as "not a map" *)
(* "keys-sorted": the translator recognised, structurally, a loop that only appends the (distinct) keys
   to a slice which is sorted by sort.Strings / sort.Ints before any other use - the MRSorted "strings"
   / "ints" class, wherever the loop lives (so that moving the idiom into a helper needs no new entry) *)
Definition site_classified (g : string * string * string * Z * string) : bool :=
  let '(s, kind) := g in
  if String.eqb kind "keys-sorted" then true else
  match class_of s with
  | Some MRNotMap => negb (String.eqb kind "map")
  | Some _ => true
  | None => false
  end.

Definition is_float (c : mr_class) : bool := match c with MRFloat => true | _ => false end.

(* the comparators a "sorted before use" site may name *)
Definition sorted_by_known (names : list string) (c : mr_class) : bool :=
  match c with
  | MRSorted n | MRSortedLater n => String.eqb n "strings" || String.eqb n "ints" || existsb (String.eqb n) names
  | _ => true
  end.

(* a function with k sites classified "sorted before use" (that still exist in the source) must
   contain at least k sorting calls (sort.X, x.Sort(), SortTags, SortNodes, sortedKeysN: the
   generated sort_sites) *)
Definition is_sorted_class (c : mr_class) : bool := match c with MRSorted _ => true | _ => false end.
Definition same_fn (f g f' g' : string) : bool := String.eqb f f' && String.eqb g g'.
Definition sorted_sites_in (gen : list (string * string * string * Z * string)) (f g : string) : nat :=
  List.length (filter (fun e => let '(f', g', _, _) := fst e in
                                same_fn f g f' g' && is_sorted_class (snd e)
                                && existsb (fun x => let '(s, _) := x in
                                      let '(f1, g1, e1, n1) := s in let '(f2, g2, e2, n2) := fst e in
                                      String.eqb f1 f2 && String.eqb g1 g2 && String.eqb e1 e2 && (n1 =? n2)) gen)
                      maprange_table).
Definition sort_calls_in (sort_sites : list (string * string * string)) (f g : string) : nat :=
  List.length (filter (fun s => let '(f', g', _) := s in same_fn f g f' g') sort_sites).
Definition sorted_site_has_sort_call (gen : list (string * string * string * Z * string))
           (sort_sites : list (string * string * string)) (e : site * mr_class) : bool :=
  match snd e with
  | MRSorted _ => let '(f, g, _, _) := fst e in Nat.leb (sorted_sites_in gen f g) (sort_calls_in sort_sites f g)
  | _ => true
  end.

(* only the entries of the table that still exist in the source are obligations *)
Definition site_exists (gen : list (string * string * string * Z * string)) (s : site) : bool :=
  existsb (fun g => site_eqb (fst g) s) gen.

(* the sort.* call sites: which ordering each uses *)
Definition sort_site_table : list ((string * string * string) * string) := [
  (("internal/driver/commands.go", "usage", "sort.Strings(commands)"), "strings");
  (("internal/driver/commands.go", "usage", "sort.Strings(radioStrings)"), "strings");
  (("internal/driver/commands.go", "usage", "sort.Strings(variables)"), "strings");
  (("internal/driver/driver.go", "identifyNumLabelUnits", "sort.Strings(keys)"), "strings");   (* fix 609811b (F40) *)
  (("internal/driver/interactive.go", "printCurrentOptions", "sort.Strings(args)"), "strings");
  (("internal/driver/interactive.go", "printCurrentOptions", "sort.Strings(values)"), "strings");
  (("internal/graph/graph.go", "EdgeMap.Sort", "sort.Sort(el)"), "edgeList.Less");
  (("internal/graph/graph.go", "Nodes.Sort", "sort.Sort(s)"), "Nodes.Sort");
  (("internal/graph/graph.go", "SortTags", "sort.Sort(ts)"), "tags.Less");
  (("internal/graph/graph.go", "joinLabels", "sort.Strings(labels)"), "strings");
  (("internal/report/report.go", "PrintAssembly", "sort.Sort(orderSyms{..})"), "out-of-scope:disasm");
  (("internal/report/report.go", "printTraces", "sort.Strings(labels)"), "strings");
  (("internal/report/report.go", "printTraces", "sort.Strings(numLabels)"), "strings");
  (("internal/report/source.go", "sourcePrinter.expandAddresses", "sort.Slice(ranges, func(..))"), "out-of-scope:source");
  (("internal/report/source.go", "sourcePrinter.functions", "sort.Ints(lines)"), "ints");
  (("internal/report/source.go", "sourcePrinter.generate", "sort.Slice(files, order)"), "out-of-scope:source");
  (("internal/report/source.go", "sourcePrinter.splitIntoRanges", "sort.Slice(addrs, func(..))"), "out-of-scope:source");
  (("internal/report/source.go", "sourcePrinter.splitIntoRanges", "sort.Slice(unprocessed, func(..))"), "ints");   (* fix 5f2b7e6 (F35) *)
  (("profile/encode.go", "Profile.preEncode", "sort.Strings(keys)"), "strings");
  (("profile/encode.go", "Profile.preEncode", "sort.Strings(numKeys)"), "strings");
  (("profile/merge.go", "sortedKeys1", "sort.Strings(keys)"), "strings");
  (("profile/merge.go", "sortedKeys2", "sort.Strings(keys)"), "strings");
  (("profile/profile.go", "Profile.NumLabelUnits", "sort.Strings(units)"), "strings");
  (("profile/profile.go", "labelsToString", "sort.Strings(ls)"), "strings");
  (("profile/profile.go", "numLabelsToString", "sort.Strings(ls)"), "strings")
].

Definition is_sort_pkg_call (c : string) : bool := String.prefix "sort." c || String.prefix "slices." c.

(* sort.Strings / sort.Ints order by the total order of the element type, equal elements are
   indistinguishable: deterministic wherever they are called (sort_strings_deterministic,
   sort_ints_deterministic), so such a call needs no entry of its own *)
Definition is_total_std_sort (c : string) : bool := String.prefix "sort.Strings(" c || String.prefix "sort.Ints(" c.

Definition sort_site_known (s : string * string * string) : bool :=
  let '(f, g, c) := s in
  negb (is_sort_pkg_call c) || is_total_std_sort c ||
  existsb (fun e => let '(f', g', c') := fst e in String.eqb f f' && String.eqb g g' && String.eqb c c') sort_site_table.
