(* Lemmas about the glue model M_Driver (C06, C11). *)
From Coq Require Import Lia.
From PV Require Import M_Filter M_Prune M_TagFilter M_Driver S_Filter S_Prune L_FilterBase L_Prune.
Open Scope Z_scope.
Open Scope list_scope.

(* the merged profile carries ONE pair of expressions: the first source's *)
Lemma merge_sources_expressions (p0 : profile) (r : list profile) :
  p_dropframes (merge_sources (p0 :: r)) = p_dropframes p0
  /\ p_keepframes (merge_sources (p0 :: r)) = p_keepframes p0.
Proof. destruct r; split; reflexivity. Qed.

Section DriverProofs.
  Variable M : string -> string -> bool.
  Variable V : string -> bool.
  Variable uts : list unit_type.

  (* fetchProfiles = the rule of RemoveUninteresting, once, on the merged sources *)
  Lemma fetch_model_is_one_step (srcs : list profile) :
    fetch_model M V srcs = run_steps M V (merge_sources srcs) [SRemoveUn].
  Proof. reflexivity. Qed.

  Lemma fetch_model_meets_spec_l (srcs : list profile) :
    wf_profile (merge_sources srcs) = true ->
    steps_classes M V (merge_sources srcs) [SRemoveUn] = [] ->
    fsamples (fetch_model M V srcs)
    = spec_steps M V (merge_sources srcs) [SRemoveUn] (fsamples (merge_sources srcs)).
  Proof. intros Hwf Hc. rewrite fetch_model_is_one_step. now apply history_meets_spec_l. Qed.

  (* prune_from is applied LAST: with it, applyFocus yields exactly PruneFrom of what it yields without *)
  Definition with_prunefrom (c : af_cfg) (re : string) : af_cfg :=
    {| c_focus := c_focus c; c_ignore := c_ignore c; c_hide := c_hide c; c_show := c_show c;
       c_showfrom := c_showfrom c; c_tagfocus := c_tagfocus c; c_tagignore := c_tagignore c;
       c_tagshow := c_tagshow c; c_taghide := c_taghide c; c_prunefrom := re |}.

  Lemma prune_from_is_last_l (p : profile) (units : list (string * string)) (c : af_cfg) (re : string) :
    c_prunefrom c = ""%string -> re <> ""%string -> V re = true ->
    fst (fst (apply_focus M V uts p units c)) = ""%string ->
    fst (fst (apply_focus M V uts p units (with_prunefrom c re))) = ""%string
    /\ snd (fst (apply_focus M V uts p units (with_prunefrom c re)))
       = prune_from M (snd (fst (apply_focus M V uts p units c))) re.
  Proof.
    intros Hc Hre Hv. unfold apply_focus. cbn [with_prunefrom c_focus c_ignore c_hide c_show c_showfrom
      c_tagfocus c_tagignore c_tagshow c_taghide c_prunefrom]. rewrite Hc.
    assert (Hok : rx_ok V re = true) by (unfold rx_ok; rewrite Hv; apply orb_true_r).
    assert (Hok0 : rx_ok V "" = true) by reflexivity.
    rewrite Hok, Hok0. cbn [negb].
    assert (Hopt : opt_rx re = Some re).
    { unfold opt_rx. destruct (String.eqb_spec re ""); [congruence|reflexivity]. }
    rewrite Hopt. change (opt_rx "") with (@None string).
    destruct (negb (rx_ok V (c_focus c))); [cbn; intros H; discriminate|].
    destruct (negb (rx_ok V (c_ignore c))); [cbn; intros H; discriminate|].
    destruct (negb (rx_ok V (c_hide c))); [cbn; intros H; discriminate|].
    destruct (negb (rx_ok V (c_show c))); [cbn; intros H; discriminate|].
    destruct (negb (rx_ok V (c_showfrom c))); [cbn; intros H; discriminate|].
    destruct (tf_err (compile_tag_filter M V uts units (c_tagfocus c))); [cbn; intros H; discriminate|].
    destruct (tf_err (compile_tag_filter M V uts units (c_tagignore c))); [cbn; intros H; discriminate|].
    destruct (filter_samples_by_name M p (opt_rx (c_focus c)) (opt_rx (c_ignore c)) (opt_rx (c_hide c)) (opt_rx (c_show c)))
      as [p1 [[[fm im] hm] hnm]].
    destruct (show_from M p1 (opt_rx (c_showfrom c))) as [p2 sfm].
    destruct (filter_samples_by_tag p2 _ _) as [p3 [tfm tim]].
    destruct (filter_tags_by_name M p3 _ _) as [p4 [tns tnh]].
    cbn [fst snd]. intros H. split; [exact H|reflexivity].
  Qed.

  Lemma prune_from_keeps_every_sample (p : profile) (re : string) :
    map payload (p_sample (prune_from M p re)) = map payload (p_sample p).
  Proof. apply prune_from_payload. Qed.
End DriverProofs.

(* tag roots / leaves only add frames: number of samples, values and labels are untouched *)
Lemma add_label_nodes_payload (p : profile) (rootkeys leafkeys : list string) :
  map payload (p_sample (add_label_nodes p rootkeys leafkeys)) = map payload (p_sample p).
Proof.
  unfold add_label_nodes.
  set (step := fun (acc : ln_state * list sample) (s : sample) =>
                 let '(st1, out) := acc in
                 let '(st2, roots) := make_label_locs st1 s rootkeys in
                 let '(st3, leaves) := make_label_locs st2 s leafkeys in
                 let s' := match roots ++ leaves with
                           | [] => s
                           | _ => set_sample_locs s (leaves ++ s_loc s ++ roots)
                           end in
                 (st3, out ++ [s'])).
  assert (H : forall l st out,
             map payload (snd (fold_left step l (st, out))) = map payload out ++ map payload l).
  { induction l as [|s r IH]; intros st out; [cbn; now rewrite app_nil_r|].
    cbn [fold_left]. unfold step at 2.
    destruct (make_label_locs st s rootkeys) as [st2 roots].
    destruct (make_label_locs st2 s leafkeys) as [st3 leaves].
    rewrite IH. rewrite map_app. cbn [map]. rewrite <- app_assoc. cbn [app]. f_equal. f_equal.
    destruct (roots ++ leaves); reflexivity. }
  match goal with |- context [fold_left ?f ?l ?a] => change f with step; specialize (H l (fst a) (snd a)) end.
  cbn [fst snd] in H.
  destruct (fold_left step (p_sample p) _) as [st ss]. cbn [p_sample snd] in *. exact H.
Qed.
