(* C04: order relations between the definition sums that every report reader relies on --
   flat <= cum, and an edge never outweighs the cum of either end -- whenever no counted value is
   negative (ordinary, non-diff profiles).  Stated over the specification sums of S_Graph (the
   graph's numbers are these sums by the C04 theorems), for every kept set. *)
From Coq Require Import Lia.
From PV Require Import M_Graph S_Graph L_Graph.
Open Scope list_scope.
Open Scope Z_scope.

Section Bounds.
  Variable K : Type.
  Variable keqb : K -> K -> bool.
  Hypothesis keqb_spec : forall a b, keqb a b = true <-> a = b.

  Lemma sumf_le : forall (f g : gsample K -> Z) ss,
    (forall s, In s ss -> f s <= g s) -> sumf K f ss <= sumf K g ss.
  Proof.
    intros f g ss. unfold sumf. induction ss as [|s r IH]; cbn [fold_right]; intros H; [lia|].
    pose proof (H s (or_introl eq_refl)) as H1.
    assert (H2 : fold_right (fun s acc => f s + acc) 0 r <= fold_right (fun s acc => g s + acc) 0 r)
      by (apply IH; intros x Hx; apply H; right; exact Hx).
    lia.
  Qed.

  Lemma lastb_mem : forall n l, lastb K keqb n l = true -> memK K keqb n l = true.
  Proof.
    intros n l H. unfold lastb in H. destruct (rev l) as [|x r] eqn:E; [discriminate|].
    apply keqb_spec in H. subst x. apply (memK_In K keqb keqb_spec).
    apply in_rev. rewrite E. left. reflexivity.
  Qed.

  Lemma adjb_mem : forall a b l, adjb K keqb a b l = true ->
    memK K keqb a l = true /\ memK K keqb b l = true.
  Proof.
    intros a b l. induction l as [|x r IH]; [discriminate|].
    cbn [adjb]. destruct r as [|y r']; [discriminate|]. intros H.
    apply orb_true_iff in H. destruct H as [H|H].
    - apply andb_true_iff in H. destruct H as [Hx Hy].
      apply keqb_spec in Hx. apply keqb_spec in Hy. subst x y.
      split; apply (memK_In K keqb keqb_spec); simpl; auto.
    - destruct (IH H) as [Ha Hb].
      apply (memK_In K keqb keqb_spec) in Ha. apply (memK_In K keqb keqb_spec) in Hb.
      split; apply (memK_In K keqb keqb_spec); right; assumption.
  Qed.

  Definition nonneg (div : bool) (ss : list (gsample K)) : Prop := forall s, In s ss -> 0 <= pick K div s.

  Theorem flat_le_cum_lemma : forall div kept ss n, nonneg div ss ->
    flat_spec K keqb div kept ss n <= cum_spec K keqb div kept ss n.
  Proof.
    intros div kept ss n Hnn. unfold flat_spec, cum_spec. apply sumf_le. intros s Hs.
    pose proof (Hnn s Hs) as H0.
    destruct (keptb K keqb kept n && lastb K keqb n (keys K s))%bool eqn:E.
    - apply andb_true_iff in E. destruct E as [Ek El].
      unfold vis. rewrite (memK_filter K keqb keqb_spec), Ek, (lastb_mem _ _ El). simpl. lia.
    - destruct (memK K keqb n (vis K keqb kept s)); lia.
  Qed.

  Theorem edge_le_cum_lemma : forall div kept ss a b, nonneg div ss ->
    edge_spec K keqb div kept ss a b <= cum_spec K keqb div kept ss a /\
    edge_spec K keqb div kept ss a b <= cum_spec K keqb div kept ss b.
  Proof.
    intros div kept ss a b Hnn. unfold edge_spec, cum_spec.
    split; apply sumf_le; intros s Hs; pose proof (Hnn s Hs) as H0;
      destruct (negb (keqb a b) && adjb K keqb a b (vis K keqb kept s))%bool eqn:E.
    - apply andb_true_iff in E. destruct E as [_ E]. destruct (adjb_mem _ _ _ E) as [Ha _]. rewrite Ha. lia.
    - destruct (memK K keqb a (vis K keqb kept s)); lia.
    - apply andb_true_iff in E. destruct E as [_ E]. destruct (adjb_mem _ _ _ E) as [_ Hb]. rewrite Hb. lia.
    - destruct (memK K keqb b (vis K keqb kept s)); lia.
  Qed.

  (* cum never exceeds the sum of all values: a cum percentage is at most 100% *)
  Theorem cum_le_sum_lemma : forall div kept ss n, nonneg div ss ->
    cum_spec K keqb div kept ss n <= sumf K (pick K div) ss.
  Proof.
    intros div kept ss n Hnn. unfold cum_spec. apply sumf_le. intros s Hs.
    pose proof (Hnn s Hs) as H0. destruct (memK K keqb n (vis K keqb kept s)); lia.
  Qed.
End Bounds.
