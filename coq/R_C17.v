(* Case runner for C17: decodes harness cases, runs the model of Report.Stacks, judges the
   implementation's StackSet (direct dump, or parsed back from the JSON of the /flamegraph page). *)
From Coq Require Import QArith Qabs.
From PV Require Import M_Profile M_Measure S_Measure Gen.Gen_UnitTable M_Stacks S_Stacks.
Open Scope string_scope.
Open Scope Z_scope.

Definition of_Q17 (q : Q) : term := let r := Qred q in TL [TZ (Qnum r); TZ (Zpos (Qden r))].
Definition to_Q17 (t : term) : Q :=
  match gl t with
  | [TZ n; TZ (Zpos d)] => n # d
  | _ => 0%Q
  end.

(* oracle answer tables: association lists, identity where the harness shipped no entry *)
Fixpoint lookup (tab : list (string * string)) (k : string) : string :=
  match tab with
  | [] => k
  | (a, b) :: r => if String.eqb a k then b else lookup r k
  end.
Definition table_of (t : term) : list (string * string) := map (fun e => (gs (gn e 0), gs (gn e 1))) (gl t).

Definition opts_of (t : term) : opts :=
  {| o_index := Z.to_nat (gz (gn t 0));
     o_meandiv := if gz (gn t 1) <? 0 then None else Some (Z.to_nat (gz (gn t 1)));
     o_type := gs (gn t 2);
     o_trim := gs (gn t 4) |}.

(* Stacks(): scale, unit := measurement.Scale(1, SampleUnit, "default"); "default" -> "";
   if Ratio > 0 { scale *= Ratio } *)
Definition scale_unit (unit : string) (ratio : Q) : Q * string :=
  let '(q, u) := scale unit_types 1 unit "default" in
  let u := if String.eqb u "default" then "" else u in
  ((if Qle_bool ratio 0 then q else q * ratio)%Q, u).

Definition of_source (s : source) : term :=
  TL [TS (so_full s); TS (so_file s); TS (so_unique s); of_bool (so_inl s); of_ss (so_display s);
      TL (map (fun pl => TL [TZ (Z.of_nat (fst pl)); TZ (Z.of_nat (snd pl))]) (so_places s)); TZ (so_self s)].
Definition of_stack (k : stack) : term :=
  TL [TZ (sk_value k); TL (map (fun i => TZ (Z.of_nat i)) (sk_sources k))].

Definition run_C17 (i : term) : term :=
  let p := profile_of (gn i 0) in
  let ot := gn i 1 in
  let o := opts_of ot in
  let R := stacks_of (lookup (table_of (gn i 2))) (lookup (table_of (gn i 3))) o p in
  let '(q, u) := scale_unit (gs (gn ot 3)) (to_Q17 (gn ot 5)) in
  TL [TZ (ss_total R); of_Q17 q; TS (ss_type R); TS u; TL (map of_stack (ss_stacks R));
      TL (map of_source (ss_sources R)); TZ 0].

(* everything is compared exactly, except Scale (float64 in Go, exact rational in the model) *)
Definition eqv_C17 (i m o : term) : bool :=
  match gl m, gl o with
  | [mt; ms; mty; mu; mst; msr; mn], [ot; os; oty; ou; ost; osr; on] =>
      term_eqb mt ot && qclose (to_Q17 ms) (to_Q17 os) && term_eqb mty oty && term_eqb mu ou
      && term_eqb mst ost && term_eqb msr osr && term_eqb mn on
  | _, _ => false
  end.

(* decode the implementation's observable; negative numbers where an index is expected are
   rejected separately ([nonneg]) because Z.to_nat would hide them *)
Definition source_of (t : term) : source :=
  {| so_key := None; so_full := gs (gn t 0); so_file := gs (gn t 1); so_unique := gs (gn t 2);
     so_inl := gb (gn t 3); so_display := gss (gn t 4);
     so_places := map (fun e => (Z.to_nat (gz (gn e 0)), Z.to_nat (gz (gn e 1)))) (gl (gn t 5));
     so_self := gz (gn t 6) |}.
Definition stack_of (t : term) : stack :=
  {| sk_value := gz (gn t 0); sk_sources := map Z.to_nat (gzs (gn t 1)) |}.

Definition nonneg (o : term) : bool :=
  forallb (fun k => forallb (fun z => 0 <=? z) (gzs (gn k 1))) (gl (gn o 4))
  && forallb (fun s => forallb (fun e => (0 <=? gz (gn e 0)) && (0 <=? gz (gn e 1))) (gl (gn s 5))) (gl (gn o 5)).

Definition spec_C17 (i o : term) : bool :=
  match gl o with
  | [_; _; _; _; _; _; _] =>
      let p := profile_of (gn i 0) in
      let R := {| ss_total := gz (gn o 0); ss_type := gs (gn o 2);
                  ss_stacks := map stack_of (gl (gn o 4)); ss_sources := map source_of (gl (gn o 5)) |} in
      nonneg o && check_stackset (opts_of (gn i 1)) p (gz (gn o 6)) R
  | _ => false   (* panic, HTTP error, page without stack data: the client has nothing to show *)
  end.

Definition cls_C17 (i : term) : list Z := [].

Definition judge_C17 := judge_all run_C17 eqv_C17 spec_C17 cls_C17 0%Z.
