(* Case runner for C17: decodes harness cases, runs the model of Report.Stacks, judges the
   implementation's StackSet (direct dump, or parsed back from the JSON of the /flamegraph page). *)
From Coq Require Import QArith Qabs.
From PV Require Import M_Profile M_Measure S_Measure Gen.Gen_UnitTable M_Stacks S_Stacks M_Handoff S_Handoff M_StacksGlue.
Open Scope string_scope.
Open Scope Z_scope.

Definition of_Q17 (q : Q) : term := let r := Qred q in TL [TZ (Qnum r); TZ (Zpos (Qden r))].
Definition to_Q17 (t : term) : Q :=
  match gl t with
  | [TZ n; TZ (Zpos d)] => n # d
  | _ => 0%Q
  end.

(* oracle answer tables: association lists, identity where the harness shipped no entry *)
Fixpoint lookup (tab : list (string * string)) (k : string) : string :=
  match tab with
  | [] => k
  | (a, b) :: r => if String.eqb a k then b else lookup r k
  end.
Definition table_of (t : term) : list (string * string) := map (fun e => (gs (gn e 0), gs (gn e 1))) (gl t).

Definition opts_of (t : term) : opts :=
  {| o_index := Z.to_nat (gz (gn t 0));
     o_meandiv := if gz (gn t 1) <? 0 then None else Some (Z.to_nat (gz (gn t 1)));
     o_type := gs (gn t 2);
     o_trim := gs (gn t 4) |}.

(* Stacks(): scale, unit := measurement.Scale(1, SampleUnit, "default"); "default" -> "";
   if Ratio > 0 { scale *= Ratio } *)
Definition scale_unit (unit : string) (ratio : Q) : Q * string :=
  let '(q, u) := scale unit_types 1 unit "default" in
  let u := if String.eqb u "default" then "" else u in
  ((if Qle_bool ratio 0 then q else q * ratio)%Q, u).

Definition of_source (s : source) : term :=
  TL [TS (so_full s); TS (so_file s); TS (so_unique s); of_bool (so_inl s); of_ss (so_display s);
      TL (map (fun pl => TL [TZ (Z.of_nat (fst pl)); TZ (Z.of_nat (snd pl))]) (so_places s)); TZ (so_self s)].
Definition of_stack (k : stack) : term :=
  TL [TZ (sk_value k); TL (map (fun i => TZ (Z.of_nat i)) (sk_sources k))].

Definition of_stackset (ot : term) (R : stackset) : term :=
  let '(q, u) := scale_unit (gs (gn ot 3)) (to_Q17 (gn ot 5)) in
  TL [TZ (ss_total R); of_Q17 q; TS (ss_type R); TS u; TL (map of_stack (ss_stacks R));
      TL (map of_source (ss_sources R)); TZ 0].

(* ---------------------------------------------------------------- end-to-end cases
   input = ["e2e"; loaded profile; flags [si; legacy; mean; gran; noinlines; columns; trim];
            url [si; mean; g; noinlines; showcolumns]; ratio = 1/divide_by; history (not used: the
            model says it is irrelevant); shorten table; clean table; command line (information)] *)
Definition is_e2e (i : term) : bool := match gn i 0 with TS s => String.eqb s "e2e" | _ => false end.

Definition gflags_of (t : term) : gflags :=
  {| gf_si := gs (gn t 0); gf_legacy := gss (gn t 1); gf_mean := gb (gn t 2); gf_gran := gs (gn t 3);
     gf_noinlines := gb (gn t 4); gf_columns := gb (gn t 5); gf_trim := gs (gn t 6) |}.
Definition gurl_of (t : term) : gurl :=
  {| u_si := gs (gn t 0); u_mean := gs (gn t 1); u_gran := gs (gn t 2); u_noinlines := gs (gn t 3);
     u_columns := gs (gn t 4) |}.

Definition e2e_result (i : term) : web_result :=
  flamegraph_request (gflags_of (gn i 2)) (gurl_of (gn i 3)) (profile_of (gn i 1)).

Definition http400 : term := TL [TS "http"; TZ 400].

Definition is_seq (i : term) : bool := match gn i 0 with TS s => String.eqb s "seq" | _ => false end.

(* a single call:   input = [profile; opts; shorten table; clean table]
   a call sequence: input = ["seq"; profile; [opts of report 0; ...]; [report index of call 0; ...];
                             shorten table; clean table]
                    observable = [[stack set of call 0; ...]; profile held by the reports afterwards] *)
Definition seq_opts (i : term) : list term :=
  map (fun k => nth (Z.to_nat (gz k)) (gl (gn i 2)) (TL [])) (gl (gn i 3)).

Definition run_C17 (i : term) : term :=
  if is_e2e i then
    match e2e_result i with
    | WebBadRequest => http400
    | WebOk o unit p =>
        (* of_stackset reads the unit at position 3 and the ratio at position 5 of an options term *)
        of_stackset (TL [TZ 0; TZ 0; TS ""; TS unit; TS ""; gn i 4])
                    (stacks_of (lookup (table_of (gn i 6))) (lookup (table_of (gn i 7))) o p)
    end
  else if is_seq i then
    let ots := seq_opts i in
    let '(Rs, p') := stacks_calls (lookup (table_of (gn i 4))) (lookup (table_of (gn i 5)))
                                  (map opts_of ots) (profile_of (gn i 1)) in
    TL [TL (map (fun oR => of_stackset (fst oR) (snd oR)) (combine ots Rs)); of_profile p']
  else
    let ot := gn i 1 in
    of_stackset ot (stacks_of (lookup (table_of (gn i 2))) (lookup (table_of (gn i 3))) (opts_of ot)
                              (profile_of (gn i 0))).

(* everything is compared exactly, except Scale (float64 in Go, exact rational in the model) *)
(* page-sized texts are shipped as a list of printable / non-printable runs (harness c17Text) *)
Definition cat17 (l : list string) : string := fold_right append "" l.

(* The web path's observable has an 8th element [[skipped; rest of tail]; call end; harness tokenizer's end; literals]:
   tail = the page from the first content byte of the script element that calls stackViewer(...) *)
Definition handoff_of (o : term) : option term :=
  match gl o with [_; _; _; _; _; _; _; h] => Some h | _ => None end.

(* correspondence of the hand-off model: the string literals in the page are what [json_string_html]
   produces for their values, and the harness's HTML tokenizer ended the script element where the
   specification's tokenizer does *)
Definition handoff_corr (o : term) : bool :=
  match handoff_of o with
  | None => true
  | Some h =>
      forallb (fun pr => String.eqb (json_string_html (gs (gn pr 0))) (gs (gn pr 1))) (gl (gn h 3))
      && match script_data_end_from (Z.to_nat (gz (gn (gn h 0) 0))) (gs (gn (gn h 0) 1)) with
         | Some e => Z.of_nat e =? gz (gn h 2)
         | None => gz (gn h 2) <? 0
         end
  end.

(* the client receives the call: the tokenizer closes the element, and not before the call's end *)
Definition handoff_spec (o : term) : bool :=
  match handoff_of o with
  | None => true
  | Some h => (0 <=? gz (gn h 1)) && (0 <=? gz (gn (gn h 0) 0))
              && script_delivers_from (Z.to_nat (gz (gn (gn h 0) 0))) (gs (gn (gn h 0) 1)) (Z.to_nat (gz (gn h 1)))
  end.

Definition eqv_one (m o : term) : bool :=
  match gl m, firstn 7 (gl o) with
  | [mt; ms; mty; mu; mst; msr; mn], [ot; os; oty; ou; ost; osr; on] =>
      (Nat.leb (List.length (gl o)) 8)
      && term_eqb mt ot && qclose (to_Q17 ms) (to_Q17 os) && term_eqb mty oty && term_eqb mu ou
      && term_eqb mst ost && term_eqb msr osr && term_eqb mn on && handoff_corr o
  | _, _ => false
  end.

Fixpoint eqv_list (ms os : list term) : bool :=
  match ms, os with
  | [], [] => true
  | m :: ms', o :: os' => eqv_one m o && eqv_list ms' os'
  | _, _ => false
  end.

Definition eqv_C17 (i m o : term) : bool :=
  if is_e2e i then (if term_eqb m http400 then term_eqb o http400 else eqv_one m o)
  else if is_seq i then eqv_list (gl (gn m 0)) (gl (gn o 0)) && term_eqb (gn m 1) (gn o 1)
  else eqv_one m o.

(* decode the implementation's observable; negative numbers where an index is expected are
   rejected separately ([nonneg]) because Z.to_nat would hide them *)
Definition source_of (t : term) : source :=
  {| so_key := None; so_full := gs (gn t 0); so_file := gs (gn t 1); so_unique := gs (gn t 2);
     so_inl := gb (gn t 3); so_display := gss (gn t 4);
     so_places := map (fun e => (Z.to_nat (gz (gn e 0)), Z.to_nat (gz (gn e 1)))) (gl (gn t 5));
     so_self := gz (gn t 6) |}.
Definition stack_of (t : term) : stack :=
  {| sk_value := gz (gn t 0); sk_sources := map Z.to_nat (gzs (gn t 1)) |}.

Definition nonneg (o : term) : bool :=
  forallb (fun k => forallb (fun z => 0 <=? z) (gzs (gn k 1))) (gl (gn o 4))
  && forallb (fun s => forallb (fun e => (0 <=? gz (gn e 0)) && (0 <=? gz (gn e 1))) (gl (gn s 5))) (gl (gn o 5)).

Definition stackset_of (o : term) : option (Z * stackset) :=
  match firstn 7 (gl o) with
  | [_; _; _; _; _; _; _] =>
      if Nat.leb (List.length (gl o)) 8 && nonneg o && handoff_spec o then
        Some (gz (gn o 6), {| ss_total := gz (gn o 0); ss_type := gs (gn o 2);
                              ss_stacks := map stack_of (gl (gn o 4)); ss_sources := map source_of (gl (gn o 5)) |})
      else None
  | _ => None   (* panic, HTTP error, page without stack data: the client has nothing to show *)
  end.

Fixpoint all_some {A} (l : list (option A)) : option (list A) :=
  match l with
  | [] => Some []
  | Some a :: r => match all_some r with Some r' => Some (a :: r') | None => None end
  | None :: _ => None
  end.

(* the values of the LOADED profile's samples under the selected index, checked without going
   through the aggregation model *)
(* Scale and Unit, from the statement of Stacks(): the page shows Value*Scale in Unit, so Scale is the
   factor from the sample unit to the default unit of its family (1 and no unit when the unit is
   unknown), times the divide_by ratio when one is set (> 0); written with C15's declarative
   [scale_spec] (S_Measure), not with the model's [scale_unit] *)
Definition scale_ok (unit : string) (ratio : Q) (o : term) : bool :=
  let r := if Qle_bool ratio 0 then 1%Q else ratio in
  negb (String.eqb (gs (gn o 3)) "default")
  && scale_spec unit_types 1 unit "default" (to_Q17 (gn o 1) / r)%Q (gs (gn o 3)).

Definition loaded_values_ok (ix : nat) (loaded : profile) (R : stackset) : bool :=
  Nat.eqb (List.length (ss_stacks R)) (List.length (p_sample loaded))
  && forallb (fun ks => sk_value (fst ks) =? nth ix (s_val (snd ks)) 0) (combine (ss_stacks R) (p_sample loaded)).

Definition spec_C17 (i o : term) : bool :=
  if is_e2e i then
    match e2e_result i with
    | WebBadRequest => term_eqb o http400     (* the rules reject the request: it must be refused *)
    | WebOk op unit p =>
        match stackset_of o with
        | Some (nulls, R) => check_stackset op p nulls R && loaded_values_ok (o_index op) (profile_of (gn i 1)) R
                             && String.eqb (ss_type R) (o_type op) && scale_ok unit (to_Q17 (gn i 4)) o
        | None => false
        end
    end
  else if is_seq i then
    (* every call of the sequence serves a correct stack set for the profile the reports were built
       on, and that profile is afterwards what it was before the first call *)
    match all_some (map stackset_of (gl (gn o 0))) with
    | Some obs => check_calls (profile_of (gn i 1)) (map opts_of (seq_opts i)) obs
                  && term_eqb (gn i 1) (gn o 1)
                  && forallb (fun oo => scale_ok (gs (gn (fst oo) 3)) (to_Q17 (gn (fst oo) 5)) (snd oo))
                             (combine (seq_opts i) (gl (gn o 0)))
    | None => false
    end
  else
    match stackset_of o with
    | Some (nulls, R) => check_stackset (opts_of (gn i 1)) (profile_of (gn i 0)) nulls R
                         && scale_ok (gs (gn (gn i 1) 3)) (to_Q17 (gn (gn i 1) 5)) o
    | None => false
    end.

Definition cls_C17 (i : term) : list Z := [].

Definition judge_C17 := judge_all run_C17 eqv_C17 spec_C17 cls_C17 0%Z.
