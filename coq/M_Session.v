(* Executable model of the interactive loop (internal/driver/interactive.go) and of the way a
   web request derives its configuration (webui.go makeReport), over the option state of
   M_Config.  The session state is the process-wide option set [currentCfg] and nothing else: the
   loaded profile is immutable ([copier] bytes decoded afresh for every report).
   Report generation itself is abstract (C04/C05/C06.. are about its content).
   No proofs in this file. *)
From PV Require Export M_Config.
Open Scope string_scope.
Open Scope Z_scope.

(* ---- strings.TrimSpace / Fields / SplitN / LastIndex, on ASCII white space *)
Definition is_space (a : ascii) : bool :=
  let n := N_of_ascii a in (N.eqb n 32 || (N.leb 9 n && N.leb n 13))%N.

Fixpoint drop_ws (s : string) : string :=
  match s with
  | String a r => if is_space a then drop_ws r else s
  | EmptyString => s
  end.
Definition trim_space (s : string) : string := rev_string (drop_ws (rev_string (drop_ws s))).

Fixpoint fields_go (s cur : string) : list string :=
  match s with
  | EmptyString => if String.eqb cur "" then [] else [cur]
  | String a r =>
      if is_space a then (if String.eqb cur "" then fields_go r "" else cur :: fields_go r "")
      else fields_go r (cur ++ String a "")
  end.
Definition fields (s : string) : list string := fields_go s "".

(* strings.SplitN(s, "=", 2) *)
Fixpoint split_eq (s acc : string) : string * option string :=
  match s with
  | EmptyString => (acc, None)
  | String a r => if Ascii.eqb a "=" then (acc, Some r) else split_eq r (acc ++ String a "")
  end.

Fixpoint last_index (pat s : string) (i : nat) (acc : option nat) : option nat :=
  match s with
  | EmptyString => acc
  | String a r => last_index pat r (S i) (if has_prefix pat s then Some i else acc)
  end.
Definition cut_comment (v : string) : string :=
  match last_index "//:" v O None with Some i => take i v | None => v end.

(* tailDigitsRE = [0-9]+$ : (rest, trailing digits) *)
Fixpoint take_digits (s : string) : string :=
  match s with
  | String a r => if is_digit a then String a (take_digits r) else ""
  | EmptyString => ""
  end.
Definition tail_digits (name : string) : string := rev_string (take_digits (rev_string name)).

(* strconv.ParseInt(t, 10, 32) *)
Definition parse_int32 (s : string) : option Z :=
  let '(neg, body) := split_sign s in
  match body with
  | EmptyString => None
  | _ => if all_digits body then
           let v := digits_val body 0 in
           let z := if neg then - v else v in
           if (z <? -2147483648) || (2147483647 <? z) then None else Some z
         else None
  end.

Definition cat_regex (a b : string) : string :=
  if negb (String.eqb a "") && negb (String.eqb b "") then a ++ "|" ++ b else a ++ b.

(* ---- what a line can make the loop do *)
Inductive event :=
| EErr (code : Z)                           (* an error was printed *)
| EPrint                                    (* options / help were printed *)
| EReport (cmd : list string) (c : config). (* generateReport(copier.newCopy(), cmd, c) *)

(* error codes: 1 value missing, 2 bad sample_index, 3 configure failed,
   41 "did you mean", 42 unrecognized command, 43 argument required, 44 nothing after ">" *)

Record env := {
  e_fields : list field;
  e_pf : string -> option string;
  e_commands : list (string * bool);   (* pprofCommands: name, hasParam *)
  e_help : list string;                (* keys of configHelp *)
  e_types : list string;               (* p.SampleType[i].Type *)
  e_default_type : string              (* p.DefaultSampleType *)
}.

Fixpoint assoc_b (l : list (string * bool)) (k : string) : option bool :=
  match l with
  | [] => None
  | (k', v) :: r => if String.eqb k' k then Some v else assoc_b r k
  end.

Fixpoint index_of (l : list string) (p : string -> bool) (i : Z) : option Z :=
  match l with
  | [] => None
  | x :: r => if p x then Some i else index_of r p (i + 1)
  end.

(* profile.SampleIndexByName followed by the range check of interactive(); None = error *)
Definition sample_index_by_name (e : env) (value : string) : option string :=
  let n := Z.of_nat (List.length (e_types e)) in
  let idx :=
    if String.eqb value "" then
      match (if String.eqb (e_default_type e) "" then None
             else index_of (e_types e) (String.eqb (e_default_type e)) 0) with
      | Some i => Some i
      | None => Some (n - 1)
      end
    else match atoi value with
         | Some i => if (i <? 0) || (n <=? i) then None else Some i
         | None =>
             let no_inuse := trim_prefix "inuse_" value in
             index_of (e_types e) (fun t => String.eqb t value || String.eqb t no_inuse) 0
         end in
  match idx with
  | Some i => if (i <? 0) || (n <=? i) then None else nth_error (e_types e) (Z.to_nat i)
  | None => None
  end.

Definition is_configurable (e : env) (name : string) : bool :=
  match cfm_lookup (e_fields e) name None with Some _ => true | None => false end.
Definition is_bool_config (e : env) (name : string) : bool :=
  match cfm_lookup (e_fields e) name None with
  | Some f => if String.eqb (f_name f) name then match f_kind f with KBool => true | _ => false end else true
  | None => false
  end.

(* ---- parseCommandLine *)
Fixpoint parse_args (fuel : nat) (args : list string) (c : config) (focus ignore : string)
  : option (config * string * string) :=
  match fuel with
  | O => Some (c, focus, ignore)
  | S fuel' =>
    match args with
    | [] => Some (c, focus, ignore)
    | t :: r =>
        match parse_int32 t with
        | Some n => parse_args fuel' r (upd c "nodecount" (print_int n)) focus ignore
        | None =>
            match t with
            | String a t1 =>
                if Ascii.eqb a ">" then
                  if String.eqb t1 "" then
                    match r with
                    | [] => None                                   (* unexpected end of line after > *)
                    | f :: r' => parse_args fuel' r' (upd c "output" f) focus ignore
                    end
                  else parse_args fuel' r (upd c "output" t1) focus ignore
                else if Ascii.eqb a "-" then
                  if String.eqb t "--cum" || String.eqb t "-cum"
                  then parse_args fuel' r (upd c "sort" "cum") focus ignore
                  else parse_args fuel' r c focus (cat_regex ignore t1)
                else parse_args fuel' r c (cat_regex focus t) ignore
            | EmptyString => parse_args fuel' r c focus ignore       (* Fields never yields "" *)
            end
        end
    end
  end.

Inductive parsed := PErr (code : Z) | PCmd (cmd : list string) (c : config).

Definition parse_command_line (e : env) (cur : config) (tokens : list string) : parsed :=
  match tokens with
  | [] => PErr 42
  | name0 :: args0 =>
      let '(name, args, found) :=
        match assoc_b (e_commands e) name0 with
        | Some hp => (name0, args0, Some hp)
        | None =>
            let d := tail_digits name0 in
            if negb (String.eqb d "") && negb (String.eqb d name0) then
              let nm := take (String.length name0 - String.length d) name0 in
              (nm, d :: args0, assoc_b (e_commands e) nm)
            else (name0, args0, None)
        end in
      match found with
      | None => if existsb (String.eqb name) (e_help e) then PErr 41 else PErr 42
      | Some has_param =>
          let '(cmd, args1, ok) :=
            if has_param then
              match args with
              | [] => ([name], args, false)
              | a :: r => ([name; a], r, true)
              end
            else ([name], args, true) in
          if negb ok then PErr 43 else
          match parse_args (S (List.length args1)) args1 cur "" "" with
          | None => PErr 44
          | Some (vc, focus, ignore) =>
              let vc1 := if String.eqb name "tags"
                         then let v1 := if String.eqb focus "" then vc else upd vc "tagfocus" focus in
                              if String.eqb ignore "" then v1 else upd v1 "tagignore" ignore
                         else let v1 := if String.eqb focus "" then vc else upd vc "focus" focus in
                              if String.eqb ignore "" then v1 else upd v1 "ignore" ignore in
              let vc2 := if String.eqb (vc1 "nodecount") "-1" && (String.eqb name "text" || String.eqb name "top")
                         then upd vc1 "nodecount" "10" else vc1 in
              PCmd cmd vc2
          end
      end
  end.

(* ---- one (expanded) input of the loop: new option state, what happened, exit? *)
Definition step_input (e : env) (cur : config) (input : string) : config * list event * bool :=
  let '(lhs, rhs) := split_eq input "" in
  let name := trim_space lhs in
  if is_configurable e name then
    let value := match rhs with Some v => trim_space (cut_comment v) | None => "" end in
    match rhs with
    | None => if is_bool_config e name then
                match configure (e_pf e) (e_fields e) cur name value with
                | Ok c' => (c', [], false)
                | Err _ => (cur, [EErr 3], false)
                end
              else (cur, [EErr 1], false)
    | Some _ =>
        let value' := if String.eqb name "sample_index" then sample_index_by_name e value else Some value in
        match value' with
        | None => (cur, [EErr 2], false)
        | Some v =>
            match configure (e_pf e) (e_fields e) cur name v with
            | Ok c' => (c', [], false)
            | Err _ => (cur, [EErr 3], false)
            end
        end
    end
  else
    match fields input with
    | [] => (cur, [], false)
    | t0 :: rest =>
        if String.eqb t0 "o" || String.eqb t0 "options" then (cur, [EPrint], false)
        else if String.eqb t0 "exit" || String.eqb t0 "quit" || String.eqb t0 "q" then (cur, [], true)
        else if String.eqb t0 "help" then (cur, [EPrint], false)
        else match parse_command_line e cur (t0 :: rest) with
             | PErr code => (cur, [EErr code], false)
             | PCmd cmd c => (cur, [EReport cmd c], false)
             end
    end.

(* shortcuts.expand *)
Definition expand (e : env) (line : string) : list string :=
  let input := trim_space line in
  if String.eqb input ":" then ["focus="; "ignore="; "hide="; "tagfocus="; "tagignore="]
  else if existsb (String.eqb input) (e_types e) then ["sample_index=" ++ input]
  else if has_prefix "total_" input && existsb (String.eqb (drop 6 input)) (e_types e)
       then ["mean=0"; "sample_index=" ++ drop 6 input]
  else if has_prefix "mean_" input && existsb (String.eqb (drop 5 input)) (e_types e)
       then ["mean=1"; "sample_index=" ++ drop 5 input]
  else [input].

Fixpoint run_inputs (e : env) (cur : config) (inputs : list string) : config * list event * bool :=
  match inputs with
  | [] => (cur, [], false)
  | i :: r =>
      let '(c1, ev1, ex1) := step_input e cur i in
      if ex1 then (c1, ev1, true)
      else let '(c2, ev2, ex2) := run_inputs e c1 r in (c2, (ev1 ++ ev2)%list, ex2)
  end.

(* one line typed by the user *)
Definition step_line (e : env) (cur : config) (line : string) : config * list event * bool :=
  run_inputs e cur (expand e line).

(* a whole session: interactive() first sets compact_labels=true *)
Definition session_start (e : env) (c0 : config) : config :=
  match configure (e_pf e) (e_fields e) c0 "compact_labels" "true" with Ok c => c | Err _ => c0 end.

Fixpoint run_lines (e : env) (cur : config) (lines : list string) : list (config * list event) :=
  match lines with
  | [] => []
  | l :: r =>
      let '(c1, ev, ex) := step_line e cur l in
      (c1, ev) :: (if ex then [] else run_lines e c1 r)
  end.

(* ---- web requests: configuration a request's report is generated with *)
Inductive endpoint := WTop | WPeek | WFlame | WGraph | WSource | WDisasm.

Definition web_editor (ep : endpoint) (c : config) : config :=
  match ep with
  | WTop => upd c "nodecount" "500"
  | WPeek => upd c "granularity" "lines"
  | WFlame => let c1 := upd (upd c "call_tree" "true") "trim" "false" in
              if String.eqb (c1 "granularity") "" then upd c1 "granularity" "filefunctions" else c1
  | _ => c
  end.

(* Some cfg = a report is generated with cfg; None = 400 Bad Request *)
Definition web_request_cfg (e : env) (cur : config) (ep : endpoint) (q : values) : option config :=
  match apply_url_go (e_pf e) (e_fields e) cur q with
  | Ok c => Some (web_editor ep c)
  | Err _ => None
  end.

(* ---- concurrent web requests: every handler reads the option state once (currentConfig(),
   under currentMu), then works on its own copy; a schedule is the list of request indices in the
   order the scheduler lets them take their next step *)
Record wst := { w_cur : config; w_local : nat -> option config; w_resp : nat -> option (option config) }.

Definition wset {A} (g : nat -> A) (i : nat) (v : A) : nat -> A := fun j => if Nat.eqb j i then v else g j.

Definition wstep (e : env) (reqs : list (endpoint * values)) (s : wst) (i : nat) : wst :=
  match w_local s i with
  | None => {| w_cur := w_cur s; w_local := wset (w_local s) i (Some (w_cur s)); w_resp := w_resp s |}
  | Some c =>
      {| w_cur := w_cur s; w_local := w_local s;
         w_resp := wset (w_resp s) i
                     (Some (match nth_error reqs i with
                            | Some (ep, q) => web_request_cfg e c ep q
                            | None => None
                            end)) |}
  end.

Definition wrun (e : env) (reqs : list (endpoint * values)) (sched : list nat) (s : wst) : wst :=
  fold_left (wstep e reqs) sched s.

Definition winit (cur : config) : wst := {| w_cur := cur; w_local := fun _ => None; w_resp := fun _ => None |}.

(* ---- reports and the profile they are handed.  [report] may mutate its argument: it returns
   the profile as it left it.  [fresh = true] is the code (copier.newCopy() per command);
   [fresh = false] hands every report the object the previous one left behind. *)
Section Reports.
  Variables P O : Type.
  Variable parse : string -> P.
  Variable report : P -> list string -> config -> O * P.

  Fixpoint run_reports (fresh : bool) (bytes : string) (obj : P) (evs : list (list string * config)) : list O :=
    match evs with
    | [] => []
    | (cmd, c) :: r =>
        let p := if fresh then parse bytes else obj in
        let '(o, p') := report p cmd c in
        o :: run_reports fresh bytes p' r
    end.
End Reports.
