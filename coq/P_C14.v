From PV Require Import M_LegacyDoc S_Legacy.
