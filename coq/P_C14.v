(* C14 -- Legacy text and binary profiles convert with the documented values.
   Property theorems only: each is closed by [exact] of a lemma from L_Legacy and followed by
   Print Assumptions.  M_Legacy is the model of profile/legacy_profile.go that the correspondence
   check runs against the real ParseData on every run; convert_* (M_LegacyDoc) is the documented
   conversion of an abstract document; S_Legacy is the specification on the observable profile. *)
From PV Require Import M_LegacyDoc S_Legacy L_Legacy M_LegacyGlue L_LegacyGlue.
Open Scope Z_scope.

(* -- whatever the raw samples a parser hands to the final pass (ids, mappings, clean-up), the
      result shows one sample per raw sample, in order, with exactly its (cleaned) addresses,
      its values and its block-size label: no interning or renumbering step can shift them -- *)
Theorem result_shows_every_sample : forall cleanup x maps,
  samples_meet false (finalize cleanup x maps) (map (sview_of cleanup) (pr_samples x))
               (p_sample (finalize cleanup x maps)) = true.
Proof. exact samples_meet_finalize. Qed.
Print Assumptions result_shows_every_sample.

(* -- the documented conversion of each format meets the specification's sample clause:
      one sample per record in input order; call sites moved back by one; values raw -- *)
Theorem count_convert_documented : forall d,
  samples_meet false (convert_count d) (count_view d) (p_sample (convert_count d)) = true.
Proof. exact convert_count_view_lemma. Qed.
Print Assumptions count_convert_documented.

(* heap family: raw or unsampled values (exp is an arbitrary oracle), alloc columns, block size *)
Theorem heap_convert_documented : forall unsample d,
  samples_meet false (convert_heap unsample d) (heap_view unsample d) (p_sample (convert_heap unsample d)) = true.
Proof. exact convert_heap_view_lemma. Qed.
Print Assumptions heap_convert_documented.

(* an effective sampling rate of at most 1 (no rate, heap/1..3, heap_v2/0..1) means RAW values: both the
   parser model's scaleHeapSample and the specification leave non-zero count and size untouched *)
Theorem heap_rate_le_1_raw : forall unsample c s rate, rate <= 1 -> c <> 0 -> s <> 0 ->
  scale_heap_sample unsample c s rate = (c, s).
Proof. exact scale_rate_le_1_lemma. Qed.
Print Assumptions heap_rate_le_1_raw.
Theorem heap_spec_rate_le_1_raw : forall unsample d c s, hd_period d <= 1 -> s <> 0 -> unsampled unsample d c s = [c; s].
Proof. exact unsampled_rate_le_1_lemma. Qed.
Print Assumptions heap_spec_rate_le_1_raw.

(* contention / mutex: count x period, delay scaled to nanoseconds *)
Theorem contention_convert_documented : forall d,
  samples_meet false (convert_contention d) (contention_view d) (p_sample (convert_contention d)) = true.
Proof. exact convert_contention_view_lemma. Qed.
Print Assumptions contention_convert_documented.

(* threadz: one sample per thread with a stack, leaf left alone, a same-as-previous record adds one
   to the preceding sample, duplicated leaf removed *)
Theorem thread_convert_documented : forall d,
  samples_meet false (convert_thread d) (thread_view d) (p_sample (convert_thread d)) = true.
Proof. exact convert_thread_view_lemma. Qed.
Print Assumptions thread_convert_documented.

(* binary CPU: count and count x period, leaf left alone, signal-handler frame and duplicated leaf removed *)
Theorem cpu_convert_documented : forall d,
  samples_meet false (convert_cpu d) (cpu_view d) (p_sample (convert_cpu d)) = true.
Proof. exact convert_cpu_view_lemma. Qed.
Print Assumptions cpu_convert_documented.

(* -- binary CPU: the signal-handler frame is well defined: at most one address can be the second
      frame of all but len/32 samples, so Go's map iteration order cannot influence the result -- *)
Theorem signal_frame_unique : forall ss a b,
  ss <> [] -> qualifies ss a = true -> qualifies ss b = true -> a = b.
Proof. exact signal_frame_unique_lemma. Qed.
Print Assumptions signal_frame_unique.

(* -- binary CPU: records are independent.  Given the document, every sample's documented view is ONE
      function of its own record, and equal stacks get equal result stacks: a record converts the same
      way whether or not an equal record precedes it (no state may leak between records) -- *)
Theorem cpu_equal_records_equal_stacks : forall d, exists h : Z * list Z -> sview,
  cpu_view d = map h (pd_samples d) /\ (forall s t, snd s = snd t -> sv_addrs (h s) = sv_addrs (h t)).
Proof. exact cpu_view_uniform_lemma. Qed.
Print Assumptions cpu_equal_records_equal_stacks.

(* -- binary CPU: a header written with word size / byte order k is rejected by every getter probed
      before k and accepted by k's own, with the period as written (parser model, all inputs) -- *)
Theorem cpu_word_probe_unique : forall k p rest, 0 <= k <= 3 -> 0 < p -> word_ok k p ->
  parse_cpu (cpu_header k p rest) = cpu_profile (getter k) p (Some rest).
Proof. exact cpu_word_probe_lemma. Qed.
Print Assumptions cpu_word_probe_unique.

(* -- parser model on printed text: a printed Go-count record line is recognised and converted to
      the count as given and every address moved back by one (all numerals, all stacks) -- *)
Theorem parse_print_count_record_partial : forall c a, wf_dec c -> a <> [] -> Forall wf_hex a ->
  count_line (print_citem (CRec c a))
  = Ok {| rs_addrs := map (fun h => dec1 (addr_of h)) a; rs_vals := [dec_val c]; rs_bytes := None |}.
Proof. exact count_line_print_lemma. Qed.
Print Assumptions parse_print_count_record_partial.

(* ---- the glue through which the values are observed with pprof (M_LegacyGlue; tied to driver.PProf, the
        interactive shell and the web handlers by the end-to-end cases of every run) ---- *)

(* a column named on the command line / in sample_index= / in a URL is the FIRST column whose type is the
   name itself or the name without "inuse_": never one that merely ends with the name *)
Theorem named_column_is_first_exact_match : forall types dflt si i,
  nonempty si = true -> atoi si = None -> sample_index_by_name types dflt si = Some i ->
  0 <= i /\
  (exists t, nth_error types (Z.to_nat i) = Some t /\ (t = si \/ t = trim_prefix "inuse_" si)) /\
  (forall j t, (j < Z.to_nat i)%nat -> nth_error types j = Some t -> t <> si /\ t <> trim_prefix "inuse_" si).
Proof. exact sample_index_named_lemma. Qed.
Print Assumptions named_column_is_first_exact_match.

(* on the four columns of a heap profile with allocation data every name selects its own column; the
   legacy names work on the two-column form; the default is the last column *)
Theorem heap_columns_by_name :
  map (sample_index_by_name ["alloc_objects"; "alloc_space"; "inuse_objects"; "inuse_space"]%string "")
      ["alloc_objects"; "alloc_space"; "inuse_objects"; "inuse_space"; ""; "space"]%string
  = [Some 0; Some 1; Some 2; Some 3; Some 3; None] /\
  map (sample_index_by_name ["objects"; "space"]%string "") ["inuse_objects"; "inuse_space"; "alloc_space"]%string
  = [Some 0; Some 1; None].
Proof. vm_compute. split; reflexivity. Qed.
Print Assumptions heap_columns_by_name.

(* interactive shortcuts: total_<type> leaves mean mode whatever the history, mean_<type> enters it, the
   plain <type> shortcut and sample_index= keep it *)
Theorem shortcuts_set_mean_mode : forall types dflt st t, In t types ->
  g_mean (int_step types dflt st ("total", t)%string) = false /\
  g_mean (int_step types dflt st ("meanof", t)%string) = true /\
  g_mean (int_step types dflt st ("type", t)%string) = g_mean st /\
  g_mean (int_step types dflt st ("si", t)%string) = g_mean st.
Proof. exact shortcuts_mean_lemma. Qed.
Print Assumptions shortcuts_set_mean_mode.

(* what a report shows of a sample: the selected column as it is in total mode; divided by column 0 in mean mode *)
Theorem report_value_total_or_mean : forall idx vals,
  shown_value idx false vals = nth (Z.to_nat idx) vals 0 /\
  (nth 0 vals 0 <> 0 -> shown_value idx true vals = Z.quot (nth (Z.to_nat idx) vals 0) (nth 0 vals 0)).
Proof. exact shown_value_lemma. Qed.
Print Assumptions report_value_total_or_mean.

(* Java legacy formats carry names, so the driver applies the legacy drop/keep tables (Prune) before showing
   anything: a record whose frames are ALL allocator / lock frames keeps its whole stack (there is no user
   frame to prune beneath), wherever it stands in the document; and pruning only removes leaf-side frames *)
Theorem java_all_droppable_stack_kept : forall droppable names,
  forallb droppable names = true -> prune_stack droppable names = names.
Proof. exact prune_stack_all_droppable_lemma. Qed.
Print Assumptions java_all_droppable_stack_kept.

Theorem java_prune_keeps_root_side : forall droppable rl found acc,
  exists tail, (rev acc ++ rl)%list = (prune_root_first droppable rl found acc ++ tail)%list.
Proof. exact prune_root_first_prefix. Qed.
Print Assumptions java_prune_keeps_root_side.

(* memory map: a line that parses as a mapping IS a mapping, whatever characters its path contains ('=' included);
   only a line that is not a mapping can be an attr=value assignment *)
Theorem mapping_line_wins_over_assignment : forall l r m ms,
  parse_mapping_entry (remove_logging_info l) = Ok (Some m) -> parse_proc_maps r = Ok ms ->
  parse_proc_maps (l :: r) = Ok (m :: ms).
Proof. exact mapping_line_wins_lemma. Qed.
Print Assumptions mapping_line_wins_over_assignment.

(* Full statements of which the theorem above is the proved part (whole documents, every format);
   the remaining distance is covered on every run by the correspondence check: the parser model,
   the real parser and convert_* are compared on every generated document. *)
Definition full_statement_parse_print_count (wf : cdoc -> Prop) : Prop :=
  forall d, wf d -> parse_count (split_lines (print_count d)) = Ok (convert_count d).
Definition full_statement_parse_print_heap (wf : hdoc -> Prop) : Prop :=
  forall un d, wf d -> parse_heap un (split_lines (print_heap d)) = Ok (convert_heap un d).
Definition full_statement_parse_print_contention (wf : kdoc -> Prop) : Prop :=
  forall d, wf d -> parse_contention (split_lines (print_contention d)) = Ok (convert_contention d).
Definition full_statement_parse_print_thread (wf : tdoc -> Prop) : Prop :=
  forall d, wf d -> parse_thread (split_lines (print_thread d)) = Ok (convert_thread d).
Definition full_statement_parse_print_cpu (wf : pdoc -> Prop) : Prop :=
  forall d, wf d -> parse_cpu (bytes_of_string (print_cpu d)) = Ok (convert_cpu d).

(* -- non-vacuity: the full statements hold on concrete documents of every format, through the
      whole legacy chain (evaluated) -- *)
Definition ex_map : mapsec :=
  {| ms_present := true; ms_sentinel := 0;
     ms_entries := [{| dm_kind := 0; dm_start := "00400000"; dm_limit := "00401000"; dm_perm := "r-xp"; dm_offset := "00000000";
                       dm_dev := "fc:01"; dm_inode := "7"; dm_file := "/bin/main"; dm_buildid := "" |};
                    {| dm_kind := 1; dm_start := "7f0000000000"; dm_limit := "7f0000004000"; dm_perm := ""; dm_offset := "1000";
                       dm_dev := ""; dm_inode := ""; dm_file := "/lib/libc-2.15.so"; dm_buildid := "abc123" |}] |}.
Definition no_exp (c s r : Z) : Z * Z := (c, s).

Example ex_count :
  let d := {| cd_pre := ["# c"%string]; cd_type := "goroutine"; cd_total := "3";
              cd_items := [CRec "2" ["400801"; "7f0000000011"]; CSkip ""; CRec "1" ["400801"]]; cd_map := ex_map |} in
  parse_legacy no_exp (print_count d) = Ok (convert_count d).
Proof. vm_compute. reflexivity. Qed.
Example ex_heap :
  let d := {| hd_name := "heapprofile"; hd_h1 := "3"; hd_h2 := "48"; hd_h3 := "10"; hd_h4 := "160"; hd_rate := "";
              hd_items := [HRec "3" "48" "10" "160" ["400801"; "400900"]; HSkip "# c"; HRec "0" "0" "2" "64" []];
              hd_map := ex_map; hd_lead := "  " |} in
  parse_legacy no_exp (print_heap d) = Ok (convert_heap no_exp d).
Proof. vm_compute. reflexivity. Qed.
Example ex_contention :
  let d := {| kd_header := "--- contentionz 1 ---"; kd_attrs := [("cycles/second", "2000000000"); ("sampling period", "100")]%string;
              kd_items := [KRec "600" "3" ["400801"; "400900"]]; kd_map := ex_map |} in
  parse_legacy no_exp (print_contention d) = Ok (convert_contention d).
Proof. vm_compute. reflexivity. Qed.
Example ex_thread :
  let b := {| tb_id := "7f79"; tb_name := "main"; tb_tid := "14748"; tb_same := false; tb_lines := [["400801"; "400802"]; ["400900"]]%string |} in
  let s := {| tb_id := "7f80"; tb_name := "t/1"; tb_tid := "14749"; tb_same := true; tb_lines := [] |} in
  let d := {| td_pre := []; td_threadz := Some ("1", [""])%string; td_blocks := [b; s]; td_nostack := false; td_map := ex_map |} in
  parse_legacy no_exp (print_thread d) = Ok (convert_thread d).
Proof. vm_compute. reflexivity. Qed.
Example ex_cpu :
  let d := {| pd_kind := 3; pd_period := 10000; pd_samples := [(2, [4196353; 4196354; 4196609]); (1, [4196353])];
              pd_eod := true; pd_maps := ms_entries ex_map |} in
  parse_legacy no_exp (print_cpu d) = Ok (convert_cpu d).
Proof. vm_compute. reflexivity. Qed.
Example ex_wf : wf_dec "120" /\ wf_hex "00400abc".
Proof. unfold wf_dec, wf_hex. repeat split; try reflexivity. right. reflexivity. Qed.
