(* Model of the GLUE that feeds the ELF core of C13 and consumes its answers, on the path
   pprof -symbolize=local|fastlocal <profiles>:
     internal/driver/fetch.go   locateBinaries (which file a mapping is symbolized against)
     profile/merge.go           Merge: mapMapping / Mapping.key (mappings of several profiles folded
                                into one, addresses rebased), order of first use
     internal/symbolizer        doLocalSymbolize / symbolizeOneMapping (per merged mapping: Open,
                                build-id check, one SourceLine per location, in location order)
     internal/binutils          fileNM.SourceLine (base from the first address, nm table + base)
   followed by the aggregation a report shows (stack of function names -> summed value).
   No proofs in this file. *)
From PV Require Export M_Elf.
Open Scope Z_scope.

(* a file on disk: what debug/elf reads of it, its symbol table in nm order, its GNU build id *)
Record gfile := { gf_elf : elf; gf_syms : list sym; gf_buildid : string }.
Definition gfile0 : gfile := {| gf_elf := elf0; gf_syms := []; gf_buildid := "" |}.

(* a mapping of a source profile.  Files are identified by their index in the world ([-1] = the
   recorded name does not exist on disk); [gm_cands] = the files found under the names
   locateBinaries tries, in trial order. *)
Record gmapping := {
  gm_start : Z; gm_limit : Z; gm_offset : Z; gm_buildid : string;
  gm_rec : Z; gm_cands : list Z;
  gm_truth : Z; gm_bias : Z   (* specification side only: the file really loaded, and where *)
}.
Definition gmapping0 : gmapping :=
  {| gm_start := 0; gm_limit := 0; gm_offset := 0; gm_buildid := ""; gm_rec := -1; gm_cands := []; gm_truth := -1; gm_bias := 0 |}.

(* a source profile: scale (+1 source, -1 diff base), mappings, samples = (stack of (mapping
   index, address), leaf first; value) *)
Record gprofile := { gp_scale : Z; gp_maps : list gmapping; gp_samples : list (list (nat * Z) * Z) }.

Definition file_at (files : list gfile) (i : Z) : gfile := if i <? 0 then gfile0 else nth (Z.to_nat i) files gfile0.

(* ---- fetch.go:400 locateBinaries: the first candidate that opens and whose build id is the
   mapping's (when the mapping has one) replaces the recorded file ---- *)
Definition cand_ok (files : list gfile) (m : gmapping) (c : Z) : bool :=
  let f := file_at files c in
  (match open_elf (gf_elf f) (gm_start m) (gm_limit m) (gm_offset m) with Ok _ => true | Err _ => false end) &&
  (String.eqb (gm_buildid m) "" || String.eqb (gm_buildid m) (gf_buildid f)).
Definition locate_file (files : list gfile) (m : gmapping) : Z :=
  match find (cand_ok files m) (gm_cands m) with Some c => c | None => gm_rec m end.

(* ---- merge.go:391 Mapping.key ---- *)
Definition round_4k (size : Z) : Z :=
  let s := uadd size 4095 in usub s (s mod 4096).
(* buildIDOrFile: the build id, else the (located) file *)
Inductive idkey := KBuild (s : string) | KFile (i : Z).
Definition idkey_eqb (a b : idkey) : bool :=
  match a, b with
  | KBuild x, KBuild y => String.eqb x y
  | KFile x, KFile y => x =? y
  | _, _ => false
  end.
(* a mapping of the merged profile *)
Record mmapping := { mm_start : Z; mm_limit : Z; mm_offset : Z; mm_buildid : string; mm_file : Z }.
Definition mm_key (m : mmapping) : Z * Z * idkey :=
  (round_4k (usub (mm_limit m) (mm_start m)), mm_offset m,
   if String.eqb (mm_buildid m) "" then KFile (mm_file m) else KBuild (mm_buildid m)).
Definition key_eqb (a b : Z * Z * idkey) : bool :=
  let '(s1, o1, k1) := a in let '(s2, o2, k2) := b in (s1 =? s2) && (o1 =? o2) && idkey_eqb k1 k2.

Definition located (files : list gfile) (m : gmapping) : mmapping :=
  {| mm_start := gm_start m; mm_limit := gm_limit m; mm_offset := gm_offset m; mm_buildid := gm_buildid m;
     mm_file := locate_file files m |}.

Fixpoint find_index {A : Type} (f : A -> bool) (l : list A) (i : nat) : option nat :=
  match l with
  | [] => None
  | x :: r => if f x then Some i else find_index f r (S i)
  end.

(* merge.go:351 mapMapping: (merged mappings so far, source mapping) -> (merged mappings, index of
   the merged mapping, rebase offset m.Start - src.Start) *)
Definition map_mapping (ms : list mmapping) (src : mmapping) : list mmapping * nat * Z :=
  match find_index (fun m => key_eqb (mm_key m) (mm_key src)) ms 0 with
  | Some i => (ms, i, mm_start (nth i ms src) - mm_start src)
  | None => ((ms ++ [src])%list, List.length ms, 0)
  end.

(* merged state: mappings, and for every merged mapping the rebased addresses of its locations in
   order of first use (the order doLocalSymbolize asks them) *)
Record mstate := { ms_maps : list mmapping; ms_addrs : list (list Z) }.

Fixpoint add_addr (l : list (list Z)) (i : nat) (a : Z) : list (list Z) :=
  match l, i with
  | [], O => [[a]]
  | [], S i' => [] :: add_addr [] i' a
  | x :: r, O => (if existsb (Z.eqb a) x then x else (x ++ [a])%list) :: r
  | x :: r, S i' => x :: add_addr r i' a
  end.

(* one frame of a source sample: merge.go:289 mapLocation *)
Definition map_frame (files : list gfile) (maps : list gmapping) (st : mstate) (fr : nat * Z) : mstate * (nat * Z) :=
  let src := located files (nth (fst fr) maps gmapping0) in
  let '(ms, i, delta) := map_mapping (ms_maps st) src in
  let a := wrap_u64 (snd fr + delta) in
  ({| ms_maps := ms; ms_addrs := add_addr (ms_addrs st) i a |}, (i, a)).

Fixpoint map_stack (files : list gfile) (maps : list gmapping) (st : mstate) (stack : list (nat * Z))
  : mstate * list (nat * Z) :=
  match stack with
  | [] => (st, [])
  | fr :: r => let '(st1, x) := map_frame files maps st fr in
               let '(st2, xs) := map_stack files maps st1 r in (st2, x :: xs)
  end.

(* all samples of one source profile; merged samples = (merged stack, scaled value) *)
Fixpoint map_samples (files : list gfile) (maps : list gmapping) (scale : Z) (st : mstate)
  (ss : list (list (nat * Z) * Z)) : mstate * list (list (nat * Z) * Z) :=
  match ss with
  | [] => (st, [])
  | (stack, v) :: r =>
      let '(st1, ms) := map_stack files maps st stack in
      let '(st2, rest) := map_samples files maps scale st1 r in (st2, (ms, scale * v) :: rest)
  end.

(* merge.go:66: the first mapping of the first profile is taken first *)
Definition map_profile (files : list gfile) (st : mstate) (p : gprofile) : mstate * list (list (nat * Z) * Z) :=
  let st0 := match ms_maps st, gp_maps p with
             | [], m0 :: _ => {| ms_maps := [located files m0]; ms_addrs := ms_addrs st |}
             | _, _ => st
             end in
  map_samples files (gp_maps p) (gp_scale p) st0 (gp_samples p).

Fixpoint map_profiles (files : list gfile) (st : mstate) (ps : list gprofile) : mstate * list (list (nat * Z) * Z) :=
  match ps with
  | [] => (st, [])
  | p :: r => let '(st1, s1) := map_profile files st p in
              let '(st2, s2) := map_profiles files st1 r in (st2, (s1 ++ s2)%list)
  end.

(* ---- symbolizer.go doLocalSymbolize + binutils fileNM.SourceLine, per merged mapping ----
   None = the location stays without function *)
Definition symbolize_mapping (files : list gfile) (m : mmapping) (addrs : list Z) : list (Z * option string) :=
  let unsym := map (fun a => (a, None)) addrs in
  if mm_file m <? 0 then unsym                                   (* obj.Open: no such file *)
  else
    let f := file_at files (mm_file m) in
    match open_elf (gf_elf f) (mm_start m) (mm_limit m) (mm_offset m) with
    | Err _ => unsym
    | Ok em =>
        if negb (String.eqb (mm_buildid m) "") && negb (String.eqb (gf_buildid f) "") &&
           negb (String.eqb (gf_buildid f) (mm_buildid m)) then unsym   (* build ID mismatch *)
        else match addrs with
             | [] => []
             | a0 :: _ =>
                 match compute_base (Some em) true (gf_elf f) a0 with
                 | Err _ => unsym
                 | Ok (base, _) => map (fun a => (a, addr_info (shift_syms base (gf_syms f)) a)) addrs
                 end
             end
    end.

Definition name_of (tab : list (list (Z * option string))) (fr : nat * Z) : string :=
  match find (fun x => fst x =? snd fr) (nth (fst fr) tab []) with
  | Some (_, Some n) => n
  | _ => "?"%string
  end.

(* ---- what a report shows: stacks of names with summed values, sorted by key ---- *)
Fixpoint join_names (l : list string) : string :=
  match l with
  | [] => ""
  | [x] => x
  | x :: r => (x ++ ";" ++ join_names r)%string
  end.
Fixpoint agg_add (k : string) (v : Z) (l : list (string * Z)) : list (string * Z) :=
  match l with
  | [] => [(k, v)]
  | (k', v') :: r => if String.eqb k k' then (k', v' + v) :: r else (k', v') :: agg_add k v r
  end.
Fixpoint agg_insert (x : string * Z) (l : list (string * Z)) : list (string * Z) :=
  match l with
  | [] => [x]
  | y :: r => if str_ltb (fst x) (fst y) then x :: l else y :: agg_insert x r
  end.
Definition aggregate (l : list (string * Z)) : list (string * Z) :=
  let summed := fold_left (fun acc kv => agg_add (fst kv) (snd kv) acc) l [] in
  fold_right agg_insert [] (filter (fun kv => negb (snd kv =? 0)) summed).

Definition named_samples (files : list gfile) (ps : list gprofile) : list (list string * Z) :=
  let '(st, samples) := map_profiles files {| ms_maps := []; ms_addrs := [] |} ps in
  let tab := map (fun ma => symbolize_mapping files (fst ma) (snd ma))
                 (combine (ms_maps st) (ms_addrs st ++ repeat [] (List.length (ms_maps st)))) in
  map (fun s => (map (name_of tab) (fst s), snd s)) samples.

(* -traces / -proto: whole stacks; -top: the leaf *)
Definition report_stacks (ns : list (list string * Z)) : list (string * Z) :=
  aggregate (map (fun s => (join_names (fst s), snd s)) ns).
Definition report_flat (ns : list (list string * Z)) : list (string * Z) :=
  aggregate (map (fun s => (match fst s with n :: _ => n | [] => ""%string end, snd s)) ns).
