(* Model of the GLUE that feeds the ELF core of C13 and consumes its answers, on the path
   pprof -symbolize=local|fastlocal <profiles>:
     internal/driver/fetch.go   locateBinaries (which file a mapping is symbolized against)
     profile/merge.go           Merge: mapMapping / Mapping.key (mappings of several profiles folded
                                into one, addresses rebased), order of first use
     internal/symbolizer        doLocalSymbolize / symbolizeOneMapping (per merged mapping: Open,
                                build-id check, one SourceLine per location, in location order)
     internal/binutils          fileNM.SourceLine (base from the first address, nm table + base)
   followed by the aggregation a report shows (stack of function names -> summed value).
   No proofs in this file. *)
From PV Require Export M_Elf.
Open Scope Z_scope.

(* a file on disk: what debug/elf reads of it, its symbol table in nm order, its GNU build id *)
Record gfile := { gf_elf : elf; gf_syms : list sym; gf_buildid : string }.
Definition gfile0 : gfile := {| gf_elf := elf0; gf_syms := []; gf_buildid := "" |}.

(* a mapping of a source profile.  Files are identified by their index in the world ([-1] = the
   recorded name does not exist on disk); [gm_cands] = the files found under the names
   locateBinaries tries, in trial order. *)
Record gmapping := {
  gm_start : Z; gm_limit : Z; gm_offset : Z; gm_buildid : string;
  gm_rec : Z; gm_cands : list Z;
  gm_truth : Z; gm_bias : Z;  (* specification side only: the file really loaded, and where *)
  gm_fkind : Z                (* legacy map entries: 0 named file, 1 named library (.so), 2 no name, 3 /anon_hugepage *)
}.
Definition gmapping0 : gmapping :=
  {| gm_start := 0; gm_limit := 0; gm_offset := 0; gm_buildid := ""; gm_rec := -1; gm_cands := []; gm_truth := -1; gm_bias := 0; gm_fkind := 0 |}.

(* a source profile: scale (+1 source, -1 diff base), mappings, samples = (stack of (mapping
   index, address), leaf first; value) *)
Record gprofile := { gp_scale : Z; gp_maps : list gmapping; gp_samples : list (list (nat * Z) * Z) }.

Definition file_at (files : list gfile) (i : Z) : gfile := if i <? 0 then gfile0 else nth (Z.to_nat i) files gfile0.

(* ---- fetch.go:400 locateBinaries: the first candidate that opens and whose build id is the
   mapping's (when the mapping has one) replaces the recorded file ---- *)
Definition cand_ok (files : list gfile) (m : gmapping) (c : Z) : bool :=
  let f := file_at files c in
  (match open_elf (gf_elf f) (gm_start m) (gm_limit m) (gm_offset m) with Ok _ => true | Err _ => false end) &&
  (String.eqb (gm_buildid m) "" || String.eqb (gm_buildid m) (gf_buildid f)).
Definition locate_file (files : list gfile) (m : gmapping) : Z :=
  match find (cand_ok files m) (gm_cands m) with Some c => c | None => gm_rec m end.

(* ---- merge.go:391 Mapping.key ---- *)
Definition round_4k (size : Z) : Z :=
  let s := uadd size 4095 in usub s (s mod 4096).
(* buildIDOrFile: the build id, else the (located) file *)
Inductive idkey := KBuild (s : string) | KFile (i : Z).
Definition idkey_eqb (a b : idkey) : bool :=
  match a, b with
  | KBuild x, KBuild y => String.eqb x y
  | KFile x, KFile y => x =? y
  | _, _ => false
  end.
(* a mapping of the merged profile *)
Record mmapping := { mm_start : Z; mm_limit : Z; mm_offset : Z; mm_buildid : string; mm_file : Z }.
Definition mm_key (m : mmapping) : Z * Z * idkey :=
  (round_4k (usub (mm_limit m) (mm_start m)), mm_offset m,
   if String.eqb (mm_buildid m) "" then KFile (mm_file m) else KBuild (mm_buildid m)).
Definition key_eqb (a b : Z * Z * idkey) : bool :=
  let '(s1, o1, k1) := a in let '(s2, o2, k2) := b in (s1 =? s2) && (o1 =? o2) && idkey_eqb k1 k2.

Definition located (files : list gfile) (m : gmapping) : mmapping :=
  {| mm_start := gm_start m; mm_limit := gm_limit m; mm_offset := gm_offset m; mm_buildid := gm_buildid m;
     mm_file := locate_file files m |}.

Fixpoint find_index {A : Type} (f : A -> bool) (l : list A) (i : nat) : option nat :=
  match l with
  | [] => None
  | x :: r => if f x then Some i else find_index f r (S i)
  end.

(* merge.go:351 mapMapping: (merged mappings so far, source mapping) -> (merged mappings, index of
   the merged mapping, rebase offset m.Start - src.Start) *)
Definition map_mapping (ms : list mmapping) (src : mmapping) : list mmapping * nat * Z :=
  match find_index (fun m => key_eqb (mm_key m) (mm_key src)) ms 0 with
  | Some i => (ms, i, mm_start (nth i ms src) - mm_start src)
  | None => ((ms ++ [src])%list, List.length ms, 0)
  end.

(* merged state: mappings, and for every merged mapping the rebased addresses of its locations in
   order of first use (the order doLocalSymbolize asks them) *)
Record mstate := { ms_maps : list mmapping; ms_addrs : list (list Z) }.

Fixpoint add_addr (l : list (list Z)) (i : nat) (a : Z) : list (list Z) :=
  match l, i with
  | [], O => [[a]]
  | [], S i' => [] :: add_addr [] i' a
  | x :: r, O => (if existsb (Z.eqb a) x then x else (x ++ [a])%list) :: r
  | x :: r, S i' => x :: add_addr r i' a
  end.

(* one frame of a source sample: merge.go:289 mapLocation *)
Definition map_frame (files : list gfile) (maps : list gmapping) (st : mstate) (fr : nat * Z) : mstate * (nat * Z) :=
  let src := located files (nth (fst fr) maps gmapping0) in
  let '(ms, i, delta) := map_mapping (ms_maps st) src in
  let a := wrap_u64 (snd fr + delta) in
  ({| ms_maps := ms; ms_addrs := add_addr (ms_addrs st) i a |}, (i, a)).

Fixpoint map_stack (files : list gfile) (maps : list gmapping) (st : mstate) (stack : list (nat * Z))
  : mstate * list (nat * Z) :=
  match stack with
  | [] => (st, [])
  | fr :: r => let '(st1, x) := map_frame files maps st fr in
               let '(st2, xs) := map_stack files maps st1 r in (st2, x :: xs)
  end.

(* all samples of one source profile; merged samples = (merged stack, scaled value) *)
Fixpoint map_samples (files : list gfile) (maps : list gmapping) (scale : Z) (st : mstate)
  (ss : list (list (nat * Z) * Z)) : mstate * list (list (nat * Z) * Z) :=
  match ss with
  | [] => (st, [])
  | (stack, v) :: r =>
      let '(st1, ms) := map_stack files maps st stack in
      let '(st2, rest) := map_samples files maps scale st1 r in (st2, (ms, scale * v) :: rest)
  end.

(* merge.go:66: the first mapping of the first profile is taken first *)
Definition map_profile (files : list gfile) (st : mstate) (p : gprofile) : mstate * list (list (nat * Z) * Z) :=
  let st0 := match ms_maps st, gp_maps p with
             | [], m0 :: _ => {| ms_maps := [located files m0]; ms_addrs := ms_addrs st |}
             | _, _ => st
             end in
  map_samples files (gp_maps p) (gp_scale p) st0 (gp_samples p).

Fixpoint map_profiles (files : list gfile) (st : mstate) (ps : list gprofile) : mstate * list (list (nat * Z) * Z) :=
  match ps with
  | [] => (st, [])
  | p :: r => let '(st1, s1) := map_profile files st p in
              let '(st2, s2) := map_profiles files st1 r in (st2, (s1 ++ s2)%list)
  end.

(* ---- symbolizer.go doLocalSymbolize + binutils fileNM.SourceLine, per merged mapping ----
   None = the location stays without function *)
Definition symbolize_mapping (files : list gfile) (m : mmapping) (addrs : list Z) : list (Z * option string) :=
  let unsym := map (fun a => (a, None)) addrs in
  if mm_file m <? 0 then unsym                                   (* obj.Open: no such file *)
  else
    let f := file_at files (mm_file m) in
    match open_elf (gf_elf f) (mm_start m) (mm_limit m) (mm_offset m) with
    | Err _ => unsym
    | Ok em =>
        if negb (String.eqb (mm_buildid m) "") && negb (String.eqb (gf_buildid f) "") &&
           negb (String.eqb (gf_buildid f) (mm_buildid m)) then unsym   (* build ID mismatch *)
        else match addrs with
             | [] => []
             | a0 :: _ =>
                 match compute_base (Some em) true (gf_elf f) a0 with
                 | Err _ => unsym
                 | Ok (base, _) => map (fun a => (a, addr_info (shift_syms base (gf_syms f)) a)) addrs
                 end
             end
    end.

Definition name_of (tab : list (list (Z * option string))) (fr : nat * Z) : string :=
  match find (fun x => fst x =? snd fr) (nth (fst fr) tab []) with
  | Some (_, Some n) => n
  | _ => "?"%string
  end.

(* ---- what a report shows: stacks of names with summed values, sorted by key ---- *)
Fixpoint join_names (l : list string) : string :=
  match l with
  | [] => ""
  | [x] => x
  | x :: r => (x ++ ";" ++ join_names r)%string
  end.
Fixpoint agg_add (k : string) (v : Z) (l : list (string * Z)) : list (string * Z) :=
  match l with
  | [] => [(k, v)]
  | (k', v') :: r => if String.eqb k k' then (k', v' + v) :: r else (k', v') :: agg_add k v r
  end.
Fixpoint agg_insert (x : string * Z) (l : list (string * Z)) : list (string * Z) :=
  match l with
  | [] => [x]
  | y :: r => if str_ltb (fst x) (fst y) then x :: l else y :: agg_insert x r
  end.
Definition aggregate (l : list (string * Z)) : list (string * Z) :=
  let summed := fold_left (fun acc kv => agg_add (fst kv) (snd kv) acc) l [] in
  fold_right agg_insert [] (filter (fun kv => negb (snd kv =? 0)) summed).

Definition named_samples (files : list gfile) (ps : list gprofile) : list (list string * Z) :=
  let '(st, samples) := map_profiles files {| ms_maps := []; ms_addrs := [] |} ps in
  let tab := map (fun ma => symbolize_mapping files (fst ma) (snd ma))
                 (combine (ms_maps st) (ms_addrs st ++ repeat [] (List.length (ms_maps st)))) in
  map (fun s => (map (name_of tab) (fst s), snd s)) samples.

(* -traces / -proto: whole stacks; -top: the leaf *)
Definition report_stacks (ns : list (list string * Z)) : list (string * Z) :=
  aggregate (map (fun s => (join_names (fst s), snd s)) ns).
Definition report_flat (ns : list (list string * Z)) : list (string * Z) :=
  aggregate (map (fun s => (match fst s with n :: _ => n | [] => ""%string end, snd s)) ns).

(* ---- legacy profiles: profile.go:256 massageMappings, legacy_profile.go:191 remapMappingIDs ----
   The memory map entries (executable ones, in file order) become the mappings of the profile. *)
Definition gm_name (m : gmapping) : option Z :=
  if gm_fkind m =? 2 then None else if gm_fkind m =? 3 then Some (-2) else Some (gm_rec m).

(* profile.go:304 adjacent *)
Definition adjacent (m1 m2 : gmapping) : bool :=
  (match gm_name m1, gm_name m2 with Some a, Some b => a =? b | _, _ => true end) &&
  (String.eqb (gm_buildid m1) "" || String.eqb (gm_buildid m2) "" || String.eqb (gm_buildid m1) (gm_buildid m2)) &&
  (gm_limit m1 =? gm_start m2) &&
  ((gm_offset m1 =? 0) || (gm_offset m2 =? 0) ||
   (uadd (gm_offset m1) (usub (gm_limit m1) (gm_start m1)) =? gm_offset m2)).

(* the merged entry: the first part's start and OFFSET, the second part's limit; file and build id
   of the second part when it has them *)
Definition merge_adjacent (lm m : gmapping) : gmapping :=
  let named := match gm_name m with Some _ => true | None => false end in
  {| gm_start := gm_start lm; gm_limit := gm_limit m; gm_offset := gm_offset lm;
     gm_buildid := if String.eqb (gm_buildid m) "" then gm_buildid lm else gm_buildid m;
     gm_rec := if named then gm_rec m else gm_rec lm;
     gm_cands := if named then gm_cands m else gm_cands lm;
     gm_truth := if named then gm_truth m else gm_truth lm;
     gm_bias := if named then gm_bias m else gm_bias lm;
     gm_fkind := if named then gm_fkind m else gm_fkind lm |}.

(* the merge loop: [acc] holds the mappings so far in reverse, its head is the last one *)
Fixpoint massage_merge (acc : list gmapping) (ms : list gmapping) : list gmapping :=
  match ms with
  | [] => rev acc
  | m :: r =>
      match acc with
      | lm :: acc' => if adjacent lm m then massage_merge (merge_adjacent lm m :: acc') r
                      else massage_merge (m :: acc) r
      | [] => massage_merge [m] r
      end
  end.

(* the main-binary heuristic: the first entry with a name that is not a library and does not start
   with '[' is swapped to position 0 *)
Definition main_candidate (m : gmapping) : bool := (gm_fkind m =? 0) || (gm_fkind m =? 3).
Definition swap_to_front (l : list gmapping) (i : nat) : list gmapping :=
  match l with
  | [] => []
  | x0 :: _ => match i with
               | O => l
               | _ => set_nth (set_nth l 0 (nth i l x0)) i x0
               end
  end.
Definition massage_mappings (ms : list gmapping) : list gmapping :=
  let merged := massage_merge [] ms in
  match find_index main_candidate merged 0 with
  | Some i => swap_to_front merged i
  | None => merged
  end.

Definition with_range (m : gmapping) (start offset : Z) : gmapping :=
  {| gm_start := start; gm_limit := gm_limit m; gm_offset := offset; gm_buildid := gm_buildid m; gm_rec := gm_rec m;
     gm_cands := gm_cands m; gm_truth := gm_truth m; gm_bias := gm_bias m; gm_fkind := gm_fkind m |}.

(* remapMappingIDs, before the locations: drop a leading /anon_hugepage entry that touches the next
   one; a main mapping with start - offset = 0x400000 is normalised *)
Definition remap_prepare (ms : list gmapping) : list gmapping :=
  let ms1 := match ms with
             | m0 :: (m1 :: _) as r => if (gm_fkind m0 =? 3) && (gm_limit m0 =? gm_start m1) then r else ms
             | _ => ms
             end in
  match ms1 with
  | m0 :: r => if usub (gm_start m0) (gm_offset m0) =? 4194304 then with_range m0 4194304 0 :: r else ms1
  | [] => []
  end.

Definition fake_mapping : gmapping :=
  {| gm_start := 0; gm_limit := max_u64; gm_offset := 0; gm_buildid := ""; gm_rec := -1; gm_cands := [];
     gm_truth := -1; gm_bias := 0; gm_fkind := 2 |}.

(* one location: the first mapping containing the address; else the first mapping whose missing
   first part [start-offset, start) contains it, which is extended; else the fake mapping (index =
   number of real mappings).  Address 0 stays without mapping (treated like the fake one). *)
Definition remap_location (ms : list gmapping) (a : Z) : list gmapping * nat :=
  if a =? 0 then (ms, List.length ms)
  else match find_index (fun m => (gm_start m <=? a) && (a <? gm_limit m)) ms 0 with
       | Some i => (ms, i)
       | None =>
           match find_index (fun m => negb (gm_offset m =? 0) && (usub (gm_start m) (gm_offset m) <=? a) && (a <? gm_start m)) ms 0 with
           | Some i => let m := nth i ms gmapping0 in (set_nth ms i (with_range m (usub (gm_start m) (gm_offset m)) 0), i)
           | None => (ms, List.length ms)
           end
       end.

(* locations in order of first use; an address is one location *)
Fixpoint remap_frames (ms : list gmapping) (seen : list (Z * nat)) (addrs : list Z) : list gmapping * list (Z * nat) :=
  match addrs with
  | [] => (ms, seen)
  | a :: r =>
      match find (fun x => fst x =? a) seen with
      | Some _ => remap_frames ms seen r
      | None => let '(ms', i) := remap_location ms a in remap_frames ms' ((a, i) :: seen) r
      end
  end.

Definition legacy_profile (p : gprofile) : gprofile :=
  let ms0 := remap_prepare (massage_mappings (gp_maps p)) in
  let addrs := flat_map (fun s => map snd (fst s)) (gp_samples p) in
  let '(ms, seen) := remap_frames ms0 [] addrs in
  let idx := fun a => match find (fun x => fst x =? a) seen with Some (_, i) => i | None => List.length ms end in
  {| gp_scale := gp_scale p;
     gp_maps := (ms ++ [fake_mapping])%list;
     gp_samples := map (fun s => (map (fun fr => (idx (snd fr), snd fr)) (fst s), snd s)) (gp_samples p) |}.
