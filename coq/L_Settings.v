(* Lemmas about M_Settings: saving/deleting one named configuration never alters the others, a
   saved configuration is restored with every saved option intact, failed operations leave the
   file alone.  The model is shown to satisfy the very checkers (S_Config.save_ok / delete_ok)
   that bin/check evaluates on the implementation's output. *)
From Coq Require Import Lia.
From PV Require Import M_Config M_Settings S_Config L_Config.
Open Scope string_scope.
Open Scope Z_scope.

(* ------------------------------------------------------------------ list level *)
Lemma others_app : forall name a b, others name (a ++ b)%list = (others name a ++ others name b)%list.
Proof. intros name a b. unfold others. apply filter_app. Qed.

Lemma replace_first_spec : forall ss name c ss', replace_first ss name c = Some ss' ->
  others name ss' = others name ss /\ lookup_first ss' name = Some c /\
  count_name name ss' = count_name name ss /\ (count_name name ss >= 1)%nat.
Proof.
  induction ss as [|[n c0] ss IH]; intros name c ss' H; [discriminate|].
  cbn [replace_first] in H. destruct (String.eqb n name) eqn:E.
  - inversion H; subst ss'. unfold others, count_name. cbn [filter fst lookup_first]. rewrite E. cbn [negb].
    repeat split; simpl; lia.
  - destruct (replace_first ss name c) as [r'|] eqn:R; [|discriminate]. inversion H; subst ss'.
    destruct (IH _ _ _ R) as [A [B [C D]]].
    unfold others, count_name in *. cbn [filter fst lookup_first]. rewrite E. cbn [negb].
    repeat split; [rewrite A; reflexivity|exact B|exact C|exact D].
Qed.

Lemma replace_first_none : forall ss name c, replace_first ss name c = None ->
  count_name name ss = 0%nat /\ lookup_first ss name = None.
Proof.
  induction ss as [|[n c0] ss IH]; intros name c H; [split; reflexivity|].
  cbn [replace_first] in H. destruct (String.eqb n name) eqn:E; [discriminate|].
  destruct (replace_first ss name c) eqn:R; [discriminate|].
  destruct (IH _ _ R) as [A B]. unfold count_name in *. cbn [filter fst lookup_first]. rewrite E. split; assumption.
Qed.

Lemma lookup_first_app_none : forall a b name, lookup_first a name = None ->
  lookup_first (a ++ b)%list name = lookup_first b name.
Proof.
  induction a as [|[n c] a IH]; intros b name H; [reflexivity|].
  cbn [lookup_first app] in *. destruct (String.eqb n name); [discriminate|]. apply IH; exact H.
Qed.

Lemma count_name_app : forall name a b, count_name name (a ++ b)%list = (count_name name a + count_name name b)%nat.
Proof. intros name a b. unfold count_name. rewrite filter_app, app_length. reflexivity. Qed.

(* setConfig's edit function *)
Lemma set_fn_spec : forall name c ss,
  fst (set_fn name c ss) = 0 /\
  others name (snd (set_fn name c ss)) = others name ss /\
  lookup_first (snd (set_fn name c ss)) name = Some c /\
  count_name name (snd (set_fn name c ss)) = Nat.max 1 (count_name name ss).
Proof.
  intros name c ss. unfold set_fn. destruct (replace_first ss name c) as [ss'|] eqn:R; cbn [fst snd].
  - destruct (replace_first_spec _ _ _ _ R) as [A [B [C D]]]. repeat split; try assumption. lia.
  - destruct (replace_first_none _ _ _ R) as [A B]. split; [reflexivity|]. split.
    + rewrite others_app. unfold others at 2. cbn [filter fst]. rewrite eqb_refl'. cbn [negb]. apply app_nil_r.
    + split.
      * rewrite (lookup_first_app_none _ _ _ B). cbn [lookup_first]. rewrite eqb_refl'. reflexivity.
      * rewrite count_name_app, A. unfold count_name. cbn [filter fst]. rewrite eqb_refl'. reflexivity.
Qed.

Lemma remove_first_spec : forall ss name ss', remove_first ss name = Some ss' ->
  others name ss' = others name ss /\ S (count_name name ss') = count_name name ss.
Proof.
  induction ss as [|[n c0] ss IH]; intros name ss' H; [discriminate|].
  cbn [remove_first] in H. destruct (String.eqb n name) eqn:E.
  - inversion H; subst ss'. unfold others, count_name. cbn [filter fst]. rewrite E. cbn [negb]. split; reflexivity.
  - destruct (remove_first ss name) as [r'|] eqn:R; [|discriminate]. inversion H; subst ss'.
    destruct (IH _ _ R) as [A B]. unfold others, count_name in *. cbn [filter fst]. rewrite E. cbn [negb].
    split; [rewrite A; reflexivity|exact B].
Qed.

Lemma remove_fn_spec : forall name ss,
  (fst (remove_fn name ss) = 0 /\ others name (snd (remove_fn name ss)) = others name ss /\
   S (count_name name (snd (remove_fn name ss))) = count_name name ss)
  \/ (fst (remove_fn name ss) = 4 /\ snd (remove_fn name ss) = ss).
Proof.
  intros name ss. unfold remove_fn. destruct (remove_first ss name) as [ss'|] eqn:R; cbn [fst snd].
  - left. destruct (remove_first_spec _ _ _ R) as [A B]. repeat split; assumption.
  - right. split; reflexivity.
Qed.

(* looking up any other name is unaffected by what happens to [name] *)
Lemma lookup_first_others : forall ss name name', name' <> name ->
  lookup_first (others name ss) name' = lookup_first ss name'.
Proof.
  induction ss as [|[n c] ss IH]; intros name name' N; [reflexivity|].
  unfold others in *. cbn [filter fst]. destruct (String.eqb n name) eqn:E; cbn [negb lookup_first].
  - apply String.eqb_eq in E. subst n.
    destruct (String.eqb name name') eqn:E2; [apply String.eqb_eq in E2; congruence|]. apply IH; exact N.
  - destruct (String.eqb n name'); [reflexivity|]. apply IH; exact N.
Qed.

(* ------------------------------------------------------------------ the file round trip *)
Section ValidStrings.
  Variable pf : string -> option string.
  Variable js : string -> string.
  Variable fs : list field.
  Variable cur : config.
  Hypothesis Hjs : forall s, js s = s.                       (* every string is valid UTF-8 (outside F25) *)
  Hypothesis Hnd : nodup_str (map f_name fs) = true.
  Hypothesis Hst : forallb (fun f => negb (f_saved f && f_transient f)) fs = true.

  (* write then read, on one configuration *)
  Definition reread (c : config) : config := reset_transient fs (stored_cfg js fs c) cur.

  Lemma reread_saved : forall c f, In f fs -> f_saved f = true ->
    norm_val (f_kind f) (reread c (f_name f)) = norm_val (f_kind f) (c (f_name f)).
  Proof.
    intros c f Hin S. unfold reread, reset_transient, is_transient, stored_cfg.
    rewrite (find_field_in fs f Hnd Hin).
    rewrite forallb_forall in Hst. pose proof (Hst f Hin) as T. rewrite S in T. cbn [andb] in T.
    apply negb_true_iff in T. rewrite T, S.
    destruct (f_kind f); cbn [norm_val]; try reflexivity.
    - rewrite Hjs. reflexivity.
    - destruct (String.eqb (c (f_name f)) "-0") eqn:E; cbn iota; [reflexivity|rewrite E; reflexivity].
  Qed.

  Lemma reread_transient : forall c f, In f fs -> f_transient f = true -> reread c (f_name f) = cur (f_name f).
  Proof.
    intros c f Hin T. unfold reread, reset_transient, is_transient.
    rewrite (find_field_in fs f Hnd Hin). rewrite T. reflexivity.
  Qed.

  Lemma saved_eqb_reread : forall c, saved_eqb fs c (reread c) = true.
  Proof.
    intro c. unfold saved_eqb. apply forallb_forall. intros f Hin.
    destruct (f_saved f) eqn:S; [|reflexivity]. cbn [negb orb].
    apply String.eqb_eq. symmetry. apply reread_saved; assumption.
  Qed.

  Lemma saved_eqb_refl : forall c, saved_eqb fs c c = true.
  Proof.
    intro c. unfold saved_eqb. apply forallb_forall. intros f _. rewrite eqb_refl'. apply orb_true_r.
  Qed.

  Lemma saved_eqb_trans : forall a b c, saved_eqb fs a b = true -> saved_eqb fs b c = true -> saved_eqb fs a c = true.
  Proof.
    intros a b c H1 H2. unfold saved_eqb in *. rewrite forallb_forall in *. intros f Hin.
    pose proof (H1 f Hin) as A. pose proof (H2 f Hin) as B.
    destruct (f_saved f); [|reflexivity]. cbn [negb orb] in *.
    apply String.eqb_eq in A. apply String.eqb_eq in B. apply String.eqb_eq. congruence.
  Qed.

  Definition map_snd (g : config -> config) (ss : settings) : settings := map (fun nc => (fst nc, g (snd nc))) ss.

  Lemma others_map_snd : forall g name ss, others name (map_snd g ss) = map_snd g (others name ss).
  Proof.
    intros g name. induction ss as [|[n c] ss IH]; [reflexivity|].
    unfold others, map_snd in *. cbn [map filter fst snd]. destruct (negb (String.eqb n name)); cbn [map fst snd]; rewrite IH; reflexivity.
  Qed.

  Lemma count_map_snd : forall g name ss, count_name name (map_snd g ss) = count_name name ss.
  Proof.
    intros g name. induction ss as [|[n c] ss IH]; [reflexivity|].
    unfold count_name, map_snd in *. cbn [map filter fst snd]. destruct (String.eqb n name); cbn [List.length]; rewrite IH; reflexivity.
  Qed.

  Lemma lookup_map_snd : forall g name ss,
    lookup_first (map_snd g ss) name = match lookup_first ss name with Some c => Some (g c) | None => None end.
  Proof.
    intros g name. induction ss as [|[n c] ss IH]; [reflexivity|].
    unfold map_snd in *. cbn [map lookup_first fst snd]. destruct (String.eqb n name); [reflexivity|apply IH].
  Qed.

  Lemma settings_eqb_reread : forall ss, settings_eqb fs ss (map_snd reread ss) = true.
  Proof.
    induction ss as [|[n c] ss IH]; [reflexivity|].
    unfold map_snd in *. cbn [map settings_eqb fst snd]. rewrite eqb_refl', saved_eqb_reread, IH. reflexivity.
  Qed.

  (* readSettings after writeSettings *)
  Lemma read_write : forall ss st, write_settings js fs ss = Some st ->
    read_settings fs cur st = Some (map_snd reread ss).
  Proof.
    intros ss st W. unfold write_settings in W.
    destruct (forallb (fun nc => json_ok_cfg fs (snd nc)) ss); [|discriminate]. inversion W; subst st.
    unfold read_settings. f_equal. rewrite map_map. unfold map_snd. apply map_ext.
    intros [n c]. cbn [fst snd]. rewrite Hjs. reflexivity.
  Qed.

  (* a successful save: the model satisfies the checker bin/check runs on the implementation *)
  Lemma save_meets_spec_lemma : forall st q st' c before,
    set_config pf js fs cur st q = (0, st') ->
    apply_url_go pf fs cur q = Ok c ->
    read_settings fs cur st = Some before ->
    exists aft, read_settings fs cur st' = Some aft /\ save_ok fs (vget q "config") c before aft = true.
  Proof.
    intros st q st' c before H A R. unfold set_config in H.
    destruct (String.eqb (vget q "config") "") eqn:En; [inversion H|].
    rewrite A in H. unfold edit_settings in H. rewrite R in H.
    set (name := vget q "config") in *.
    destruct (set_fn_spec name c before) as [S0 [S1 [S2 S3]]].
    destruct (set_fn name c before) as [code ss'] eqn:SF. cbn [fst snd] in *. subst code. cbn [Z.eqb] in H.
    destruct (write_settings js fs ss') as [st1|] eqn:W; [|inversion H]. inversion H; subst st'.
    exists (map_snd reread ss'). split; [apply read_write; exact W|].
    unfold save_ok. rewrite others_map_snd, S1, lookup_map_snd, S2, count_map_snd, S3.
    rewrite <- others_map_snd. rewrite others_map_snd. rewrite settings_eqb_reread, saved_eqb_reread, Nat.eqb_refl.
    reflexivity.
  Qed.

  Lemma delete_meets_spec_lemma : forall st name st' before,
    remove_config js fs cur st name = (0, st') ->
    read_settings fs cur st = Some before ->
    exists aft, read_settings fs cur st' = Some aft /\ delete_ok fs name before aft = true.
  Proof.
    intros st name st' before H R. unfold remove_config, edit_settings in H. rewrite R in H.
    destruct (remove_fn_spec name before) as [[S0 [S1 S2]]|[S0 S1]].
    - destruct (remove_fn name before) as [code ss'] eqn:RF. cbn [fst snd] in *. subst code. cbn [Z.eqb] in H.
      destruct (write_settings js fs ss') as [st1|] eqn:W; [|inversion H]. inversion H; subst st'.
      exists (map_snd reread ss'). split; [apply read_write; exact W|].
      unfold delete_ok. rewrite others_map_snd, S1, count_map_snd, S2. rewrite settings_eqb_reread, Nat.eqb_refl. reflexivity.
    - destruct (remove_fn name before) as [code ss'] eqn:RF. cbn [fst snd] in *. subst code. cbn [Z.eqb] in H. inversion H.
  Qed.
End ValidStrings.

(* ------------------------------------------------------------------ failures leave the file alone *)
Lemma edit_failure_keeps_file : forall js fs cur st fn code st',
  edit_settings js fs cur st fn = (code, st') -> code <> 0 -> st' = st.
Proof.
  intros js fs cur st fn code st' H N. unfold edit_settings in H.
  destruct (read_settings fs cur st) as [ss|]; [|inversion H; reflexivity].
  destruct (fn ss) as [c ss']. destruct (c =? 0) eqn:E.
  - destruct (write_settings js fs ss'); inversion H; subst; [contradiction N; reflexivity|reflexivity].
  - inversion H; reflexivity.
Qed.

Lemma failed_op_keeps_file_lemma : forall pf js fs cur st o code st',
  run_sop pf js fs cur st o = (code, st') -> code <> 0 -> st' = st.
Proof.
  intros pf js fs cur st o code st' H N. destruct o as [q|name]; cbn [run_sop] in H.
  - unfold set_config in H. destruct (String.eqb (vget q "config") ""); [inversion H; reflexivity|].
    destruct (apply_url_go pf fs cur q); [|inversion H; reflexivity].
    apply (edit_failure_keeps_file _ _ _ _ _ _ _ H N).
  - apply (edit_failure_keeps_file _ _ _ _ _ _ _ H N).
Qed.

(* F25: when the JSON encoder changes a string, the saved option is NOT restored intact *)
Lemma stored_string_coerced : forall js fs c f,
  nodup_str (map f_name fs) = true -> In f fs -> f_saved f = true -> f_kind f = KStr ->
  stored_cfg js fs c (f_name f) = js (c (f_name f)).
Proof.
  intros js fs c f N Hin S K. unfold stored_cfg. rewrite (find_field_in fs f N Hin). rewrite S, K. reflexivity.
Qed.

(* ------------------------------------------------------------------ failed writes and histories *)
Lemma failed_op_io_keeps_file : forall pf js fs cur st o io code st',
  run_sop_io pf js fs cur st o io = (code, st') -> code <> 0 -> st' = st.
Proof.
  intros pf js fs cur st o io code st' H N. unfold run_sop_io in H.
  destruct (run_sop pf js fs cur st o) as [c1 s1] eqn:R. destruct io.
  - inversion H; subst. apply (failed_op_keeps_file_lemma _ _ _ _ _ _ _ _ R N).
  - destruct (c1 =? 0); inversion H; reflexivity.
Qed.

(* a write that fails is always reported *)
Lemma failed_write_is_reported : forall pf js fs cur st o,
  fst (run_sop_io pf js fs cur st o false) <> 0.
Proof.
  intros pf js fs cur st o. unfold run_sop_io. destruct (run_sop pf js fs cur st o) as [c1 s1].
  destruct (c1 =? 0) eqn:E; cbn [fst]; lia.
Qed.

Lemma run_hist_cons : forall pf js fs cur st ob h,
  run_hist pf js fs cur st (ob :: h) = run_hist pf js fs cur (snd (run_sop_io pf js fs cur st (fst ob) (snd ob))) h.
Proof. reflexivity. Qed.

(* MAIN: whatever requests of a history failed (refused, or their write to disk failed), the
   file at the end is the one the successful requests alone produce: failures leave no trace *)
Lemma failures_leave_no_trace_lemma : forall pf js fs cur h st,
  run_hist pf js fs cur st h = run_hist pf js fs cur st (successes pf js fs cur st h).
Proof.
  intros pf js fs cur. induction h as [|ob r IH]; intro st; [reflexivity|].
  cbn [successes]. rewrite run_hist_cons.
  destruct (run_sop_io pf js fs cur st (fst ob) (snd ob)) as [code st'] eqn:R. cbn [snd].
  destruct (code =? 0) eqn:E.
  - rewrite run_hist_cons, R. cbn [snd]. apply IH.
  - assert (N : code <> 0) by lia. rewrite (failed_op_io_keeps_file _ _ _ _ _ _ _ _ _ R N). apply IH.
Qed.

(* in particular: a failed request followed by more work = the work alone *)
Lemma failed_then_more_lemma : forall pf js fs cur st o io h,
  fst (run_sop_io pf js fs cur st o io) <> 0 ->
  run_hist pf js fs cur st ((o, io) :: h) = run_hist pf js fs cur st h.
Proof.
  intros pf js fs cur st o io h N. rewrite run_hist_cons. cbn [fst snd].
  destruct (run_sop_io pf js fs cur st o io) as [code st'] eqn:R. cbn [fst snd] in *.
  rewrite (failed_op_io_keeps_file _ _ _ _ _ _ _ _ _ R N). reflexivity.
Qed.

(* ------------------------------------------------------------------ read faults *)
Lemma failed_op_f_keeps_file : forall pf js fs cur st o f code st',
  run_sop_f pf js fs cur st o f = (code, st') -> code <> 0 -> st' = st.
Proof.
  intros pf js fs cur st o f code st' H N. destruct f; cbn [run_sop_f] in H.
  - apply (failed_op_io_keeps_file _ _ _ _ _ _ _ _ _ H N).
  - apply (failed_op_io_keeps_file _ _ _ _ _ _ _ _ _ H N).
  - destruct ((fst (run_sop pf js fs cur st o) =? 1) || (fst (run_sop pf js fs cur st o) =? 2)); inversion H; reflexivity.
Qed.

(* a request whose read of the settings file fails never succeeds and never writes *)
Lemma read_fault_is_reported_lemma : forall pf js fs cur st o,
  fst (run_sop_f pf js fs cur st o ReadFault) <> 0 /\ snd (run_sop_f pf js fs cur st o ReadFault) = st.
Proof.
  intros pf js fs cur st o. cbn [run_sop_f].
  destruct ((fst (run_sop pf js fs cur st o) =? 1) || (fst (run_sop pf js fs cur st o) =? 2)) eqn:E; cbn [fst snd].
  - split; [|reflexivity]. apply orb_true_iff in E. destruct E as [E|E]; lia.
  - split; [lia|reflexivity].
Qed.

Lemma run_hist_f_cons : forall pf js fs cur st ob h,
  run_hist_f pf js fs cur st (ob :: h) = run_hist_f pf js fs cur (snd (run_sop_f pf js fs cur st (fst ob) (snd ob))) h.
Proof. reflexivity. Qed.

(* histories with write faults AND read faults: the file at the end is what the successful requests
   alone produce *)
Lemma faults_leave_no_trace_lemma : forall pf js fs cur h st,
  run_hist_f pf js fs cur st h = run_hist_f pf js fs cur st (successes_f pf js fs cur st h).
Proof.
  intros pf js fs cur. induction h as [|ob r IH]; intro st; [reflexivity|].
  cbn [successes_f]. rewrite run_hist_f_cons.
  destruct (run_sop_f pf js fs cur st (fst ob) (snd ob)) as [code st'] eqn:R. cbn [snd].
  destruct (code =? 0) eqn:E.
  - rewrite run_hist_f_cons, R. cbn [snd]. apply IH.
  - assert (N : code <> 0) by lia. rewrite (failed_op_f_keeps_file _ _ _ _ _ _ _ _ _ R N). apply IH.
Qed.
