(* Case runner for C16: decodes harness cases, runs the model of grabSourcesAndBases on the toy
   profile instance with the scripted outcomes and the scripted completion order, and judges the
   implementation's observable with the specification checker of S_Fetch. *)
From PV Require Import M_Profile M_Fetch S_Fetch.
Open Scope string_scope.
Open Scope Z_scope.

(* values are read in the finest time unit (ns): a source / an observed profile whose sample type is in
   unit code u (field 5 of a source, field 4 of an observed profile; absent = 0) has its values
   multiplied by unit_factor u.  The toy merge then adds physical weights, whatever the units. *)
Definition tprof_of (t : term) : tprof :=
  {| tp_type := gs (gn t 1); tp_comments := gss (gn t 3);
     tp_samples := map (fun e => (gs (gn e 0), gz (gn e 1) * unit_factor (gz (gn t 5)))) (gl (gn t 2)) |}.

Definition of_tprof (p : tprof) : term :=
  TL [TS (tp_type p); TL (map (fun kv => TL [TS (fst kv); TZ (snd kv)]) (tp_samples p));
      TZ (if String.eqb (tp_type p) "" then 0 else 1); of_ss (tp_comments p)].

Definition of_otprof (o : option tprof) : term := match o with Some p => of_tprof p | None => TL [] end.
Definition otprof_of (t : term) : option tprof :=
  match gl t with
  | [] => None
  | _ => Some {| tp_type := gs (gn t 0); tp_comments := gss (gn t 3);
                 tp_samples := map (fun e => (gs (gn e 0), gz (gn e 1) * unit_factor (gz (gn t 4)))) (gl (gn t 1)) |}
  end.

(* compact input encoding: TL [TZ kind] = the "plain" source of its position (harness c16Plain):
   own key f<i> (sources) / g<i> (bases) with value i+1, key "shared" with value 2^(i mod 62),
   comment c<grp>:<i> *)
Definition plain_prof (grp : Z) (idx : nat) : tprof :=
  let i := Z.of_nat idx in
  {| tp_type := "samples";
     tp_comments := ["c" ++ string_of_Z grp ++ ":" ++ string_of_Z i];
     tp_samples := [((if grp =? 0 then "f" else "g") ++ string_of_Z i, i + 1); ("shared", 2 ^ (i mod 62))] |}.

(* kinds 11.. go through the REAL internal/transport object of the run (harness stream "transport"):
   kind |-> (request seen by the transport, what the server answers once connected) *)
Definition tr_req_of_kind (kind : Z) : option tr_req :=
  if (kind =? 11) || (kind =? 12) then Some {| rq_scheme := "http"; rq_trusted := false |}
  else if (kind =? 13) || (kind =? 16) then Some {| rq_scheme := "https+insecure"; rq_trusted := false |}
  else if kind =? 14 then Some {| rq_scheme := "https"; rq_trusted := false |}
  else if kind =? 15 then Some {| rq_scheme := "https"; rq_trusted := true |}
  else if kind =? 17 then Some {| rq_scheme := "https+insecure"; rq_trusted := true |}
  else None.

(* round 6, timed cases: a source term with 11 fields carries [7] the URL's seconds= parameter
   (10^9+1 = none, 10^9+2 = not a number), [8] the server's delay in ms, [9] -seconds, [10] -timeout *)
Definition is_timed (t : term) : bool := (11 <=? List.length (gl t))%nat.
Definition allowance_of (t : term) : Z :=
  let u := gz (gn t 7) in
  client_allowance_ms (gz (gn t 9)) (gz (gn t 10)) (if 1000000000 <? u then None else Some u).

Fixpoint allow_lines (grp : Z) (idx : nat) (l : list term) : list string :=
  match l with
  | [] => []
  | t :: r =>
      (if is_timed t && (11 <=? gz (gn t 0))
       then ["allow " ++ string_of_Z grp ++ ":" ++ string_of_Z (Z.of_nat idx) ++ "=" ++ string_of_Z ((allowance_of t + 250) / 500)]
       else []) ++ allow_lines grp (S idx) r
  end.

(* outcome kinds of harness/cmd/c16.go -> answers of the fetcher / of fetch() / of CheckValid.
   [conn e] = the transport connected the request of source e = grp*10^6+idx (only asked for kinds 11..) *)
Definition source_of (conn : Z -> bool) (grp : Z) (idx : nat) (t : term) : source tprof :=
  let kind := gz (gn t 0) in
  let p := match gl t with [_] => plain_prof grp idx | _ => tprof_of t end in
  let valid := fun _ : tprof => if kind =? 4 then Some "invalid" else None in
  let fa := if kind =? 0 then FaProfile p ""
            else if kind =? 1 then FaProfile p "http://c16remote/x"
            else if kind =? 2 then FaProfile p "http://pproftest.local/x"
            else if kind =? 3 then FaErr "fetcher"
            else if kind =? 4 then FaProfile p ""
            else FaDecline in
  let ft := if kind =? 5 then FtProfile p ""
            else if kind =? 6 then FtErr "missing"
            else if kind =? 7 then FtErr "garbage"
            else if kind =? 8 then FtErr "malformed"
            else if kind =? 9 then FtProfile p "http://c16host/x"
            else if kind <=? 10 then FtErr "http"
            else if negb (conn (grp * 1000000 + Z.of_nat idx)) then FtErr "tls"
            else if is_timed t && (allowance_of t <=? gz (gn t 8)) then FtErr "timeout"
            else if (kind =? 12) || (kind =? 17) then FtErr "http"
            else if kind =? 16 then FtErr "garbage"
            else FtProfile p "http://real/x" in
  {| s_addr := string_of_Z (Z.of_nat idx); s_res := grab_profile tprof valid fa ft |}.

Fixpoint sources_of (conn : Z -> bool) (grp : Z) (idx : nat) (l : list term) : list (source tprof) :=
  match l with
  | [] => []
  | t :: r => source_of conn grp idx t :: sources_of conn grp (S idx) r
  end.

(* the requests that reach the run's transport, in completion order *)
Definition tr_requests (i : term) : list (Z * tr_req) :=
  flat_map (fun e =>
    let g := gz e / 1000000 in
    match tr_req_of_kind (gz (gn (nth (Z.to_nat (gz e mod 1000000)) (gl (gn i (Z.to_nat g))) (TL [])) 0)) with
    | Some r => [(gz e, r)]
    | None => []
    end) (gl (gn i 2)).

Definition lookup_conn (l : list (Z * bool)) (e : Z) : bool :=
  match find (fun wb => fst wb =? e) l with Some wb => snd wb | None => false end.

(* MODEL: the transport state is threaded through the requests in the scripted completion order *)
Definition conn_model (i : term) : Z -> bool := lookup_conn (tr_run TrFresh (tr_requests i)).
(* SPECIFICATION: every source gets what fetching it ALONE (fresh transport) gives *)
Definition conn_alone (i : term) : Z -> bool :=
  lookup_conn (map (fun wr => (fst wr, snd (tr_round_trip TrFresh (snd wr)))) (tr_requests i)).

(* completion order: one number per finished fetch, group * 10^6 + index *)
Definition sched_of (grp : Z) (t : term) : list nat :=
  flat_map (fun e => if gz e / 1000000 =? grp then [Z.to_nat (gz e mod 1000000)] else []) (gl t).

Definition status_str (s : status) : string :=
  match s with
  | StOk => "ok" | StErrSrc => "err-src" | StErrBase => "err-base"
  | StNoSrc => "no-src" | StNoBase => "no-base" | StPanic => "panic"
  end.

Definition status_of (s : string) : status :=
  if String.eqb s "ok" then StOk else if String.eqb s "err-src" then StErrSrc
  else if String.eqb s "err-base" then StErrBase else if String.eqb s "no-src" then StNoSrc
  else if String.eqb s "no-base" then StNoBase else StPanic.

Definition is_fetch_op (i : term) : bool := String.eqb (gs (gn i 3)) "fetch".

(* ---- end-to-end op "pprof": slots 0/1 are TABLES of distinct names; slot 4 = [source ids named on
   the command line; base ids; output format; flags (1 = -diff_base, 2 = an extra empty base value)] *)
Definition is_pprof_op (i : term) : bool := String.eqb (gs (gn i 3)) "pprof".
Definition e2e_format (i : term) : Z := gz (gn (gn i 4) 2).

Definition dedup_strs (l : list string) : list string :=
  fold_left (fun acc c => if existsb (String.eqb c) acc then acc else acc ++ [c])%list l [].

(* what the output format lets one read back of the profile reported on: a re-read proto shows the
   comments as combineHeaders leaves them (de-duplicated, which the toy merge does not model); the
   legend of -top lists them the same way *)
Definition e2e_proj (fmt : Z) (p : tprof) : tprof :=
  {| tp_type := tp_type p;
     tp_comments := dedup_strs (tp_comments p);
     tp_samples := tp_samples p |}.

Definition dummy_source : source tprof := {| s_addr := "?"; s_res := GErr "?" |}.

Definition positions (ids : list Z) (n : nat) : list nat :=
  map fst (filter (fun pz => snd pz =? Z.of_nat n) (List.combine (seq 0 (List.length ids)) ids)).

(* MODEL of the glue: cli_source_lists on the ids, then table lookup; a fetch of name n completing =
   every position naming n completing *)
Definition e2e_lists (conn : Z -> bool) (i : term)
  : option (list (source tprof) * list (source tprof) * list nat * list nat) :=
  let ts := sources_of conn 0 0 (gl (gn i 0)) in
  let tb := sources_of conn 1 0 (gl (gn i 1)) in
  let x := gn i 4 in
  let flags := gz (gn x 3) in
  let bvals := match gzs (gn x 1) with
               | [] => if flags / 2 mod 2 =? 1 then [-1] else []
               | b0 :: r => if flags / 2 mod 2 =? 1 then b0 :: -1 :: r else b0 :: r
               end in
  let cli := if flags mod 2 =? 1
             then cli_source_lists Z (fun z => z <? 0) false (gzs (gn x 0)) [] bvals
             else cli_source_lists Z (fun z => z <? 0) false (gzs (gn x 0)) bvals [] in
  match cli with
  | CliErr => None
  | CliOk s b _ =>
      Some (map (fun id => nth (Z.to_nat id) ts dummy_source) s,
            map (fun id => nth (Z.to_nat id) tb dummy_source) b,
            flat_map (positions s) (sched_of 0 (gn i 2)),
            flat_map (positions b) (sched_of 1 (gn i 2)))
  end.

(* SPECIFICATION's reading of the command line, without the model's parser: the sources are the
   positional arguments as written, the bases the non-empty -base / -diff_base values as written *)
Definition e2e_lists_spec (conn : Z -> bool) (i : term) : list (source tprof) * list (source tprof) :=
  let ts := sources_of conn 0 0 (gl (gn i 0)) in
  let tb := sources_of conn 1 0 (gl (gn i 1)) in
  (map (fun id => nth (Z.to_nat id) ts dummy_source) (gzs (gn (gn i 4) 0)),
   map (fun id => nth (Z.to_nat id) tb dummy_source) (gzs (gn (gn i 4) 1))).

Definition fetch_obs (o : gsb_out tprof) : term :=
    let '(st, p) := match toy_fetch_profiles o with
                    | FoStatus st => (status_str st, None)
                    | FoDiffErr => ("err-diff", None)
                    | FoOk p => ("ok", Some p)
                    end in
    TL [TS st; of_otprof p; TL []; TZ 0; of_ss (g_err_src o); of_ss (g_err_base o);
        (if String.eqb st "ok" then of_ss (g_tail o) else TL []); TL []].

Definition run_C16 (i : term) : term :=
  if is_pprof_op i then
    match e2e_lists (conn_model i) i with
    | None => TL [TS "cli-err"]
    | Some (srcs, bases, ss, sb) =>
        fetch_obs (grab_sources_and_bases tprof toy_combine chunk_size srcs bases ss sb)
    end
  else
  let srcs := sources_of (conn_model i) 0 0 (gl (gn i 0)) in
  let bases := sources_of (conn_model i) 1 0 (gl (gn i 1)) in
  let o := grab_sources_and_bases tprof toy_combine chunk_size srcs bases (sched_of 0 (gn i 2)) (sched_of 1 (gn i 2)) in
  if is_fetch_op i then
    let '(st, p) := match toy_fetch_profiles o with
                    | FoStatus st => (status_str st, None)
                    | FoDiffErr => ("err-diff", None)
                    | FoOk p => ("ok", Some p)
                    end in
    TL [TS st; of_otprof p; TL []; TZ 0; of_ss (g_err_src o); of_ss (g_err_base o);
        (if String.eqb st "ok" then of_ss (g_tail o) else TL []); TL []]
  else
  TL [TS (status_str (g_status o)); of_otprof (g_src o); of_otprof (g_base o); of_bool (g_save o);
      of_ss (g_err_src o); of_ss (g_err_base o); of_ss (g_tail o);
      of_ss (allow_lines 0 0 (gl (gn i 0)) ++ allow_lines 1 0 (gl (gn i 1)))].

(* model vs implementation: status, save flag, error lines, tail messages and repeated-fetch list
   exactly; the two profiles up to toy_eqv (sample type, contributor order, weight per key) -- the
   ORDER of samples inside the merged profile is not compared (it depends on the chunk size when a
   key's partial sum cancels to zero, and no report shows it).  When combineProfiles fails (status
   err-src / err-base: outside the C16 statement) only the status is compared: how many error lines
   were printed before the early exit depends on the chunk the failure happens in. *)
Definition eqv_C16 (i m o : term) : bool :=
  match m, o with
  | TL [TS st; ps; pb; sv; es; eb; tl; mu], TL [TS st'; ps'; pb'; sv'; es'; eb'; tl'; mu'] =>
      String.eqb st st' &&
      (if String.eqb st "err-src" || String.eqb st "err-base" || String.eqb st "err-diff" then true
       else let pj := if is_pprof_op i then option_map (e2e_proj (e2e_format i)) else (fun x => x) in
            toy_opt_eqvb (pj (otprof_of ps)) (pj (otprof_of ps')) && toy_opt_eqvb (otprof_of pb) (otprof_of pb')
            && term_eqb sv sv' && term_eqb es es' && term_eqb eb eb' && term_eqb tl tl' && term_eqb mu mu')
  | _, _ => term_eqb m o
  end.

Definition spec_C16 (i o : term) : bool :=
  if is_pprof_op i then
    (* end to end: the lists named on the command line (every mention), each source judged alone, the
       profile read back from the output; all fetches of the run were in flight together and each
       named source was fetched once per mention (last slot empty) *)
    match e2e_lists_spec (conn_alone i) i, o with
    | (srcs, bases), TL [TS st; ps; _; _; es; eb; _; mu] =>
        spec_fetch_check_gen (e2e_proj (e2e_format i)) srcs bases (String.eqb st "ok") (status_of st) (otprof_of ps) (gss es) (gss eb)
        && is_nil (gl mu)
    | _, _ => false
    end
  else
  let srcs := sources_of (conn_alone i) 0 0 (gl (gn i 0)) in
  let bases := sources_of (conn_alone i) 1 0 (gl (gn i 1)) in
  match o with
  | TL [TS st; ps; pb; _; es; eb; _; _] =>
      if is_fetch_op i
      then spec_fetch_check srcs bases (String.eqb st "ok") (status_of st) (otprof_of ps) (gss es) (gss eb)
      else
      (String.eqb st "ok" || String.eqb st "err-src" || String.eqb st "err-base" || String.eqb st "no-src" || String.eqb st "no-base")
      && spec_check srcs bases (status_of st) (otprof_of ps) (otprof_of pb) (gss es) (gss eb)
  | _ => false   (* panic or malformed observable *)
  end.

(* header of an observed merged profile (unit code, default sample type) against the fetched sources:
   the finest unit among them, the first non-empty default among them (command-line order) *)
Definition fetched_hdrs (srcs : list (source tprof)) (terms : list term) : list (Z * string) :=
  flat_map (fun st => match s_res (fst st) with
                      | GOk _ _ => [(gz (gn (snd st) 5), gs (gn (snd st) 6))]
                      | GErr _ => []
                      end) (List.combine srcs terms).

Definition hdr_matches (hs : list (Z * string)) (obs : term) : bool :=
  match gl obs with
  | [] => true
  | _ => (gz (gn obs 4) =? common_unit (map fst hs)) && String.eqb (gs (gn obs 5)) (first_nonempty (map snd hs))
  end.

Definition hdr_C16 (i o : term) : bool :=
  if is_pprof_op i then true else
  (* round 6: the time the http.Client allowed each timed request is the modelled allowance *)
  (if existsb is_timed (gl (gn i 0))
   then match o with
        | TL [_; _; _; _; _; _; _; mu] => term_eqb mu (of_ss (allow_lines 0 0 (gl (gn i 0)) ++ allow_lines 1 0 (gl (gn i 1))))
        | _ => false
        end
   else true) &&
  let hs := fetched_hdrs (sources_of (conn_alone i) 0 0 (gl (gn i 0))) (gl (gn i 0)) in
  let hb := fetched_hdrs (sources_of (conn_alone i) 1 0 (gl (gn i 1))) (gl (gn i 1)) in
  match o with
  | TL [TS st; ps; pb; _; _; _; _; _] =>
      if negb (String.eqb st "ok") then true
      else if is_fetch_op i then hdr_matches (hs ++ hb) ps
      else hdr_matches hs ps && hdr_matches hb pb
  | _ => true
  end.

Definition cls_C16 (i : term) : list Z := [].

Definition eqv_C16h (i m o : term) : bool := eqv_C16 i m o && hdr_C16 i o.
Definition spec_C16h (i o : term) : bool := spec_C16 i o && hdr_C16 i o.

Definition judge_C16 := judge_all run_C16 eqv_C16h spec_C16h cls_C16 0%Z.
