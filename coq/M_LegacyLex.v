(* Lexical layer of the legacy-profile model (profile/legacy_profile.go): byte classes, the
   bufio.Scanner line splitter, strconv number parsing, and one hand-written recogniser per regular
   expression of legacy_profile.go.  Every recogniser computes the leftmost-first (Go regexp)
   match of its expression; where the expression needs back-tracking that the recogniser does not
   implement, it answers [Unk] (outside the model's domain; such cases are skipped and counted).
   No proofs here. *)
From PV Require Export Base.Term Base.Str M_Profile.
Open Scope Z_scope.

(* ---------- outcomes: Go (value, nil) / errUnrecognized / any other error / outside the model ---------- *)
Inductive res (A : Type) := Ok (a : A) | Unrec | Err | Unk.
Arguments Ok {A} a. Arguments Unrec {A}. Arguments Err {A}. Arguments Unk {A}.

Definition rbind {A B} (r : res A) (f : A -> res B) : res B :=
  match r with Ok a => f a | Unrec => Unrec | Err => Err | Unk => Unk end.
Notation "'do' x <- r ; k" := (rbind r (fun x => k)) (at level 200, x pattern, r at level 100, k at level 200).

Definition obind {A B} (r : option A) (f : A -> option B) : option B :=
  match r with Some a => f a | None => None end.
Notation "'dO' x <- r ; k" := (obind r (fun x => k)) (at level 200, x pattern, r at level 100, k at level 200).

(* ---------- byte classes ---------- *)
Definition code (a : ascii) : N := N_of_ascii a.
Definition between (lo hi : N) (a : ascii) : bool := (N.leb lo (code a) && N.leb (code a) hi)%bool.
Definition is_digit (a : ascii) : bool := between 48 57 a.
Definition is_lhex (a : ascii) : bool := is_digit a || between 97 102 a.          (* [0-9a-f] *)
Definition is_xdigit (a : ascii) : bool := is_lhex a || between 65 70 a.          (* [[:xdigit:]] *)
Definition is_odigit (a : ascii) : bool := between 48 55 a.
(* unicode.IsSpace on ASCII (strings.TrimSpace, strings.Fields): \t \n \v \f \r and space.
   Bytes >= 0x80 are outside the model (generators are ASCII). *)
Definition is_space (a : ascii) : bool := between 9 13 a || N.eqb (code a) 32.
(* regexp \s = [\t\n\f\r ] (no \v) *)
Definition is_res (a : ascii) : bool := is_space a && negb (N.eqb (code a) 11).
Definition is_nonres (a : ascii) : bool := negb (is_res a).
Definition is_sp (a : ascii) : bool := N.eqb (code a) 32.                         (* " " *)
Definition is_perm (a : ascii) : bool :=                                          (* [-rwxp] *)
  existsb (N.eqb (code a)) [45; 114; 119; 120; 112]%N.
Definition is_heapname (a : ascii) : bool := is_digit a || between 97 122 a || N.eqb (code a) 95.  (* [_a-z0-9] *)
Definition is_addrch (a : ascii) : bool := is_lhex a || is_sp a || N.eqb (code a) 120.           (* [ x0-9a-f] *)
Definition is_bracket (a : ascii) : bool := N.eqb (code a) 91 || N.eqb (code a) 93.
Definition is_nonbracket (a : ascii) : bool := negb (is_bracket a).
Definition is_ascii7 (a : ascii) : bool := N.ltb (code a) 128.

Fixpoint str_all (p : ascii -> bool) (s : string) : bool :=
  match s with EmptyString => true | String a r => p a && str_all p r end.
Definition nonempty (s : string) : bool := match s with EmptyString => false | _ => true end.

Fixpoint span (p : ascii -> bool) (s : string) : string * string :=
  match s with
  | String a r => if p a then let '(x, y) := span p r in (String a x, y) else (EmptyString, s)
  | EmptyString => (EmptyString, EmptyString)
  end.

Fixpoint strip_prefix (p s : string) : option string :=
  match p, s with
  | EmptyString, _ => Some s
  | String a p', String b s' => if Ascii.eqb a b then strip_prefix p' s' else None
  | _, EmptyString => None
  end.

(* leftmost search of an at-position matcher: the semantics of an unanchored regexp *)
Fixpoint search {A} (m : string -> option A) (s : string) : option A :=
  match m s with
  | Some r => Some r
  | None => match s with EmptyString => None | String _ r => search m r end
  end.

Definition contains (sub s : string) : bool :=
  match search (fun t => if has_prefix sub t then Some tt else None) s with Some _ => true | None => false end.

Fixpoint ltrim (s : string) : string :=
  match s with String a r => if is_space a then ltrim r else s | EmptyString => EmptyString end.
Fixpoint rtrim (s : string) : string :=
  match s with
  | EmptyString => EmptyString
  | String a r => let r' := rtrim r in
                  if is_space a && negb (nonempty r') then EmptyString else String a r'
  end.
Definition trim_space (s : string) : string := rtrim (ltrim s).

(* isSpaceOrComment: after TrimSpace the line is empty or starts with '#' (only the first
   non-space byte matters) *)
Definition is_space_or_comment (line : string) : bool :=
  match ltrim line with EmptyString => true | String a _ => N.eqb (code a) 35 end.

(* isMemoryMapSentinel *)
Definition is_sentinel (line : string) : bool :=
  contains "--- Memory map: ---" line || contains "MAPPED_LIBRARIES:" line.

(* ---------- bufio.Scanner with ScanLines: split at \n, drop one trailing \r, a final line
   without \n is a token when non-empty.  (The 64 KiB token limit is not modelled.) ---------- *)
Definition drop_cr (s : string) : string := trim_suffix (String (ascii_of_N 13) "") s.
Fixpoint split_lines_acc (s : string) (cur : string) : list string :=
  match s with
  | EmptyString => match cur with EmptyString => [] | _ => [drop_cr (rev_string cur)] end
  | String a r => if N.eqb (code a) 10 then drop_cr (rev_string cur) :: split_lines_acc r EmptyString
                  else split_lines_acc r (String a cur)
  end.
Definition split_lines (s : string) : list string := split_lines_acc s EmptyString.

(* ---------- numbers ---------- *)
Definition digit_val (a : ascii) : Z :=
  let c := Z.of_N (code a) in
  if is_digit a then c - 48 else if between 97 102 a then c - 87 else if between 65 70 a then c - 55 else 0.
Fixpoint val_acc (base : Z) (s : string) (acc : Z) : Z :=
  match s with EmptyString => acc | String a r => val_acc base r (acc * base + digit_val a) end.
Definition dec_val (s : string) : Z := val_acc 10 s 0.
Definition hex_val (s : string) : Z := val_acc 16 s 0.
Definition oct_val (s : string) : Z := val_acc 8 s 0.
Definition bin_val (s : string) : Z := val_acc 2 s 0.

Definition split_sign (s : string) : bool * string :=
  match s with
  | String a r => if N.eqb (code a) 45 then (true, r) else if N.eqb (code a) 43 then (false, r) else (false, s)
  | EmptyString => (false, s)
  end.
Definition signed_in_range (neg : bool) (v : Z) : option Z :=
  let v := if neg then - v else v in if in_i64 v then Some v else None.

(* strconv.ParseInt(s, 10, 64) *)
Definition parse_int10 (s : string) : option Z :=
  let '(neg, d) := split_sign s in
  if nonempty d && str_all is_digit d then signed_in_range neg (dec_val d) else None.

(* strconv.ParseInt(s, 0, 64); [Unk] for the underscore forms base 0 also accepts *)
Definition is_bit (a : ascii) : bool := between 48 49 a.
Definition lower1 (a : ascii) : N := code (lower_ascii a).
Definition parse_int0 (s : string) : res Z :=
  let '(neg, d) := split_sign s in
  let fin (ok : bool) (v : Z) : res Z :=
    if ok then match signed_in_range neg v with Some z => Ok z | None => Err end else Err in
  if contains_char "_" d then Unk else
  match d with
  | String z (String b r) =>
      if N.eqb (code z) 48 then
        if N.eqb (lower1 b) 120 then fin (nonempty r && str_all is_xdigit r) (hex_val r)
        else if N.eqb (lower1 b) 98 then fin (nonempty r && str_all is_bit r) (bin_val r)
        else if N.eqb (lower1 b) 111 then fin (nonempty r && str_all is_odigit r) (oct_val r)
        else fin (str_all is_odigit d) (oct_val d)
      else fin (str_all is_digit d) (dec_val d)
  | _ => fin (nonempty d && str_all is_digit d) (dec_val d)
  end.

(* strconv.ParseUint("0x" ++ h, 0, 64) for h in [0-9a-f]+ ; strconv.ParseUint(h, 16, 64) for h in [[:xdigit:]]+ *)
Definition parse_hex_u64 (h : string) : option Z :=
  if nonempty h && str_all is_xdigit h then
    let v := hex_val h in if in_u64 v then Some v else None
  else None.

(* ---------- hexNumberRE.FindAllString: all non-overlapping leftmost 0x[0-9a-f]+ ; the digit
   strings (without 0x) are returned ---------- *)
Inductive hexst := HIdle | HZero | HX | HIn (acc : string).
Fixpoint hexscan (st : hexst) (s : string) : list string :=
  match s with
  | EmptyString => match st with HIn acc => [rev_string acc] | _ => [] end
  | String c r =>
      let idle := if N.eqb (code c) 48 then HZero else HIdle in
      match st with
      | HIdle => hexscan idle r
      | HZero => if N.eqb (code c) 120 then hexscan HX r else hexscan idle r
      | HX => if is_lhex c then hexscan (HIn (String c EmptyString)) r else hexscan idle r
      | HIn acc => if is_lhex c then hexscan (HIn (String c acc)) r else rev_string acc :: hexscan idle r
      end
  end.
Definition hex_numbers (s : string) : list string := hexscan HIdle s.

(* parseHexAddresses: [None] = the error "failed to parse as hex 64-bit number" *)
Fixpoint parse_all_hex (l : list string) : option (list Z) :=
  match l with
  | [] => Some []
  | h :: r => dO v <- parse_hex_u64 h; dO vs <- parse_all_hex r; Some (v :: vs)
  end.
Definition parse_hex_addresses (s : string) : option (list Z) := parse_all_hex (hex_numbers s).

(* ---------- small matcher pieces ---------- *)
Definition spaces (s : string) : string := snd (span is_sp s).                   (* " *" *)
Definition take1 (p : ascii -> bool) (s : string) : option (string * string) :=  (* "p+" greedy *)
  let '(x, y) := span p s in if nonempty x then Some (x, y) else None.
Definition lit (p : string) (s : string) : option string := strip_prefix p s.

(* countStartRE  \A(\S+) profile: total \d+\z *)
Definition count_start_re (line : string) : option string :=
  dO (t, r) <- take1 is_nonres line;
  dO d <- lit " profile: total " r;
  if nonempty d && str_all is_digit d then Some t else None.

(* countRE  \A(\d+) @(( 0x[0-9a-f]+)+)\z : the count and the hex digit strings *)
Fixpoint count_tail (fuel : nat) (s : string) : option (list string) :=
  match fuel with
  | O => None
  | S f =>
      dO r <- lit " 0x" s;
      dO (h, r') <- take1 is_lhex r;
      match r' with
      | EmptyString => Some [h]
      | _ => dO hs <- count_tail f r'; Some (h :: hs)
      end
  end.
Definition count_re (line : string) : option (string * list string) :=
  dO (d, r) <- take1 is_digit line;
  dO g <- lit " @" r;
  dO hs <- count_tail (String.length g) g;
  Some (d, hs).

(* "heap profile: *(\d+): *(\d+) *\[ *(\d+): *(\d+) *\]" at a position; rest after "]" *)
Definition heap_counts_at (s : string) : option (string * string * string * string * string) :=
  dO r <- lit "heap profile:" s;
  dO (h1, r) <- take1 is_digit (spaces r);
  dO r <- lit ":" r;
  dO (h2, r) <- take1 is_digit (spaces r);
  dO r <- lit "[" (spaces r);
  dO (h3, r) <- take1 is_digit (spaces r);
  dO r <- lit ":" r;
  dO (h4, r) <- take1 is_digit (spaces r);
  dO r <- lit "]" (spaces r);
  Some (h1, h2, h3, h4, r).

(* heapHeaderRE: the counts, then spaces, @, spaces, heap[_a-z0-9]* , optional /, digits (possibly none) *)
Definition heap_header_at (s : string) : option (string * string * string * string * string * string) :=
  dO (h1, h2, h3, h4, r) <- heap_counts_at s;
  dO r <- lit "@" (spaces r);
  dO r <- lit "heap" (spaces r);
  let '(nm, r) := span is_heapname r in
  let r := match lit "/" r with Some r' => r' | None => r end in
  let '(h6, _) := span is_digit r in
  Some (h1, h2, h3, h4, ("heap" ++ nm)%string, h6).
Definition heap_header_re (line : string) := search heap_header_at line.

(* growthHeaderRE / fragmentationHeaderRE  ...\] @ growthz?   (only whether it matches) *)
Definition heap_other_at (word : string) (s : string) : option unit :=
  dO (_, _, _, _, r) <- heap_counts_at s;
  dO _ <- lit (" @ " ++ word) r; Some tt.
Definition heap_other_re (word line : string) : bool :=
  match search (heap_other_at word) line with Some _ => true | None => false end.

(* heapSampleRE: signed count, colon, signed size, [ count : size ] @ and the longest run of [ x0-9a-f] *)
Definition signed_num (s : string) : option (string * string) :=
  match lit "-" s with
  | Some r => dO (d, r') <- take1 is_digit r; Some (("-" ++ d)%string, r')
  | None => take1 is_digit s
  end.
Definition heap_sample_at (s : string) : option (string * string * string * string * string) :=
  dO (g1, r) <- signed_num s;
  dO r <- lit ":" r;
  dO (g2, r) <- signed_num (spaces r);
  dO r <- lit "[" (spaces r);
  dO (g3, r) <- take1 is_digit (spaces r);
  dO r <- lit ":" r;
  dO (g4, r) <- take1 is_digit (spaces r);
  dO r <- lit "] @" (spaces r);
  Some (g1, g2, g3, g4, fst (span is_addrch r)).
Definition heap_sample_re (line : string) := search heap_sample_at line.

(* contentionSampleRE: digits, spaces, digits, space, @, longest run of [ x0-9a-f]
   at a position: (A) the whole digit run, spaces, a second digit run followed by " @";
   otherwise (B) a run of >= 2 digits directly followed by " @" is split before its last digit *)
Fixpoint split_last (s : string) : string * string :=
  match s with
  | EmptyString => (EmptyString, EmptyString)
  | String a EmptyString => (EmptyString, s)
  | String a r => let '(x, y) := split_last r in (String a x, y)
  end.
Definition contention_sample_at (s : string) : option (string * string * string) :=
  dO (d1, r) <- take1 is_digit s;
  let a := dO (d2, r2) <- take1 is_digit (spaces r); dO r3 <- lit " @" r2; Some (d1, d2, fst (span is_addrch r3)) in
  match a with
  | Some x => Some x
  | None =>
      dO r3 <- lit " @" r;
      let '(x, y) := split_last d1 in
      if nonempty x then Some (x, y, fst (span is_addrch r3)) else None
  end.
Definition contention_sample_re (line : string) := search contention_sample_at line.

(* threadzStartRE  --- threadz \d+ --- *)
Definition threadz_start_at (s : string) : option unit :=
  dO r <- lit "--- threadz " s; dO (_, r) <- take1 is_digit r; dO _ <- lit " ---" r; Some tt.
Definition threadz_start_re (line : string) : bool :=
  match search threadz_start_at line with Some _ => true | None => false end.

(* threadStartRE: --- Thread XDIGITS (name: ANYTHING/DIGITS) stack: --- *)
Definition thread_tail_at (s : string) : option unit :=
  dO r <- lit "/" s; dO (_, r) <- take1 is_digit r; dO _ <- lit ") stack: ---" r; Some tt.
Definition thread_start_at (s : string) : option unit :=
  dO r <- lit "--- Thread " s; dO (_, r) <- take1 is_xdigit r; dO r <- lit " (name: " r;
  search thread_tail_at r.
Definition thread_start_re (line : string) : bool :=
  match search thread_start_at line with Some _ => true | None => false end.

(* logInfoRE  ^[^\[\]]+:[0-9]+]\s  -- removeLoggingInfo *)
Fixpoint last_colon (s : string) : option (string * string) :=   (* split at the last ':' *)
  match s with
  | EmptyString => None
  | String a r =>
      match last_colon r with
      | Some (x, y) => Some (String a x, y)
      | None => if N.eqb (code a) 58 then Some (EmptyString, r) else None
      end
  end.
Definition remove_logging_info (line : string) : string :=
  let '(pre, rest) := span is_nonbracket line in
  match rest with
  | String b (String w r) =>
      if N.eqb (code b) 93 && is_res w then
        match last_colon pre with
        | Some (x, d) => if nonempty x && nonempty d && str_all is_digit d then r else line
        | None => line
        end
      else line
  | _ => line
  end.

(* ---------- memory-map lines ---------- *)
Definition res_spaces (s : string) : string := snd (span is_res s).              (* \s* *)
Definition res_spaces1 (s : string) : option string :=                           (* \s+ *)
  let '(x, y) := span is_res s in if nonempty x then Some y else None.

(* (?:0x)?([[:xdigit:]]+) : 0x is taken only when a hex digit follows *)
Definition chex (s : string) : option (string * string) :=
  match lit "0x" s with
  | Some r => match take1 is_xdigit r with Some x => Some x | None => take1 is_xdigit s end
  | None => take1 is_xdigit s
  end.

(* cHexRange  \s*(?:0x)?(X+)[\s-]?\s*(?:0x)?(X+):?   [Unk] where the expression would back-track
   into the first number (no separator, or no second number after the separator) *)
Definition is_sep (a : ascii) : bool := is_res a || N.eqb (code a) 45.
Definition hex_range (s : string) : res (string * string * string * option string) :=
  match chex (res_spaces s) with
  | None => Unrec
  | Some (a, r) =>
      match r with
      | String c r1 =>
          if is_sep c then
            match chex (res_spaces r1) with
            | Some (b, r2) => Ok (a, b, match lit ":" r2 with Some r3 => r3 | None => r2 end,
                                  if is_res c && (1 <? Z.of_nat (String.length a)) then Some r else None)
            | None => Unk
            end
          else Unk
      | EmptyString => Unk
      end
  end.

Definition opt_group {A} (m : string -> option (A * string)) (s : string) : option A * string :=
  match m s with Some (a, r) => (Some a, r) | None => (None, s) end.
Definition g_perm (s : string) := dO r <- res_spaces1 s; take1 is_perm r.      (* (?:\s+([-rwxp]+))? *)
Definition g_hex (s : string) := dO r <- res_spaces1 s; take1 is_xdigit r.      (* (?:\s+(X+))? *)
Definition g_str (s : string) := dO r <- res_spaces1 s; take1 is_nonres r.      (* (?:\s+(\S+))? *)
Definition g_atoff (s : string) :=                                             (* (?:\s+\(@(X+)\))? *)
  dO r <- res_spaces1 s; dO r <- lit "(@" r; dO (x, r) <- take1 is_xdigit r; dO r <- lit ")" r; Some (x, r).
Definition ostr (o : option string) : string := match o with Some s => s | None => EmptyString end.

(* tail of procMapsRE after the optional groups:  \s+X+:X+\s+D+(?:\s+(\S+))?  -> file *)
Definition proc_tail (s : string) : option string :=
  dO r <- res_spaces1 s; dO (_, r) <- take1 is_xdigit r; dO r <- lit ":" r; dO (_, r) <- take1 is_xdigit r;
  dO r <- res_spaces1 r; dO (_, r) <- take1 is_digit r;
  Some (ostr (fst (opt_group g_str r))).

(* the optional perm/offset groups of procMapsRE, tried in the priority order of the regexp *)
Definition proc_rest (s : string) : option (string * string * string) :=   (* perm, offset, file *)
  let try (tp tofs : bool) : option (string * string * string) :=
    dO (p, r) <- (if tp then dO (x, r) <- g_perm s; Some (x, r) else Some (EmptyString, s));
    dO (o, r) <- (if tofs then dO (x, r) <- g_hex r; Some (x, r) else Some (EmptyString, r));
    dO f <- proc_tail r; Some (p, o, f) in
  match try true true with Some x => Some x | None =>
  match try true false with Some x => Some x | None =>
  match try false true with Some x => Some x | None => try false false end end end.

Record mapent := { me_start : string; me_end : string; me_perm : string; me_offset : string;
                   me_file : string; me_buildid : string }.

(* parseMappingEntry: Ok (Some m) mapping, Ok None = skipped (not executable), Unrec *)
Definition parse_mapping_entry (l : string) : res (option mapping) :=
  do (a, b, r, alt) <- hex_range l;
  (* procMapsRE fails on the greedy range but would match after splitting the first number: outside the model *)
  if match proc_rest r, alt with None, Some ar => match proc_rest ar with Some _ => true | None => false end | _, _ => false end
  then Unk else
  let e := match proc_rest r with
           | Some (p, o, f) => {| me_start := a; me_end := b; me_perm := p; me_offset := o; me_file := f; me_buildid := EmptyString |}
           | None =>
               let '(p, r1) := opt_group g_perm r in
               let '(f, r2) := opt_group g_str r1 in
               let '(o, r3) := opt_group g_atoff r2 in
               let '(bid, _) := opt_group g_hex r3 in
               {| me_start := a; me_end := b; me_perm := ostr p; me_offset := ostr o; me_file := ostr f; me_buildid := ostr bid |}
           end in
  if nonempty (me_perm e) && negb (contains_char "x" (me_perm e)) then Ok None else
  match parse_hex_u64 (me_start e), parse_hex_u64 (me_end e) with
  | Some st, Some en =>
      let mk (off : Z) := Ok (Some {| m_id := 0; m_start := st; m_limit := en; m_offset := off; m_file := me_file e;
                                      m_buildid := me_buildid e; m_hasfn := false; m_hasfile := false;
                                      m_hasline := false; m_hasinline := false |}) in
      if nonempty (me_offset e) then
        match parse_hex_u64 (me_offset e) with Some off => mk off | None => Unrec end
      else mk 0
  | _, _ => Unrec
  end.

(* parseProcMapsFromScanner over the remaining lines.  An unrecognised line containing "=" installs
   a "$attr" replacer for the following lines: outside the model ([Unk]). *)
Fixpoint parse_proc_maps (lines : list string) : res (list mapping) :=
  match lines with
  | [] => Ok []
  | l :: r =>
      match parse_mapping_entry (remove_logging_info l) with
      | Ok (Some m) => do ms <- parse_proc_maps r; Ok (m :: ms)
      | Ok None => parse_proc_maps r
      | Unrec => if contains_char "=" (remove_logging_info l) then Unk else parse_proc_maps r
      | Err => Err
      | Unk => Unk
      end
  end.
