(* Specification of C11 written from the property text on EXPANDED FRAMES (one frame per inline
   line, an unsymbolized location = one address frame that matches nothing), independent of
   the per-location / per-sample control flow of M_Prune.  Decidable checkers + the decidable
   classes of the known findings F14 and F15. *)
From PV Require Export M_Prune S_Filter.
Open Scope Z_scope.

(* ------------------------------------------------------------ frame-level rules *)
Section Rules.
  Context {A : Type}.
  Variable m : A -> bool.      (* the frame matches the rule's expression(s) *)

  (* drop_frames / keep_frames, scanning from the ROOT: the first matching frame that comes after
     at least one non-matching frame is removed together with everything on its leaf side *)
  Fixpoint cut_root (found : bool) (fs : list A) : list A :=
    match fs with
    | [] => []
    | f :: r =>
        if m f then (if found then [] else f :: cut_root found r)
        else f :: cut_root true r
    end.

  (* frames are kept leaf first everywhere else *)
  Definition prune_frames (fs : list A) : list A := rev (cut_root false (rev fs)).

  (* prune_from, leaf first: the lowest matching frame is kept, everything leaf-side of it goes *)
  Fixpoint drop_to_first (fs : list A) : list A :=
    match fs with
    | [] => []
    | f :: r => if m f then fs else drop_to_first r
    end.
  Definition prune_from_frames (fs : list A) : list A :=
    if existsb m fs then drop_to_first fs else fs.

  (* relational reading of the drop rule, for the characterisation theorem:
     position k is a cut point iff frame k matches and some earlier frame does not *)
  Definition cut_point (fs : list A) (k : nat) : Prop :=
    (exists f, nth_error fs k = Some f /\ m f = true) /\
    (exists j g, (j < k)%nat /\ nth_error fs j = Some g /\ m g = false).
  Definition drop_rule (fs res : list A) : Prop :=
    (exists k, cut_point fs k /\ (forall j, (j < k)%nat -> ~ cut_point fs j) /\ res = firstn k fs)
    \/ ((forall k, ~ cut_point fs k) /\ res = fs).
End Rules.

Section PruneSpec.
  Variable M : string -> string -> bool.

  (* "whose simplified function name fully matches drop_frames but not keep_frames"
     (the anchoring ^(..)$ is part of the expression handed to M) *)
  Definition frame_dropped (p : profile) (drop : string) (keep : option string) (fr : frame) : bool :=
    match frame_fn p fr with
    | Some f =>
        negb (String.eqb (f_name f) "")
        && M drop (simplify_func (f_name f))
        && negb (match keep with Some k => M k (simplify_func (f_name f)) | None => false end)
    | None => false
    end.

  Definition frame_from (p : profile) (re : string) (fr : frame) : bool :=
    match frame_fn p fr with
    | Some f => negb (String.eqb (f_name f) "") && M re (simplify_func (f_name f))
    | None => false
    end.

  (* ---- F14: a location with both matching and non-matching frames lies root-side of the
          first location without any matching frame *)
  Fixpoint f14_scan (clean mixed : Z -> bool) (rl : list Z) : bool :=
    match rl with
    | [] => false
    | id :: r => if clean id then false else if mixed id then true else f14_scan clean mixed r
    end.
  Definition in_F14_sample (p : profile) (drop : string) (keep : option string) (s : sample) : bool :=
    let d := frame_dropped p drop keep in
    f14_scan (fun id => forallb (fun f => negb (d f)) (loc_frames_of p id))
             (fun id => existsb (fun f => negb (d f)) (loc_frames_of p id))
             (rev (s_loc s)).
  Definition in_F14 (p : profile) (drop : string) (keep : option string) : bool :=
    existsb (in_F14_sample p drop keep) (p_sample p).

  (* ---- F15: root-side of the lowest matching location of a sample there is another matching
          location whose own lowest match is not its leaf-most frame *)
  Definition in_F15_sample (p : profile) (re : string) (s : sample) : bool :=
    let mt := frame_from p re in
    let flagged := fun id => existsb mt (loc_frames_of p id) in
    let trimmed := fun id => flagged id && match loc_frames_of p id with f :: _ => negb (mt f) | [] => false end in
    match from_first flagged (s_loc s) with
    | Some (_ :: rest) => existsb trimmed rest
    | _ => false
    end.
  Definition in_F15 (p : profile) (re : string) : bool := existsb (in_F15_sample p re) (p_sample p).

  (* ---- the rules on frame samples, and decidable checkers on a result profile p':
          same number of samples, values and labels untouched, frames as the rule says,
          a sample that had frames never becomes empty *)
  Definition spec_prune (p : profile) (drop : string) (keep : option string) (ss : list fsample) : list fsample :=
    map (on_frames (prune_frames (frame_dropped p drop keep))) ss.
  Definition spec_prune_from (p : profile) (re : string) (ss : list fsample) : list fsample :=
    map (on_frames (prune_from_frames (frame_from p re))) ss.

  Fixpoint forallb2 {A B} (f : A -> B -> bool) (a : list A) (b : list B) : bool :=
    match a, b with
    | [], [] => true
    | x :: a', y :: b' => f x y && forallb2 f a' b'
    | _, _ => false
    end.
  Definition never_emptied (ss ss' : list fsample) : bool :=
    forallb2 (fun s s' => is_nil (fs_frames s) || negb (is_nil (fs_frames s'))) ss ss'.

  Definition check_prune (p : profile) (drop : string) (keep : option string) (p' : profile) : bool :=
    fsamples_eqb (fsamples p') (spec_prune p drop keep (fsamples p)) && never_emptied (fsamples p) (fsamples p').
  Definition check_prune_from (p : profile) (re : string) (p' : profile) : bool :=
    fsamples_eqb (fsamples p') (spec_prune_from p re (fsamples p)) && never_emptied (fsamples p) (fsamples p').

  (* ---- histories: the rule of a sequence of operations on one profile is the composition of the
          rules, each read on the frames the previous one left; nothing else may carry over *)
  Variable V : string -> bool.

  (* the expressions RemoveUninteresting puts in force: none without drop_frames or when one does
     not compile (the operation then does nothing) *)
  Definition removeun_active (p : profile) : option (string * option string) :=
    if String.eqb (p_dropframes p) "" then None
    else if negb (V (anchor (p_dropframes p))) then None
    else if String.eqb (p_keepframes p) "" then Some (anchor (p_dropframes p), None)
    else if negb (V (anchor (p_keepframes p))) then None
    else Some (anchor (p_dropframes p), Some (anchor (p_keepframes p))).

  Definition spec_step (p : profile) (ss : list fsample) (st : pstep) : list fsample :=
    match st with
    | SPrune d k => spec_prune p d k ss
    | SPruneFrom re => spec_prune_from p re ss
    | SRemoveUn => match removeun_active p with
                   | Some (d, k) => spec_prune p d k ss
                   | None => ss
                   end
    end.
  Definition spec_steps (p : profile) (sts : list pstep) (ss : list fsample) : list fsample :=
    fold_left (spec_step p) sts ss.

  (* finding classes met along the way: each step's class is read on the profile the step receives *)
  Definition step_classes (q : profile) (st : pstep) : list Z :=
    match st with
    | SPrune d k => if in_F14 q d k then [14] else []
    | SPruneFrom re => if in_F15 q re then [15] else []
    | SRemoveUn => match removeun_active q with
                   | Some (d, k) => if in_F14 q d k then [14] else []
                   | None => []
                   end
    end.
  Fixpoint steps_classes (q : profile) (sts : list pstep) : list Z :=
    match sts with
    | [] => []
    | st :: r => (step_classes q st ++ steps_classes (run_step M V q st) r)%list
    end.
End PruneSpec.
