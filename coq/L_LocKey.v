(* locationKey.lines (M_Merge.lines_key: hex numbers joined by "|", three slots per line) determines
   the slots: hex formatting is injective, no slot contains "|", and the number of slots is a multiple
   of three.  This is what allows M_Merge to compare location keys as tuples of numbers. *)
From Coq Require Import List ZArith Lia Bool String Ascii.
From PV Require Import M_Merge.
Import ListNotations.
Open Scope Z_scope.
Open Scope list_scope.

(* ------------------------------------------------------------------ hex digits *)
Fixpoint le_digits (n : nat) (v : Z) : list Z :=
  match n with
  | O => []
  | S n' => if v =? 0 then [] else (v mod 16) :: le_digits n' (v / 16)
  end.

Fixpoint digits_string (ds : list Z) (acc : string) : string :=
  match ds with
  | [] => acc
  | d :: r => digits_string r (String (hex_digit d) acc)
  end.

Lemma hex_fuel_digits : forall n v acc, hex_fuel n v acc = digits_string (le_digits n v) acc.
Proof.
  induction n as [|n IH]; intros v acc; cbn [hex_fuel le_digits]; [reflexivity|].
  destruct (v =? 0); [reflexivity|]. cbn [digits_string]. apply IH.
Qed.

Lemma le_digits_inj : forall n v w,
  0 <= v < 16 ^ Z.of_nat n -> 0 <= w < 16 ^ Z.of_nat n -> le_digits n v = le_digits n w -> v = w.
Proof.
  induction n as [|n IH]; intros v w Hv Hw H.
  - change (16 ^ Z.of_nat 0) with 1 in *. lia.
  - assert (E : 16 ^ Z.of_nat (S n) = 16 * 16 ^ Z.of_nat n).
    { rewrite Nat2Z.inj_succ, Z.pow_succ_r by lia. reflexivity. }
    rewrite E in Hv, Hw. cbn [le_digits] in H.
    destruct (v =? 0) eqn:Ev; destruct (w =? 0) eqn:Ew;
      try apply Z.eqb_eq in Ev; try apply Z.eqb_eq in Ew; try discriminate; [lia|].
    inversion H as [[H1 H2]].
    assert (v / 16 = w / 16).
    { apply IH; [split; [apply Z.div_pos; lia | apply Z.div_lt_upper_bound; lia] |
                 split; [apply Z.div_pos; lia | apply Z.div_lt_upper_bound; lia] | exact H2]. }
    rewrite (Z.div_mod v 16), (Z.div_mod w 16) by lia. lia.
Qed.

Lemma le_digits_range : forall n v, 0 <= v -> Forall (fun d => 0 <= d < 16) (le_digits n v).
Proof.
  induction n as [|n IH]; intros v Hv; cbn [le_digits]; [constructor|].
  destruct (v =? 0); [constructor|]. constructor; [apply Z.mod_pos_bound; lia|].
  apply IH. apply Z.div_pos; lia.
Qed.

Definition is_hex (a : ascii) : bool := existsb (Ascii.eqb a) (list_ascii_of_string "0123456789abcdef").

Definition digits16 : list Z := [0;1;2;3;4;5;6;7;8;9;10;11;12;13;14;15].
Lemma in_digits16 : forall d, 0 <= d < 16 -> In d digits16.
Proof. intros d H. unfold digits16. cbn. lia. Qed.

Lemma hex_digit_inj : forall a b, 0 <= a < 16 -> 0 <= b < 16 -> hex_digit a = hex_digit b -> a = b.
Proof.
  assert (T : forallb (fun a => forallb (fun b => negb (Ascii.eqb (hex_digit a) (hex_digit b)) || (a =? b)) digits16)
                      digits16 = true) by (vm_compute; reflexivity).
  intros a b Ha Hb H. rewrite forallb_forall in T. specialize (T a (in_digits16 a Ha)).
  rewrite forallb_forall in T. specialize (T b (in_digits16 b Hb)).
  rewrite H, Ascii.eqb_refl in T. cbn in T. apply Z.eqb_eq. exact T.
Qed.

Lemma hex_digit_is_hex : forall d, 0 <= d < 16 -> is_hex (hex_digit d) = true.
Proof.
  assert (T : forallb (fun d => is_hex (hex_digit d)) digits16 = true) by (vm_compute; reflexivity).
  intros d Hd. rewrite forallb_forall in T. exact (T d (in_digits16 d Hd)).
Qed.

Fixpoint all_hex (s : string) : bool :=
  match s with EmptyString => true | String a r => is_hex a && all_hex r end.

Lemma digits_string_inj : forall ds es acc,
  Forall (fun d => 0 <= d < 16) ds -> Forall (fun d => 0 <= d < 16) es ->
  List.length ds = List.length es ->
  digits_string ds acc = digits_string es acc -> ds = es.
Proof.
  (* digits_string reverses: compare lengths first *)
  assert (L : forall ds acc, String.length (digits_string ds acc) = (List.length ds + String.length acc)%nat).
  { induction ds as [|d r IH]; intros acc; cbn [digits_string List.length]; [reflexivity|].
    rewrite IH. cbn [String.length]. lia. }
  assert (G : forall ds es acc acc', Forall (fun d => 0 <= d < 16) ds -> Forall (fun d => 0 <= d < 16) es ->
              List.length ds = List.length es -> digits_string ds acc = digits_string es acc' ->
              ds = es /\ acc = acc').
  { induction ds as [|d r IH]; intros es acc acc' Fd Fe Len H; destruct es as [|e s]; cbn in Len; try discriminate.
    - cbn in H. auto.
    - cbn [digits_string] in H. inversion Fd; inversion Fe; subst.
      destruct (IH s _ _ ltac:(assumption) ltac:(assumption) ltac:(lia) H) as [Q R].
      inversion R as [[R1 R2]]. split; [|congruence]. f_equal; [|exact Q]. apply hex_digit_inj; assumption. }
  intros ds es acc Fd Fe Len H. exact (proj1 (G ds es acc acc Fd Fe Len H)).
Qed.

Lemma digits_string_length : forall ds acc,
  String.length (digits_string ds acc) = (List.length ds + String.length acc)%nat.
Proof.
  induction ds as [|d r IH]; intros acc; cbn [digits_string List.length]; [reflexivity|].
  rewrite IH. cbn [String.length]. lia.
Qed.

Lemma all_hex_digits_string : forall ds acc,
  Forall (fun d => 0 <= d < 16) ds -> all_hex acc = true -> all_hex (digits_string ds acc) = true.
Proof.
  induction ds as [|d r IH]; intros acc F H; cbn [digits_string]; [exact H|].
  inversion F; subst. apply IH; [assumption|]. cbn [all_hex]. rewrite hex_digit_is_hex by assumption. exact H.
Qed.

(* ------------------------------------------------------------------ FormatUint / FormatInt, base 16 *)
Definition u_ok (v : Z) : Prop := 0 <= v < 16 ^ 17.

Lemma format_uint16_nonzero : forall v, u_ok v -> v <> 0 ->
  format_uint16 v = digits_string (le_digits 17 v) "" /\ le_digits 17 v <> [].
Proof.
  intros v Hv Hz. unfold format_uint16. replace (v =? 0) with false by (symmetry; apply Z.eqb_neq; exact Hz).
  split; [apply hex_fuel_digits|]. cbn [le_digits].
  replace (v =? 0) with false by (symmetry; apply Z.eqb_neq; exact Hz). discriminate.
Qed.

Lemma format_uint16_inj : forall v w, u_ok v -> u_ok w -> format_uint16 v = format_uint16 w -> v = w.
Proof.
  intros v w Hv Hw H.
  assert (Z0 : forall x, u_ok x -> x <> 0 -> format_uint16 x <> "0"%string).
  { intros x Hx Hz E. destruct (format_uint16_nonzero x Hx Hz) as [F N]. rewrite F in E.
    pose proof (f_equal String.length E) as LE. rewrite digits_string_length in LE.
    destruct (le_digits 17 x) as [|d [|d2 r]] eqn:D; [congruence | | cbn [List.length String.length] in LE; lia].
    cbn [digits_string] in E. inversion E as [E1].
    assert (Hd : 0 <= d < 16).
    { pose proof (le_digits_range 17 x ltac:(unfold u_ok in Hx; lia)) as R. rewrite D in R. inversion R; assumption. }
    assert (d = 0) by (apply hex_digit_inj; [assumption | lia | rewrite E1; reflexivity]). subst d.
    cbn [le_digits] in D. replace (x =? 0) with false in D by (symmetry; apply Z.eqb_neq; exact Hz).
    inversion D as [[D1 D2]]. destruct (x / 16 =? 0) eqn:Q; [|discriminate]. apply Z.eqb_eq in Q.
    rewrite (Z.div_mod x 16) in Hz by lia. lia. }
  destruct (Z.eq_dec v 0) as [->|Nv]; destruct (Z.eq_dec w 0) as [->|Nw].
  - reflexivity.
  - exfalso. apply (Z0 w Hw Nw). rewrite <- H. reflexivity.
  - exfalso. apply (Z0 v Hv Nv). rewrite H. reflexivity.
  - destruct (format_uint16_nonzero v Hv Nv) as [Fv _]. destruct (format_uint16_nonzero w Hw Nw) as [Fw _].
    rewrite Fv, Fw in H. unfold u_ok in *.
    apply (le_digits_inj 17); [exact Hv | exact Hw|].
    apply (digits_string_inj _ _ ""%string); try (apply le_digits_range; lia); [|exact H].
    pose proof (f_equal String.length H) as LE. rewrite !digits_string_length in LE. lia.
Qed.

Lemma format_uint16_hex : forall v, u_ok v -> all_hex (format_uint16 v) = true /\ format_uint16 v <> ""%string.
Proof.
  intros v Hv. unfold format_uint16. destruct (v =? 0) eqn:E; [split; [reflexivity | discriminate]|].
  apply Z.eqb_neq in E. rewrite hex_fuel_digits. split.
  - apply all_hex_digits_string; [apply le_digits_range; unfold u_ok in Hv; lia | reflexivity].
  - intros Q. pose proof (f_equal String.length Q) as LE. rewrite digits_string_length in LE. cbn in LE.
    cbn [le_digits] in LE. replace (v =? 0) with false in LE by (symmetry; apply Z.eqb_neq; exact E).
    cbn in LE. lia.
Qed.

Definition i_ok (v : Z) : Prop := - 16 ^ 17 < v < 16 ^ 17.

Lemma format_int16_inj : forall v w, i_ok v -> i_ok w -> format_int16 v = format_int16 w -> v = w.
Proof.
  intros v w Hv Hw H. unfold format_int16, i_ok in *.
  destruct (v <? 0) eqn:Lv; destruct (w <? 0) eqn:Lw;
    try apply Z.ltb_lt in Lv; try apply Z.ltb_lt in Lw; try apply Z.ltb_ge in Lv; try apply Z.ltb_ge in Lw.
  - cbn in H. inversion H as [H1]. assert (- v = - w) by (apply format_uint16_inj; unfold u_ok; try lia; exact H1). lia.
  - exfalso. destruct (format_uint16_hex w ltac:(unfold u_ok; lia)) as [A N].
    cbn in H. destruct (format_uint16 w) as [|c r]; [congruence|]. inversion H; subst c. cbn in A. discriminate.
  - exfalso. destruct (format_uint16_hex v ltac:(unfold u_ok; lia)) as [A N].
    cbn in H. destruct (format_uint16 v) as [|c r]; [congruence|]. inversion H; subst c. cbn in A. discriminate.
  - apply format_uint16_inj; unfold u_ok; try lia; exact H.
Qed.

(* ------------------------------------------------------------------ no slot contains the separator *)
Fixpoint no_bar (s : string) : bool :=
  match s with EmptyString => true | String a r => negb (Ascii.eqb a "|"%char) && no_bar r end.

Lemma all_hex_no_bar : forall s, all_hex s = true -> no_bar s = true.
Proof.
  induction s as [|a r IH]; cbn; [reflexivity|]. intros H. apply andb_true_iff in H. destruct H as [H1 H2].
  rewrite (IH H2), andb_true_r. destruct (Ascii.eqb a "|") eqn:E; [|reflexivity].
  apply Ascii.eqb_eq in E. subst a. cbn in H1. discriminate.
Qed.

Lemma format_uint16_no_bar : forall v, u_ok v -> no_bar (format_uint16 v) = true.
Proof. intros v H. apply all_hex_no_bar. apply format_uint16_hex. exact H. Qed.

Lemma format_int16_no_bar : forall v, i_ok v -> no_bar (format_int16 v) = true.
Proof.
  intros v H. unfold format_int16, i_ok in *. destruct (v <? 0) eqn:L.
  - apply Z.ltb_lt in L. cbn. apply format_uint16_no_bar. unfold u_ok. lia.
  - apply Z.ltb_ge in L. apply format_uint16_no_bar. unfold u_ok. lia.
Qed.

(* ------------------------------------------------------------------ strings.Join *)
Lemma split_bar : forall x y r r',
  no_bar x = true -> no_bar y = true ->
  (x ++ "|" ++ r)%string = (y ++ "|" ++ r')%string -> x = y /\ r = r'.
Proof.
  induction x as [|a x IH]; intros y r r' Hx Hy H; destruct y as [|b y]; cbn in *.
  - inversion H. auto.
  - inversion H as [[H1 H2]]. subst b. cbn in Hy. discriminate.
  - inversion H as [[H1 H2]]. subst a. cbn in Hx. discriminate.
  - inversion H as [[H1 H2]]. subst b. apply andb_true_iff in Hx. apply andb_true_iff in Hy.
    destruct (IH y r r') as [Q R]; try tauto. subst. auto.
Qed.

Lemma no_bar_app_bar : forall x y r, no_bar x = true -> x <> (y ++ "|" ++ r)%string.
Proof.
  induction x as [|a x IH]; intros y r Hx H; destruct y as [|b y]; cbn in *; try discriminate.
  - inversion H; subst a. cbn in Hx. discriminate.
  - inversion H as [[H1 H2]]. apply andb_true_iff in Hx. apply (IH y r); tauto.
Qed.

Lemma join_inj : forall xs ys,
  xs <> [] -> ys <> [] -> Forall (fun s => no_bar s = true) xs -> Forall (fun s => no_bar s = true) ys ->
  concat_with "|" xs = concat_with "|" ys -> xs = ys.
Proof.
  induction xs as [|x xs IH]; intros ys Nx Ny Fx Fy H; [congruence|].
  destruct ys as [|y ys]; [congruence|]. inversion Fx as [|? ? Hx Fxs]; inversion Fy as [|? ? Hy Fys]; subst.
  destruct xs as [|x2 xs]; destruct ys as [|y2 ys]; cbn [concat_with] in H.
  - congruence.
  - exfalso. exact (no_bar_app_bar x y _ Hx H).
  - exfalso. symmetry in H. exact (no_bar_app_bar y x _ Hy H).
  - destruct (split_bar _ _ _ _ Hx Hy H) as [Q R]. subst y. f_equal.
    apply IH; try discriminate; assumption.
Qed.

(* ------------------------------------------------------------------ the key string determines the slots *)
Definition slot_ok (x : Z * Z * Z) : Prop :=
  let '(f, l, c) := x in 0 <= f < two64 /\ - two63 <= l < two63 /\ - two63 <= c < two63.

Definition slot_strings (x : Z * Z * Z) : list string :=
  let '(f, l, c) := x in [if f =? 0 then ""%string else format_uint16 f; format_int16 l; format_int16 c].

Lemma two64_lt_16_17 : two64 < 16 ^ 17 /\ two63 < 16 ^ 17.
Proof. split; reflexivity. Qed.

Lemma slot_strings_no_bar : forall x, slot_ok x -> Forall (fun s => no_bar s = true) (slot_strings x).
Proof.
  intros [[f l] c] (Hf & Hl & Hc). pose proof two64_lt_16_17 as [T1 T2]. cbn [slot_strings].
  constructor; [|constructor; [|constructor; [|constructor]]].
  - destruct (f =? 0); [reflexivity | apply format_uint16_no_bar; unfold u_ok; lia].
  - apply format_int16_no_bar. unfold i_ok. lia.
  - apply format_int16_no_bar. unfold i_ok. lia.
Qed.

Lemma slot_strings_inj : forall x y, slot_ok x -> slot_ok y -> slot_strings x = slot_strings y -> x = y.
Proof.
  intros [[f l] c] [[f' l'] c'] (Hf & Hl & Hc) (Hf' & Hl' & Hc') H. pose proof two64_lt_16_17 as [T1 T2].
  cbn [slot_strings] in H. inversion H as [[H1 H2 H3]].
  assert (l = l') by (apply format_int16_inj; unfold i_ok; try lia; exact H2).
  assert (c = c') by (apply format_int16_inj; unfold i_ok; try lia; exact H3).
  assert (f = f').
  { destruct (Z.eqb_spec f 0) as [E|E]; destruct (Z.eqb_spec f' 0) as [E'|E'].
    - lia.
    - exfalso. destruct (format_uint16_hex f' ltac:(unfold u_ok; lia)) as [_ N]. apply N. symmetry. exact H1.
    - exfalso. destruct (format_uint16_hex f ltac:(unfold u_ok; lia)) as [_ N]. apply N. exact H1.
    - apply format_uint16_inj; unfold u_ok; try lia; exact H1. }
  subst. reflexivity.
Qed.

Lemma lines_key_unfold : forall slots, lines_key slots = concat_with "|" (flat_map slot_strings slots).
Proof.
  intros slots. reflexivity.
Qed.

Theorem lines_key_injective_lemma : forall a b,
  Forall slot_ok a -> Forall slot_ok b -> lines_key a = lines_key b -> a = b.
Proof.
  intros a b Fa Fb H. rewrite !lines_key_unfold in H.
  assert (NB : forall l, Forall slot_ok l -> Forall (fun s => no_bar s = true) (flat_map slot_strings l)).
  { induction l as [|x l IH]; intros F; cbn [flat_map]; [constructor|]. inversion F; subst.
    apply Forall_app. split; [apply slot_strings_no_bar; assumption | apply IH; assumption]. }
  assert (E : flat_map slot_strings a = flat_map slot_strings b).
  { destruct a as [|x a]; destruct b as [|y b].
    - reflexivity.
    - exfalso. destruct y as [[f l] c]. cbn [flat_map slot_strings app concat_with] in H.
      destruct (if f =? 0 then ""%string else format_uint16 f); cbn in H; discriminate.
    - exfalso. destruct x as [[f l] c]. cbn [flat_map slot_strings app concat_with] in H.
      destruct (if f =? 0 then ""%string else format_uint16 f); cbn in H; discriminate.
    - apply join_inj; auto.
      + destruct x as [[f l] c]. cbn. discriminate.
      + destruct y as [[f l] c]. cbn. discriminate. }
  clear H. revert b Fb E. induction Fa as [|x a Hx Fa IH]; intros b Fb E; destruct b as [|y b].
  - reflexivity.
  - destruct y as [[f l] c]. cbn in E. discriminate.
  - destruct x as [[f l] c]. cbn in E. discriminate.
  - inversion Fb as [|? ? Hy Fb']; subst.
    assert (S3 : forall z, exists s1 s2 s3, slot_strings z = [s1; s2; s3]).
    { intros [[f l] c]. cbn. eauto. }
    cbn [flat_map] in E. destruct (S3 x) as (s1 & s2 & s3 & Ex). destruct (S3 y) as (t1 & t2 & t3 & Ey).
    rewrite Ex, Ey in E. cbn [app] in E. inversion E as [[E1 E2 E3 E4]].
    f_equal; [apply slot_strings_inj; auto; congruence | apply IH; assumption].
Qed.
