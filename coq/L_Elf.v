(* Lemmas and proofs for C13 (address translation part): the model of M_Elf meets the loader
   specification of S_Elf. *)
From Coq Require Import Lia ZifyBool.
From PV Require Import M_Elf S_Elf.
Open Scope Z_scope.

Lemma two64_val : two64 = 18446744073709551616. Proof. reflexivity. Qed.
Lemma two63_val : two63 = 9223372036854775808. Proof. reflexivity. Qed.

(* the linear content of [loaded_at] *)
Record lfacts (bias : Z) (m : emap) (a : Z) (p : phdr) (V O r k AUf : Z) : Prop := {
  lf_r : 0 <= r < 4096;
  lf_pr : ph_vaddr p mod 4096 = r;
  lf_v : ph_vaddr p = V + r;  lf_o : ph_off p = O + r;
  lf_V : 0 <= V; lf_O : 0 <= O;
  lf_fs : 0 < ph_filesz p <= ph_memsz p;
  lf_k : 0 <= k;
  lf_s : em_start m = bias + V + k;
  lf_mo : em_offset m = O + k;
  lf_l : em_start m < em_limit m <= bias + AUf;
  lf_AUf : AUf < ph_vaddr p + ph_filesz p + 4096;
  lf_hi : bias + ph_vaddr p + ph_memsz p < 9223372036854775808;
  lf_lhi : em_limit m < 9223372036854775808;
  lf_ohi : ph_off p + ph_memsz p < 9223372036854775808;
  lf_bias : 0 <= bias;
  lf_own : bias + ph_vaddr p <= a < bias + ph_vaddr p + ph_memsz p;
  lf_in : em_start m <= a < em_limit m;
  lf_s0 : 0 < em_start m;
  lf_ty : ph_type p = 1;
  lf_ko : em_koff m = None
}.

Lemma loaded_at_facts : forall ef bias m a p,
  loaded_at ef bias m a p = true ->
  exists V O r k AUf, lfacts bias m a p V O r k AUf.
Proof.
  intros ef bias m a p H.
  unfold loaded_at, user_elfb, seg_okb, load_okb, pieceb, ownb, in_map, image in H.
  cbn [em_start em_limit em_offset em_koff] in H.
  unfold align_up, align_down, page, PT_LOAD in H. rewrite two63_val in H.
  change (4096 - 1) with 4095 in H.
  destruct (em_koff m) eqn:Ek; [lia|].
  pose proof (Z.mod_pos_bound (ph_vaddr p) 4096 ltac:(lia)) as Hr.
  pose proof (Z.mod_pos_bound (ph_vaddr p + ph_filesz p + 4095) 4096 ltac:(lia)) as Hf.
  pose proof (Z.mod_pos_bound (ph_vaddr p + ph_memsz p + 4095) 4096 ltac:(lia)) as Hm.
  set (r := ph_vaddr p mod 4096) in *.
  set (rf := (ph_vaddr p + ph_filesz p + 4095) mod 4096) in *.
  set (rm := (ph_vaddr p + ph_memsz p + 4095) mod 4096) in *.
  exists (ph_vaddr p - r), (ph_off p - r), r, (em_start m - (bias + (ph_vaddr p - r))),
         (ph_vaddr p + ph_filesz p + 4095 - rf).
  assert (Ho : ph_off p mod 4096 = r) by lia.
  pose proof (Z.mod_pos_bound (ph_off p) 4096 ltac:(lia)) as Hro.
  assert (Hoo : r <= ph_off p).
  { pose proof (Z.mod_le (ph_off p) 4096 ltac:(lia) ltac:(lia)). lia. }
  assert (Hvv : r <= ph_vaddr p).
  { pose proof (Z.mod_le (ph_vaddr p) 4096 ltac:(lia) ltac:(lia)). unfold r. lia. }
  rewrite Ho in H.
  assert (Hmono : ph_vaddr p + ph_filesz p + 4095 - rf <= ph_vaddr p + ph_memsz p + 4095 - rm).
  { unfold rf, rm. rewrite !Z.mod_eq by lia.
    pose proof (Z.div_le_mono (ph_vaddr p + ph_filesz p + 4095) (ph_vaddr p + ph_memsz p + 4095) 4096 ltac:(lia) ltac:(lia)).
    lia. }
  constructor; try lia; try assumption; try reflexivity.
Qed.

Ltac nowrap := unfold uadd, usub, wrap_u64; rewrite ?two64_val;
  repeat match goal with |- context [?x mod 18446744073709551616] => rewrite (Z.mod_small x 18446744073709551616) by lia end.

Lemma phm_keep_owner : forall ef bias m a p,
  loaded_at ef bias m a p = true ->
  phm_keep (em_offset m) (usub (em_limit m) (em_start m)) p = true.
Proof.
  intros ef bias m a p H.
  destruct (loaded_at_facts _ _ _ _ _ H) as (V & O & r & k & AUf & F). destruct F.
  unfold phm_keep, page_size, PT_LOAD. rewrite lf_pr0.
  nowrap. destruct (r <? ph_off p) eqn:E; lia.
Qed.

(* ---------------- the file offset of the address identifies the owner ---------------- *)
Lemma file_offset_owner : forall ef bias m a p,
  loaded_at ef bias m a p = true ->
  uadd (usub a (em_start m)) (em_offset m) = file_off_of p bias a.
Proof.
  intros ef bias m a p H.
  destruct (loaded_at_facts _ _ _ _ _ H) as (V & O & r & k & AUf & F). destruct F.
  unfold file_off_of. nowrap. lia.
Qed.

Lemma off_in_header_owner : forall ef bias m a p,
  loaded_at ef bias m a p = true ->
  off_in_header (file_off_of p bias a) p = true.
Proof.
  intros ef bias m a p H.
  destruct (loaded_at_facts _ _ _ _ _ H) as (V & O & r & k & AUf & F). destruct F.
  unfold off_in_header, file_off_of. nowrap. lia.
Qed.

(* ---------------- HeaderForFileOffset ---------------- *)
Lemma hffo_go_sound : forall fo hs acc h,
  header_for_file_offset_go hs fo acc = Ok h ->
  match acc with
  | None => filter (off_in_header fo) hs = [h]
  | Some x => filter (off_in_header fo) hs = [] /\ h = x
  end.
Proof.
  intros fo hs. induction hs as [|q hs IH]; intros acc h Hh; cbn [header_for_file_offset_go filter] in *.
  - destruct acc as [x|]; [inversion Hh; auto | discriminate].
  - destruct (off_in_header fo q) eqn:Eq.
    + destruct acc as [x|]; [discriminate|].
      apply IH in Hh. cbn in Hh. destruct Hh as [Hn Hx]. subst. rewrite Hn. reflexivity.
    + apply IH in Hh. exact Hh.
Qed.

Lemma hffo_go_complete : forall fo hs,
  (forall h, filter (off_in_header fo) hs = [h] -> header_for_file_offset_go hs fo None = Ok h) /\
  (forall x, filter (off_in_header fo) hs = [] -> header_for_file_offset_go hs fo (Some x) = Ok x).
Proof.
  intros fo hs. induction hs as [|q hs [IH1 IH2]]; cbn [header_for_file_offset_go filter].
  - split; [intros h Hh; discriminate | reflexivity].
  - destruct (off_in_header fo q) eqn:Eq; split.
    + intros h Hh. injection Hh as Hq Hn. subst h. apply IH2. exact Hn.
    + intros x Hx. discriminate.
    + exact IH1.
    + exact IH2.
Qed.

Lemma hffo_unique : forall hs fo h p,
  In p hs -> off_in_header fo p = true -> header_for_file_offset hs fo = Ok h -> h = p.
Proof.
  intros hs fo h p Hin Hp Hh. unfold header_for_file_offset in Hh.
  apply hffo_go_sound in Hh.
  assert (Hf : In p (filter (off_in_header fo) hs)) by (apply filter_In; auto).
  rewrite Hh in Hf. destruct Hf as [Hf|[]]. exact Hf.
Qed.

Lemma hffo_result_matches : forall hs fo h,
  header_for_file_offset hs fo = Ok h -> In h hs /\ off_in_header fo h = true.
Proof.
  intros hs fo h Hh. unfold header_for_file_offset in Hh. apply hffo_go_sound in Hh.
  assert (Hf : In h (filter (off_in_header fo) hs)) by (rewrite Hh; left; reflexivity).
  apply filter_In in Hf. exact Hf.
Qed.

Lemma filter_comm : forall (A : Type) (f g : A -> bool) (l : list A),
  filter f (filter g l) = filter g (filter f l).
Proof.
  intros A f g l. induction l as [|x l IH]; cbn [filter]; [reflexivity|].
  destruct (g x) eqn:Eg; destruct (f x) eqn:Ef; cbn [filter]; rewrite ?Eg, ?Ef, IH; reflexivity.
Qed.

(* ---------------- ProgramHeadersForMapping + findProgramHeader ---------------- *)
Definition load_headers (ef : elf) : list phdr := filter (fun q => ph_type q =? PT_LOAD) (e_progs ef).

Lemma owner_in_load_headers : forall ef bias m a p,
  loaded_at ef bias m a p = true -> In p (e_progs ef) -> In p (load_headers ef).
Proof.
  intros ef bias m a p H Hin. apply filter_In. split; [exact Hin|].
  destruct (loaded_at_facts _ _ _ _ _ H) as (V & O & r & k & AUf & F). destruct F.
  unfold PT_LOAD. lia.
Qed.

Lemma owner_in_headers_lemma : forall ef bias m a p,
  loaded_at ef bias m a p = true -> In p (e_progs ef) ->
  In p (program_headers_for_mapping (load_headers ef) (em_offset m) (usub (em_limit m) (em_start m))).
Proof.
  intros ef bias m a p H Hin. apply filter_In. split.
  - eapply owner_in_load_headers; eauto.
  - eapply phm_keep_owner; eauto.
Qed.

Lemma fph_guard_false : forall ef bias m a p,
  loaded_at ef bias m a p = true ->
  (match em_koff m with Some _ => true | None => false end) || (em_limit m <=? em_start m) || (two63 <=? em_limit m) = false.
Proof.
  intros ef bias m a p H.
  destruct (loaded_at_facts _ _ _ _ _ H) as (V & O & r & k & AUf & F). destruct F.
  rewrite lf_ko0, two63_val. lia.
Qed.

Lemma find_program_header_owner : forall ef bias m a p,
  loaded_at ef bias m a p = true -> In p (e_progs ef) ->
  find_program_header m ef a = Ok (Some p) \/ exists e, find_program_header m ef a = Err e.
Proof.
  intros ef bias m a p H Hin.
  pose proof (owner_in_headers_lemma _ _ _ _ _ H Hin) as Hh.
  pose proof (owner_in_load_headers _ _ _ _ _ H Hin) as Hl.
  unfold find_program_header. rewrite (fph_guard_false _ _ _ _ _ H).
  fold (load_headers ef).
  destruct (load_headers ef) as [|q0 ql] eqn:El; [destruct Hl|]. rewrite <- El in *.
  destruct (program_headers_for_mapping (load_headers ef) (em_offset m) (usub (em_limit m) (em_start m)))
    as [|h [|h2 t]] eqn:Eh.
  - destruct Hh.
  - destruct Hh as [Hh|[]]. subst h. left. reflexivity.
  - rewrite (file_offset_owner _ _ _ _ _ H).
    destruct (header_for_file_offset (h :: h2 :: t) (file_off_of p bias a)) as [h'|e] eqn:Ef.
    + left. rewrite (hffo_unique _ _ _ _ Hh (off_in_header_owner _ _ _ _ _ H) Ef). reflexivity.
    + right. exists e. reflexivity.
Qed.

(* liveness: when p is the only PT_LOAD header whose file range contains the offset, no error *)
Lemma find_program_header_sole : forall ef bias m a p,
  loaded_at ef bias m a p = true -> In p (e_progs ef) -> sole_owner ef p bias a = true ->
  find_program_header m ef a = Ok (Some p).
Proof.
  intros ef bias m a p H Hin Hs.
  pose proof (owner_in_headers_lemma _ _ _ _ _ H Hin) as Hh.
  pose proof (owner_in_load_headers _ _ _ _ _ H Hin) as Hl.
  destruct (find_program_header_owner _ _ _ _ _ H Hin) as [Hok|[e He]]; [exact Hok|].
  exfalso. revert He.
  unfold find_program_header. rewrite (fph_guard_false _ _ _ _ _ H).
  fold (load_headers ef).
  destruct (load_headers ef) as [|q0 ql] eqn:El; [destruct Hl|]. rewrite <- El in *.
  unfold sole_owner in Hs. fold (load_headers ef) in Hs.
  destruct (filter (off_in_header (file_off_of p bias a)) (load_headers ef)) as [|q [|q2 qt]] eqn:Efl; try discriminate.
  assert (Hq : q = p).
  { assert (Hp : In p (filter (off_in_header (file_off_of p bias a)) (load_headers ef))).
    { apply filter_In. split; [exact Hl | eapply off_in_header_owner; eauto]. }
    rewrite Efl in Hp. destruct Hp as [Hp|[]]. exact Hp. }
  subst q.
  destruct (program_headers_for_mapping (load_headers ef) (em_offset m) (usub (em_limit m) (em_start m)))
    as [|h [|h2 t]] eqn:Eh.
  - destruct Hh.
  - discriminate.
  - rewrite (file_offset_owner _ _ _ _ _ H). rewrite <- Eh.
    unfold program_headers_for_mapping.
    assert (Hf : filter (off_in_header (file_off_of p bias a))
                   (filter (phm_keep (em_offset m) (usub (em_limit m) (em_start m))) (load_headers ef)) = [p]).
    { rewrite filter_comm, Efl. cbn [filter]. rewrite (phm_keep_owner _ _ _ _ _ H). reflexivity. }
    unfold header_for_file_offset.
    rewrite (proj1 (hffo_go_complete _ _) _ Hf). discriminate.
Qed.

(* ---------------- GetBase ---------------- *)
Lemma user_base_mod : forall p start offset,
  user_base p start offset = (start - offset + ph_off p - ph_vaddr p) mod two64.
Proof.
  intros p start offset. unfold user_base, usub, uadd, wrap_u64.
  rewrite Zplus_mod_idemp_l, Zminus_mod_idemp_l. reflexivity.
Qed.

Lemma user_base_owner : forall ef bias m a p,
  loaded_at ef bias m a p = true -> user_base p (em_start m) (em_offset m) = bias.
Proof.
  intros ef bias m a p H.
  destruct (loaded_at_facts _ _ _ _ _ H) as (V & O & r & k & AUf & F). destruct F.
  rewrite user_base_mod, two64_val.
  replace (em_start m - em_offset m + ph_off p - ph_vaddr p) with bias by lia.
  apply Z.mod_small. lia.
Qed.

Lemma shifted_eq_iff : forall v x,
  0 <= v < 9223372036854775808 -> - 9223372036854775808 < x < 9223372036854775808 ->
  ((v + x) mod 18446744073709551616 = v <-> x = 0).
Proof.
  intros v x Hv Hx. split.
  - intros Hm.
    pose proof (Z.div_mod (v + x) 18446744073709551616 ltac:(lia)) as Hd.
    rewrite Hm in Hd.
    assert ((v + x) / 18446744073709551616 = 0) by lia. lia.
  - intros ->. rewrite Z.add_0_r. apply Z.mod_small. lia.
Qed.

(* kernelBase's first rule on a loader-made user-space mapping: fires exactly when bias = seg.Off *)
Lemma kernel_rule1_iff : forall ef bias m a p,
  loaded_at ef bias m a p = true ->
  (ph_vaddr p =? usub (em_start m) (em_offset m)) = (bias =? ph_off p).
Proof.
  intros ef bias m a p H.
  destruct (loaded_at_facts _ _ _ _ _ H) as (V & O & r & k & AUf & F). destruct F.
  unfold usub, wrap_u64. rewrite two64_val.
  replace (em_start m - em_offset m) with (ph_vaddr p + (bias - ph_off p)) by lia.
  pose proof (shifted_eq_iff (ph_vaddr p) (bias - ph_off p) ltac:(lia) ltac:(lia)) as Hi.
  destruct (bias =? ph_off p) eqn:Eb.
  - apply Z.eqb_eq. symmetry. apply Hi. lia.
  - apply Z.eqb_neq. intro Hc. symmetry in Hc. apply Hi in Hc. lia.
Qed.

Lemma kernel_base_owner : forall ef bias m a p,
  loaded_at ef bias m a p = true ->
  kernel_base p None (em_start m) (em_limit m) (em_offset m) =
  if bias =? ph_off p then Some (em_offset m) else None.
Proof.
  intros ef bias m a p H.
  unfold kernel_base. rewrite (kernel_rule1_iff _ _ _ _ _ H).
  destruct (bias =? ph_off p); [reflexivity|].
  destruct (loaded_at_facts _ _ _ _ _ H) as (V & O & r & k & AUf & F). destruct F.
  rewrite andb_false_r. cbn [andb].
  replace (two63 <=? em_start m) with false by (rewrite two63_val; lia).
  reflexivity.
Qed.

Lemma get_base_owner : forall ef bias m a p,
  loaded_at ef bias m a p = true -> in_F23 ef p bias m = false ->
  get_base (e_type ef) (Some p) (em_koff m) (em_start m) (em_limit m) (em_offset m) = Ok bias.
Proof.
  intros ef bias m a p H HF.
  pose proof (user_base_owner _ _ _ _ _ H) as Hub.
  pose proof (kernel_base_owner _ _ _ _ _ H) as Hkb.
  destruct (loaded_at_facts _ _ _ _ _ H) as (V & O & r & k & AUf & F). destruct F.
  assert (Hty : e_type ef = ET_DYN \/ e_type ef = ET_EXEC).
  { unfold loaded_at, user_elfb in H. lia. }
  unfold get_base. rewrite lf_ko0.
  replace (em_start m =? 0) with false by lia. cbn [andb].
  destruct Hty as [Hty|Hty]; rewrite Hty; cbn [Z.eqb ET_DYN ET_EXEC ET_REL Pos.eqb].
  - rewrite Hkb. unfold in_F23 in HF. rewrite Hty in HF.
    destruct (bias =? ph_off p) eqn:Eb.
    + f_equal. cbn in HF. lia.
    + rewrite Hub. reflexivity.
  - replace ((0 <? em_start m) && (em_start m <? two63)) with true by (rewrite two63_val; lia).
    cbn [andb]. rewrite Hub. reflexivity.
Qed.

(* in the F23 class the base is the mapping offset *)
Lemma get_base_F23 : forall ef bias m a p,
  loaded_at ef bias m a p = true -> in_F23 ef p bias m = true ->
  get_base (e_type ef) (Some p) (em_koff m) (em_start m) (em_limit m) (em_offset m) = Ok (em_offset m).
Proof.
  intros ef bias m a p H HF.
  pose proof (kernel_base_owner _ _ _ _ _ H) as Hkb.
  destruct (loaded_at_facts _ _ _ _ _ H) as (V & O & r & k & AUf & F). destruct F.
  unfold in_F23 in HF.
  assert (Hty : e_type ef = ET_DYN) by lia.
  unfold get_base. rewrite lf_ko0.
  replace (em_start m =? 0) with false by lia. cbn [andb].
  rewrite Hty; cbn [Z.eqb ET_DYN ET_EXEC ET_REL Pos.eqb].
  rewrite Hkb. replace (bias =? ph_off p) with true by lia. reflexivity.
Qed.

(* ---------------- computeBase / ObjAddr ---------------- *)
Lemma compute_base_owner : forall ef bias m a p,
  loaded_at ef bias m a p = true -> In p (e_progs ef) -> in_F23 ef p bias m = false ->
  compute_base (Some m) true ef a = Ok (bias, negb (ph_exec p)) \/
  exists e, compute_base (Some m) true ef a = Err e.
Proof.
  intros ef bias m a p H Hin HF.
  unfold compute_base.
  replace ((a <? em_start m) || (em_limit m <=? a)) with false
    by (destruct (loaded_at_facts _ _ _ _ _ H) as (V & O & r & k & AUf & F); destruct F; lia).
  cbn [negb].
  destruct (find_program_header_owner _ _ _ _ _ H Hin) as [Hok|[e He]].
  - rewrite Hok, (get_base_owner _ _ _ _ _ H HF). left. reflexivity.
  - rewrite He. right. exists e. reflexivity.
Qed.

Lemma compute_base_sole : forall ef bias m a p,
  loaded_at ef bias m a p = true -> In p (e_progs ef) -> in_F23 ef p bias m = false ->
  sole_owner ef p bias a = true ->
  compute_base (Some m) true ef a = Ok (bias, negb (ph_exec p)).
Proof.
  intros ef bias m a p H Hin HF Hs.
  unfold compute_base.
  replace ((a <? em_start m) || (em_limit m <=? a)) with false
    by (destruct (loaded_at_facts _ _ _ _ _ H) as (V & O & r & k & AUf & F); destruct F; lia).
  cbn [negb].
  rewrite (find_program_header_sole _ _ _ _ _ H Hin Hs), (get_base_owner _ _ _ _ _ H HF). reflexivity.
Qed.

Lemma usub_bias : forall ef bias m a p x,
  loaded_at ef bias m a p = true -> bias <= x < two64 -> usub x bias = x - bias.
Proof.
  intros ef bias m a p x H Hx.
  destruct (loaded_at_facts _ _ _ _ _ H) as (V & O & r & k & AUf & F). destruct F.
  rewrite two64_val in Hx. unfold usub, wrap_u64. rewrite two64_val. apply Z.mod_small. lia.
Qed.

Lemma user_base_is_bias_lemma : forall ef bias m a p v,
  In p (e_progs ef) -> loaded_at ef bias m a p = true -> in_F23 ef p bias m = false ->
  obj_addr (Some m) true ef a = Ok v -> v = a - bias.
Proof.
  intros ef bias m a p v Hin H HF Hv. unfold obj_addr in Hv.
  destruct (compute_base_owner _ _ _ _ _ H Hin HF) as [Hok|[e He]].
  - rewrite Hok in Hv. inversion Hv. eapply usub_bias; eauto.
    destruct (loaded_at_facts _ _ _ _ _ H) as (V & O & r & k & AUf & F). destruct F.
    rewrite two64_val. lia.
  - rewrite He in Hv. discriminate.
Qed.

Lemma identified_owner_succeeds_lemma : forall ef bias m a p,
  In p (e_progs ef) -> loaded_at ef bias m a p = true -> in_F23 ef p bias m = false ->
  sole_owner ef p bias a = true ->
  obj_addr (Some m) true ef a = Ok (a - bias).
Proof.
  intros ef bias m a p Hin H HF Hs. unfold obj_addr.
  rewrite (compute_base_sole _ _ _ _ _ H Hin HF Hs). f_equal.
  eapply usub_bias; eauto.
  destruct (loaded_at_facts _ _ _ _ _ H) as (V & O & r & k & AUf & F). destruct F.
  rewrite two64_val. lia.
Qed.

(* ---------------- the evaluated checkers accept the model, for every input ---------------- *)
Lemma existsb_false_all : forall (A : Type) (f : A -> bool) (l : list A) (x : A),
  existsb f l = false -> In x l -> f x = false.
Proof.
  intros A f l x He Hin. destruct (f x) eqn:Ef; [|reflexivity].
  assert (existsb f l = true) by (apply existsb_exists; exists x; auto). congruence.
Qed.

Lemma not_F23_of_any : forall ef bias m a p,
  any_F23 ef bias m a = false -> In p (e_progs ef) -> loaded_at ef bias m a p = true ->
  in_F23 ef p bias m = false.
Proof.
  intros ef bias m a p HA Hin H. unfold any_F23 in HA.
  pose proof (existsb_false_all _ _ _ p HA Hin) as Hx. cbv beta in Hx. rewrite H in Hx. exact Hx.
Qed.

Lemma obj_addr_meets_spec_lemma : forall ef bias m a,
  any_F23 ef bias m a = false ->
  spec_obj_addr ef bias m a (obj_addr (Some m) true ef a) = true /\
  spec_obj_addr_live ef bias m a (obj_addr (Some m) true ef a) = true.
Proof.
  intros ef bias m a HA. split.
  - unfold spec_obj_addr.
    destruct (existsb (fun p => loaded_at ef bias m a p) (e_progs ef)) eqn:Ee; [|reflexivity].
    apply existsb_exists in Ee. destruct Ee as (p & Hin & H).
    pose proof (not_F23_of_any _ _ _ _ _ HA Hin H) as HF.
    unfold res_is_bias. destruct (obj_addr (Some m) true ef a) as [v|e] eqn:Ev; [|reflexivity].
    apply Z.eqb_eq. eapply user_base_is_bias_lemma; eauto.
  - unfold spec_obj_addr_live.
    destruct (existsb (fun p => loaded_at ef bias m a p && sole_owner ef p bias a) (e_progs ef)) eqn:Ee; [|reflexivity].
    apply existsb_exists in Ee. destruct Ee as (p & Hin & H).
    apply andb_true_iff in H. destruct H as [H Hs].
    pose proof (not_F23_of_any _ _ _ _ _ HA Hin H) as HF.
    rewrite (identified_owner_succeeds_lemma _ _ _ _ _ Hin H HF Hs). reflexivity.
Qed.

Lemma combine_map_forallb : forall (A B : Type) (f : A -> B) (P : A * B -> bool) (l : list A),
  (forall x, In x l -> P (x, f x) = true) -> forallb P (combine l (map f l)) = true.
Proof.
  intros A B f P l. induction l as [|x l IH]; intros H; cbn [map combine forallb]; [reflexivity|].
  rewrite (H x (or_introl eq_refl)). cbn [andb]. apply IH. intros y Hy. apply H. right. exact Hy.
Qed.

Lemma obj_addr_seq_meets_spec_lemma : forall ef bias m addrs,
  match addrs with a0 :: _ => any_F23 ef bias m a0 = false | [] => True end ->
  spec_obj_addr_seq ef bias m addrs (obj_addr_seq (Some m) true ef addrs) = true.
Proof.
  intros ef bias m addrs HA. destruct addrs as [|a0 rest]; [reflexivity|].
  unfold spec_obj_addr_seq, obj_addr_seq. cbn [map].
  destruct (existsb (fun p => loaded_at ef bias m a0 p) (e_progs ef)) eqn:Ee; [|reflexivity].
  apply existsb_exists in Ee. destruct Ee as (p & Hin & H).
  pose proof (not_F23_of_any _ _ _ _ _ HA Hin H) as HF.
  cbn [List.length]. rewrite map_length, Nat.eqb_refl. cbn [andb].
  destruct (compute_base_owner _ _ _ _ _ H Hin HF) as [Hok|[e He]].
  - rewrite Hok. cbn [obj_addr_with].
    change (Ok (usub a0 bias) :: map (obj_addr_with (Ok (bias, negb (ph_exec p)))) rest)
      with (map (obj_addr_with (Ok (bias, negb (ph_exec p)))) (a0 :: rest)).
    apply combine_map_forallb. intros x _. cbn [fst snd obj_addr_with].
    destruct ((bias <=? x) && (x <? two64)) eqn:Ex; [|reflexivity].
    apply Z.eqb_eq. eapply usub_bias; eauto. lia.
  - rewrite He. cbn [obj_addr_with forallb andb].
    apply forallb_forall. intros r Hr. apply in_map_iff in Hr. destruct Hr as (x & Hx & _). subst r. reflexivity.
Qed.

(* ---------------- the loader model itself: an own file byte is mapped from its file offset ---------------- *)
Lemma image_maps_file_offsets_lemma : forall p bias a,
  seg_okb p = true -> load_okb p bias = true ->
  bias + ph_vaddr p <= a < bias + ph_vaddr p + ph_filesz p ->
  in_map (image p bias) a = true /\
  em_offset (image p bias) + (a - em_start (image p bias)) = ph_off p + (a - (bias + ph_vaddr p)).
Proof.
  intros p bias a Hs Hl Ha.
  unfold seg_okb, load_okb, in_map, image in *. cbn [em_start em_limit em_offset].
  unfold align_up, align_down, page in *. change (4096 - 1) with 4095 in *.
  pose proof (Z.mod_pos_bound (ph_vaddr p) 4096 ltac:(lia)) as Hr.
  pose proof (Z.mod_pos_bound (ph_vaddr p + ph_filesz p + 4095) 4096 ltac:(lia)) as Hf.
  assert (Ho : ph_off p mod 4096 = ph_vaddr p mod 4096) by lia.
  rewrite Ho. split; lia.
Qed.

(* a piece of an image is one of the mappings [load] produces, restricted *)
Lemma image_in_load : forall ef bias p,
  In p (e_progs ef) -> seg_okb p = true -> In (image p bias) (load ef bias).
Proof.
  intros ef bias p Hin Hs. unfold load. apply in_map_iff. exists p. split; [reflexivity|].
  apply filter_In. split; [exact Hin|]. unfold seg_okb, loadable in *. lia.
Qed.

(* ---------------- F23 and the padding hypothesis: concrete witnesses ---------------- *)
Definition f23_elf : elf :=
  {| e_type := ET_DYN;
     e_progs := [{| ph_type := PT_LOAD; ph_flags := 5; ph_off := 0; ph_vaddr := 0; ph_filesz := 12288; ph_memsz := 12288 |}];
     e_sections := [] |}.
Definition f23_seg : phdr := {| ph_type := PT_LOAD; ph_flags := 5; ph_off := 0; ph_vaddr := 0; ph_filesz := 12288; ph_memsz := 12288 |}.
Definition f23_map : emap := {| em_start := 4096; em_limit := 12288; em_offset := 4096; em_koff := None |}.

Lemma user_base_is_bias_refuted_lemma :
  exists ef bias m a p v,
    In p (e_progs ef) /\ loaded_at ef bias m a p = true /\ in_F23 ef p bias m = true /\
    obj_addr (Some m) true ef a = Ok v /\ v <> a - bias.
Proof.
  exists f23_elf, 0, f23_map, 6144, f23_seg, 2048.
  split; [left; reflexivity|]. split; [vm_compute; reflexivity|]. split; [vm_compute; reflexivity|].
  split; [vm_compute; reflexivity|]. discriminate.
Qed.

(* tiny exec file of binutils_test.go loaded at 0x5000000: text [0,0xc80), data at 0x200c80 off 0xc80.
   The data mapping [0x5200000,0x5201000) offset 0 contains, below 0x5200c80, a copy of the text bytes
   (page padding).  Asked about such an address first, the file selects the TEXT header. *)
Definition pad_elf : elf :=
  {| e_type := ET_DYN;
     e_progs := [{| ph_type := PT_LOAD; ph_flags := 5; ph_off := 0; ph_vaddr := 0; ph_filesz := 3200; ph_memsz := 3200 |};
                 {| ph_type := PT_LOAD; ph_flags := 6; ph_off := 3200; ph_vaddr := 2100352; ph_filesz := 496; ph_memsz := 496 |}];
     e_sections := [] |}.
Definition pad_seg : phdr := {| ph_type := PT_LOAD; ph_flags := 6; ph_off := 3200; ph_vaddr := 2100352; ph_filesz := 496; ph_memsz := 496 |}.
Definition pad_map : emap := {| em_start := 85983232; em_limit := 85987328; em_offset := 0; em_koff := None |}.

Lemma own_bytes_hypothesis_needed_lemma :
  exists ef bias m a p v,
    In p (e_progs ef) /\ user_elfb ef = true /\ seg_okb p = true /\ load_okb p bias = true /\
    pieceb m (image p bias) = true /\ in_map m a = true /\ ownb p bias a = false /\
    in_F23 ef p bias m = false /\
    obj_addr (Some m) true ef a = Ok v /\ v <> a - bias.
Proof.
  exists pad_elf, 83886080, pad_map, 85983232, pad_seg, 0.
  split; [right; left; reflexivity|].
  repeat (split; [vm_compute; reflexivity|]). discriminate.
Qed.

Lemma mapping_is_piece_of_load_lemma : forall ef bias m a p,
  In p (e_progs ef) -> loaded_at ef bias m a p = true ->
  exists img, In img (load ef bias) /\ pieceb m img = true.
Proof.
  intros ef bias m a p Hin H. exists (image p bias).
  unfold loaded_at in H.
  repeat (apply andb_true_iff in H; destruct H as [H ?]).
  split; [apply image_in_load; assumption | assumption].
Qed.

(* ---------------- ProgramHeadersForMapping does not depend on the order of the table ---------------- *)
From Coq Require Import Permutation.

Lemma phm_membership_lemma : forall phdrs mapOff mapSz p,
  In p (program_headers_for_mapping phdrs mapOff mapSz) <-> In p phdrs /\ phm_keep mapOff mapSz p = true.
Proof. intros. unfold program_headers_for_mapping. apply filter_In. Qed.

Lemma filter_permutation : forall (A : Type) (f : A -> bool) (l l' : list A),
  Permutation l l' -> Permutation (filter f l) (filter f l').
Proof.
  intros A f l l' H. induction H as [|x l l' H IH|x y l|l l' l'' H1 IH1 H2 IH2]; cbn [filter].
  - constructor.
  - destruct (f x); [constructor|]; exact IH.
  - destruct (f x); destruct (f y); try constructor; apply Permutation_refl.
  - eapply Permutation_trans; eassumption.
Qed.

Lemma phm_permutation_lemma : forall phdrs phdrs' mapOff mapSz,
  Permutation phdrs phdrs' ->
  Permutation (program_headers_for_mapping phdrs mapOff mapSz) (program_headers_for_mapping phdrs' mapOff mapSz).
Proof. intros. unfold program_headers_for_mapping. apply filter_permutation. assumption. Qed.
