(* Executable model of internal/symbolizer/symbolizer.go (Symbolizer.Symbolize, doLocalSymbolize,
   symbolizeOneMapping, Demangle, demangleSingleFunction, looksLikeDemangledCPlusPlus,
   removeMatching) and internal/symbolz/symbolz.go (Symbolize, symbolizeMapping, adjust), as the
   code is in /repo NOW (after the repairs of F12: new function ids = max existing id + 1, and F13:
   the demangle heuristic keeps the name when stripping would empty it).

   External behaviour is a parameter:
   - plugin.ObjTool / plugin.ObjFile and the symbolz HTTP POST: ONE answer script ([list answer]),
     consumed positionally, one answer per call (Open, BuildID, SourceLine, POST), arbitrary,
     including an error at any call; an exhausted script answers "error".  Every call made is logged.
   - demangle.Filter: an arbitrary function [string -> string -> string] (demangler mode, name).
   - net/url based tests: [http : string -> bool] (mapping file is an absolute http(s) URL) and
     [symz : string -> string] (symbolz.symbolz: profile source URL |-> symbol service URL, "" = none).
   Pointers are ids (M_Profile.v); the map from *Mapping to its locations is "locations whose
   mapping id is m's id" (faithful for valid profiles: CheckValid makes ids and pointers agree).
   No proofs in this file. *)
From PV Require Export M_Profile.
Open Scope Z_scope.

(* ------------------------------------------------------------------ generic *)
Section MapAcc.
  Context {St A B : Type}.
  Variable f : St -> A -> St * B.
  (* for-range loop that rewrites each element in place while threading a state *)
  Fixpoint mapacc (s : St) (l : list A) : St * list B :=
    match l with
    | [] => (s, [])
    | a :: r =>
        let sb := f s a in
        let rb := mapacc (fst sb) r in
        (fst rb, snd sb :: snd rb)
    end.
End MapAcc.

Definition is_nil {A} (l : list A) : bool := match l with [] => true | _ => false end.
Definition str_empty (s : string) : bool := match s with EmptyString => true | _ => false end.

(* ------------------------------------------------------------------ strings *)
Fixpoint contains_sub (sub s : string) : bool :=
  has_prefix sub s || match s with EmptyString => false | String _ r => contains_sub sub r end.

Fixpoint split_on_acc (c : ascii) (s : string) (cur_rev : string) : list string :=
  match s with
  | EmptyString => [rev_string cur_rev]
  | String a r => if Ascii.eqb a c then rev_string cur_rev :: split_on_acc c r EmptyString
                  else split_on_acc c r (String a cur_rev)
  end.
(* strings.Split(s, ":") : always at least one piece *)
Definition split_on (c : ascii) (s : string) : list string := split_on_acc c s EmptyString.

Definition slash : ascii := "/"%char.
Fixpoint drop_slashes (s : string) : string :=
  match s with String a r => if Ascii.eqb a slash then drop_slashes r else s | EmptyString => EmptyString end.
Fixpoint take_to_slash (s : string) : string :=
  match s with String a r => if Ascii.eqb a slash then EmptyString else String a (take_to_slash r) | EmptyString => EmptyString end.
(* path/filepath.Base on a Unix path *)
Definition path_base (p : string) : string :=
  if str_empty p then "." else
  let r := drop_slashes (rev_string p) in
  if str_empty r then "/" else rev_string (take_to_slash r).

(* ------------------------------------------------------------------ the oracle *)
Record frame := { fr_func : string; fr_file : string; fr_line : Z; fr_col : Z; fr_start : Z }.
Record answer := { a_err : bool; a_bid : string; a_frames : list frame; a_body : string }.
Inductive call :=
| COpen (file : string) (start limit offset : Z)
| CBuildID
| CSourceLine (addr : Z)
| CPost (source query : string).
Record oracle := { o_script : list answer; o_log : list call (* most recent first *) }.
Definition default_answer : answer := {| a_err := true; a_bid := ""; a_frames := []; a_body := "" |}.
Definition ask (o : oracle) (c : call) : answer * oracle :=
  match o_script o with
  | [] => (default_answer, {| o_script := []; o_log := c :: o_log o |})
  | a :: r => (a, {| o_script := r; o_log := c :: o_log o |})
  end.

(* ------------------------------------------------------------------ mode parsing (symbolizer.go:50-78) *)
Record modeopts := { mo_none : bool; mo_remote : bool; mo_local : bool; mo_fast : bool; mo_force : bool; mo_dmode : string }.
Definition mode_default : modeopts :=
  {| mo_none := false; mo_remote := true; mo_local := true; mo_fast := false; mo_force := false; mo_dmode := "" |}.

Fixpoint parse_opts (os : list string) (m : modeopts) : modeopts :=
  match os with
  | [] => m
  | o :: r =>
      if String.eqb o "" then parse_opts r m
      else if String.eqb o "none" || String.eqb o "no" then
        {| mo_none := true; mo_remote := mo_remote m; mo_local := mo_local m; mo_fast := mo_fast m; mo_force := mo_force m; mo_dmode := mo_dmode m |}
      else if String.eqb o "local" then
        parse_opts r {| mo_none := false; mo_remote := false; mo_local := true; mo_fast := mo_fast m; mo_force := mo_force m; mo_dmode := mo_dmode m |}
      else if String.eqb o "fastlocal" then
        parse_opts r {| mo_none := false; mo_remote := false; mo_local := true; mo_fast := true; mo_force := mo_force m; mo_dmode := mo_dmode m |}
      else if String.eqb o "remote" then
        parse_opts r {| mo_none := false; mo_remote := true; mo_local := false; mo_fast := mo_fast m; mo_force := mo_force m; mo_dmode := mo_dmode m |}
      else if String.eqb o "force" then
        parse_opts r {| mo_none := false; mo_remote := mo_remote m; mo_local := mo_local m; mo_fast := mo_fast m; mo_force := true; mo_dmode := mo_dmode m |}
      else
        (* strings.TrimPrefix(o, "demangle="): the bare words full/templates/default are accepted too *)
        let d := trim_prefix "demangle=" o in
        if String.eqb d "full" || String.eqb d "none" || String.eqb d "templates" then
          parse_opts r {| mo_none := false; mo_remote := mo_remote m; mo_local := mo_local m; mo_fast := mo_fast m; mo_force := true; mo_dmode := d |}
        else parse_opts r m   (* "default": continue; anything else: two PrintErr lines, then continue *)
  end.
Definition parse_mode (mode : string) : modeopts := parse_opts (split_on ":"%char (to_lower mode)) mode_default.

(* ------------------------------------------------------------------ record updates *)
Definition set_flags (m : mapping) (fn fl ln inl : bool) : mapping :=
  {| m_id := m_id m; m_start := m_start m; m_limit := m_limit m; m_offset := m_offset m; m_file := m_file m;
     m_buildid := m_buildid m; m_hasfn := fn; m_hasfile := fl; m_hasline := ln; m_hasinline := inl |}.
Definition set_lines (l : location) (ls : list line) (folded : bool) : location :=
  {| l_id := l_id l; l_mapping := l_mapping l; l_addr := l_addr l; l_lines := ls; l_folded := folded |}.
Definition set_name (f : function) (n : string) : function :=
  {| f_id := f_id f; f_name := n; f_sysname := f_sysname f; f_file := f_file f; f_startline := f_startline f |}.
Definition mk_function (id : Z) (name sys file : string) (start : Z) : function :=
  {| f_id := id; f_name := name; f_sysname := sys; f_file := file; f_startline := start |}.

Definition max_fid (fs : list function) : Z := fold_left (fun a f => Z.max a (f_id f)) fs 0.

(* ------------------------------------------------------------------ local symbolization *)
(* the [functions] map of doLocalSymbolize is keyed by the Function VALUE with ID 0 *)
Definition fn_same (f g : function) : bool :=
  String.eqb (f_name f) (f_name g) && String.eqb (f_sysname f) (f_sysname g) &&
  String.eqb (f_file f) (f_file g) && (f_startline f =? f_startline g).

(* state while one mapping is symbolized: the mapping (its flags change), the functions added so
   far by this doLocalSymbolize call, maxID, the oracle *)
Record lst := { q_m : mapping; q_new : list function; q_max : Z; q_orc : oracle }.

Definition add_function (new : list function) (maxid : Z) (f : function) : list function * Z * Z :=
  match find (fn_same f) new with
  | Some g => (new, maxid, f_id g)
  | None => let id := wrap_u64 (maxid + 1) in
            ((new ++ [mk_function id (f_name f) (f_sysname f) (f_file f) (f_startline f)])%list, id, id)
  end.

Definition sym_frame (s : lst) (fr : frame) : lst * line :=
  let m := q_m s in
  let m' := set_flags m (m_hasfn m || negb (str_empty (fr_func fr)))
                        (m_hasfile m || negb (str_empty (fr_file fr)))
                        (m_hasline m || negb (fr_line fr =? 0))
                        (m_hasinline m) in
  let r := add_function (q_new s) (q_max s) (mk_function 0 (fr_func fr) (fr_func fr) (fr_file fr) (fr_start fr)) in
  ({| q_m := m'; q_new := fst (fst r); q_max := snd (fst r); q_orc := q_orc s |},
   {| ln_fn := snd r; ln_line := fr_line fr; ln_col := fr_col fr |}).

(* body of the loop of symbolizeOneMapping, for every location of the profile in order; the
   locations of other mappings are passed over *)
Definition sym_loc (s : lst) (l : location) : lst * location :=
  if negb (l_mapping l =? m_id (q_m s)) then (s, l) else
  let ao := ask (q_orc s) (CSourceLine (l_addr l)) in
  let s1 := {| q_m := q_m s; q_new := q_new s; q_max := q_max s; q_orc := snd ao |} in
  if a_err (fst ao) || is_nil (a_frames (fst ao)) then (s1, l) else
  let r := mapacc sym_frame s1 (a_frames (fst ao)) in
  let s2 := fst r in
  let m := q_m s2 in
  ({| q_m := set_flags m (m_hasfn m) (m_hasfile m) (m_hasline m) true; q_new := q_new s2; q_max := q_max s2; q_orc := q_orc s2 |},
   set_lines l (snd r) false).

(* Mapping.Unsymbolizable (profile/profile.go:853) *)
Definition unsymbolizable (m : mapping) : bool :=
  let name := path_base (m_file m) in
  has_prefix "[" name || has_prefix "linux-vdso" name || has_prefix "/dev/dri/" (m_file m) || String.eqb (m_file m) "//anon".

(* state of the loop over mappings *)
Record gst := { g_locs : list location; g_new : list function; g_max : Z; g_orc : oracle }.

Definition local_mapping (force : bool) (http : string -> bool) (g : gst) (m : mapping) : gst * mapping :=
  if negb (existsb (fun l => l_mapping l =? m_id m) (g_locs g)) then (g, m)        (* dangling *)
  else if negb force && (m_hasfn m || m_hasfile m || m_hasline m) then (g, m)       (* already symbolized *)
  else if str_empty (m_file m) then (g, m)
  else if unsymbolizable m then (g, m)
  else if str_empty (m_buildid m) && http (m_file m) then (g, m)
  else
    let ao := ask (g_orc g) (COpen (m_file m) (m_start m) (m_limit m) (m_offset m)) in
    if a_err (fst ao) then ({| g_locs := g_locs g; g_new := g_new g; g_max := g_max g; g_orc := snd ao |}, m)
    else
      let bo := ask (snd ao) CBuildID in
      let fid := a_bid (fst bo) in
      if negb (str_empty (m_buildid m)) && negb (str_empty fid) && negb (String.eqb fid (m_buildid m))
      then ({| g_locs := g_locs g; g_new := g_new g; g_max := g_max g; g_orc := snd bo |}, m)
      else
        let r := mapacc sym_loc {| q_m := m; q_new := g_new g; q_max := g_max g; q_orc := snd bo |} (g_locs g) in
        ({| g_locs := snd r; g_new := q_new (fst r); g_max := q_max (fst r); g_orc := q_orc (fst r) |}, q_m (fst r)).

(* working state of Symbolize between the phases *)
Record wst := { w_maps : list mapping; w_locs : list location; w_funs : list function; w_orc : oracle }.

Definition local_symbolize (force : bool) (http : string -> bool) (w : wst) : wst :=
  let r := mapacc (local_mapping force http)
                  {| g_locs := w_locs w; g_new := []; g_max := max_fid (w_funs w); g_orc := w_orc w |} (w_maps w) in
  {| w_maps := snd r; w_locs := g_locs (fst r); w_funs := (w_funs w ++ g_new (fst r))%list; w_orc := g_orc (fst r) |}.

(* ------------------------------------------------------------------ symbolz *)
(* adjust (symbolz.go:193): uint64(int64(addr) + offset) with the code's overflow tests *)
Definition adjust (addr offset : Z) : option Z :=
  let adj := wrap_u64 (wrap_i64 (wrap_i64 addr + offset)) in
  if offset <? 0 then (if addr <=? adj then None else Some adj)
  else (if adj <? addr then None else Some adj).

Definition hex_digit (d : Z) : ascii :=
  match String.get (Z.to_nat d) "0123456789abcdef" with Some c => c | None => "f"%char end.
Fixpoint hex_go (fuel : nat) (z : Z) (acc : string) : string :=
  match fuel with
  | O => acc
  | Datatypes.S k => let acc' := String (hex_digit (z mod 16)) acc in
                     if z / 16 =? 0 then acc' else hex_go k (z / 16) acc'
  end.
(* fmt.Sprintf("%#x", uint64) *)
Definition hex_of (z : Z) : string := "0x" ++ hex_go 16 z "".

Definition is_xdigit (a : ascii) : bool :=
  let n := N_of_ascii a in
  ((48 <=? n) && (n <=? 57) || (65 <=? n) && (n <=? 70) || (97 <=? n) && (n <=? 102))%N.
Definition xdigit_val (a : ascii) : Z :=
  let n := Z.of_N (N_of_ascii a) in
  if n <=? 57 then n - 48 else if n <=? 70 then n - 55 else n - 87.
(* RE2 \s = [\t\n\f\r ] *)
Definition is_ws (a : ascii) : bool :=
  let n := N_of_ascii a in ((n =? 9) || (n =? 10) || (n =? 12) || (n =? 13) || (n =? 32))%N.

Fixpoint span_xdigits (s : string) : string * string :=
  match s with
  | String a r => if is_xdigit a then let p := span_xdigits r in (String a (fst p), snd p) else (EmptyString, s)
  | EmptyString => (EmptyString, EmptyString)
  end.
Fixpoint drop_ws (s : string) : string :=
  match s with String a r => if is_ws a then drop_ws r else s | EmptyString => EmptyString end.

(* symbolzRE = (0x[[:xdigit:]]+) \s+ ( .* ) applied to the line plus its newline (the line has none inside):
   a match starting exactly here.  The digit run must be maximal (a shorter run is followed by a
   digit, not by space); \s+ is greedy and may swallow the final newline; the name group stops before it. *)
Definition match_here (s : string) : option (string * string) :=
  if has_prefix "0x" s then
    let p := span_xdigits (drop 2 s) in
    if str_empty (fst p) then None else
    match snd p with
    | EmptyString => Some (fst p, EmptyString)            (* the newline is the \s+ *)
    | String c _ => if is_ws c then Some (fst p, drop_ws (snd p)) else None
    end
  else None.
(* FindStringSubmatch: leftmost match *)
Fixpoint match_symbolz (s : string) : option (string * string) :=
  match match_here s with
  | Some x => Some x
  | None => match s with String _ r => match_symbolz r | EmptyString => None end
  end.

Fixpoint hex_val (s : string) (acc : Z) : Z :=
  match s with String a r => hex_val r (acc * 16 + xdigit_val a) | EmptyString => acc end.

(* bytes.Buffer.ReadString('\n') until EOF: the complete lines; an unterminated tail is dropped *)
Fixpoint body_lines (s : string) (cur_rev : string) : list string :=
  match s with
  | EmptyString => []
  | String a r => if Ascii.eqb a "010"%char then rev_string cur_rev :: body_lines r EmptyString
                  else body_lines r (String a cur_rev)
  end.

(* state while a symbolz answer is parsed: functions by name (this call), p.Function, maxID, lines by address *)
Record pst := { ps_names : list (string * Z); ps_funs : list function; ps_max : Z; ps_lines : list (Z * Z) }.

Definition parse_line (offset : Z) (s : pst) (l : string) : option pst :=   (* None = error return *)
  match match_symbolz l with
  | None => Some s
  | Some (digs, name) =>
      let orig := hex_val digs 0 in
      if two64 <=? orig then None                                    (* strconv.ParseUint: value out of range *)
      else match adjust orig (wrap_i64 (- offset)) with
      | None => None
      | Some addr =>
          match find (fun e => String.eqb (fst e) name) (ps_names s) with
          | Some e => Some {| ps_names := ps_names s; ps_funs := ps_funs s; ps_max := ps_max s;
                              ps_lines := (addr, snd e) :: ps_lines s |}
          | None => let id := wrap_u64 (ps_max s + 1) in
                    Some {| ps_names := (name, id) :: ps_names s;
                            ps_funs := (ps_funs s ++ [mk_function id name name "" 0])%list;
                            ps_max := id; ps_lines := (addr, id) :: ps_lines s |}
          end
      end
  end.

(* the read loop; on an error the functions appended so far stay in the profile *)
Fixpoint parse_lines (offset : Z) (s : pst) (ls : list string) : pst * bool :=
  match ls with
  | [] => (s, false)
  | l :: r => match parse_line offset s l with
              | None => (s, true)
              | Some s' => parse_lines offset s' r
              end
  end.

Fixpoint query_addrs (mid offset : Z) (locs : list location) : option (list string) :=
  match locs with
  | [] => Some []
  | l :: r =>
      if (l_mapping l =? mid) && negb (l_addr l =? 0) && is_nil (l_lines l) then
        match adjust (l_addr l) offset with
        | None => None
        | Some a => match query_addrs mid offset r with None => None | Some q => Some (hex_of a :: q) end
        end
      else query_addrs mid offset r
  end.

Definition apply_line (mid : Z) (lines : list (Z * Z)) (l : location) : location :=
  if l_mapping l =? mid then
    match find (fun e => fst e =? l_addr l) lines with
    | Some e => set_lines l [{| ln_fn := snd e; ln_line := 0; ln_col := 0 |}] (l_folded l)
    | None => l
    end
  else l.

Record rst := { r_locs : list location; r_funs : list function; r_orc : oracle; r_err : bool }.

(* symbolizeMapping (symbolz.go:104) *)
Definition symbolize_mapping (source : string) (offset : Z) (m : mapping) (s : rst) : rst :=
  match query_addrs (m_id m) offset (r_locs s) with
  | None => {| r_locs := r_locs s; r_funs := r_funs s; r_orc := r_orc s; r_err := true |}
  | Some [] => s
  | Some q =>
      let ao := ask (r_orc s) (CPost source (concat_with "+" q)) in
      if a_err (fst ao) then {| r_locs := r_locs s; r_funs := r_funs s; r_orc := snd ao; r_err := true |}
      else
        let pr := parse_lines offset {| ps_names := []; ps_funs := r_funs s; ps_max := max_fid (r_funs s); ps_lines := [] |}
                              (body_lines (a_body (fst ao)) EmptyString) in
        if snd pr then {| r_locs := r_locs s; r_funs := ps_funs (fst pr); r_orc := snd ao; r_err := true |}
        else {| r_locs := map (apply_line (m_id m) (ps_lines (fst pr))) (r_locs s); r_funs := ps_funs (fst pr);
                r_orc := snd ao; r_err := false |}
  end.

Definition sources_t := list (string * list (string * Z)).
Definition lookup_sources (srcs : sources_t) (k : string) : list (string * Z) :=
  match find (fun e => String.eqb (fst e) k) srcs with Some e => snd e | None => [] end.

(* body of the loop of symbolz.Symbolize; after an error return nothing more happens *)
Definition remote_mapping (force : bool) (srcs : sources_t) (symz : string -> string) (s : rst) (m : mapping) : rst * mapping :=
  if r_err s then (s, m)
  else if negb force && m_hasfn m then (s, m)
  else
    let ms := (lookup_sources srcs (m_file m) ++ (if str_empty (m_buildid m) then [] else lookup_sources srcs (m_buildid m)))%list in
    match find (fun e => negb (str_empty (symz (fst e)))) ms with
    | None => (s, m)
    | Some e =>
        let s' := symbolize_mapping (symz (fst e)) (wrap_i64 (wrap_i64 (snd e) - wrap_i64 (m_start m))) m s in
        if r_err s' then (s', m)
        else (s', set_flags m true (m_hasfile m) (m_hasline m) (m_hasinline m))
    end.

Definition remote_symbolize (force : bool) (srcs : sources_t) (symz : string -> string) (w : wst) : wst * bool :=
  let r := mapacc (remote_mapping force srcs symz)
                  {| r_locs := w_locs w; r_funs := w_funs w; r_orc := w_orc w; r_err := false |} (w_maps w) in
  ({| w_maps := snd r; w_locs := r_locs (fst r); w_funs := r_funs (fst r); w_orc := r_orc (fst r) |}, r_err (fst r)).

(* ------------------------------------------------------------------ demangling *)
Inductive dopt := NoParams | NoEnclosingParams | NoTemplateParams | NoClones.

(* demanglerModeToOptions; None = panic("unknown demanglerMode") *)
Definition options_of_mode (d : string) : option (list dopt) :=
  if String.eqb d "" then Some [NoParams; NoEnclosingParams; NoTemplateParams]
  else if String.eqb d "templates" then Some [NoParams; NoEnclosingParams]
  else if String.eqb d "full" then Some [NoClones]
  else if String.eqb d "none" then Some []
  else None.

Definition looks_like_demangled (s : string) : bool :=
  if contains_sub ".<" s then false
  else if contains_sub "])." s then false
  else contains_char "<"%char s || contains_char ">"%char s || contains_char "["%char s || contains_char "]"%char s
       || contains_sub "::" s.

(* removeMatching as a left-to-right scanner: [kept_rev] = the bytes that stay for sure, [pend_rev]
   = the bytes since the currently open outermost [start] (dropped when it is closed, kept when it
   never is).  A closing byte at nesting 0 aborts and returns the name as rewritten so far. *)
Fixpoint remove_matching_go (s : string) (st en : ascii) (nesting : nat) (kept_rev pend_rev : string) : string :=
  match s with
  | EmptyString => rev_string (pend_rev ++ kept_rev)
  | String c r =>
      match nesting with
      | O =>
          if Ascii.eqb c st then remove_matching_go r st en 1%nat kept_rev (String c EmptyString)
          else if Ascii.eqb c en then rev_string kept_rev ++ s
          else remove_matching_go r st en O (String c kept_rev) EmptyString
      | Datatypes.S n =>
          if Ascii.eqb c st then remove_matching_go r st en (Datatypes.S nesting) kept_rev (String c pend_rev)
          else if Ascii.eqb c en then
            match n with
            | O => remove_matching_go r st en O kept_rev EmptyString
            | _ => remove_matching_go r st en n kept_rev (String c pend_rev)
            end
          else remove_matching_go r st en nesting kept_rev (String c pend_rev)
      end
  end.
Definition remove_matching (name : string) (st en : ascii) : string :=
  remove_matching_go name st en O EmptyString EmptyString.

Definition apply_opt (name : string) (o : dopt) : string :=
  match o with
  | NoParams => remove_matching name "("%char ")"%char
  | NoTemplateParams => remove_matching name "<"%char ">"%char
  | _ => name
  end.

(* THE repaired piece (F13): an emptied name is put back *)
Definition heuristic_name (sys : string) (opts : list dopt) : string :=
  if looks_like_demangled sys then
    let name := fold_left apply_opt opts sys in
    if str_empty name then sys else name
  else sys.

(* demangleSingleFunction; [filt] = demangle.Filter with the options of the mode *)
Definition demangle_single (filt : string -> string) (opts : list dopt) (f : function) : function :=
  if negb (str_empty (f_name f)) && negb (String.eqb (f_sysname f) (f_name f)) then f
  else
    let d := filt (f_sysname f) in
    if negb (String.eqb d (f_sysname f)) then set_name f d
    else
      let tail := drop 1 (f_sysname f) in
      if has_prefix "_" (f_sysname f) && negb (String.eqb (filt tail) tail) then set_name f (filt tail)
      else set_name f (heuristic_name (f_sysname f) opts).

Definition force_reset (f : function) : function :=
  if negb (str_empty (f_name f)) && negb (str_empty (f_sysname f)) then set_name f (f_sysname f) else f.

(* Demangle; None = panic *)
Definition demangle (filt : string -> string -> string) (force : bool) (dmode : string) (fs : list function)
  : option (list function) :=
  let fs1 := if force then map force_reset fs else fs in
  match options_of_mode dmode with
  | None => None
  | Some [] => Some fs1
  | Some opts => Some (map (demangle_single (filt dmode) opts) fs1)
  end.

(* ------------------------------------------------------------------ Symbolizer.Symbolize *)
Record env := {
  e_http : string -> bool;            (* mapping file parses as an absolute URL whose scheme contains "http" *)
  e_symz : string -> string;          (* symbolz.symbolz *)
  e_filt : string -> string -> string; (* demangler mode, name |-> demangle.Filter(name, options of the mode) *)
  e_srcs : sources_t
}.

Inductive result :=
| Res (w : wst) (err : bool)
| Panic.

Definition symbolize_w (mode : string) (e : env) (w : wst) : result :=
  let mo := parse_mode mode in
  if mo_none mo then Res w false else
  let w1 := if mo_local mo then local_symbolize (mo_force mo) (e_http e) w else w in
  let re := if mo_remote mo then remote_symbolize (mo_force mo) (e_srcs e) (e_symz e) w1 else (w1, false) in
  if snd re then Res (fst re) true
  else
    let w2 := fst re in
    match demangle (e_filt e) (mo_force mo) (mo_dmode mo) (w_funs w2) with
    | None => Panic
    | Some fs => Res {| w_maps := w_maps w2; w_locs := w_locs w2; w_funs := fs; w_orc := w_orc w2 |} false
    end.

Definition with_w (p : profile) (w : wst) : profile :=
  {| p_sampletype := p_sampletype p; p_defaultsampletype := p_defaultsampletype p; p_sample := p_sample p;
     p_mapping := w_maps w; p_location := w_locs w; p_function := w_funs w; p_comments := p_comments p;
     p_docurl := p_docurl p; p_dropframes := p_dropframes p; p_keepframes := p_keepframes p;
     p_timenanos := p_timenanos p; p_durationnanos := p_durationnanos p; p_periodtype := p_periodtype p;
     p_period := p_period p |}.

Definition w_of (p : profile) (script : list answer) : wst :=
  {| w_maps := p_mapping p; w_locs := p_location p; w_funs := p_function p;
     w_orc := {| o_script := script; o_log := [] |} |}.

(* observable outcome: profile after the call (p is changed in place, also when an error is
   returned), the error flag, the calls made (in order) *)
Inductive outcome :=
| Out (p : profile) (err : bool) (calls : list call)
| OPanic.

Definition symbolize (mode : string) (e : env) (script : list answer) (p : profile) : outcome :=
  match symbolize_w mode e (w_of p script) with
  | Res w err => Out (with_w p w) err (rev (o_log (w_orc w)))
  | Panic => OPanic
  end.

(* ------------------------------------------------------------------ Profile.CheckValid (profile/profile.go:361) *)
Fixpoint nodup_z (l : list Z) : bool :=
  match l with [] => true | a :: r => negb (existsb (Z.eqb a) r) && nodup_z r end.
Definition ids_ok (ids : list Z) : bool := forallb (fun i => negb (i =? 0)) ids && nodup_z ids.
Definition mem_z (x : Z) (l : list Z) : bool := existsb (Z.eqb x) l.

Definition samples_ok (p : profile) : bool :=
  negb (is_nil (p_sampletype p) && negb (is_nil (p_sample p))) &&
  forallb (fun s => (List.length (s_val s) =? List.length (p_sampletype p))%nat && forallb (fun l => negb (l =? 0)) (s_loc s)) (p_sample p).

Definition loc_ok (mids fids : list Z) (l : location) : bool :=
  ((l_mapping l =? 0) || mem_z (l_mapping l) mids) &&
  forallb (fun ln => negb (ln_fn ln =? 0) && mem_z (ln_fn ln) fids) (l_lines l).

Definition check_valid (p : profile) : bool :=
  samples_ok p &&
  ids_ok (map m_id (p_mapping p)) && ids_ok (map f_id (p_function p)) && ids_ok (map l_id (p_location p)) &&
  forallb (loc_ok (map m_id (p_mapping p)) (map f_id (p_function p))) (p_location p).
