(* Lemmas and proofs for C14. *)
From Coq Require Import Lia ZifyBool.
From PV Require Import M_LegacyDoc S_Legacy.
Open Scope Z_scope.

(* ------------------------------------------------------------------ signal-frame uniqueness *)
Lemma filter_disjoint_length {A} (f g : A -> bool) (l : list A) :
  (forall x, f x = true -> g x = true -> False) ->
  (List.length (filter f l) + List.length (filter g l) <= List.length l)%nat.
Proof.
  intros Hd. induction l as [|x l IH]; cbn [filter List.length]; [lia|].
  destruct (f x) eqn:Ef; destruct (g x) eqn:Eg; cbn [List.length]; try lia.
  exfalso. exact (Hd x Ef Eg).
Qed.

Lemma has_second_inj a b s : has_second a s = true -> has_second b s = true -> a = b.
Proof.
  unfold has_second. destruct (second_addr s) as [c|]; [|discriminate].
  intros H1 H2. apply Z.eqb_eq in H1. apply Z.eqb_eq in H2. congruence.
Qed.

Lemma signal_frame_unique_lemma : forall ss a b,
  ss <> [] -> qualifies ss a = true -> qualifies ss b = true -> a = b.
Proof.
  intros ss a b Hne Ha Hb.
  destruct (Z.eq_dec a b) as [E|NE]; [exact E|exfalso].
  unfold qualifies, count_second in Ha, Hb.
  pose proof (filter_disjoint_length (has_second a) (has_second b) ss) as Hd.
  assert (Hdis : forall x, has_second a x = true -> has_second b x = true -> False).
  { intros x H1 H2. apply NE. exact (has_second_inj a b x H1 H2). }
  specialize (Hd Hdis).
  assert (Hpos : (0 < List.length ss)%nat) by (destruct ss; [congruence|cbn; lia]).
  apply Z.leb_le in Ha. apply Z.leb_le in Hb.
  set (n := Z.of_nat (List.length ss)) in *.
  assert (Hn : 0 < n) by lia.
  assert (Hq : n / 32 * 32 <= n) by (pose proof (Z.mul_div_le n 32); lia).
  lia.
Qed.

(* ------------------------------------------------------------------ ids handed out by finalize *)
Lemma index_of_ge a l k : In a l -> k <= index_of a l k.
Proof.
  revert k. induction l as [|b r IH]; intros k Hin; [destruct Hin|].
  cbn [index_of]. destruct (a =? b) eqn:E; [lia|].
  destruct Hin as [H|H]; [subst; rewrite Z.eqb_refl in E; discriminate|].
  specialize (IH (k + 1) H). lia.
Qed.

Lemma find_mk_locations a l k : In a (map fst l) ->
  exists loc, find (fun x => l_id x =? index_of a (map fst l) k) (mk_locations l k) = Some loc /\ l_addr loc = a.
Proof.
  revert k. induction l as [|x r IH]; intros k Hin; [destruct Hin|].
  cbn [map index_of mk_locations find mk_loc l_id].
  destruct (a =? fst x) eqn:E.
  - rewrite Z.eqb_refl. eexists. split; [reflexivity|]. cbn. apply Z.eqb_eq in E. congruence.
  - destruct Hin as [H|H]; [cbn in H; subst; rewrite Z.eqb_refl in E; discriminate|].
    pose proof (index_of_ge a (map fst r) (k + 1) H) as Hge.
    replace (k =? index_of a (map fst r) (k + 1)) with false by (symmetry; apply Z.eqb_neq; lia).
    exact (IH (k + 1) H).
Qed.

Lemma memz_in a l : memz a l = true -> In a l.
Proof.
  unfold memz. intros H. apply existsb_exists in H. destruct H as [x [Hx E]].
  apply Z.eqb_eq in E. subst. exact Hx.
Qed.

Lemma nodup_acc_in a : forall l seen, In a seen \/ In a l -> In a (nodup_acc seen l).
Proof.
  induction l as [|b r IH]; intros seen H; cbn [nodup_acc].
  - destruct H as [H|[]]. apply in_rev in H. exact H.
  - destruct (memz b seen) eqn:Em.
    + apply IH. destruct H as [H|[H|H]]; [left; exact H| |right; exact H].
      subst. left. exact (memz_in _ _ Em).
    + apply IH. destruct H as [H|[H|H]]; [left; right; exact H| |right; exact H].
      subst. left. left. reflexivity.
Qed.

Lemma first_uses_in a l : In a l -> In a (first_uses l).
Proof. intros H. apply nodup_acc_in. right. exact H. Qed.

Lemma assign_all_length : forall l st, List.length (snd (assign_all st l)) = List.length l.
Proof.
  induction l as [|a r IH]; intros st; cbn [assign_all]; [reflexivity|].
  destruct (assign_one st a) as [st1 i]. specialize (IH st1).
  destruct (assign_all st1 r) as [st2 is]. cbn in *. congruence.
Qed.

Lemma map_fst_combine {A B} : forall (l1 : list A) (l2 : list B),
  List.length l2 = List.length l1 -> map fst (combine l1 l2) = l1.
Proof.
  induction l1 as [|a r IH]; intros l2 H; [reflexivity|].
  destruct l2 as [|b r2]; [discriminate|]. cbn. f_equal. apply IH. cbn in H. congruence.
Qed.

Definition locs_of (x : pre) : list Z := first_uses (List.concat (map rs_addrs (pr_samples x))).

Lemma p_sample_finalize cleanup x maps :
  p_sample (finalize cleanup x maps) = map (mk_sample cleanup (locs_of x)) (pr_samples x).
Proof.
  unfold finalize, locs_of.
  destruct (assign_all _ _) as [[ms1 fk] lmap]. destruct (frame_info _). reflexivity.
Qed.

Lemma p_location_finalize cleanup x maps :
  exists lmap, List.length lmap = List.length (locs_of x) /\
               p_location (finalize cleanup x maps) = mk_locations (combine (locs_of x) lmap) 1.
Proof.
  unfold finalize, locs_of.
  pose proof (assign_all_length (first_uses (List.concat (map rs_addrs (pr_samples x))))
                (fix_main_start (drop_hugepage (massage maps)), None)) as Hl.
  destruct (assign_all _ _) as [[ms1 fk] lmap]. destruct (frame_info _).
  exists lmap. split; [exact Hl|reflexivity].
Qed.

Lemma loc_addr_finalize cleanup x maps a :
  In a (List.concat (map rs_addrs (pr_samples x))) ->
  loc_addr (finalize cleanup x maps) (index_of a (locs_of x) 1) = a.
Proof.
  intros Hin. unfold loc_addr, find_location.
  destruct (p_location_finalize cleanup x maps) as [lmap [Hlen Hloc]]. rewrite Hloc.
  pose proof (map_fst_combine (locs_of x) lmap Hlen) as Hfst.
  assert (Hin' : In a (map fst (combine (locs_of x) lmap))) by (rewrite Hfst; apply first_uses_in; exact Hin).
  destruct (find_mk_locations a _ 1 Hin') as [loc [Hf Ha]].
  rewrite Hfst in Hf. rewrite Hf. exact Ha.
Qed.

Lemma zs_eqb_refl l : zs_eqb l l = true.
Proof. induction l as [|a r IH]; [reflexivity|]. cbn. rewrite Z.eqb_refl. exact IH. Qed.
Lemma zs_close_refl l : zs_close false l l = true.
Proof. induction l as [|a r IH]; [reflexivity|]. cbn. unfold close. rewrite Z.eqb_refl. exact IH. Qed.

Lemma cleanup_dup_incl l a : In a (cleanup_dup l) -> In a l.
Proof.
  unfold cleanup_dup. destruct l as [|a0 [|a1 r]]; try (intros H; exact H).
  destruct (a0 =? wrap_u64 (a1 + 1)); intros H; [|exact H].
  destruct H as [H|H]; [left; exact H|right; right; exact H].
Qed.

Lemma sample_addrs_incl cleanup s a : In a (sample_addrs cleanup s) -> In a (rs_addrs s).
Proof. unfold sample_addrs. destruct cleanup; [apply cleanup_dup_incl|intros H; exact H]. Qed.

Lemma addrs_resolve (p : profile) (locs : list Z) : forall l,
  (forall a, In a l -> loc_addr p (index_of a locs 1) = a) ->
  zs_eqb (map (loc_addr p) (map (fun a => index_of a locs 1) l)) l = true.
Proof.
  induction l as [|a r IH]; intros H; [reflexivity|].
  cbn. rewrite (H a (or_introl eq_refl)), Z.eqb_refl. apply IH. intros b Hb. apply H. right. exact Hb.
Qed.

(* what a sample of the result must show: its (cleaned) addresses, its values, its block size *)
Definition sview_of (cleanup : bool) (s : rsample) : sview :=
  {| sv_addrs := sample_addrs cleanup s; sv_vals := rs_vals s; sv_bytes := rs_bytes s |}.

Lemma sample_meets_finalize cleanup x maps s :
  In s (pr_samples x) ->
  sample_meets false (finalize cleanup x maps) (sview_of cleanup s) (mk_sample cleanup (locs_of x) s) = true.
Proof.
  intros Hs. unfold sample_meets, sview_of, mk_sample. cbn [s_loc s_val sv_addrs sv_vals sv_bytes].
  rewrite addrs_resolve.
  - rewrite zs_close_refl. unfold bytes_label. cbn [s_numlabel s_label].
    destruct (rs_bytes s) as [b|]; [|reflexivity]. cbn. rewrite Z.eqb_refl. reflexivity.
  - intros a Ha. apply loc_addr_finalize. apply in_concat. exists (rs_addrs s). split.
    + apply in_map. exact Hs.
    + exact (sample_addrs_incl cleanup s a Ha).
Qed.

Lemma samples_meet_finalize_aux cleanup x maps : forall ss,
  incl ss (pr_samples x) ->
  samples_meet false (finalize cleanup x maps) (map (sview_of cleanup) ss) (map (mk_sample cleanup (locs_of x)) ss) = true.
Proof.
  induction ss as [|s r IH]; intros Hi; [reflexivity|].
  cbn [map samples_meet]. rewrite sample_meets_finalize by (apply Hi; left; reflexivity).
  apply IH. intros y Hy. apply Hi. right. exact Hy.
Qed.

(* one sample per raw sample, in order, showing exactly its addresses / values / block size *)
Lemma samples_meet_finalize cleanup x maps :
  samples_meet false (finalize cleanup x maps) (map (sview_of cleanup) (pr_samples x))
               (p_sample (finalize cleanup x maps)) = true.
Proof. rewrite p_sample_finalize. apply samples_meet_finalize_aux. apply incl_refl. Qed.

(* ------------------------------------------------------------------ convert_* shows the documented view *)
Lemma prev_dec1 a : prev_addr a = dec1 a.
Proof. reflexivity. Qed.
Lemma all_prev_eq a : all_prev a = map (fun h => dec1 (addr_of h)) a.
Proof. unfold all_prev. apply map_ext. intros h. reflexivity. Qed.
Lemma leaf_kept_eq l : leaf_kept l = thread_addrs l.
Proof. destruct l as [|a r]; [reflexivity|]. cbn. f_equal. Qed.
Lemma dedup_leaf_eq l : dedup_leaf l = cleanup_dup l.
Proof. reflexivity. Qed.

Lemma count_view_eq d : count_view d = map (sview_of false) (count_samples (cd_items d)).
Proof.
  unfold count_view, count_samples. induction (cd_items d) as [|i r IH]; [reflexivity|].
  cbn [flat_map]. rewrite map_app, IH. f_equal.
  destruct i as [c a|l]; [|reflexivity]. cbn. unfold sview_of, sample_addrs. cbn. rewrite all_prev_eq. reflexivity.
Qed.

Lemma convert_count_view_lemma : forall d,
  samples_meet false (convert_count d) (count_view d) (p_sample (convert_count d)) = true.
Proof. intros d. rewrite count_view_eq. unfold convert_count. apply (samples_meet_finalize false). Qed.

Lemma unsampled_eq un d c s : unsampled un d c s = heap_pair un d c s.
Proof.
  unfold unsampled, heap_pair, scale_heap_sample.
  destruct (c =? 0) eqn:Ec; destruct (hd_v2 d) eqn:Ev; cbn [negb andb orb]; try reflexivity.
  destruct (s =? 0) eqn:Es; cbn [negb andb orb]; [reflexivity|].
  destruct (1 <? hd_period d) eqn:E1; destruct (hd_period d <=? 1) eqn:E2; cbn [negb andb orb]; try reflexivity; lia.
Qed.

Lemma heap_view_eq un d : heap_view un d = map (sview_of false) (heap_samples un d).
Proof.
  unfold heap_view, heap_samples. induction (hd_items d) as [|i r IH]; [reflexivity|].
  cbn [flat_map]. rewrite map_app, IH. f_equal.
  destruct i as [c s ac asz a|l]; [|reflexivity]. cbn [map]. unfold sview_of, sample_addrs.
  cbn [rs_addrs rs_vals rs_bytes]. rewrite all_prev_eq, !unsampled_eq. reflexivity.
Qed.

Lemma convert_heap_view_lemma : forall un d,
  samples_meet false (convert_heap un d) (heap_view un d) (p_sample (convert_heap un d)) = true.
Proof. intros un d. rewrite heap_view_eq. unfold convert_heap. apply (samples_meet_finalize false). Qed.

Lemma contention_view_eq d : contention_view d = map (sview_of false) (contention_samples d).
Proof.
  unfold contention_view, contention_samples. induction (kd_items d) as [|i r IH]; [reflexivity|].
  cbn [flat_map]. rewrite map_app, IH. f_equal.
  destruct i as [dl c a|l]; [|reflexivity]. cbn [map]. unfold sview_of, sample_addrs.
  cbn [rs_addrs rs_vals rs_bytes]. rewrite all_prev_eq. reflexivity.
Qed.

Lemma convert_contention_view_lemma : forall d,
  samples_meet false (convert_contention d) (contention_view d) (p_sample (convert_contention d)) = true.
Proof. intros d. rewrite contention_view_eq. unfold convert_contention. apply (samples_meet_finalize false). Qed.

Definition raw_view (s : rsample) : sview := {| sv_addrs := rs_addrs s; sv_vals := rs_vals s; sv_bytes := rs_bytes s |}.

Lemma thread_view_acc_eq : forall bs acc,
  thread_view_acc bs (map raw_view acc) = map raw_view (thread_samples bs acc).
Proof.
  induction bs as [|b r IH]; intros acc; cbn [thread_view_acc thread_samples].
  - rewrite map_rev. reflexivity.
  - rewrite <- IH. f_equal. unfold commit_block.
    replace (map addr_of (List.concat (tb_lines b))) with (map hex_val (List.concat (tb_lines b))) by reflexivity.
    destruct (tb_same b || match map hex_val (List.concat (tb_lines b)) with [] => true | _ :: _ => false end).
    + destruct acc as [|s ar]; reflexivity.
    + cbn [map]. unfold raw_view at 2. cbn [rs_addrs rs_vals rs_bytes]. rewrite leaf_kept_eq. reflexivity.
Qed.

Lemma thread_view_eq d : thread_view d = map (sview_of true) (thread_samples (td_blocks d) []).
Proof.
  unfold thread_view. change (@nil sview) with (map raw_view []). rewrite thread_view_acc_eq, map_map.
  apply map_ext. intros s. reflexivity.
Qed.

Lemma convert_thread_view_lemma : forall d,
  samples_meet false (convert_thread d) (thread_view d) (p_sample (convert_thread d)) = true.
Proof. intros d. rewrite thread_view_eq. unfold convert_thread. apply (samples_meet_finalize true). Qed.

Lemma cpu_view_eq d :
  cpu_view d = map (sview_of true)
                   (strip_frame (strip_frame (map (cpu_rsample (wrap_i64 (wrap_i64 (pd_period d) * 1000))) (pd_samples d)))).
Proof.
  unfold cpu_view. cbv zeta.
  set (p := wrap_i64 (wrap_i64 (pd_period d) * 1000)).
  assert (E : map (fun s : Z * list Z => {| rs_addrs := leaf_kept (snd s);
                     rs_vals := [wrap_i64 (fst s); wrap_i64 (wrap_i64 (fst s) * p)]; rs_bytes := None |}) (pd_samples d)
              = map (cpu_rsample p) (pd_samples d)).
  { apply map_ext. intros s. unfold cpu_rsample. rewrite leaf_kept_eq. reflexivity. }
  rewrite E. apply map_ext. intros s. reflexivity.
Qed.

Lemma convert_cpu_view_lemma : forall d,
  samples_meet false (convert_cpu d) (cpu_view d) (p_sample (convert_cpu d)) = true.
Proof. intros d. rewrite cpu_view_eq. unfold convert_cpu. cbv zeta. apply (samples_meet_finalize true). Qed.

(* ------------------------------------------------------------------ binary CPU: words and probing *)
Ltac Zify.zify_post_hook ::= Z.div_mod_to_equations.

Lemma get32l_put w r : 0 <= w < 4294967296 -> get32l ((le_bytes 4 w ++ r)%list) = (w, Some r).
Proof.
  intros H. cbn [le_bytes app get32l]. f_equal. lia.
Qed.
Lemma get32b_put w r : 0 <= w < 4294967296 -> get32b ((rev (le_bytes 4 w) ++ r)%list) = (w, Some r).
Proof.
  intros H. cbn [le_bytes rev app get32b]. f_equal. lia.
Qed.
Lemma get64l_put w r : 0 <= w < 18446744073709551616 -> get64l ((le_bytes 8 w ++ r)%list) = (w, Some r).
Proof.
  intros H. cbn [le_bytes app get64l]. f_equal. lia.
Qed.
Lemma get64b_put w r : 0 <= w < 18446744073709551616 -> get64b ((rev (le_bytes 8 w) ++ r)%list) = (w, Some r).
Proof.
  intros H. cbn [le_bytes rev app get64b]. f_equal. lia.
Qed.

Definition getter (k : Z) : wordfn :=
  if k =? 0 then get32l else if k =? 1 then get32b else if k =? 2 then get64l else get64b.
Definition word_ok (k w : Z) : Prop := 0 <= w < (if k <? 2 then 4294967296 else 18446744073709551616).

Lemma pw_put k w r : 0 <= k <= 3 -> word_ok k w ->
  pw (getter k) (Some ((put_word k w ++ r)%list)) = (w, Some r).
Proof.
  intros Hk Hw. unfold word_ok in Hw. cbn [pw].
  assert (Hc : k = 0 \/ k = 1 \/ k = 2 \/ k = 3) by lia.
  destruct Hc as [E|[E|[E|E]]]; subst k; unfold getter, put_word; cbn [Z.eqb Z.ltb Z.compare Pos.compare Pos.compare_cont] in *.
  - apply get32l_put; lia.
  - apply get32b_put; lia.
  - apply get64l_put; lia.
  - apply get64b_put; lia.
Qed.

Definition cpu_header (k p : Z) (rest : list Z) : list Z := (put_words k [0; 3; 0; p; 0] ++ rest)%list.

Lemma cpu_header_unfold k p rest :
  cpu_header k p rest = (put_word k 0 ++ put_word k 3 ++ put_word k 0 ++ put_word k p ++ put_word k 0 ++ rest)%list.
Proof. unfold cpu_header, put_words. cbn [flat_map]. rewrite <- !app_assoc. reflexivity. Qed.

Lemma cpu_try_own k p rest : 0 <= k <= 3 -> 0 < p -> word_ok k p ->
  cpu_try (getter k) (cpu_header k p rest) = Some (cpu_profile (getter k) p (Some rest)).
Proof.
  intros Hk Hp Hw. rewrite cpu_header_unfold. unfold cpu_try.
  assert (H0 : word_ok k 0) by (unfold word_ok; destruct (k <? 2); lia).
  assert (H3 : word_ok k 3) by (unfold word_ok; destruct (k <? 2); lia).
  rewrite (pw_put k 0 _ Hk H0), (pw_put k 3 _ Hk H3), (pw_put k 0 _ Hk H0), (pw_put k p _ Hk Hw), (pw_put k 0 _ Hk H0).
  cbn [Z.eqb andb]. replace (0 <? p) with true by (symmetry; apply Z.ltb_lt; exact Hp). reflexivity.
Qed.

(* a header written with one word size / byte order is rejected by every getter probed earlier *)
Lemma cpu_try_32l_on_32b p rest : cpu_try get32l (cpu_header 1 p rest) = None.
Proof. rewrite cpu_header_unfold. unfold put_word. cbn. reflexivity. Qed.
Lemma cpu_try_32l_on_64l p rest : cpu_try get32l (cpu_header 2 p rest) = None.
Proof. rewrite cpu_header_unfold. unfold put_word. cbn. reflexivity. Qed.
Lemma cpu_try_32b_on_64l p rest : cpu_try get32b (cpu_header 2 p rest) = None.
Proof. rewrite cpu_header_unfold. unfold put_word. cbn. reflexivity. Qed.
Lemma cpu_try_32l_on_64b p rest : cpu_try get32l (cpu_header 3 p rest) = None.
Proof. rewrite cpu_header_unfold. unfold put_word. cbn. reflexivity. Qed.
Lemma cpu_try_32b_on_64b p rest : cpu_try get32b (cpu_header 3 p rest) = None.
Proof. rewrite cpu_header_unfold. unfold put_word. cbn. reflexivity. Qed.
Lemma cpu_try_64l_on_64b p rest : cpu_try get64l (cpu_header 3 p rest) = None.
Proof. rewrite cpu_header_unfold. unfold put_word. cbn. reflexivity. Qed.

Lemma cpu_word_probe_lemma : forall k p rest, 0 <= k <= 3 -> 0 < p -> word_ok k p ->
  parse_cpu (cpu_header k p rest) = cpu_profile (getter k) p (Some rest).
Proof.
  intros k p rest Hk Hp Hw. pose proof (cpu_try_own k p rest Hk Hp Hw) as Hown.
  assert (Hc : k = 0 \/ k = 1 \/ k = 2 \/ k = 3) by lia.
  unfold parse_cpu.
  destruct Hc as [E|[E|[E|E]]]; subst k; change (getter 0) with get32l in *; change (getter 1) with get32b in *;
    change (getter 2) with get64l in *; change (getter 3) with get64b in *.
  - rewrite Hown. reflexivity.
  - rewrite cpu_try_32l_on_32b, Hown. reflexivity.
  - rewrite cpu_try_32l_on_64l, cpu_try_32b_on_64l, Hown. reflexivity.
  - rewrite cpu_try_32l_on_64b, cpu_try_32b_on_64b, cpu_try_64l_on_64b, Hown. reflexivity.
Qed.

(* ------------------------------------------------------------------ parser model on printed record lines *)
Definition head_fails (p : ascii -> bool) (s : string) : Prop :=
  match s with EmptyString => True | String a _ => p a = false end.

Lemma span_app p : forall x rest, str_all p x = true -> head_fails p rest -> span p (x ++ rest) = (x, rest).
Proof.
  induction x as [|a x IH]; intros rest Hall Hh.
  - cbn [append]. destruct rest as [|b r]; [reflexivity|]. cbn in Hh. cbn [span]. rewrite Hh. reflexivity.
  - cbn [str_all] in Hall. apply andb_prop in Hall. destruct Hall as [Ha Hx].
    cbn [append span]. rewrite Ha, (IH rest Hx Hh). reflexivity.
Qed.

Lemma take1_app p x rest : nonempty x = true -> str_all p x = true -> head_fails p rest ->
  take1 p (x ++ rest) = Some (x, rest).
Proof. intros Hn Hall Hh. unfold take1. rewrite (span_app p x rest Hall Hh), Hn. reflexivity. Qed.

Lemma lit_app p : forall s, lit p (p ++ s) = Some s.
Proof.
  unfold lit. induction p as [|a p IH]; intros s; [reflexivity|].
  cbn [append strip_prefix]. rewrite Ascii.eqb_refl. apply IH.
Qed.

Lemma append_nil_r s : (s ++ "")%string = s.
Proof. induction s as [|a s IH]; [reflexivity|]. cbn. rewrite IH. reflexivity. Qed.
Lemma append_assoc a b c : ((a ++ b) ++ c)%string = (a ++ (b ++ c))%string.
Proof. induction a as [|x a IH]; [reflexivity|]. cbn. rewrite IH. reflexivity. Qed.

Lemma hexes_cons h r : hexes (h :: r) = (" 0x" ++ h ++ hexes r)%string.
Proof.
  unfold hexes. cbn [map String.concat]. destruct r as [|h2 r2].
  - cbn [map String.concat]. rewrite !append_nil_r. reflexivity.
  - cbn [map]. rewrite append_assoc. reflexivity.
Qed.

Definition wf_hex (h : string) : Prop :=
  nonempty h = true /\ str_all is_lhex h = true /\ hex_val h < two64.
Definition wf_dec (c : string) : Prop :=
  nonempty c = true /\ str_all is_digit c = true /\ (c = "0"%string \/ has_prefix "0" c = false) /\ dec_val c < two63.

Lemma hexes_head a : head_fails is_lhex (hexes a).
Proof. destruct a as [|h r]; [exact I|]. rewrite hexes_cons. reflexivity. Qed.

Lemma count_tail_print : forall a fuel, a <> [] -> Forall wf_hex a -> (List.length a <= fuel)%nat ->
  count_tail fuel (hexes a) = Some a.
Proof.
  induction a as [|h r IH]; intros fuel Hne Hwf Hf; [congruence|].
  destruct fuel as [|f]; [cbn in Hf; lia|].
  inversion Hwf as [|h' r' [Hn [Hall Hv]] Hr]; subst.
  cbn [count_tail]. rewrite hexes_cons, lit_app. cbn [obind].
  rewrite (take1_app is_lhex h (hexes r) Hn Hall (hexes_head r)). cbn [obind].
  destruct r as [|h2 r2].
  - reflexivity.
  - rewrite (IH f) by (try congruence; try assumption; cbn in Hf |- *; lia).
    cbn [obind]. rewrite hexes_cons. reflexivity.
Qed.

Lemma hexes_length a : (List.length a <= String.length (hexes a))%nat.
Proof.
  induction a as [|h r IH]; [cbn; lia|]. rewrite hexes_cons. cbn [append String.length List.length].
  assert (String.length (h ++ hexes r) >= String.length (hexes r))%nat.
  { clear. induction h as [|x h IH]; cbn; lia. }
  lia.
Qed.

Lemma digit_facts a : is_digit a = true ->
  is_lhex a = true /\ N.eqb (code a) 45 = false /\ N.eqb (code a) 43 = false /\ N.eqb (code a) 95 = false.
Proof. destruct a as [[] [] [] [] [] [] [] []]; vm_compute; intros H; try discriminate; repeat split. Qed.

Lemma lhex_xdigit h : str_all is_lhex h = true -> str_all is_xdigit h = true.
Proof.
  induction h as [|a h IH]; [reflexivity|]. cbn [str_all]. intros H. apply andb_prop in H. destruct H as [Ha Hh].
  rewrite (IH Hh). unfold is_xdigit. rewrite Ha. reflexivity.
Qed.

Lemma parse_all_hex_print : forall a, Forall wf_hex a -> parse_all_hex a = Some (map hex_val a).
Proof.
  induction a as [|h r IH]; intros Hwf; [reflexivity|].
  inversion Hwf as [|h' r' [Hn [Hall Hv]] Hr]; subst.
  cbn [parse_all_hex map]. unfold parse_hex_u64. rewrite Hn, (lhex_xdigit h Hall). cbn [andb].
  assert (Hpos : 0 <= hex_val h).
  { unfold hex_val. assert (G : forall s acc, 0 <= acc -> 0 <= val_acc 16 s acc).
    { induction s as [|x s IHs]; intros acc Ha; [exact Ha|]. cbn [val_acc]. apply IHs.
      assert (0 <= digit_val x).
      { unfold digit_val. destruct (is_digit x) eqn:E1.
        - unfold is_digit, between in E1. apply andb_prop in E1. destruct E1 as [E1 _]. apply N.leb_le in E1. lia.
        - destruct (between 97 102 x) eqn:E2.
          + unfold between in E2. apply andb_prop in E2. destruct E2 as [E2 _]. apply N.leb_le in E2. lia.
          + destruct (between 65 70 x) eqn:E3; [|lia].
            unfold between in E3. apply andb_prop in E3. destruct E3 as [E3 _]. apply N.leb_le in E3. lia. }
      lia. }
    apply G. lia. }
  unfold in_u64. replace (0 <=? hex_val h) with true by (symmetry; apply Z.leb_le; exact Hpos).
  replace (hex_val h <? two64) with true by (symmetry; apply Z.ltb_lt; exact Hv).
  cbn [andb obind]. rewrite (IH Hr). reflexivity.
Qed.

Lemma digit_val_nonneg x : 0 <= digit_val x.
Proof.
  unfold digit_val. destruct (is_digit x) eqn:E1.
  - unfold is_digit, between in E1. apply andb_prop in E1. destruct E1 as [E1 _]. apply N.leb_le in E1. lia.
  - destruct (between 97 102 x) eqn:E2.
    + unfold between in E2. apply andb_prop in E2. destruct E2 as [E2 _]. apply N.leb_le in E2. lia.
    + destruct (between 65 70 x) eqn:E3; [|lia].
      unfold between in E3. apply andb_prop in E3. destruct E3 as [E3 _]. apply N.leb_le in E3. lia.
Qed.
Lemma val_acc_nonneg base : 0 <= base -> forall s acc, 0 <= acc -> 0 <= val_acc base s acc.
Proof.
  intros Hb. induction s as [|x s IH]; intros acc Ha; [exact Ha|]. cbn [val_acc]. apply IH.
  pose proof (digit_val_nonneg x). nia.
Qed.

Lemma digit_facts2 a : is_digit a = true ->
  Ascii.eqb a "_" = false /\ (N.eqb (code a) 48 = true -> Ascii.eqb "0" a = true).
Proof. destruct a as [[] [] [] [] [] [] [] []]; vm_compute; intros H; try discriminate; split; auto; discriminate. Qed.

Lemma no_underscore c : str_all is_digit c = true -> contains_char "_" c = false.
Proof.
  induction c as [|a c IH]; [reflexivity|]. cbn [str_all contains_char]. intros H. apply andb_prop in H.
  destruct H as [Ha Hc]. destruct (digit_facts2 a Ha) as [Hu _]. rewrite Hu, (IH Hc). reflexivity.
Qed.

Lemma parse_int0_print c : wf_dec c -> parse_int0 c = Ok (dec_val c).
Proof.
  intros [Hn [Hall [Hcan Hv]]]. unfold parse_int0.
  destruct c as [|z rest]; [discriminate|].
  pose proof Hall as Hall'. cbn [str_all] in Hall'. apply andb_prop in Hall'. destruct Hall' as [Hz Hrest].
  destruct (digit_facts z Hz) as [_ [H45 [H43 _]]].
  unfold split_sign. rewrite H45, H43.
  rewrite (no_underscore _ Hall).
  assert (Hr : signed_in_range false (dec_val (String z rest)) = Some (dec_val (String z rest))).
  { unfold signed_in_range, in_i64.
    assert (0 <= dec_val (String z rest)) by (apply val_acc_nonneg; lia).
    replace (- two63 <=? dec_val (String z rest)) with true by (symmetry; apply Z.leb_le; unfold two63; lia).
    replace (dec_val (String z rest) <? two63) with true by (symmetry; apply Z.ltb_lt; exact Hv).
    reflexivity. }
  destruct rest as [|b r].
  - rewrite Hall. cbn [nonempty andb]. rewrite Hr. reflexivity.
  - destruct (N.eqb (code z) 48) eqn:E48.
    + exfalso. destruct Hcan as [Hc|Hc]; [discriminate|].
      destruct (digit_facts2 z Hz) as [_ H0]. specialize (H0 E48).
      cbn [has_prefix] in Hc. rewrite H0 in Hc. discriminate.
    + rewrite Hall, Hr. reflexivity.
Qed.

Lemma count_re_print c a : wf_dec c -> a <> [] -> Forall wf_hex a ->
  count_re (c ++ " @" ++ hexes a) = Some (c, a).
Proof.
  intros [Hn [Hall _]] Hne Hwf. unfold count_re.
  rewrite (take1_app is_digit c (" @" ++ hexes a) Hn Hall) by reflexivity. cbn [obind].
  rewrite lit_app. cbn [obind].
  rewrite (count_tail_print a _ Hne Hwf (hexes_length a)). reflexivity.
Qed.

(* the parser model on a printed count record: the count as given, every address one back *)
Lemma count_line_print_lemma : forall c a, wf_dec c -> a <> [] -> Forall wf_hex a ->
  count_line (print_citem (CRec c a))
  = Ok {| rs_addrs := map (fun h => dec1 (addr_of h)) a; rs_vals := [dec_val c]; rs_bytes := None |}.
Proof.
  intros c a Hc Hne Hwf. unfold count_line, print_citem.
  rewrite (count_re_print c a Hc Hne Hwf), (parse_int0_print c Hc), (parse_all_hex_print a Hwf).
  rewrite map_map. reflexivity.
Qed.

(* ------------------------------------------------------------------ rate <= 1: raw values *)
Lemma scale_rate_le_1_lemma : forall un c s rate, rate <= 1 -> c <> 0 -> s <> 0 ->
  scale_heap_sample un c s rate = (c, s).
Proof.
  intros un c s rate Hr Hc Hs. unfold scale_heap_sample.
  replace (c =? 0) with false by (symmetry; apply Z.eqb_neq; exact Hc).
  replace (s =? 0) with false by (symmetry; apply Z.eqb_neq; exact Hs).
  replace (rate <=? 1) with true by (symmetry; apply Z.leb_le; exact Hr). reflexivity.
Qed.

Lemma unsampled_rate_le_1_lemma : forall un d c s, hd_period d <= 1 -> s <> 0 -> unsampled un d c s = [c; s].
Proof.
  intros un d c s Hr Hs. unfold unsampled.
  replace (1 <? hd_period d) with false by (symmetry; apply Z.ltb_ge; exact Hr).
  replace (s =? 0) with false by (symmetry; apply Z.eqb_neq; exact Hs).
  rewrite !andb_false_r. reflexivity.
Qed.

(* ------------------------------------------------------------------ records are independent *)
(* the frame removal treats every sample by one and the same function of its own stack *)
Lemma strip_frame_uniform ss :
  exists g, strip_frame ss = map g ss /\
            (forall s t, rs_addrs s = rs_addrs t -> rs_addrs (g s) = rs_addrs (g t)).
Proof.
  unfold strip_frame. destruct (find (qualifies ss) (seconds ss)) as [a|].
  - exists (fun s => if has_second a s then drop_second s else s). split; [reflexivity|].
    intros s t E. unfold has_second, second_addr. rewrite E.
    destruct (match rs_addrs t with _ :: b :: _ => Some b | _ => None end) as [b|]; [|exact E].
    destruct (a =? b); [|exact E]. unfold drop_second. cbn [rs_addrs]. rewrite E. reflexivity.
  - exists (fun s => s). split; [symmetry; apply map_id|]. intros s t E. exact E.
Qed.

Lemma cpu_view_uniform_lemma : forall d, exists h : Z * list Z -> sview,
  cpu_view d = map h (pd_samples d) /\ (forall s t, snd s = snd t -> sv_addrs (h s) = sv_addrs (h t)).
Proof.
  intros d. unfold cpu_view. cbv zeta.
  set (r0 := fun s : Z * list Z => {| rs_addrs := leaf_kept (snd s);
               rs_vals := [wrap_i64 (fst s); wrap_i64 (wrap_i64 (fst s) * wrap_i64 (wrap_i64 (pd_period d) * 1000))];
               rs_bytes := None |}).
  destruct (strip_frame_uniform (map r0 (pd_samples d))) as [g1 [E1 R1]]. rewrite E1.
  destruct (strip_frame_uniform (map g1 (map r0 (pd_samples d)))) as [g2 [E2 R2]]. rewrite E2.
  rewrite !map_map.
  exists (fun s => {| sv_addrs := dedup_leaf (rs_addrs (g2 (g1 (r0 s)))); sv_vals := rs_vals (g2 (g1 (r0 s)));
                      sv_bytes := rs_bytes (g2 (g1 (r0 s))) |}).
  split; [reflexivity|]. intros s t E. cbn [sv_addrs]. f_equal. apply R2. apply R1.
  unfold r0. cbn [rs_addrs]. rewrite E. reflexivity.
Qed.

(* a line that parses as a mapping is a mapping, whatever its path contains *)
Lemma mapping_line_wins_lemma : forall l r m ms,
  parse_mapping_entry (remove_logging_info l) = Ok (Some m) -> parse_proc_maps r = Ok ms ->
  parse_proc_maps (l :: r) = Ok (m :: ms).
Proof. intros l r m ms H1 H2. cbn [parse_proc_maps]. rewrite H1, H2. reflexivity. Qed.
