(* C20 -- proofs about the concurrency model (M_Conc). *)
From Coq Require Import Lia.
From PV Require Import M_Conc.
Open Scope string_scope.

(* ---------------------------------------------------------------- helpers *)
Lemma mem_In x l : mem x l = true <-> In x l.
Proof.
  unfold mem. rewrite existsb_exists. split.
  - intros [y [Hy He]]. apply String.eqb_eq in He. subst. exact Hy.
  - intros H. exists x. split; [exact H | apply String.eqb_refl].
Qed.

Lemma mem_nIn x l : mem x l = false <-> ~ In x l.
Proof.
  split.
  - intros H Hi. apply mem_In in Hi. congruence.
  - intros H. destruct (mem x l) eqn:E; [apply mem_In in E; contradiction | reflexivity].
Qed.

Lemma in_rm x m h : In x (remove string_dec m h) <-> In x h /\ x <> m.
Proof.
  split.
  - apply in_remove.
  - intros [H1 H2]. apply in_in_remove; assumption.
Qed.

Lemma upd_eq {A} (f : nat -> A) i a : upd f i a i = a.
Proof. unfold upd. rewrite Nat.eqb_refl. reflexivity. Qed.
Lemma upd_neq {A} (f : nat -> A) i j a : j <> i -> upd f i a j = f j.
Proof. intros H. unfold upd. destruct (Nat.eqb_spec j i); [contradiction | reflexivity]. Qed.
Lemma supd_eq {A} (f : string -> A) k a : supd f k a k = a.
Proof. unfold supd. rewrite String.eqb_refl. reflexivity. Qed.
Lemma supd_neq {A} (f : string -> A) k k' a : k' <> k -> supd f k a k' = f k'.
Proof. intros H. unfold supd. destruct (String.eqb_spec k' k); [contradiction | reflexivity]. Qed.

Lemma nilb_nil {A} (l : list A) : nilb l = true -> l = [].
Proof. destruct l; [reflexivity | discriminate]. Qed.

Ltac bsplit H :=
  repeat match type of H with
         | (_ && _)%bool = true => let H1 := fresh H in apply andb_prop in H; destruct H as [H H1]
         end.

(* ---------------------------------------------------------------- Part A *)
Section PartA.
  Variable g : string -> option guard.

  Record inv (s : st) : Prop := {
    inv_wl : forall i, wl g (th_h (ths s i)) (th_p (ths s i)) (th_k (ths s i)) = true;
    inv_own : forall i m, In m (th_h (ths s i)) <-> own s m = Some i;
    inv_passed : forall i o, In o (th_p (ths s i)) -> done s o = true;
    inv_done : forall o, done s o = true -> is_once o = true /\ own s o = None
  }.

  Lemma inv_init progs : (forall i, well_locked g (progs i) = true) -> inv (init progs).
  Proof.
    intros H. constructor; cbn.
    - exact H.
    - intros i m. split; [intros [] | discriminate].
    - intros i o [].
    - intros o Ho. discriminate.
  Qed.

  Lemma wl_once_body h p o b r :
    ~ In o h -> is_once o = true ->
    forallb (acc_ok g (o :: h) p) b = true -> wl g h (o :: p) r = true ->
    wl g (o :: h) p (map acc_ev b ++ ExitOnce o :: r) = true.
  Proof.
    intros Hn Hio Hb Hr. induction b as [|a b IH]; cbn [map app].
    - cbn [wl]. rewrite Hio. cbn [mem existsb]. rewrite String.eqb_refl. cbn [orb andb].
      cbn [remove]. destruct (string_dec o o) as [_|Hne]; [|contradiction].
      rewrite notin_remove by exact Hn. exact Hr.
    - cbn [forallb] in Hb. apply andb_prop in Hb. destruct Hb as [Ha Hb].
      specialize (IH Hb). destruct a as [w v]. unfold acc_ok in Ha. cbn [fst snd] in Ha.
      unfold acc_ev at 1. cbn [fst snd]. destruct w; cbn [wl]; rewrite Ha, IH; reflexivity.
  Qed.

  Lemma inv_step s s' : inv s -> step s s' -> inv s'.
  Proof.
    intros [Hwl Hown Hpass Hdone] Hst.
    destruct Hst as [i m r Hk Hfree | i m r Hk Hheld | i e r Hk Hpl | i o b r Hk Hd | i o b r Hk Hd Hfree | i o r Hk].
    - (* Acq *)
      pose proof (Hwl i) as Hw. rewrite Hk in Hw. cbn [wl] in Hw. bsplit Hw.
      apply negb_true_iff in Hw. apply negb_true_iff in Hw1.
      constructor; cbn [ths own done].
      + intros j. destruct (Nat.eq_dec j i) as [->|Hji]; [rewrite upd_eq; cbn; exact Hw0 | rewrite upd_neq by exact Hji; apply Hwl].
      + intros j m'. destruct (String.eqb_spec m' m) as [->|Hmm].
        * rewrite supd_eq. destruct (Nat.eq_dec j i) as [->|Hji].
          -- rewrite upd_eq. cbn. split; [reflexivity | intros _; left; reflexivity].
          -- rewrite upd_neq by exact Hji. rewrite Hown. rewrite Hfree. split; [discriminate | intros E; inversion E; subst; contradiction].
        * rewrite supd_neq by exact Hmm. destruct (Nat.eq_dec j i) as [->|Hji].
          -- rewrite upd_eq. cbn [th_h]. rewrite <- Hown. split; [intros [E|Hi]; [subst; contradiction | exact Hi] | intros Hi; right; exact Hi].
          -- rewrite upd_neq by exact Hji. apply Hown.
      + intros j o. destruct (Nat.eq_dec j i) as [->|Hji]; [rewrite upd_eq; cbn; apply Hpass | rewrite upd_neq by exact Hji; apply Hpass].
      + intros o Ho. destruct (Hdone o Ho) as [H1 H2]. split; [exact H1|].
        destruct (String.eqb_spec o m) as [->|Hom]; [congruence | rewrite supd_neq by exact Hom; exact H2].
    - (* Rel *)
      pose proof (Hwl i) as Hw. rewrite Hk in Hw. cbn [wl] in Hw. bsplit Hw.
      apply negb_true_iff in Hw. apply mem_In in Hw1.
      constructor; cbn [ths own done].
      + intros j. destruct (Nat.eq_dec j i) as [->|Hji]; [rewrite upd_eq; cbn; exact Hw0 | rewrite upd_neq by exact Hji; apply Hwl].
      + intros j m'. destruct (String.eqb_spec m' m) as [->|Hmm].
        * rewrite supd_eq. split; [|discriminate]. intros Hi. exfalso.
          destruct (Nat.eq_dec j i) as [->|Hji].
          -- rewrite upd_eq in Hi. cbn in Hi. apply in_rm in Hi. destruct Hi as [_ Hi]. apply Hi; reflexivity.
          -- rewrite upd_neq in Hi by exact Hji. apply Hown in Hi. apply Hown in Hw1. congruence.
        * rewrite supd_neq by exact Hmm. destruct (Nat.eq_dec j i) as [->|Hji].
          -- rewrite upd_eq. cbn [th_h]. rewrite <- Hown. rewrite in_rm. split; [intros [Hi _]; exact Hi | intros Hi; split; assumption].
          -- rewrite upd_neq by exact Hji. apply Hown.
      + intros j o. destruct (Nat.eq_dec j i) as [->|Hji]; [rewrite upd_eq; cbn; apply Hpass | rewrite upd_neq by exact Hji; apply Hpass].
      + intros o Ho. destruct (Hdone o Ho) as [H1 H2]. split; [exact H1|].
        destruct (String.eqb_spec o m) as [->|Hom]; [rewrite supd_eq; reflexivity | rewrite supd_neq by exact Hom; exact H2].
    - (* plain *)
      pose proof (Hwl i) as Hw. rewrite Hk in Hw.
      assert (Hw' : wl g (th_h (ths s i)) (th_p (ths s i)) r = true).
      { destruct e; try discriminate Hpl; cbn [wl] in Hw; bsplit Hw; try assumption; discriminate. }
      constructor; cbn [ths own done].
      + intros j. destruct (Nat.eq_dec j i) as [->|Hji]; [rewrite upd_eq; cbn; exact Hw' | rewrite upd_neq by exact Hji; apply Hwl].
      + intros j m'. destruct (Nat.eq_dec j i) as [->|Hji]; [rewrite upd_eq; cbn; apply Hown | rewrite upd_neq by exact Hji; apply Hown].
      + intros j o. destruct (Nat.eq_dec j i) as [->|Hji]; [rewrite upd_eq; cbn; apply Hpass | rewrite upd_neq by exact Hji; apply Hpass].
      + exact Hdone.
    - (* Once, already done *)
      pose proof (Hwl i) as Hw. rewrite Hk in Hw. cbn [wl] in Hw. bsplit Hw.
      constructor; cbn [ths own done].
      + intros j. destruct (Nat.eq_dec j i) as [->|Hji]; [rewrite upd_eq; cbn; exact Hw0 | rewrite upd_neq by exact Hji; apply Hwl].
      + intros j m'. destruct (Nat.eq_dec j i) as [->|Hji]; [rewrite upd_eq; cbn; apply Hown | rewrite upd_neq by exact Hji; apply Hown].
      + intros j o'. destruct (Nat.eq_dec j i) as [->|Hji]; [rewrite upd_eq; cbn | rewrite upd_neq by exact Hji; apply Hpass].
        intros [E|Hi]; [subst; exact Hd | apply (Hpass i); exact Hi].
      + exact Hdone.
    - (* Once, entering *)
      pose proof (Hwl i) as Hw. rewrite Hk in Hw. cbn [wl] in Hw. bsplit Hw.
      apply negb_true_iff in Hw2. apply mem_nIn in Hw2.
      constructor; cbn [ths own done].
      + intros j. destruct (Nat.eq_dec j i) as [->|Hji]; [rewrite upd_eq; cbn | rewrite upd_neq by exact Hji; apply Hwl].
        apply wl_once_body; assumption.
      + intros j m'. destruct (String.eqb_spec m' o) as [->|Hmm].
        * rewrite supd_eq. destruct (Nat.eq_dec j i) as [->|Hji].
          -- rewrite upd_eq. cbn. split; [reflexivity | intros _; left; reflexivity].
          -- rewrite upd_neq by exact Hji. rewrite Hown. rewrite Hfree. split; [discriminate | intros E; inversion E; subst; contradiction].
        * rewrite supd_neq by exact Hmm. destruct (Nat.eq_dec j i) as [->|Hji].
          -- rewrite upd_eq. cbn [th_h]. rewrite <- Hown. split; [intros [E|Hi]; [subst; contradiction | exact Hi] | intros Hi; right; exact Hi].
          -- rewrite upd_neq by exact Hji. apply Hown.
      + intros j o'. destruct (Nat.eq_dec j i) as [->|Hji]; [rewrite upd_eq; cbn; apply Hpass | rewrite upd_neq by exact Hji; apply Hpass].
      + intros o' Ho. destruct (Hdone o' Ho) as [H1 H2]. split; [exact H1|].
        destruct (String.eqb_spec o' o) as [->|Hom]; [congruence | rewrite supd_neq by exact Hom; exact H2].
    - (* ExitOnce *)
      pose proof (Hwl i) as Hw. rewrite Hk in Hw. cbn [wl] in Hw. bsplit Hw.
      apply mem_In in Hw1.
      constructor; cbn [ths own done].
      + intros j. destruct (Nat.eq_dec j i) as [->|Hji]; [rewrite upd_eq; cbn; exact Hw0 | rewrite upd_neq by exact Hji; apply Hwl].
      + intros j m'. destruct (String.eqb_spec m' o) as [->|Hmm].
        * rewrite supd_eq. split; [|discriminate]. intros Hi. exfalso.
          destruct (Nat.eq_dec j i) as [->|Hji].
          -- rewrite upd_eq in Hi. cbn in Hi. apply in_rm in Hi. destruct Hi as [_ Hi]. apply Hi; reflexivity.
          -- rewrite upd_neq in Hi by exact Hji. apply Hown in Hi. apply Hown in Hw1. congruence.
        * rewrite supd_neq by exact Hmm. destruct (Nat.eq_dec j i) as [->|Hji].
          -- rewrite upd_eq. cbn [th_h]. rewrite <- Hown. rewrite in_rm. split; [intros [Hi _]; exact Hi | intros Hi; split; assumption].
          -- rewrite upd_neq by exact Hji. apply Hown.
      + intros j o'. destruct (Nat.eq_dec j i) as [->|Hji]; [rewrite upd_eq; cbn | rewrite upd_neq by exact Hji].
        * intros [E|Hi]; [subst; apply supd_eq|].
          destruct (String.eqb_spec o' o) as [->|Hne]; [apply supd_eq | rewrite supd_neq by exact Hne; apply (Hpass i); exact Hi].
        * intros Hi. destruct (String.eqb_spec o' o) as [->|Hne]; [apply supd_eq | rewrite supd_neq by exact Hne; apply (Hpass j); exact Hi].
      + intros o'. destruct (String.eqb_spec o' o) as [->|Hne].
        * intros _. rewrite supd_eq. split; [exact Hw | reflexivity].
        * rewrite !supd_neq by exact Hne. apply Hdone.
  Qed.

  Lemma inv_reach progs s : (forall i, well_locked g (progs i) = true) -> reach progs s -> inv s.
  Proof.
    intros H Hr. induction Hr as [|s s' _ IH Hs]; [apply inv_init; exact H | eapply inv_step; eassumption].
  Qed.

  (* mutual exclusion: two threads are never inside a region of the same mutex (or Once body) *)
  Lemma mutex_lemma progs s i j m :
    (forall i, well_locked g (progs i) = true) -> reach progs s ->
    In m (th_h (ths s i)) -> In m (th_h (ths s j)) -> i = j.
  Proof.
    intros H Hr Hi Hj. destruct (inv_reach _ _ H Hr) as [_ Hown _ _].
    apply Hown in Hi. apply Hown in Hj. congruence.
  Qed.

  (* race freedom: two different threads never have conflicting accesses to a guarded variable
     enabled at the same time *)
  Lemma race_free_lemma progs s i j v wi wj :
    (forall i, well_locked g (progs i) = true) -> reach progs s ->
    i <> j -> g v <> None -> next_access s i v wi -> next_access s j v wj -> (wi || wj)%bool = true -> False.
  Proof.
    intros H Hr Hij Hg [ri Hi] [rj Hj] Hw.
    destruct (inv_reach _ _ H Hr) as [Hwl Hown Hpass Hdone].
    assert (Hmain : forall (a b : nat) (ra rb : list ev) (wb : bool), a <> b ->
              th_k (ths s a) = Wr v :: ra -> th_k (ths s b) = (if wb then Wr v else Rd v) :: rb -> False).
    { intros a b ra rb wb Hab Ha Hb.
      pose proof (Hwl a) as Wa. rewrite Ha in Wa. cbn [wl] in Wa. bsplit Wa.
      pose proof (Hwl b) as Wb. rewrite Hb in Wb.
      unfold wr_ok in Wa. destruct (g v) as [[m|o]|] eqn:Eg; [| |congruence].
      - apply mem_In in Wa. apply Hown in Wa.
        assert (Hb' : mem m (th_h (ths s b)) = true).
        { destruct wb; cbn [wl] in Wb; bsplit Wb; [unfold wr_ok in Wb | unfold rd_ok in Wb]; rewrite Eg in Wb; exact Wb. }
        apply mem_In in Hb'. apply Hown in Hb'. congruence.
      - apply mem_In in Wa. apply Hown in Wa.
        assert (Hb' : (mem o (th_h (ths s b)) || mem o (th_p (ths s b)))%bool = true).
        { destruct wb; cbn [wl] in Wb; bsplit Wb; [unfold wr_ok in Wb | unfold rd_ok in Wb]; rewrite Eg in Wb; [rewrite Wb; reflexivity | exact Wb]. }
        apply orb_prop in Hb'. destruct Hb' as [Hb'|Hb'].
        + apply mem_In in Hb'. apply Hown in Hb'. congruence.
        + apply mem_In in Hb'. apply Hpass in Hb'. apply Hdone in Hb'. destruct Hb' as [_ Hb']. congruence. }
    destruct wi.
    - eapply (Hmain i j); eassumption.
    - destruct wj; [|discriminate]. apply (Hmain j i rj ri false); [congruence | exact Hj | exact Hi].
  Qed.

  (* ---------------- deadlock freedom under the one-lock-at-a-time discipline *)
  Definition inv_sl (s : st) : Prop := forall i, sl (th_h (ths s i)) (th_k (ths s i)) = true.

  Lemma sl_body h b r o : sl h (map acc_ev b ++ ExitOnce o :: r) = sl (remove string_dec o h) r.
  Proof.
    induction b as [|a b IH]; cbn [map app]; [reflexivity|].
    unfold acc_ev at 1. destruct (fst a); cbn [sl]; exact IH.
  Qed.

  Lemma inv_sl_step s s' : inv s -> inv_sl s -> step s s' -> inv_sl s'.
  Proof.
    intros Hinv Hsl Hst j.
    destruct Hst as [i m r Hk Hfree | i m r Hk Hheld | i e r Hk Hpl | i o b r Hk Hd | i o b r Hk Hd Hfree | i o r Hk];
      cbn [ths]; (destruct (Nat.eq_dec j i) as [->|Hji]; [rewrite upd_eq; cbn [th_h th_k] | rewrite upd_neq by exact Hji; apply Hsl]);
      pose proof (Hsl i) as Hs; rewrite Hk in Hs.
    - cbn [sl] in Hs. bsplit Hs. apply nilb_nil in Hs. rewrite Hs. exact Hs0.
    - cbn [sl] in Hs. exact Hs.
    - destruct e; try discriminate Hpl; cbn [sl] in Hs; exact Hs.
    - cbn [sl] in Hs. bsplit Hs. exact Hs0.
    - cbn [sl] in Hs. bsplit Hs. apply nilb_nil in Hs. rewrite Hs in *. rewrite sl_body. cbn [remove].
      destruct (string_dec o o) as [_|Hne]; [exact Hs0 | contradiction].
    - cbn [sl] in Hs. exact Hs.
  Qed.

  Lemma inv_sl_reach progs s :
    (forall i, well_locked g (progs i) = true) -> (forall i, single_lock (progs i) = true) ->
    reach progs s -> inv s /\ inv_sl s.
  Proof.
    intros H Hs Hr. induction Hr as [|s s' Hr IH Hst].
    - split; [apply inv_init; exact H | intros i; apply Hs].
    - destruct IH as [I1 I2]. split; [eapply inv_step; eassumption | eapply inv_sl_step; eassumption].
  Qed.

  (* a thread that is inside a region can always move *)
  Lemma holder_moves s j m : inv s -> inv_sl s -> In m (th_h (ths s j)) -> exists s', step s s'.
  Proof.
    intros [Hwl Hown Hpass Hdone] Hsl Hin.
    pose proof (Hwl j) as Hw. pose proof (Hsl j) as Hs.
    destruct (th_k (ths s j)) as [|e r] eqn:Hk.
    - cbn [wl] in Hw. apply nilb_nil in Hw. rewrite Hw in Hin. destruct Hin.
    - destruct e as [m'|m'|v|v|o b|o|tag|].
      + cbn [sl] in Hs. bsplit Hs. apply nilb_nil in Hs. rewrite Hs in Hin. destruct Hin.
      + cbn [wl] in Hw. bsplit Hw. apply mem_In in Hw1. apply Hown in Hw1.
        eexists. eapply (s_rel s j m' r); [exact Hk | congruence].
      + eexists. eapply (s_plain s j (Rd v) r); [exact Hk | reflexivity].
      + eexists. eapply (s_plain s j (Wr v) r); [exact Hk | reflexivity].
      + cbn [sl] in Hs. bsplit Hs. apply nilb_nil in Hs. rewrite Hs in Hin. destruct Hin.
      + eexists. eapply (s_once_exit s j o r); exact Hk.
      + eexists. eapply (s_plain s j (Nop tag) r); [exact Hk | reflexivity].
      + eexists. eapply (s_plain s j Fail r); [exact Hk | reflexivity].
  Qed.

  Lemma no_deadlock_lemma progs s :
    (forall i, well_locked g (progs i) = true) -> (forall i, single_lock (progs i) = true) ->
    reach progs s -> (exists i, th_k (ths s i) <> []) -> exists s', step s s'.
  Proof.
    intros H Hs Hr [i Hne]. destruct (inv_sl_reach _ _ H Hs Hr) as [Hinv Hsl].
    pose proof Hinv as [Hwl Hown Hpass Hdone].
    destruct (th_k (ths s i)) as [|e r] eqn:Hk; [contradiction|].
    destruct e as [m|m|v|v|o b|o|tag|].
    - destruct (own s m) as [j|] eqn:Eo.
      + apply Hown in Eo. eapply holder_moves; eassumption.
      + eexists. eapply (s_acq s i m r); assumption.
    - pose proof (Hwl i) as Hw. rewrite Hk in Hw. cbn [wl] in Hw. bsplit Hw. apply mem_In in Hw1. apply Hown in Hw1.
      eexists. eapply (s_rel s i m r); [exact Hk | congruence].
    - eexists. eapply (s_plain s i (Rd v) r); [exact Hk | reflexivity].
    - eexists. eapply (s_plain s i (Wr v) r); [exact Hk | reflexivity].
    - destruct (done s o) eqn:Ed.
      + eexists. eapply (s_once_skip s i o b r); assumption.
      + destruct (own s o) as [j|] eqn:Eo.
        * apply Hown in Eo. eapply holder_moves; eassumption.
        * eexists. eapply (s_once_enter s i o b r); assumption.
    - eexists. eapply (s_once_exit s i o r); exact Hk.
    - eexists. eapply (s_plain s i (Nop tag) r); [exact Hk | reflexivity].
    - eexists. eapply (s_plain s i Fail r); [exact Hk | reflexivity].
  Qed.
End PartA.

(* ---------------------------------------------------------------- Part B: atomic sections *)
Section PartB.
  Variables Sh Lo : Type.

  Definition lin_inv (sh0 : Sh) (th0 : nat -> ath Sh Lo) (log : list nat) (s : ast Sh Lo) : Prop :=
    let c := seq_run log (sh0, th0) in
    match a_hold s with
    | None => a_sh s = fst c /\ forall j, a_th s j = snd c j
    | Some (i, rest) =>
        run_body rest (a_sh s) (a_loc (a_th s i)) = (fst c, a_loc (snd c i)) /\
        a_todo (a_th s i) = a_todo (snd c i) /\
        forall j, j <> i -> a_th s j = snd c j
    end.

  Lemma lin_lemma (sh0 : Sh) (th0 : nat -> ath Sh Lo) log (s : ast Sh Lo) : aexec (ainit sh0 th0) log s -> lin_inv sh0 th0 log s.
  Proof.
    intros H. induction H as [|log s lab s' Hex IH Hst].
    - unfold lin_inv. cbn. split; [reflexivity | intros j; reflexivity].
    - unfold lin_inv in *. destruct Hst as [i b r Hh Ht | i ins rest s1 l1 Hh Hi | i Hh].
      + rewrite Hh in IH. destruct IH as [IH1 IH2]. cbn [a_hold a_sh a_th].
        unfold seq_run in *. rewrite fold_left_app. cbn [fold_left].
        set (c := fold_left seq_step log (sh0, th0)) in *.
        unfold seq_step. rewrite <- (IH2 i). rewrite Ht. rewrite <- IH1.
        destruct (run_body b (a_sh s) (a_loc (a_th s i))) as [s2 l2] eqn:E.
        cbn [fst snd]. rewrite !upd_eq. cbn [a_loc a_todo]. split; [exact E|]. split; [reflexivity|].
        intros j Hj. rewrite !upd_neq by exact Hj. apply IH2.
      + rewrite Hh in IH. destruct IH as [IH1 [IH2 IH3]]. cbn [a_hold a_sh a_th]. rewrite app_nil_r.
        cbn [run_body] in IH1. rewrite Hi in IH1. rewrite upd_eq. cbn [a_loc a_todo].
        split; [exact IH1|]. split; [exact IH2|]. intros j Hj. rewrite upd_neq by exact Hj. apply IH3; exact Hj.
      + rewrite Hh in IH. destruct IH as [IH1 [IH2 IH3]]. cbn [a_hold a_sh a_th]. rewrite app_nil_r.
        cbn [run_body] in IH1. injection IH1 as E1 E2. split; [exact E1|].
        intros j. destruct (Nat.eq_dec j i) as [->|Hj]; [|apply IH3; exact Hj].
        destruct (a_th s i) as [l t], (snd (seq_run log (sh0, th0)) i) as [l' t']. cbn in *. congruence.
  Qed.

  (* every interleaving, once nobody is inside a section, is in exactly the state the sequential
     execution of the sections in lock-acquisition order produces *)
  Lemma linearizable_lemma (sh0 : Sh) (th0 : nat -> ath Sh Lo) log (s : ast Sh Lo) :
    aexec (ainit sh0 th0) log s -> a_hold s = None ->
    a_sh s = fst (seq_run log (sh0, th0)) /\ forall j, a_th s j = snd (seq_run log (sh0, th0)) j.
  Proof.
    intros H Hh. apply lin_lemma in H. unfold lin_inv in H. rewrite Hh in H. exact H.
  Qed.

  Lemma seq_run_ind (P : Sh * (nat -> ath Sh Lo) -> Prop) log c :
    P c -> (forall c i, P c -> P (seq_step c i)) -> P (seq_run log c).
  Proof.
    intros H0 Hs. revert c H0. unfold seq_run. induction log as [|i log IH]; intros c H0; cbn [fold_left]; [exact H0|].
    apply IH. apply Hs. exact H0.
  Qed.
End PartB.

(* B2: k concurrent serialize(p) of one profile each return serialize p *)
Section SerializeProof.
  Variables P Scratch Bytes : Type.
  Variable pre : P -> Scratch.
  Variable marshal : P -> Scratch -> Bytes.
  Variable p : P.
  Let body := serialize_body P Scratch Bytes pre marshal p.
  Let out := serialize_seq P Scratch Bytes pre marshal p.

  Definition ser_init (th0 : nat -> ath Scratch (option Bytes)) : Prop :=
    forall j, a_loc (th0 j) = None /\ Forall (eq body) (a_todo (th0 j)).

  Lemma serialize_lemma sc0 th0 log s j :
    ser_init th0 -> aexec (ainit sc0 th0) log s -> a_hold s = None ->
    (a_loc (a_th s j) = Some out \/ (a_loc (a_th s j) = None /\ a_todo (a_th s j) = a_todo (th0 j))).
  Proof.
    intros Hi Hex Hh. destruct (linearizable_lemma _ _ _ _ _ _ Hex Hh) as [_ Hth]. rewrite Hth.
    revert j.
    apply (seq_run_ind _ _ (fun c => forall j, Forall (eq body) (a_todo (snd c j)) /\
              (a_loc (snd c j) = Some out \/ (a_loc (snd c j) = None /\ a_todo (snd c j) = a_todo (th0 j))))).
    - intros j. cbn. destruct (Hi j) as [H1 H2]. split; [exact H2 | right; split; [exact H1 | reflexivity]].
    - intros c i Hc j. unfold seq_step. destruct (a_todo (snd c i)) as [|b r] eqn:Et; [apply Hc|].
      destruct (Hc i) as [Hf _]. rewrite Et in Hf. inversion Hf as [|b' r' Hb Hr]; subst b' r'. rewrite <- Hb.
      unfold body, serialize_body. cbn [run_body]. cbn [snd].
      destruct (Nat.eq_dec j i) as [->|Hj].
      + rewrite upd_eq. cbn. split; [exact Hr | left; reflexivity].
      + rewrite upd_neq by exact Hj. apply Hc.
  Qed.
End SerializeProof.

(* B4: the temp-file registry: in every interleaving of registrations and cleanups a file that was
   ever registered is still registered (the next cleanup takes it) or already gone -- never lost *)
Section RegistryProof.
  Definition reg_init (th0 : nat -> ath rstore bool) : Prop :=
    forall j, Forall (fun b => exists o, b = rop_body o) (a_todo (th0 j)).
  Definition reg_safe (s : rstore) : Prop :=
    forall f, In f (r_ever s) -> In f (r_reg s) \/ ~ In f (r_disk s).

  Lemma registry_lemma disk0 th0 log s :
    reg_init th0 -> aexec (ainit ([], disk0, []) th0) log s -> a_hold s = None -> reg_safe (a_sh s).
  Proof.
    intros Hi Hex Hh. destruct (linearizable_lemma _ _ _ _ _ _ Hex Hh) as [Hs _]. rewrite Hs.
    apply (seq_run_ind _ _ (fun c => (forall j, Forall (fun b => exists o, b = rop_body o) (a_todo (snd c j))) /\ reg_safe (fst c))).
    - split; [exact Hi | intros f []].
    - intros c i [Hf Hsafe]. unfold seq_step. destruct (a_todo (snd c i)) as [|b r] eqn:Et; [split; assumption|].
      pose proof (Hf i) as Hfi. rewrite Et in Hfi. inversion Hfi as [|b' r' [o Hb] Hr]; subst b' r'. subst b.
      destruct o as [f0|]; cbn [rop_body run_body fst snd]; split.
      + intros j. destruct (Nat.eq_dec j i) as [->|Hj]; [rewrite upd_eq; exact Hr | rewrite upd_neq by exact Hj; apply Hf].
      + intros f Hin. unfold r_ever, r_reg, r_disk in *. cbn [fst snd] in *. destruct Hin as [->|Hin]; [left; left; reflexivity|].
        destruct (Hsafe f Hin) as [H1|H1]; [left; right; exact H1 | right; exact H1].
      + intros j. destruct (Nat.eq_dec j i) as [->|Hj]; [rewrite upd_eq; exact Hr | rewrite upd_neq by exact Hj; apply Hf].
      + intros f Hin. unfold r_ever, r_reg, r_disk in *. cbn [fst snd] in *. right. intros Hd.
        apply filter_In in Hd. destruct Hd as [Hd Hm]. apply negb_true_iff in Hm. apply mem_nIn in Hm.
        destruct (Hsafe f Hin) as [H1|H1]; contradiction.
  Qed.
End RegistryProof.

(* B5: a setting made by update survives every interleaving with first uses (lazy get) *)
Section CowProof.
  Variable Rep : Type.
  Variable dflt : Rep.
  Variable g : Rep -> Rep.
  Variable P : Rep -> Prop.
  Hypothesis Pg : forall b, P (g b).

  Definition cow_init (th0 : nat -> ath (option Rep * nat) (option Rep)) : Prop :=
    forall j, Forall (fun b => b = cw_body dflt CwGet \/ b = cw_body dflt (CwUpd g)) (a_todo (th0 j)).

  Lemma cow_lemma th0 log s :
    cow_init th0 -> aexec (ainit (None, O) th0) log s -> a_hold s = None ->
    snd (a_sh s) = O \/ exists b, fst (a_sh s) = Some b /\ P b.
  Proof.
    intros Hi Hex Hh. destruct (linearizable_lemma _ _ _ _ _ _ Hex Hh) as [Hs _]. rewrite Hs.
    apply (seq_run_ind _ _ (fun c => (forall j, Forall (fun b => b = cw_body dflt CwGet \/ b = cw_body dflt (CwUpd g)) (a_todo (snd c j))) /\
                                   (snd (fst c) = O \/ exists b, fst (fst c) = Some b /\ P b))).
    - split; [exact Hi | left; reflexivity].
    - intros c i [Hf Hp]. unfold seq_step. destruct (a_todo (snd c i)) as [|b r] eqn:Et; [split; assumption|].
      pose proof (Hf i) as Hfi. rewrite Et in Hfi. inversion Hfi as [|b' r' Hb Hr]; subst b' r'.
      destruct Hb as [->| ->]; cbn [cw_body run_body fst snd]; split.
      + intros j. destruct (Nat.eq_dec j i) as [->|Hj]; [rewrite upd_eq; exact Hr | rewrite upd_neq by exact Hj; apply Hf].
      + destruct Hp as [H0|[b0 [Hb0 HP]]]; [left; exact H0|]. right. exists b0. split; [|exact HP].
        unfold cw_cur. rewrite Hb0. reflexivity.
      + intros j. destruct (Nat.eq_dec j i) as [->|Hj]; [rewrite upd_eq; exact Hr | rewrite upd_neq by exact Hj; apply Hf].
      + right. eexists. split; [reflexivity | apply Pg].
  Qed.
End CowProof.

(* B3: sync.Once: the body runs once, every caller that has returned reads the value it computed *)
Section OnceProof.
  Variables A V : Type.
  Variable f : A -> V.
  Variable addr : nat -> A.

  Definition once_init (th0 : nat -> ath (option V * nat) (option V)) : Prop :=
    forall j, a_loc (th0 j) = None /\ (a_todo (th0 j) = [] \/ a_todo (th0 j) = [once_body A V f (addr j)]).

  Definition once_post (th0 : nat -> ath (option V * nat) (option V)) (c : (option V * nat) * (nat -> ath (option V * nat) (option V))) : Prop :=
    (fst c = (None, O) /\ forall j, snd c j = th0 j) \/
    (exists a, fst c = (Some (f a), 1%nat) /\
               forall j, (a_loc (snd c j) = Some (f a) /\ a_todo (snd c j) = []) \/ snd c j = th0 j).

  Lemma once_lemma th0 log s :
    once_init th0 -> aexec (ainit (None, O) th0) log s -> a_hold s = None ->
    (a_sh s = (None, O) /\ forall j, a_th s j = th0 j) \/
    (exists a, a_sh s = (Some (f a), 1%nat) /\
               forall j, (a_loc (a_th s j) = Some (f a) /\ a_todo (a_th s j) = []) \/ a_th s j = th0 j).
  Proof.
    intros Hi Hex Hh. destruct (linearizable_lemma _ _ _ _ _ _ Hex Hh) as [Hs Hth].
    assert (Hp : once_post th0 (seq_run log ((None, O), th0))).
    { apply seq_run_ind.
      - left. split; [reflexivity | intros j; reflexivity].
      - intros c i Hc. unfold seq_step. destruct (a_todo (snd c i)) as [|b r] eqn:Et; [exact Hc|].
        destruct Hc as [[H1 H2]|[a [H1 H2]]].
        + rewrite H2 in Et. destruct (Hi i) as [Hl [Hn|Hn]]; rewrite Hn in Et; [discriminate|].
          inversion Et; subst b r. rewrite H1. unfold once_body. cbn [run_body fst snd].
          right. exists (addr i). split; [reflexivity|]. intros j. cbn [fst snd]. destruct (Nat.eq_dec j i) as [->|Hj].
          * rewrite upd_eq. cbn. left. split; reflexivity.
          * rewrite upd_neq by exact Hj. right. apply H2.
        + destruct (H2 i) as [[_ Hn]|Hn]; [rewrite Hn in Et; discriminate|].
          rewrite Hn in Et. destruct (Hi i) as [Hl [Hn'|Hn']]; rewrite Hn' in Et; [discriminate|].
          inversion Et; subst b r. rewrite H1. unfold once_body. cbn [run_body fst snd].
          right. exists a. split; [reflexivity|]. intros j. cbn [fst snd]. destruct (Nat.eq_dec j i) as [->|Hj].
          * rewrite upd_eq. cbn. left. split; reflexivity.
          * rewrite upd_neq by exact Hj. apply H2. }
    destruct Hp as [[H1 H2]|[a [H1 H2]]].
    - left. split; [congruence | intros j; rewrite Hth; apply H2].
    - right. exists a. split; [congruence | intros j; rewrite Hth; apply H2].
  Qed.
End OnceProof.

(* ---------------------------------------------------------------- Part C: temp files *)
Section PartC.
  Variable nm : nat -> string.
  Variable limit : nat.
  Variable eb : string -> bool.
  Variable active : nat -> bool.

  Record tinv (s : tst) : Prop := {
    ti_done : forall i name, t_th s i = TDone name -> t_dir s name = Some (Some i);
    ti_old : forall name, eb name = true -> t_dir s name = Some None;
    ti_new : forall name i, t_dir s name = Some (Some i) -> eb name = false
  }.

  Lemma tinv_reach s : treach nm limit true (tinit eb active) s -> tinv s.
  Proof.
    intros H. induction H as [|s s' _ IH Hst].
    - constructor; cbn.
      + intros i name. destruct (active i); discriminate.
      + intros name Hn. rewrite Hn. reflexivity.
      + intros name i. destruct (eb name); discriminate.
    - destruct IH as [I1 I2 I3]. destruct Hst as [i n Hr Hd | i n Hr Hd He | i n Hr Hd He | i n Hr]; [| |discriminate|].
      + constructor; cbn [t_dir t_th].
        * intros j name. destruct (Nat.eq_dec j i) as [->|Hj].
          -- rewrite upd_eq. intros E. inversion E. apply supd_eq.
          -- rewrite upd_neq by exact Hj. intros E. apply I1 in E.
             destruct (String.eqb_spec name (nm n)) as [->|Hne]; [congruence | rewrite supd_neq by exact Hne; exact E].
        * intros name Hn. apply I2 in Hn.
          destruct (String.eqb_spec name (nm n)) as [->|Hne]; [congruence | rewrite supd_neq by exact Hne; exact Hn].
        * intros name j. destruct (String.eqb_spec name (nm n)) as [->|Hne].
          -- intros _. destruct (eb (nm n)) eqn:E; [apply I2 in E; congruence | reflexivity].
          -- rewrite supd_neq by exact Hne. apply I3.
      + constructor; cbn [t_dir t_th]; [|exact I2|exact I3].
        intros j name. destruct (Nat.eq_dec j i) as [->|Hj]; [rewrite upd_eq | rewrite upd_neq by exact Hj; apply I1].
        destruct (Nat.ltb (S n) limit); discriminate.
      + constructor; cbn [t_dir t_th]; [|exact I2|exact I3].
        intros j name. destruct (Nat.eq_dec j i) as [->|Hj]; [rewrite upd_eq; discriminate | rewrite upd_neq by exact Hj; apply I1].
  Qed.

  Lemma tempfile_lemma s :
    treach nm limit true (tinit eb active) s ->
    (forall i j n1 n2, i <> j -> t_th s i = TDone n1 -> t_th s j = TDone n2 -> n1 <> n2) /\
    (forall i n, t_th s i = TDone n -> eb n = false) /\
    (forall name, eb name = true -> t_dir s name = Some None).
  Proof.
    intros H. destruct (tinv_reach s H) as [I1 I2 I3]. split; [|split].
    - intros i j n1 n2 Hij H1 H2 E. subst n2. apply I1 in H1. apply I1 in H2. congruence.
    - intros i n Hn. apply I1 in Hn. eapply I3; exact Hn.
    - exact I2.
  Qed.

  (* without O_EXCL two concurrent calls can return the same name (and truncate each other's file) *)
  Lemma nonexcl_collides_lemma :
    eb (nm 1) = false -> active 0%nat = true -> active 1%nat = true ->
    exists s, treach nm limit false (tinit eb active) s /\ t_th s 0%nat = TDone (nm 1) /\ t_th s 1%nat = TDone (nm 1).
  Proof.
    intros He A0 A1.
    eexists. split.
    - eapply treachS; [eapply treachS; [apply treach0|]|].
      + apply (t_create nm limit false _ 0%nat 1%nat); cbn; [rewrite A0; reflexivity | rewrite He; reflexivity].
      + apply (t_clobber nm limit false _ 1%nat 1%nat); cbn [t_th t_dir].
        * rewrite upd_neq by discriminate. cbn. rewrite A1. reflexivity.
        * rewrite supd_eq. discriminate.
        * reflexivity.
    - cbn. split; reflexivity.
  Qed.
End PartC.

(* the option operations as atomic sections do what their one-at-a-time definitions do *)
Lemma oop_body_seq {Cfg} (o : oop Cfg) s l : run_body (oop_body o) s l = oop_seq o (s, l).
Proof. destruct o; reflexivity. Qed.

(* Part H: atomic message+newline writes give back exactly the messages, one per line *)
Lemma lines_app m r : no_nl m = true -> lines (m ++ String nl r) = m :: lines r.
Proof.
  induction m as [|a m IH]; intros H; cbn [String.append lines].
  - rewrite Ascii.eqb_refl. reflexivity.
  - cbn [no_nl] in H. apply andb_prop in H. destruct H as [Ha Hm]. apply negb_true_iff in Ha.
    rewrite Ha. rewrite (IH Hm). reflexivity.
Qed.

Lemma ui_lines_lemma ms : forallb no_nl ms = true -> lines (ui_stream ms) = ms.
Proof.
  induction ms as [|m r IH]; intros H; cbn [ui_stream]; [reflexivity|].
  cbn [forallb] in H. apply andb_prop in H. destruct H as [Hm Hr].
  rewrite (lines_app m _ Hm). rewrite (IH Hr). reflexivity.
Qed.
