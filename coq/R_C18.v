(* Case runner for C18: decodes harness cases, runs the models, judges the implementation. *)
From PV Require Export U_C18Pack.
From PV Require Import M_Dot S_Dot S_DotClass M_Callgrind S_Callgrind M_Trim.
Open Scope string_scope.
Open Scope Z_scope.

(* ---------------- decoding ---------------- *)
Definition info_of (t : term) : ninfo :=
  {| ni_name := gs (gn t 0); ni_short := gs (gn t 1); ni_addr := gz (gn t 2); ni_file := gs (gn t 3);
     ni_line := gz (gn t 4); ni_col := gz (gn t 5); ni_obj := gs (gn t 6) |}.
Definition ntag_of (t : term) : ntag := {| nt_name := gs (gn t 0); nt_flat := gz (gn t 1); nt_cum := gz (gn t 2) |}.
Definition optnum_of (t : term) : option (list ntag) :=
  match gl t with [l] => Some (map ntag_of (gl l)) | _ => None end.
Definition ltag_of (t : term) : ltag :=
  {| lt_name := gs (gn t 0); lt_flat := gz (gn t 1); lt_cum := gz (gn t 2); lt_num := optnum_of (gn t 3) |}.
Definition attrs_of (t : term) : option nattrs :=
  match gl t with
  | [a] => Some {| na_fmt := match gl (gn a 0) with [f] => Some (gs f) | _ => None end;
                   na_shape := gs (gn a 1); na_bold := gb (gn a 2); na_periph := gz (gn a 3); na_url := gs (gn a 4) |}
  | _ => None
  end.
Definition dnode_of (t : term) : dnode :=
  {| dn_info := info_of (gn t 0); dn_flat := gz (gn t 1); dn_cum := gz (gn t 2); dn_attrs := attrs_of (gn t 3);
     dn_tags := map ltag_of (gl (gn t 4)); dn_rootnum := optnum_of (gn t 5); dn_hasout := gb (gn t 6) |}.
Definition dedge_of (t : term) : dedge :=
  {| de_from := gz (gn t 0); de_to := gz (gn t 1); de_src := info_of (gn t 2); de_dst := info_of (gn t 3);
     de_w := gz (gn t 4); de_inline := gb (gn t 5); de_residual := gb (gn t 6) |}.
Definition tab_of (t : term) : list (Z * string) := map (fun e => (gz (gn e 0), gs (gn e 1))) (gl t).
Definition dgraph_of (t : term) : dgraph :=
  {| dg_title := gs (gn t 0); dg_url := gs (gn t 1); dg_labels := gss (gn t 2); dg_total := gz (gn t 3);
     dg_fv := tab_of (gn t 4); dg_pct := tab_of (gn t 5);
     dg_nodes := map dnode_of (gl (gn t 6)); dg_edges := map dedge_of (gl (gn t 7)) |}.

(* ---------------- comparison of DOT texts ---------------- *)
Fixpoint drop_digits (s : string) : string :=
  match s with
  | String c r => if is_digit c then drop_digits r else s
  | EmptyString => s
  end.
Definition k_fontsize : string := " fontsize=".
Definition k_color : string := "color=""#".
(* float-derived attribute values are blanked on both sides *)
Fixpoint mask_go (fuel : nat) (s : string) : string :=
  match fuel with
  | O => s
  | S f =>
      if has_prefix k_fontsize s then
        k_fontsize ++ mask_go f (match drop 10 s with
                                 | String c r => if Ascii.eqb c "-" then drop_digits r else drop_digits (String c r)
                                 | EmptyString => EmptyString
                                 end)
      else if has_prefix k_color s then k_color ++ mask_go f (drop 14 s)
      else match s with
           | EmptyString => EmptyString
           | String c r => String c (mask_go f r)
           end
  end.
Definition mask (s : string) : string := mask_go (String.length s) s.

Fixpoint lines_go (s : string) (rcur : string) : list string :=
  match s with
  | EmptyString => [rev_string rcur]
  | String c r => if is_nl c then rev_string rcur :: lines_go r "" else lines_go r (String c rcur)
  end.
Definition lines (s : string) : list string := lines_go s "".

Fixpoint remove_one (x : string) (l : list string) : option (list string) :=
  match l with
  | [] => None
  | y :: r => if String.eqb x y then Some r
              else match remove_one x r with Some r' => Some (y :: r') | None => None end
  end.
Fixpoint perm_eqb (a b : list string) : bool :=
  match a with
  | [] => match b with [] => true | _ => false end
  | x :: r => match remove_one x b with Some b' => perm_eqb r b' | None => false end
  end.
(* identical after masking, or (edges that tie in EdgeMap.Sort may come in either order) the same
   multiset of lines *)
Definition dot_text_eqv (m o : string) : bool :=
  let m' := mask m in let o' := mask o in
  String.eqb m' o' || perm_eqb (lines m') (lines o').

(* ---------------- callgrind cases ---------------- *)
Definition cgedge_of (t : term) : cgedge :=
  {| ce_file := gs (gn t 0); ce_name := gs (gn t 1); ce_addr := gz (gn t 2); ce_line := gz (gn t 3); ce_cost := gz (gn t 4) |}.
Definition cgnode_of (t : term) : cgnode :=
  {| cn_obj := gs (gn t 0); cn_file := gs (gn t 1); cn_name := gs (gn t 2); cn_addr := gz (gn t 3); cn_line := gz (gn t 4);
     cn_cost := gz (gn t 5); cn_out := map cgedge_of (gl (gn t 6)) |}.
Definition cg_nodes_of (i : term) : list cgnode := map cgnode_of (gl (gn i 4)).
(* The node order (and with it the [k/n] suffixes of disambiguated names) is not a function of the
   profile when nodes of a call tree share their NodeInfo (C08's F19): the graph extracted by the
   harness and the graph printCallgrind built may then differ.  Such cases are compared loosely:
   the text must still read (every reference defined, every line well-formed). *)
Definition same_info (a b : cgnode) : bool :=
  String.eqb (cn_obj a) (cn_obj b) && String.eqb (cn_file a) (cn_file b) && String.eqb (cn_name a) (cn_name b) &&
  (cn_addr a =? cn_addr b) && (cn_line a =? cn_line b).
Fixpoint has_dup (ns : list cgnode) : bool :=
  match ns with [] => false | n :: r => existsb (same_info n) r || has_dup r end.
(* out-edges of equal MAGNITUDE (edgeList.Less compares abs64 of the weights: +3 and -3 tie) tie
   when the callees print alike (C08's F9) *)
Fixpoint has_dup_cost (es : list cgedge) : bool :=
  match es with [] => false | e :: r => existsb (fun e' => Z.abs (ce_cost e) =? Z.abs (ce_cost e')) r || has_dup_cost r end.
Definition cg_nondet (i : term) : bool :=
  let ns := map cgnode_of (gl (gn i 4)) in
  gb (gn i 3) || has_dup ns || existsb (fun n => has_dup_cost (cn_out n)) ns.
Definition callgrind_reads (text : string) : bool :=
  match parse_text text with
  | Some ls => match decode ls with Some _ => true | None => false end
  | None => false
  end.

(* ---------------- TrimTree cases ---------------- *)
Definition pm_of (t : term) : pmap := map (fun e => (gz (gn e 0), gz (gn e 1))) (gl t).
Definition trim_run (i : term) : term :=
  let pm := pm_of (gn i 1) in let listed := gzs (gn i 2) in let kept := gzs (gn i 3) in
  let final := trim_tree kept listed pm in
  TL (map (fun n => TL [TZ n; of_zs (out_of final n)]) (trim_nodes kept listed)).
(* on what the implementation left: every Out edge of a listed node leads to a listed node, whenever
   every node of the forest was listed *)
Definition trim_spec (i o : term) : bool :=
  let all_listed := forallb (fun n => zmem n (gzs (gn i 2))) (dom (pm_of (gn i 1))) in
  let nodes := map (fun e => gz (gn e 0)) (gl o) in
  negb all_listed || forallb (fun e => forallb (fun c => zmem c nodes) (gzs (gn e 1))) (gl o).

(* ---------------- the runner ---------------- *)
Definition op_of (i : term) : string := gs (gn i 0).

Definition run_C18 (i : term) : term :=
  let op := op_of i in
  if String.eqb op "esc" then TS (escape_for_dot (gs (gn i 1)))
  else if String.eqb op "dot" then TS (compose_dot (dgraph_of (gn i 1)))
  else if String.eqb op "html" then TL [TZ 0; TZ 0]   (* no raw payload marker on an HTML page *)
  else if String.eqb op "e2edot" || String.eqb op "e2ecg" then TL []   (* end to end: judged by the spec only *)
  else if String.eqb op "trim" then trim_run i
  else if String.eqb op "cg" then TS (print_callgrind (gs (gn i 1)) (gs (gn i 2)) (cg_nodes_of i))
  else TL [TS "unknown-op"].

Definition eqv_C18 (i m o : term) : bool :=
  let op := op_of i in
  if String.eqb op "dot" then
    match m, o with TS a, TS b => dot_text_eqv a b | _, _ => false end
  else if String.eqb op "e2edot" || String.eqb op "e2ecg" then true
  else if String.eqb op "cg" then cg_nondet i || term_eqb m o
  else term_eqb m o.

Definition spec_C18 (i o : term) : bool :=
  let op := op_of i in
  if String.eqb op "esc" then
    match o with TS e => escapes_to (gs (gn i 1)) e | _ => false end
  else if String.eqb op "dot" then
    match o with TS text => dot_valid text | _ => false end
  else if String.eqb op "html" then term_eqb o (TL [TZ 0; TZ 0])
  else if String.eqb op "trim" then trim_spec i o
  else if String.eqb op "e2edot" then
    (* what pprof -dot printed (command line, session, any option combination) is a valid DOT
       document whose edges name declared nodes; a run that had to succeed did *)
    match o with TS text => dot_valid text | _ => negb (gb (gn i 4)) end
  else if String.eqb op "e2ecg" then
    match o with TS text => callgrind_reads text | _ => negb (gb (gn i 4)) end
  else if String.eqb op "cg" then
    match o with
    | TS text => if cg_nondet i then callgrind_reads text else callgrind_ok (cg_nodes_of i) text
    | _ => false
    end
  else true.

Definition cls_C18 (i : term) : list Z :=
  let op := op_of i in
  if String.eqb op "dot" then []   (* F29 / F30 are repaired: no class *)
  else if String.eqb op "cg" then
    let ns := cg_nodes_of i in
    ((if cg_nondet i then [900] else []) ++
     (if in_F11 ns then [11] else []) ++
     (if names_ok (gs (gn i 1)) (gs (gn i 2)) ns then [] else [20]))%list
  else [].

Definition judge_C18 := judge_all run_C18 eqv_C18 spec_C18 cls_C18 0%Z.
