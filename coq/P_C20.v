(* C20 -- Shared profile and tool state is safe under concurrent use.
   Property theorems only.  Part I: general theorems, for ANY number of threads and ANY interleaving.
   Part II: obligations on the event lists REGENERATED from /repo by `harness lockscan` on every run
   (Gen/Gen_LockEvents.v), discharged by vm_compute, and the general theorems instantiated with them. *)
From PV Require Import M_Conc S_Conc L_Conc Gen.Gen_LockEvents L_ConcGen.
Open Scope string_scope.

(* ------------------------------------------------------------------ Part I *)
(* two threads are never inside a region of the same mutex / the same Once body *)
Theorem well_locked_mutex : forall g progs s i j m,
  (forall i, well_locked g (progs i) = true) -> reach progs s ->
  In m (th_h (ths s i)) -> In m (th_h (ths s j)) -> i = j.
Proof. exact mutex_lemma. Qed.
Print Assumptions well_locked_mutex.

(* no two conflicting accesses to a guarded variable are enabled at the same time *)
Theorem well_locked_race_free : forall g progs s i j v wi wj,
  (forall i, well_locked g (progs i) = true) -> reach progs s ->
  i <> j -> g v <> None -> next_access s i v wi -> next_access s j v wj -> (wi || wj)%bool = true -> False.
Proof. exact race_free_lemma. Qed.
Print Assumptions well_locked_race_free.

(* deadlock freedom; proved for threads that hold one lock at a time *)
Theorem no_deadlock_partial : forall g progs s,
  (forall i, well_locked g (progs i) = true) -> (forall i, single_lock (progs i) = true) ->
  reach progs s -> (exists i, th_k (ths s i) <> []) -> exists s', step s s'.
Proof. exact no_deadlock_lemma. Qed.
Print Assumptions no_deadlock_partial.

(* the full statement (nested acquisition in a fixed order); not proved, see lock_order_of_current_source *)
Definition full_statement_no_deadlock : Prop := forall g (rank : string -> nat) progs s,
  (forall i, well_locked g (progs i) = true) ->
  (forall i a b, In (a, b) (nested_pairs [] (progs i)) -> (rank a < rank b)%nat) ->
  reach progs s -> (exists i, th_k (ths s i) <> []) -> exists s', step s s'.

(* critical sections on shared data: every interleaving ends in the state of the sequential
   execution of the sections in lock-acquisition order *)
Theorem atomic_ops_linearizable : forall (Sh Lo : Type) (sh0 : Sh) (th0 : nat -> ath Sh Lo) log (s : ast Sh Lo),
  aexec (ainit sh0 th0) log s -> a_hold s = None ->
  a_sh s = fst (seq_run log (sh0, th0)) /\ forall j, a_th s j = snd (seq_run log (sh0, th0)) j.
Proof. exact linearizable_lemma. Qed.
Print Assumptions atomic_ops_linearizable.

(* get / set / configure of the option store are such sections *)
Theorem option_ops_are_atomic : forall (Cfg : Type) (o : oop Cfg) s l, run_body (oop_body o) s l = oop_seq o (s, l).
Proof. exact @oop_body_seq. Qed.
Print Assumptions option_ops_are_atomic.

(* any number of concurrent serialize(p) of one profile: every call that has returned returned serialize p *)
Theorem serialize_concurrent_equals_sequential :
  forall (P Scratch Bytes : Type) (pre : P -> Scratch) (marshal : P -> Scratch -> Bytes) (p : P) sc0 th0 log s j,
  ser_init P Scratch Bytes pre marshal p th0 -> aexec (ainit sc0 th0) log s -> a_hold s = None ->
  a_loc (a_th s j) = Some (serialize_seq P Scratch Bytes pre marshal p) \/
  (a_loc (a_th s j) = None /\ a_todo (a_th s j) = a_todo (th0 j)).
Proof. exact serialize_lemma. Qed.
Print Assumptions serialize_concurrent_equals_sequential.

(* temp-file registry: whatever the interleaving of deferDeleteTempFile and cleanupTempFiles calls, a
   file that was ever registered is either still registered (the cleanup on exit removes it) or no
   longer on disk: a registration is never lost *)
Theorem registry_never_loses_a_file : forall disk0 th0 log s,
  reg_init th0 -> aexec (ainit ([], disk0, []) th0) log s -> a_hold s = None -> reg_safe (a_sh s).
Proof. exact registry_lemma. Qed.
Print Assumptions registry_never_loses_a_file.

(* copy-on-write tool configuration: once an update (SetTools, SetFastSymbolization) has run, the
   representation satisfies what that update establishes -- no interleaving with first uses (the lazy
   initialisation in get) can overwrite it with the defaults *)
Theorem tool_setting_survives_first_use :
  forall (Rep : Type) (dflt : Rep) (g : Rep -> Rep) (P : Rep -> Prop), (forall b, P (g b)) ->
  forall th0 log s, cow_init Rep dflt g th0 -> aexec (ainit (None, O) th0) log s -> a_hold s = None ->
  snd (a_sh s) = O \/ exists b, fst (a_sh s) = Some b /\ P b.
Proof. exact cow_lemma. Qed.
Print Assumptions tool_setting_survives_first_use.

(* the shared UI: whatever order the concurrent Print/PrintErr calls are serialised in, the stream read
   back line by line is exactly the messages in that order -- one message per line, none torn, none empty
   unless a message is empty *)
Theorem ui_print_whole_lines : forall ms, forallb no_nl ms = true -> lines (ui_stream ms) = ms.
Proof. exact ui_lines_lemma. Qed.
Print Assumptions ui_print_whole_lines.

(* a message and its newline written separately can be torn: "a" "b" "\n" "\n" reads back as ["ab"; ""] *)
Theorem split_newline_write_tears :
  lines ("a" ++ "b" ++ String nl (String nl "")) = ["ab"; ""]%string.
Proof. vm_compute. reflexivity. Qed.
Print Assumptions split_newline_write_tears.

(* per-request state is necessary: with ONE catcher shared by the requests -- even a correctly locked one --
   the order print(A), take(B), take(A) gives request B the message of A and A none (round-6 regression) *)
Theorem shared_catcher_swaps_messages :
  let c := seq_run [0; 1; 0]%nat ([], cat_threads) in
  a_loc (snd c 0%nat) = [] /\ a_loc (snd c 1%nat) = ["Focus expression matched no samples"].
Proof. vm_compute. split; reflexivity. Qed.
Print Assumptions shared_catcher_swaps_messages.

(* sync.Once around computeBase: the body runs exactly once and every caller that has returned
   reads the value computed by that one run *)
Theorem once_computes_once : forall (A V : Type) (f : A -> V) (addr : nat -> A) th0 log s,
  once_init A V f addr th0 -> aexec (ainit (None, O) th0) log s -> a_hold s = None ->
  (a_sh s = (None, O) /\ forall j, a_th s j = th0 j) \/
  (exists a, a_sh s = (Some (f a), 1%nat) /\
             forall j, (a_loc (a_th s j) = Some (f a) /\ a_todo (a_th s j) = []) \/ a_th s j = th0 j).
Proof. exact once_lemma. Qed.
Print Assumptions once_computes_once.

(* any number of concurrent newTempFile calls on any directory: returned names pairwise distinct,
   none existed before, nothing that existed is overwritten *)
Theorem tempfile_names_distinct : forall nm limit eb active s,
  treach nm limit true (tinit eb active) s ->
  (forall i j n1 n2, i <> j -> t_th s i = TDone n1 -> t_th s j = TDone n2 -> n1 <> n2) /\
  (forall i n, t_th s i = TDone n -> eb n = false) /\
  (forall name, eb name = true -> t_dir s name = Some None).
Proof. exact tempfile_lemma. Qed.
Print Assumptions tempfile_names_distinct.

(* the O_EXCL hypothesis is necessary: without it two calls can return the same name *)
Theorem nonexclusive_create_collides : forall nm limit eb active,
  eb (nm 1%nat) = false -> active 0%nat = true -> active 1%nat = true ->
  exists s, treach nm limit false (tinit eb active) s /\ t_th s 0%nat = TDone (nm 1%nat) /\ t_th s 1%nat = TDone (nm 1%nat).
Proof. exact nonexcl_collides_lemma. Qed.
Print Assumptions nonexclusive_create_collides.

(* ------------------------------------------------------------------ Part II: the current source *)
Theorem lock_discipline_of_current_source : roots_ok gen_funcs gen_guards false gen_roots = true.
Proof. vm_compute. reflexivity. Qed.
Print Assumptions lock_discipline_of_current_source.

Theorem guard_table_not_vacuous :
  table_not_vacuous gen_funcs gen_guards gen_roots = true /\ roots_present gen_roots = true.
Proof. vm_compute. split; reflexivity. Qed.
Print Assumptions guard_table_not_vacuous.

Theorem names_created_exclusively : creates_exclusive gen_funcs gen_excl_funcs = true.
Proof. vm_compute. reflexivity. Qed.
Print Assumptions names_created_exclusively.

Theorem reserved_names_stay_reserved :
  reservations_kept gen_funcs gen_reserve_users = true /\ (2 <=? List.length gen_reserve_users)%nat = true.
Proof. vm_compute. split; reflexivity. Qed.
Print Assumptions reserved_names_stay_reserved.

Theorem fetch_results_read_after_barrier : barrier_ok gen_funcs gen_guards gen_barrier_funcs = true.
Proof. vm_compute. reflexivity. Qed.
Print Assumptions fetch_results_read_after_barrier.

Theorem web_handlers_write_no_unguarded_global : roots_ok gen_funcs gen_guards true gen_web_roots = true.
Proof. vm_compute. reflexivity. Qed.
Print Assumptions web_handlers_write_no_unguarded_global.

Theorem lock_order_of_current_source : lock_order_ok gen_funcs gen_roots = true.
Proof. vm_compute. reflexivity. Qed.
Print Assumptions lock_order_of_current_source.

(* every read-modify-write of a guarded variable (configure's option update, the temp-file registry
   append, the copy-on-write replacement of Binutils.rep ...) is a single critical section: this is
   what makes option_ops_are_atomic / atomic_ops_linearizable a model of the source *)
Theorem read_modify_write_single_section :
  rmw_ok gen_funcs (map fst gen_rmw_exempt) gen_roots = true /\ rmw_seen gen_funcs gen_roots = true.
Proof. vm_compute. split; reflexivity. Qed.
Print Assumptions read_modify_write_single_section.

Theorem current_source_mutual_exclusion : forall progs s i j m,
  (forall i, source_thread gen_funcs gen_roots (progs i)) -> reach progs s ->
  In m (th_h (ths s i)) -> In m (th_h (ths s j)) -> i = j.
Proof. exact (gen_mutex_lemma gen_funcs gen_guards gen_roots lock_discipline_of_current_source). Qed.
Print Assumptions current_source_mutual_exclusion.

Theorem current_source_race_free : forall progs s i j v wi wj,
  (forall i, source_thread gen_funcs gen_roots (progs i)) -> reach progs s ->
  i <> j -> g0 gen_guards v <> None -> next_access s i v wi -> next_access s j v wj -> (wi || wj)%bool = true -> False.
Proof. exact (gen_race_free_lemma gen_funcs gen_guards gen_roots lock_discipline_of_current_source). Qed.
Print Assumptions current_source_race_free.

Theorem current_source_no_deadlock_partial : forall progs s,
  (forall i, source_thread_single gen_funcs gen_roots (progs i)) -> reach progs s ->
  (exists i, th_k (ths s i) <> []) -> exists s', step s s'.
Proof. exact (gen_no_deadlock_lemma gen_funcs gen_guards gen_roots lock_discipline_of_current_source). Qed.
Print Assumptions current_source_no_deadlock_partial.

(* ------------------------------------------------------------------ non-vacuity *)
Example serialize_is_a_source_thread : source_thread gen_funcs gen_roots (thread_of gen_funcs "profile:Profile.Write").
Proof. right. exists "profile:Profile.Write". split; [vm_compute; tauto | reflexivity]. Qed.
Example serialize_region_is_guarded :
  let t := thread_of gen_funcs "profile:Profile.Write" in
  hd Fail t = Acq "Profile.encodeMu" /\ last t Fail = Rel "Profile.encodeMu" /\ mentions "Profile.stringTable" t = true.
Proof. vm_compute. repeat split. Qed.
Example unlocked_write_is_rejected :
  well_locked (g0 gen_guards) [Wr "Profile.stringTable"] = false /\ well_locked (g0 gen_guards) [Acq "Profile.encodeMu"; Wr "Profile.stringTable"; Rel "Profile.encodeMu"] = true.
Proof. vm_compute. split; reflexivity. Qed.
Example most_roots_hold_one_lock : (20 <=? List.length (single_roots gen_funcs gen_roots))%nat = true.
Proof. vm_compute. reflexivity. Qed.
