(* Lemmas about M_SymbolizeFetch (C12): the driver's pipeline around Symbolize (fake mapping,
   collectMappingSources, Symbolize, unsourceMappings, CheckValid) satisfies the same clauses as
   Symbolize itself, the mapping files being restored -- outside class F34. *)
From PV Require Import M_Symbolize M_SymbolizeFetch S_Symbolize L_Symbolize L_SymbolizeValid L_SymbolizeCheck L_SymbolizeFlags.
Open Scope Z_scope.

Lemma map_eq_Forall2 {A K} (k : A -> K) : forall l l', map k l' = map k l -> Forall2 (fun a b => k b = k a) l l'.
Proof.
  induction l as [|a l IH]; intros [|b l']; simpl; try discriminate; [constructor|].
  intros H. inversion H. constructor; [assumption | apply IH; assumption].
Qed.

Lemma Forall2_comp {A B C} (R : A -> B -> Prop) (Q : B -> C -> Prop) : forall l1 l2 l3,
  Forall2 R l1 l2 -> Forall2 Q l2 l3 -> Forall2 (fun a c => exists b, R a b /\ Q b c) l1 l3.
Proof.
  intros l1 l2 l3 H. revert l3. induction H as [|a b l1 l2 Hab _ IH]; intros l3 H2; inversion H2; subst; constructor.
  - exists b. split; assumption.
  - apply IH. assumption.
Qed.

Lemma Forall2_map_r2 {A B C} (R : A -> C -> Prop) (g : B -> C) l l' :
  Forall2 (fun a b => R a (g b)) l l' -> Forall2 R l (map g l').
Proof. induction 1; simpl; constructor; assumption. Qed.

Lemma Forall2_eq_map {A B} (g : B -> A) l l' : Forall2 (fun a b => g b = a) l l' -> map g l' = l.
Proof. induction 1 as [|a b l l' H _ IH]; simpl; [reflexivity | now rewrite H, IH]. Qed.

(* what collectMappingSources does to one mapping *)
Definition sourced (src : string) (m m1 : mapping) : Prop :=
  m1 = m \/ (m_buildid m = EmptyString /\ m_file m = EmptyString /\ m1 = set_file m src).

Lemma collect_rel src maps : Forall2 (sourced src) maps (snd (collect_sources src maps)).
Proof.
  unfold collect_sources. apply mapacc_snd_rel. intros acc m. unfold collect_step, sourced.
  destruct (str_empty (m_buildid m)) eqn:EB.
  - destruct (str_empty (m_file m)) eqn:EF; cbn [snd]; [right | now left].
    apply str_empty_true in EB. apply str_empty_true in EF. auto.
  - rewrite EB. cbn [snd]. now left.
Qed.

Definition src_ok (absurl : string -> bool) (src : string) : Prop := src = EmptyString \/ absurl src = true.

(* the file name comes back *)
Lemma restore absurl src m m1 :
  sourced src m m1 -> sourced_like absurl m = false -> (m1 <> m -> absurl src = true) -> unsource absurl m1 = m.
Proof.
  intros [->|[HB [HF ->]]] HS Hsrc; unfold unsource.
  - destruct (str_empty (m_buildid m) && absurl (m_file m)) eqn:E; [|reflexivity].
    apply andb_true_iff in E. destruct E as [EB EA]. unfold sourced_like in HS. rewrite EB, EA in HS.
    cbn in HS. rewrite andb_true_r in HS. apply negb_false_iff in HS. apply str_empty_true in HS.
    destruct m; cbn in *. subst. reflexivity.
  - cbn [set_file m_buildid m_file]. rewrite HB. cbn [str_empty andb].
    destruct (string_dec src EmptyString) as [->|Hne].
    + destruct (absurl EmptyString); destruct m; cbn in *; subst; reflexivity.
    + rewrite Hsrc; [destruct m; cbn in *; subst; reflexivity|].
      intros E. apply Hne. destruct m; cbn in *. inversion E. congruence.
Qed.

Lemma in_F34_false absurl p : in_F34 absurl p = false -> forall m, In m (p_mapping p) -> sourced_like absurl m = false.
Proof.
  unfold in_F34. intros H m Hin. destruct (sourced_like absurl m) eqn:E; [|reflexivity].
  assert (existsb (sourced_like absurl) (p_mapping p) = true) by (apply existsb_exists; eauto). congruence.
Qed.

(* ------------------------------------------------------------------ anatomy of a successful run *)
Definition sourced_maps (src : string) (p0 : profile) : sources_t * list mapping :=
  if str_empty src then ([], p_mapping p0) else collect_sources src (p_mapping p0).

Lemma fetch_core mode e absurl script src p p3 calls :
  fetch_symbolize mode e absurl script src p = FOut p3 calls ->
  let p0 := add_fake p in
  let cm := sourced_maps src p0 in
  let p1 := with_maps_locs p0 (snd cm) (p_location p0) in
  exists p2, symbolize mode (with_srcs e (fst cm)) script p1 = Out p2 false calls /\
             p3 = with_maps_locs p2 (map (unsource absurl) (p_mapping p2)) (p_location p2) /\
             check_valid p3 = true.
Proof.
  unfold fetch_symbolize, sourced_maps. cbn zeta.
  destruct (symbolize mode _ script _) as [p2 [|] c2|]; [discriminate | | discriminate].
  destruct (check_valid _) eqn:EV; [|discriminate].
  intros H. inversion H; subst. exists p2. auto.
Qed.

Lemma sourced_maps_rel absurl src p0 :
  src_ok absurl src ->
  Forall2 (fun m m1 => sourced src m m1 /\ (m1 <> m -> absurl src = true)) (p_mapping p0) (snd (sourced_maps src p0)).
Proof.
  intros Hs. unfold sourced_maps. destruct (str_empty src) eqn:E; cbn [snd].
  - apply Forall2_refl. intros m. split; [now left | congruence].
  - eapply Forall2_impl; [|apply collect_rel]. intros m m1 H. split; [exact H|]. intros _.
    destruct Hs as [->|Hs]; [discriminate | exact Hs].
Qed.

(* ------------------------------------------------------------------ the clauses *)
Lemma fetch_frame_lemma mode e absurl script src p p3 calls :
  fetch_symbolize mode e absurl script src p = FOut p3 calls ->
  src_ok absurl src -> in_F34 absurl (add_fake p) = false -> frame_ok (add_fake p) p3.
Proof.
  intros HF Hs H25. destruct (fetch_core _ _ _ _ _ _ _ _ HF) as [p2 [HS [-> _]]].
  destruct (symbolize_frame_lemma _ _ _ _ _ _ _ HS) as [S Hd L M Fn].
  constructor; cbn [with_maps_locs p_sample p_location p_mapping p_function] in *.
  - exact S.
  - exact Hd.
  - exact L.
  - apply Forall2_map_eq. apply Forall2_map_r2.
    pose proof (Forall2_comp _ _ _ _ _ (sourced_maps_rel absurl src (add_fake p) Hs) (map_eq_Forall2 map_key _ _ M)) as F.
    eapply Forall2_impl_in; [|exact F]. cbn beta. intros m m2 Hin [m1 [[Hsrc Ha] K]].
    assert (R : unsource absurl m1 = m) by (apply (restore absurl src); auto; eapply in_F34_false; eauto).
    rewrite <- R. unfold unsource. unfold map_key in K.
    assert (EB : m_buildid m2 = m_buildid m1) by congruence. assert (EF : m_file m2 = m_file m1) by congruence.
    rewrite EB, EF. destruct (str_empty (m_buildid m1) && absurl (m_file m1)); unfold map_key; cbn [set_file m_id m_start m_limit m_offset m_file m_buildid]; congruence.
  - exact Fn.
Qed.

Lemma fetch_clauses_lemma mode e absurl script src p p3 calls :
  fetch_symbolize mode e absurl script src p = FOut p3 calls ->
  lines_attached (add_fake p) p3 /\ flags_raised (add_fake p) p3 /\ check_valid p3 = true /\
  (filter_nonempty (e_filt e) -> names_kept (add_fake p) p3).
Proof.
  intros HF. destruct (fetch_core _ _ _ _ _ _ _ _ HF) as [p2 [HS [-> HV]]].
  split; [|split; [|split; [exact HV|]]].
  - exact (symbolize_lines_attached_lemma _ _ _ _ _ _ _ HS).
  - pose proof (symbolize_flags_lemma _ _ _ _ _ _ _ HS) as F. unfold flags_raised in *.
    cbn [with_maps_locs p_mapping] in *.
    assert (F0 : Forall2 flags_le (p_mapping (add_fake p)) (snd (sourced_maps src (add_fake p)))).
    { unfold sourced_maps. destruct (str_empty src); cbn [snd]; [apply Forall2_refl; apply flags_le_refl|].
      eapply Forall2_impl; [|apply collect_rel]. intros m m1 [->|[_ [_ ->]]]; [apply flags_le_refl|].
      unfold flags_le. cbn [set_file m_hasfn m_hasfile m_hasline m_hasinline]. tauto. }
    eapply Forall2_trans; [apply flags_le_trans | exact F0|].
    eapply Forall2_trans; [apply flags_le_trans | exact F|].
    apply Forall2_map_r. intros m. unfold unsource, flags_le.
    destruct (str_empty (m_buildid m) && absurl (m_file m)); cbn [set_file m_hasfn m_hasfile m_hasline m_hasinline]; tauto.
  - intros HN.
    assert (HN' : filter_nonempty (e_filt (with_srcs e (fst (sourced_maps src (add_fake p)))))) by exact HN.
    pose proof (symbolize_names_lemma _ _ _ _ _ _ _ HN' HS) as N.
    unfold names_kept in *. cbn [with_maps_locs p_function] in *. exact N.
Qed.

Lemma fetch_left_alone_lemma mode e absurl script src p p3 calls :
  fetch_symbolize mode e absurl script src p = FOut p3 calls ->
  force_requested mode = false -> src_ok absurl src -> in_F34 absurl (add_fake p) = false ->
  left_alone (add_fake p) p3.
Proof.
  intros HF Hforce Hs H25. destruct (fetch_core _ _ _ _ _ _ _ _ HF) as [p2 [HS [-> _]]].
  destruct (symbolize_left_alone_lemma _ _ _ _ _ _ _ Hforce HS) as [LM LL].
  cbn [with_maps_locs p_mapping p_location] in *.
  pose proof (sourced_maps_rel absurl src (add_fake p) Hs) as SR.
  split; cbn [with_maps_locs p_mapping p_location].
  - apply Forall2_map_r2. pose proof (Forall2_comp _ _ _ _ _ SR LM) as F.
    eapply Forall2_impl_in; [|exact F]. cbn beta. intros m m2 Hin [m1 [[Hsrc Ha] K]] Hfn.
    assert (Hfn1 : m_hasfn m1 = true).
    { destruct Hsrc as [->|[_ [_ ->]]]; [exact Hfn | exact Hfn]. }
    rewrite (K Hfn1). apply (restore absurl src); auto. eapply in_F34_false; eauto.
  - eapply Forall2_impl; [|exact LL]. cbn beta. intros l l2 H Hp. apply H.
    intros m1 Hin1 Hid. destruct (Forall2_in_r _ _ _ _ SR Hin1) as [m [Hin [Hsrc _]]].
    assert (m_id m1 = m_id m /\ m_hasfn m1 = m_hasfn m) as [E1 E2].
    { destruct Hsrc as [->|[_ [_ ->]]]; split; reflexivity. }
    rewrite E2. apply Hp; [exact Hin | congruence].
Qed.

(* -symbolize=none / no: the pipeline hands back what was fetched *)
Lemma fetch_none_lemma mode e absurl script src p p3 calls :
  fetch_symbolize mode e absurl script src p = FOut p3 calls ->
  mo_none (parse_mode mode) = true -> src_ok absurl src -> in_F34 absurl (add_fake p) = false ->
  p3 = add_fake p /\ calls = [].
Proof.
  intros HF Hn Hs H25. destruct (fetch_core _ _ _ _ _ _ _ _ HF) as [p2 [HS [-> _]]].
  rewrite (symbolize_none_lemma _ _ _ _ Hn) in HS. inversion HS; subst. split; [|reflexivity].
  cbn [with_maps_locs p_mapping p_location].
  assert (E : map (unsource absurl) (snd (sourced_maps src (add_fake p))) = p_mapping (add_fake p)).
  { apply Forall2_eq_map. eapply Forall2_impl_in; [|apply (sourced_maps_rel absurl src (add_fake p) Hs)].
    cbn beta. intros m m1 Hin [Hsrc Ha]. apply (restore absurl src); auto. eapply in_F34_false; eauto. }
  rewrite E. destruct (add_fake p); reflexivity.
Qed.

Lemma fetch_no_panic_lemma mode e absurl script src p : fetch_symbolize mode e absurl script src p <> FPanic.
Proof.
  unfold fetch_symbolize. cbn zeta.
  match goal with |- context [symbolize ?a ?b ?c ?d] => pose proof (symbolize_no_panic_lemma a b c d) as H; destruct (symbolize a b c d) as [p2 [|] c2|] end;
    [discriminate | | congruence].
  destruct (check_valid _); discriminate.
Qed.

(* ------------------------------------------------------------------ any plug-in *)
Lemma fetch_generic_valid_lemma plug mode absurl src p p3 calls :
  fetch_generic plug mode absurl src p = FOut p3 calls -> check_valid p3 = true.
Proof.
  unfold fetch_generic. cbn zeta.
  destruct (plug mode _ _) as [[[[p2 err] ptr_ok] c2]|]; [|discriminate].
  destruct err; [discriminate|].
  destruct (check_valid _) eqn:EV; cbn [andb]; [|discriminate].
  destruct ptr_ok; [|discriminate]. intros H. inversion H; subst. exact EV.
Qed.

Lemma fetch_generic_ptr_lemma plug mode absurl src p p3 calls :
  fetch_generic plug mode absurl src p = FOut p3 calls ->
  exists srcs p1 p2, plug mode srcs p1 = Some (p2, false, true, calls).
Proof.
  unfold fetch_generic. cbn zeta.
  match goal with |- context [plug mode ?s ?q] => destruct (plug mode s q) as [[[[p2 err] ptr_ok] c2]|] eqn:E; [|discriminate]; intros HF; exists s, q, p2 end.
  destruct err; [discriminate|]. destruct (check_valid _); cbn [andb] in HF; [|discriminate].
  destruct ptr_ok; [|discriminate]. inversion HF; subst. exact E.
Qed.

Lemma fetch_symbolize_generic_lemma mode e absurl script src p :
  fetch_symbolize mode e absurl script src p = fetch_generic (builtin_plugin e script) mode absurl src p.
Proof.
  unfold fetch_symbolize, fetch_generic, builtin_plugin. cbn zeta.
  destruct (symbolize mode _ script _) as [p2 [|] c2|]; [reflexivity | | reflexivity].
  destruct (check_valid _); reflexivity.
Qed.

(* ------------------------------------------------------------------ the command line *)
Lemma check_valid_maps_ids p ms ls :
  map m_id ms = map m_id (p_mapping p) -> ls = p_location p ->
  check_valid (with_maps_locs p ms ls) = check_valid p.
Proof.
  intros Hm ->. unfold check_valid, samples_ok. cbn [with_maps_locs p_sampletype p_sample p_mapping p_function p_location].
  rewrite Hm. reflexivity.
Qed.

Lemma unsource_id absurl m : m_id (unsource absurl m) = m_id m.
Proof. unfold unsource. destruct (str_empty (m_buildid m) && absurl (m_file m)); reflexivity. Qed.

Lemma check_valid_unsourced absurl p2 :
  check_valid (with_maps_locs p2 (map (unsource absurl) (p_mapping p2)) (p_location p2)) = check_valid p2.
Proof.
  apply check_valid_maps_ids; [|reflexivity]. rewrite map_map. apply map_ext. apply unsource_id.
Qed.

Lemma sourced_maps_ids src p0 : map m_id (snd (sourced_maps src p0)) = map m_id (p_mapping p0).
Proof.
  unfold sourced_maps. destruct (str_empty src); cbn [snd]; [reflexivity|].
  apply Forall2_map_eq. eapply Forall2_impl; [|apply collect_rel]. intros m m1 [->|[_ [_ ->]]]; reflexivity.
Qed.

Lemma add_fake_valid p : check_valid p = true -> check_valid (add_fake p) = true.
Proof.
  unfold add_fake. destruct (p_mapping p) as [|m r] eqn:E; cbn [is_nil]; [|auto].
  unfold check_valid, samples_ok. cbn [with_maps_locs p_sampletype p_sample p_mapping p_function p_location].
  rewrite E. cbn [map]. rewrite !andb_true_iff. intros [[[[[HS1 HS2] _] HF] HL] HK].
  rewrite map_map. cbn [set_mapping l_id].
  split; [split; [split; [split; [split; assumption | reflexivity] | exact HF] | exact HL]|].
  rewrite forallb_forall in *. intros l' Hin. apply in_map_iff in Hin. destruct Hin as [l [<- Hl]].
  specialize (HK l Hl). unfold loc_ok in *. cbn [set_mapping l_mapping l_lines fake_mapping m_id map].
  apply andb_true_iff in HK. destruct HK as [_ HK]. rewrite HK. reflexivity.
Qed.

Lemma cli_overrides_ids c p : map m_id (p_mapping (cli_overrides c p)) = map m_id (p_mapping p) /\
                              p_location (cli_overrides c p) = p_location p.
Proof.
  unfold cli_overrides. destruct (p_mapping p) as [|m r] eqn:E; [rewrite E; auto|].
  cbn [with_maps_locs p_mapping p_location map]. split; [|reflexivity]. f_equal.
  unfold override_main. destruct (str_empty (c_exec c)); destruct (negb (str_empty (c_buildid c)) && _); reflexivity.
Qed.

Lemma cli_input_valid c p : check_valid p = true -> check_valid (cli_input c p) = true.
Proof.
  intros H. apply add_fake_valid in H. unfold cli_input.
  destruct (cli_overrides_ids c (add_fake p)) as [Hm Hl].
  unfold cli_overrides in *. destruct (p_mapping (add_fake p)) as [|m r] eqn:E; [exact H|].
  rewrite check_valid_maps_ids; [exact H | | reflexivity]. cbn [with_maps_locs p_mapping] in Hm. rewrite Hm, E. reflexivity.
Qed.

Lemma cli_input_fake c p : add_fake (cli_input c p) = cli_input c p.
Proof.
  unfold add_fake at 1. destruct (p_mapping (cli_input c p)) eqn:E; [|reflexivity]. exfalso.
  unfold cli_input, cli_overrides in E. unfold add_fake in E.
  destruct (p_mapping p) eqn:EP; cbn [is_nil with_maps_locs p_mapping] in E; [discriminate|].
  rewrite EP in E. cbn [with_maps_locs p_mapping] in E. discriminate.
Qed.

(* pprof fails only when the symbol service failed or the function ids ran out *)
Lemma fetch_cli_fails_lemma e script c mode absurl src p calls :
  fetch_cli (builtin_plugin e script) c mode absurl src p = FErr calls -> check_valid p = true ->
  exists srcs p1 p2, check_valid p1 = true /\
    (symbolize mode (with_srcs e srcs) script p1 = Out p2 true calls \/
     (symbolize mode (with_srcs e srcs) script p1 = Out p2 false calls /\ ~ id_headroom p1 p2)).
Proof.
  intros HF HV. pose proof (cli_input_valid c p HV) as HV0.
  unfold fetch_cli in HF.
  destruct (fetch_generic (builtin_plugin e script) mode absurl src (cli_input c p)) as [p3 c3|c3|] eqn:EG; try discriminate.
  inversion HF; subst c3. clear HF.
  rewrite <- fetch_symbolize_generic_lemma in EG. unfold fetch_symbolize in EG. cbn zeta in EG.
  rewrite cli_input_fake in EG. set (q := cli_input c p) in *.
  match type of EG with context [symbolize mode (with_srcs e ?S1) script ?P1] => set (s1 := S1) in *; set (p1 := P1) in * end.
  assert (HV1 : check_valid p1 = true).
  { unfold p1. rewrite check_valid_maps_ids; [exact HV0 | exact (sourced_maps_ids src q) | reflexivity]. }
  exists s1, p1.
  destruct (symbolize mode (with_srcs e s1) script p1) as [p2 [|] c2|] eqn:ES; [| |discriminate].
  - inversion EG; subst. exists p2. split; [exact HV1 | left; reflexivity].
  - exists p2. split; [exact HV1 | right].
    rewrite check_valid_unsourced in EG.
    destruct (check_valid p2) eqn:EV2; [discriminate|]. inversion EG; subst.
    split; [reflexivity|]. intros Hh.
    pose proof (L_SymbolizeValid.symbolize_valid_lemma _ _ _ _ _ _ _ HV1 ES Hh). congruence.
Qed.

(* the clauses carry over to the command line: the comment is appended on both sides *)
Lemma frame_ok_comment c p p' : frame_ok p p' -> frame_ok (add_comment c p) (add_comment c p').
Proof.
  intros [S H L M F]. unfold add_comment. destruct (str_empty (c_comment c)); [constructor; assumption|].
  constructor; cbn [p_sample p_location p_mapping p_function]; try assumption.
  unfold header_of in *. cbn [p_sampletype p_defaultsampletype p_comments p_docurl p_dropframes p_keepframes p_timenanos p_durationnanos p_periodtype p_period].
  inversion H. congruence.
Qed.

Lemma add_comment_same c p : p_mapping (add_comment c p) = p_mapping p /\ p_location (add_comment c p) = p_location p /\
                             p_function (add_comment c p) = p_function p.
Proof. unfold add_comment. destruct (str_empty (c_comment c)); auto. Qed.

Lemma fetch_cli_core plug c mode absurl src p p4 calls :
  fetch_cli plug c mode absurl src p = FOut p4 calls ->
  exists p3, fetch_generic plug mode absurl src (cli_input c p) = FOut p3 calls /\ p4 = add_comment c p3.
Proof.
  unfold fetch_cli. destruct (fetch_generic plug mode absurl src (cli_input c p)) as [p3 c3|c3|]; try discriminate.
  intros H; inversion H; subst. eauto.
Qed.

Lemma fetch_cli_frame_lemma e script c mode absurl src p p4 calls :
  fetch_cli (builtin_plugin e script) c mode absurl src p = FOut p4 calls ->
  src_ok absurl src -> in_F34 absurl (cli_input c p) = false ->
  frame_ok (add_comment c (cli_input c p)) p4.
Proof.
  intros HF Hs H34. destruct (fetch_cli_core _ _ _ _ _ _ _ _ HF) as [p3 [HG ->]].
  rewrite <- fetch_symbolize_generic_lemma in HG. apply frame_ok_comment.
  rewrite <- (cli_input_fake c p). eapply fetch_frame_lemma; eauto. rewrite cli_input_fake. exact H34.
Qed.

Lemma left_alone_comment c p p' : left_alone p p' -> left_alone (add_comment c p) (add_comment c p').
Proof.
  unfold left_alone, loc_protected. destruct (add_comment_same c p) as [M [L _]]. destruct (add_comment_same c p') as [M' [L' _]].
  rewrite M, L, M', L'. auto.
Qed.

(* THE clause of the named executable: without force, a main binary that carries symbols keeps its
   flags and its lines whatever executable, build id or comment the command line names *)
Lemma fetch_cli_left_alone_lemma e script c mode absurl src p p4 calls :
  fetch_cli (builtin_plugin e script) c mode absurl src p = FOut p4 calls ->
  force_requested mode = false -> src_ok absurl src -> in_F34 absurl (cli_input c p) = false ->
  left_alone (add_comment c (cli_input c p)) p4.
Proof.
  intros HF Hforce Hs H34. destruct (fetch_cli_core _ _ _ _ _ _ _ _ HF) as [p3 [HG ->]].
  rewrite <- fetch_symbolize_generic_lemma in HG. apply left_alone_comment.
  rewrite <- (cli_input_fake c p). eapply fetch_left_alone_lemma; eauto. rewrite cli_input_fake. exact H34.
Qed.

Lemma fetch_cli_valid_lemma plug c mode absurl src p p4 calls :
  fetch_cli plug c mode absurl src p = FOut p4 calls -> check_valid p4 = true.
Proof.
  intros HF. destruct (fetch_cli_core _ _ _ _ _ _ _ _ HF) as [p3 [HG ->]].
  pose proof (fetch_generic_valid_lemma _ _ _ _ _ _ _ HG) as HV.
  unfold add_comment. destruct (str_empty (c_comment c)); [exact HV|]. exact HV.
Qed.

(* naming the executable changes the file of the main mapping and nothing else *)
Lemma cli_input_flags c p :
  Forall2 (fun m m' => map_key m' = map_key m \/ (m_id m' = m_id m /\ m_start m' = m_start m /\ m_limit m' = m_limit m /\ m_offset m' = m_offset m))
          (p_mapping (add_fake p)) (p_mapping (cli_input c p)) /\
  Forall2 (fun m m' => m_hasfn m' = m_hasfn m /\ m_hasfile m' = m_hasfile m /\ m_hasline m' = m_hasline m /\ m_hasinline m' = m_hasinline m)
          (p_mapping (add_fake p)) (p_mapping (cli_input c p)) /\
  p_location (cli_input c p) = p_location (add_fake p) /\ p_function (cli_input c p) = p_function (add_fake p) /\
  p_sample (cli_input c p) = p_sample (add_fake p).
Proof.
  unfold cli_input, cli_overrides. destruct (p_mapping (add_fake p)) as [|m r] eqn:E.
  - rewrite E. repeat split; constructor.
  - cbn [with_maps_locs p_mapping p_location p_function p_sample]. repeat split.
    + constructor; [|apply Forall2_refl; auto]. right. unfold override_main.
      destruct (str_empty (c_exec c)); destruct (negb (str_empty (c_buildid c)) && _); repeat split; reflexivity.
    + constructor; [|apply Forall2_refl; auto]. unfold override_main.
      destruct (str_empty (c_exec c)); destruct (negb (str_empty (c_buildid c)) && _); repeat split; reflexivity.
Qed.
