(* Case runner for C01 (serialization round trip). *)
From PV Require Import M_Codec S_Codec.
Open Scope string_scope.
Open Scope list_scope.
Open Scope Z_scope.

Definition bs_of (t : term) : bytes := bytes_of_string (gs t).
Definition of_bs (b : bytes) : term := TS (B b).

Definition parse_obs (data : bytes) : term :=
  match parse_uncompressed data with
  | Err c => TL [TS (if c =? e_nodata then "nodata" else if c =? e_concat then "concat" else "err")]
  | Panic s => TL [TS "panic"; TZ s]
  | Ok q =>
      TL [TS "ok"; of_profile q;
          match serialize q with
          | Ok b2 =>
              match parse_uncompressed b2 with
              | Ok q2 => TL [TS "ok"; of_bs b2; of_profile q2;
                             match serialize q2 with Ok b3 => of_bs b3 | _ => TS "reserialize-failed" end]
              | Err c => TL [TS (if c =? e_nodata then "reparse-nodata" else if c =? e_concat then "reparse-concat" else "reparse-err"); of_bs b2]
              | Panic s => TL [TS "reparse-panic"; TZ s]
              end
          | _ => TL [TS "reserialize-panic"]
          end]
  end.

(* what a reader of the profile sees, per sample: expanded frames (leaf first), values, labels *)
Definition frame_view_f (file_of : mapping -> string) (p : profile) : term :=
  TL (map (fun s =>
    TL [TL (map (fun id =>
          match find_location p id with
          | Some l =>
              TL [TZ (l_addr l);
                  TS (match find_mapping p (l_mapping l) with Some m => file_of m | None => "" end);
                  of_bool (l_folded l);
                  TL (map (fun ln => match find_function p (ln_fn ln) with
                                     | Some f => TL [TS (f_name f); TS (f_sysname f); TS (f_file f); TZ (f_startline f); TZ (ln_line ln); TZ (ln_col ln)]
                                     | None => TL [TS "<nil>"] end) (l_lines l))]
          | None => TL [TS "<nil-location>"]
          end) (s_loc s));
        of_zs (s_val s); of_kss (s_label s); of_kzs (s_numlabel s); of_kss (s_numunit s)]) (p_sample p)).

Definition frame_view := frame_view_f m_file.

(* internal/driver/fetch.go unsourceMappings, run by the driver on every fetched profile: a mapping
   without build id whose file name parses as an absolute URL has its file name cleared.  Which names
   Go's url.Parse accepts as absolute is an oracle shipped with the case (like the regexp tables). *)
Definition unsourced_file (abs : list string) (m : mapping) : string :=
  if String.eqb (m_buildid m) "" && existsb (String.eqb (m_file m)) abs then "" else m_file m.

(* F34: some frame shown sits in a mapping whose (non-empty) file name the driver clears *)
Definition in_F34 (abs : list string) (p : profile) : bool :=
  existsb (fun s => existsb (fun id =>
    match find_location p id with
    | Some l => match find_mapping p (l_mapping l) with
                | Some m => negb (String.eqb (m_file m) "") && String.eqb (unsourced_file abs m) ""
                | None => false end
    | None => false end) (s_loc s)) (p_sample p).

Definition run_C01 (i : term) : term :=
  let op := gs (gn i 0) in
  if String.eqb op "ser" then
    match serialize (profile_of (gn i 1)) with
    | Ok b => TL [TS "ok"; of_bs b]
    | _ => TL [TS "panic"]
    end
  else if String.eqb op "parse" then parse_obs (bs_of (gn i 1))
  else if String.eqb op "rt" then
    let p := profile_of (gn i 1) in
    match copy p with
    | Ok q => TL [TS "ok"; of_profile q; of_profile q]
    | _ => TL [TS "panic"]
    end
  else if String.eqb op "driverproto" then
    TL [TS "ok"; frame_view_f (unsourced_file (gss (gn i 2))) (normalize (profile_of (gn i 1)))]
  else if String.eqb op "gzsame" then
    (* gzip is a trusted identity layer in the model (parse (gunzip (gzip b)) = parse b): the harness compares
       what Parse returns for the compressed and the uncompressed serialization of one large profile *)
    TL [TS "ok"; TS "same"]
  else TL [TS "unknown-op"].

(* the implementation's panic message is not compared *)
Definition eqv_C01 (i m o : term) : bool :=
  match m, o with
  | TL (TS "panic" :: _), TL (TS "panic" :: _) => true
  | _, _ => term_eqb m o
  end.

(* specification: see S_Codec *)
Definition spec_C01 (i o : term) : bool :=
  let op := gs (gn i 0) in
  if String.eqb op "rt" then
    let p := profile_of (gn i 1) in
    if valid_b p && units_wf_b p then
      (* write-then-parse (gzip path) and Copy both yield the normalised profile *)
      String.eqb (gs (gn o 0)) "ok" && term_eqb (gn o 1) (of_profile (normalize p)) && term_eqb (gn o 2) (of_profile (normalize p))
    else true
  else if String.eqb op "parse" then
    (* anything the parser returns survives write-then-parse unchanged and re-serializes identically *)
    if String.eqb (gs (gn o 0)) "ok" then
      let q := profile_of (gn o 1) in
      let r := gn o 2 in
      if valid_b q then
        (* write-then-parse yields normalize q; when q is already normal (no label the encoder has to
           drop) it re-serializes to identical bytes *)
        String.eqb (gs (gn r 0)) "ok" && term_eqb (gn r 2) (of_profile (normalize q)) &&
        (String.eqb (gs (gn r 1)) (gs (gn r 3)) || negb (term_eqb (of_profile (normalize q)) (of_profile q)))
      else true
    else negb (String.eqb (gs (gn o 0)) "panic")
  else if String.eqb op "ser" then
    (* a units-well-formed profile can be written; the bytes written for a valid one parse back (in the
       model's parser) to the normalised profile, whatever else the process was doing at the time *)
    let p := profile_of (gn i 1) in
    if units_wf_b p then
      String.eqb (gs (gn o 0)) "ok" &&
      (if valid_b p then
         match parse_uncompressed (bs_of (gn o 1)) with
         | Ok q => term_eqb (of_profile q) (of_profile (normalize p))
         | _ => false
         end
       else true)
    else true
  else if String.eqb op "driverproto" then
    (* pprof -proto re-read shows the same samples: frames, values, labels *)
    let p := profile_of (gn i 1) in
    if valid_b p && units_wf_b p then term_eqb o (TL [TS "ok"; frame_view (normalize p)]) else true
  else if String.eqb op "gzsame" then term_eqb o (TL [TS "ok"; TS "same"])
  else true.

Definition cls_C01 (i : term) : list Z :=
  if String.eqb (gs (gn i 0)) "driverproto" && in_F34 (gss (gn i 2)) (normalize (profile_of (gn i 1))) then [34] else [].
Definition judge_C01 := judge_all run_C01 eqv_C01 spec_C01 cls_C01 0.
