(* Executable model of profile/prune.go: simplifyFunc, Prune, RemoveUninteresting, PruneFrom.
   The regexp engine is abstract ([M] match table, [V] "compiles"); the fixed expression
   bracketRx = \(anonymous namespace\)|operator\(\)|\( used by simplifyFunc is modelled exactly
   (leftmost-first alternation, non-overlapping matches).  No proofs here. *)
From PV Require Export M_Filter.
Open Scope Z_scope.

(* scan for the first "(" that is not inside a reserved name; [skip] = bytes of a reserved name
   still to be copied *)
Fixpoint simp_scan (s : string) (skip : nat) : string :=
  match s with
  | EmptyString => EmptyString
  | String a r =>
      match skip with
      | S k => String a (simp_scan r k)
      | O =>
          if has_prefix "(anonymous namespace)" s then String a (simp_scan r 20)
          else if has_prefix "operator()" s then String a (simp_scan r 9)
          else if Ascii.eqb a "(" then EmptyString
          else String a (simp_scan r 0)
      end
  end.

(* simplifyFunc *)
Definition simplify_func (f : string) : string := simp_scan (trim_prefix "." f) 0.

Section Prune.
  Variable M : string -> string -> bool.   (* regexp source -> subject -> MatchString *)
  Variable V : string -> bool.             (* regexp source compiles *)

  (* fn != nil && fn.Name != "" && pruneFromHere(fn.Name) *)
  Definition prune_line (p : profile) (drop : string) (keep : option string) (ln : line) : bool :=
    match find_function p (ln_fn ln) with
    | Some f =>
        if String.eqb (f_name f) "" then false
        else let n := simplify_func (f_name f) in
             M drop n && negb (match keep with Some k => M k n | None => false end)
    | None => false
    end.

  (* the location loop of Prune: (location after surgery, pruneBeneath, prune) *)
  Definition prune_loc (p : profile) (drop : string) (keep : option string) (l : location)
    : location * bool * bool :=
    match after_last (prune_line p drop keep) (l_lines l) with
    | None => (l, false, false)
    | Some [] => (l, true, true)                       (* matched the top entry: whole location *)
    | Some ls => (set_loc_lines l ls, true, false)     (* loc.Line = loc.Line[i+1:] *)
    end.

  (* the per-sample scan, root first; [found] = foundUser *)
  Fixpoint prune_scan (pr pb : Z -> bool) (found : bool) (rl : list Z) : list Z :=
    match rl with
    | [] => []
    | id :: r =>
        if negb (pr id) && negb (pb id) then id :: prune_scan pr pb true r
        else if negb found then id :: prune_scan pr pb found r
        else if pr id then []          (* sample.Location[i+1:] *)
        else [id]                      (* sample.Location[i:]   *)
    end.

  Definition prune (p : profile) (drop : string) (keep : option string) : profile :=
    let pb := id_flag (fun l => snd (fst (prune_loc p drop keep l))) (p_location p) in
    let pr := id_flag (fun l => snd (prune_loc p drop keep l)) (p_location p) in
    let ls := map (fun l => fst (fst (prune_loc p drop keep l))) (p_location p) in
    let ss := map (fun s => set_sample_locs s (rev (prune_scan pr pb false (rev (s_loc s))))) (p_sample p) in
    set_samples (set_locations p ls) ss.

  (* RemoveUninteresting: None = error (regexp does not compile; profile untouched) *)
  Definition anchor (e : string) : string := "^(" ++ e ++ ")$".
  Definition remove_uninteresting (p : profile) : option profile :=
    if String.eqb (p_dropframes p) "" then Some p
    else if negb (V (anchor (p_dropframes p))) then None
    else if String.eqb (p_keepframes p) "" then Some (prune p (anchor (p_dropframes p)) None)
    else if negb (V (anchor (p_keepframes p))) then None
    else Some (prune p (anchor (p_dropframes p)) (Some (anchor (p_keepframes p)))).

  (* PruneFrom *)
  Definition pf_line (p : profile) (re : string) (ln : line) : bool :=
    match find_function p (ln_fn ln) with
    | Some f => if String.eqb (f_name f) "" then false else M re (simplify_func (f_name f))
    | None => false
    end.

  Definition prune_from_loc (p : profile) (re : string) (l : location) : option location :=
    match from_first (pf_line p re) (l_lines l) with
    | Some ls => Some (set_loc_lines l ls)
    | None => None
    end.

  Definition prune_from (p : profile) (re : string) : profile :=
    let flagged := fun l => is_some (prune_from_loc p re l) in
    let ls := map (fun l => match prune_from_loc p re l with Some l' => l' | None => l end) (p_location p) in
    let flag := id_flag flagged (p_location p) in
    let ss := map (fun s => match from_first flag (s_loc s) with
                            | Some locs => set_sample_locs s locs
                            | None => s
                            end) (p_sample p) in
    set_samples (set_locations p ls) ss.
End Prune.

(* ---------------------------------------------------------------- histories
   Several frame-dropping operations applied one after the other to the SAME profile object
   (the driver's command-line path: fetchProfiles applies drop_frames/keep_frames, generateReport
   then applies prune_from to the object it was handed).  The Go operations keep no state between
   calls (their tables are local maps), so a history is the plain composition of the models. *)
Inductive pstep :=
| SPrune (drop : string) (keep : option string)
| SPruneFrom (re : string)
| SRemoveUn.                      (* RemoveUninteresting with its error ignored, as fetchProfiles does *)

Section History.
  Variable M : string -> string -> bool.
  Variable V : string -> bool.

  Definition run_step (p : profile) (st : pstep) : profile :=
    match st with
    | SPrune d k => prune M p d k
    | SPruneFrom re => prune_from M p re
    | SRemoveUn => match remove_uninteresting M V p with Some q => q | None => p end
    end.

  Definition run_steps (p : profile) (sts : list pstep) : profile := fold_left run_step sts p.
End History.

(* ---------------------------------------------------------------- addLegacyFrameInfo
   (profile/legacy_profile.go): EVERY profile parsed from a legacy format gets built-in expressions,
   chosen by its sample type names only (never by the period type): heap tables, contention table, else
   the cpu table.  The expression strings themselves are data of the code, shipped in the case. *)
Definition heapz_sample_types : list (list string) :=
  [ ["allocations"; "size"]; ["objects"; "space"]; ["inuse_objects"; "inuse_space"];
    ["alloc_objects"; "alloc_space"]; ["alloc_objects"; "alloc_space"; "inuse_objects"; "inuse_space"] ]%string.
Definition contentionz_sample_types : list (list string) := [ ["contentions"; "delay"] ]%string.

Fixpoint strs_eqb (a b : list string) : bool :=
  match a, b with
  | [], [] => true
  | x :: a', y :: b' => String.eqb x y && strs_eqb a' b'
  | _, _ => false
  end.
Definition is_profile_type (st : list string) (types : list (list string)) : bool := existsb (strs_eqb st) types.

(* (drop_frames, keep_frames) for sample type names st, given the code's four expression strings *)
Definition legacy_frame_info (heap_drop heap_keep lock_drop cpu_drop : string) (st : list string) : string * string :=
  if is_profile_type st heapz_sample_types then (heap_drop, heap_keep)
  else if is_profile_type st contentionz_sample_types then (lock_drop, EmptyString)
  else (cpu_drop, EmptyString).
