(* C16 -- Multi-source fetch merges whatever succeeded, independent of timing.
   Property theorems only: each is closed by [exact] of a lemma from L_Fetch / L_FetchToy and
   followed by Print Assumptions.

   Reading guide.  [P] is the profile type and [combine] is combineProfiles (fetch.go:242); both are
   universally quantified.  A [source] carries its address and the result its goroutine computes
   (grab_profile, the model of grabProfile).  [covers n order] says that every goroutine 0..n-1 occurs
   in the completion order (that is what wg.Wait() guarantees); the order is otherwise ARBITRARY
   (any interleaving, repetitions allowed).  [k] is the chunk size (128 in the code, any k >= 1 here:
   the 128 boundary is the induction step, not a special case). *)
From Coq Require Import Lia.
From PV Require Import M_Profile M_Fetch S_Fetch L_Fetch L_FetchToy.
Open Scope nat_scope.

(* ---- timing independence (no assumption about combine) ---- *)

(* after the barrier every slot holds the result of ITS goroutine, whatever the completion order *)
Theorem slots_independent_of_order : forall P (ch : list (source P)) order order',
  covers (List.length ch) order -> covers (List.length ch) order' ->
  run_goroutines P ch order = run_goroutines P ch order'
  /\ run_goroutines P ch order = map (fun s => Some (s_res s)) ch.
Proof. exact slots_independent_lemma. Qed.
Print Assumptions slots_independent_of_order.

(* concurrentGrab: same profiles collected, same stderr lines, for every completion order *)
Theorem concurrent_grab_deterministic : forall P combine (ch : list (source P)) order order',
  covers (List.length ch) order -> covers (List.length ch) order' ->
  concurrent_grab P combine ch order = concurrent_grab P combine ch order'
  /\ fst (concurrent_grab P combine ch order) <> CPanic.
Proof. exact concurrent_grab_det_lemma. Qed.
Print Assumptions concurrent_grab_deterministic.

(* grabSourcesAndBases: status, both profiles, save flag and every stderr stream are the same for all
   completion orders of the source group and of the base group, for any number of sources *)
Theorem fetch_independent_of_schedule : forall P combine k (srcs bases : list (source P)) ss sb ss' sb',
  1 <= k -> covers (List.length srcs) ss -> covers (List.length bases) sb ->
  covers (List.length srcs) ss' -> covers (List.length bases) sb' ->
  grab_sources_and_bases P combine k srcs bases ss sb = grab_sources_and_bases P combine k srcs bases ss' sb'.
Proof. exact gsb_any_schedule. Qed.
Print Assumptions fetch_independent_of_schedule.

(* the barrier makes reading an unwritten slot impossible *)
Theorem no_slot_read_before_written : forall P combine k (l : list (source P)) sched,
  1 <= k -> covers (List.length l) sched -> fst (chunked_grab P combine k l sched) <> CPanic.
Proof. exact chunked_grab_no_panic. Qed.
Print Assumptions no_slot_read_before_written.

(* ---- the glue in front of the fetch: command line -> source lists ---- *)
(* the sources are a LIST: every positional mention is fetched and merged (repeats included, order
   kept) unless the first of several arguments is a binary; -base / -diff_base values likewise,
   minus the empty ones *)
Theorem cli_keeps_every_mention : forall A (is_empty : A -> bool) (args base : list A),
  args <> [] ->
  cli_source_lists A is_empty false args base [] = CliOk args (filter (fun a => negb (is_empty a)) base) false
  /\ (forall d0 d, is_empty d0 = false ->
       cli_source_lists A is_empty false args [] (d0 :: d) = CliOk args (d0 :: filter (fun a => negb (is_empty a)) d) true).
Proof. exact (@cli_keeps_every_mention_lemma). Qed.
Print Assumptions cli_keeps_every_mention.

(* ---- header side of the merge: decided by ALL fetched profiles, not by the first one ---- *)
Theorem default_sample_type_chunk_free : forall chs : list (list string),
  first_nonempty (map first_nonempty chs) = first_nonempty (List.concat chs).
Proof. exact first_nonempty_chunks. Qed.
Print Assumptions default_sample_type_chunk_free.

Theorem common_unit_is_the_finest : forall us : list Z, us <> [] ->
  In (common_unit us) us /\ forall u, In u us -> (common_unit us <= u)%Z.
Proof. exact common_unit_finest. Qed.
Print Assumptions common_unit_is_the_finest.

(* ---- file or URL: only a source that stat finds is read as a file ---- *)
Theorem only_an_existing_file_is_read_as_a_file : forall st,
  (route_of_stat st = RouteFile <-> st = StatOk) /\ (forall e, route_of_stat (StatOther e) = RouteURL).
Proof. exact route_of_stat_spec. Qed.
Print Assumptions only_an_existing_file_is_read_as_a_file.

(* ---- how long an HTTP source may take and still be a fetched source ---- *)
(* an explicit -timeout t gives the server t + 5 s; whatever the flags, the client waits at least 5 s
   longer than the timeout adjustURL settled on, and never less than 6 s *)
Theorem client_allows_timeout_plus_grace : forall s t u,
  (0 < t -> client_allowance_ms s t u = t * 1000 + 5000)%Z /\
  (fetch_timeout_ms s t u + 5000 <= client_allowance_ms s t u)%Z /\ (6000 <= client_allowance_ms s t u)%Z.
Proof. exact client_allowance_spec. Qed.
Print Assumptions client_allows_timeout_plus_grace.

(* ---- the transport shared by the fetches of one run keeps no per-request state ---- *)
(* a request's TLS outcome is that of the same request on a fresh transport, whatever went before *)
Theorem transport_outcome_history_free : forall W (rs : list (W * tr_req)) st,
  tr_run st rs = map (fun wr => (fst wr, snd (tr_round_trip TrFresh (snd wr)))) rs.
Proof. exact (@tr_run_history_free). Qed.
Print Assumptions transport_outcome_history_free.

(* so it is the same in every order in which the concurrent fetches reach the transport *)
Theorem transport_outcome_order_free : forall W (rs rs' : list (W * tr_req)) st st' w r,
  In (w, r) rs -> In (w, r) rs' ->
  exists ok, In (w, ok) (tr_run st rs) /\ In (w, ok) (tr_run st' rs') /\ ok = snd (tr_round_trip TrFresh r).
Proof. exact (@tr_run_order_free). Qed.
Print Assumptions transport_outcome_order_free.

(* ---- what is merged, under the named laws of combineProfiles ----
   ASSUMPTIONS about combineProfiles (hypotheses of the four theorems below), to be discharged by the
   C03/C07 merge model; they are PROVED for the toy instance the case runner executes (see the
   toy_* theorems further down):
     eqv_refl / eqv_sym / eqv_trans : "same report" is an equivalence
     combine_pair_proper : combine [a; b] respects eqv in the accumulator a
     combine_flat        : combine [combine A; combine B] ~ combine (A ++ B), error-ness included *)
(* chunkedGrab = one combineProfiles over all successes, for EVERY list length and chunk size:
   same profile (up to eqv), exact count, exact save flag, same error-ness *)
Theorem chunked_equals_flat : forall P combine eqv, combine_laws P combine eqv ->
  forall k (l : list (source P)) sched,
  1 <= k -> covers (List.length l) sched ->
  cres_eqv P eqv (fst (chunked_grab P combine k l sched)) (flat_grab P combine l).
Proof. intros P c e (R & S & T & PP & F). exact (chunked_equals_flat_lemma P c e R T PP F). Qed.
Print Assumptions chunked_equals_flat.

(* one error line per failed source, in command-line order (unless combineProfiles itself fails) *)
Theorem errors_one_per_failure_in_order : forall P combine k (l : list (source P)) sched,
  1 <= k -> covers (List.length l) sched ->
  fst (chunked_grab P combine k l sched) = CErr \/
  snd (chunked_grab P combine k l sched) = failure_lines l.
Proof. exact errors_lemma. Qed.
Print Assumptions errors_one_per_failure_in_order.

(* THE STATEMENT: for all source and base lists, all outcomes, all completion orders, all chunk
   sizes: the result satisfies the declarative specification S_Fetch.spec_holds
   (fails iff no source / no requested base was obtained; otherwise reports the merge of exactly
   the successes in command-line order; one error line per failed source) *)
Theorem fetch_meets_spec : forall P combine eqv, combine_laws P combine eqv ->
  forall k (srcs bases : list (source P)) ss sb,
  1 <= k -> covers (List.length srcs) ss -> covers (List.length bases) sb ->
  mergeable P combine srcs -> mergeable P combine bases ->
  spec_holds P combine eqv srcs bases (grab_sources_and_bases P combine k srcs bases ss sb).
Proof. intros P c e (R & S & T & PP & F). exact (gsb_meets_spec P c e R T PP F). Qed.
Print Assumptions fetch_meets_spec.

(* fails ONLY IF no source -- or no base when bases were requested -- could be obtained *)
Theorem fails_iff_group_empty : forall P combine eqv, combine_laws P combine eqv ->
  forall k (srcs bases : list (source P)) ss sb,
  1 <= k -> covers (List.length srcs) ss -> covers (List.length bases) sb ->
  mergeable P combine srcs -> mergeable P combine bases ->
  (g_status (grab_sources_and_bases P combine k srcs bases ss sb) = StOk
   <-> successes srcs <> [] /\ (bases = [] \/ successes bases <> [])).
Proof. intros P c e L k s b ss sb K C1 C2 M1 M2. exact (sp_ok _ _ _ _ _ _ (fetch_meets_spec P c e L k s b ss sb K C1 C2 M1 M2)). Qed.
Print Assumptions fails_iff_group_empty.

(* whichever OTHER sources fail, wherever they sit relative to the chunk boundaries, and whatever
   the chunk size: the merged profile is the same *)
Theorem result_independent_of_other_failures : forall P combine eqv, combine_laws P combine eqv ->
  forall k k' (l l' : list (source P)) sched sched',
  1 <= k -> 1 <= k' -> covers (List.length l) sched -> covers (List.length l') sched' ->
  successes l = successes l' ->
  opt_eqv P eqv (prof_of P (fst (chunked_grab P combine k l sched))) (prof_of P (fst (chunked_grab P combine k' l' sched'))).
Proof. intros P c e (R & S & T & PP & F). exact (other_failures_lemma P c e R S T PP F). Qed.
Print Assumptions result_independent_of_other_failures.

(* ---- the instance the case runner executes: the laws are theorems, nothing is assumed ---- *)
Theorem toy_combine_laws : combine_laws tprof toy_combine toy_eqv.
Proof. exact (conj toy_eqv_refl (conj toy_eqv_sym (conj toy_eqv_trans (conj toy_pair_proper toy_flat)))). Qed.
Print Assumptions toy_combine_laws.

Theorem toy_fetch_meets_spec : forall (srcs bases : list (source tprof)) ss sb,
  covers (List.length srcs) ss -> covers (List.length bases) sb ->
  mergeable tprof toy_combine srcs -> mergeable tprof toy_combine bases ->
  spec_holds tprof toy_combine toy_eqv srcs bases (grab_sources_and_bases tprof toy_combine chunk_size srcs bases ss sb).
Proof. intros s b ss sb. exact (fetch_meets_spec tprof toy_combine toy_eqv toy_combine_laws chunk_size s b ss sb (Nat.lt_0_succ 127)). Qed.
Print Assumptions toy_fetch_meets_spec.

(* the boolean checker evaluated on the implementation's output accepts only what the declarative
   specification allows *)
Theorem spec_checker_sound : forall srcs bases (o : gsb_out tprof),
  mergeable tprof toy_combine srcs -> mergeable tprof toy_combine bases ->
  spec_check srcs bases (g_status o) (g_src o) (g_base o) (g_err_src o) (g_err_base o) = true ->
  spec_holds tprof toy_combine toy_eqv srcs bases o.
Proof. exact spec_check_sound. Qed.
Print Assumptions spec_checker_sound.

Theorem toy_equivalence_decided : forall a b, toy_eqvb a b = true <-> toy_eqv a b.
Proof. exact toy_eqvb_spec. Qed.
Print Assumptions toy_equivalence_decided.

(* ---- non-vacuity ---- *)
(* the laws are also met by the simplest instance: profiles = lists, combine = concatenation *)
Example laws_satisfiable : combine_laws (list Z) (fun ps => Some (List.concat ps)) eq.
Proof.
  unfold combine_laws. split; [intros a; reflexivity|]. split; [intros a b H; symmetry; exact H|].
  split; [intros a b c H1 H2; congruence|]. split.
  - intros a a' b H. subst. simpl. reflexivity.
  - intros A B _ _. simpl. rewrite concat_app, app_nil_r. reflexivity.
Qed.

(* every permutation of the goroutine indices is a completion order *)
Example permutations_are_completion_orders : forall n o, Permutation.Permutation (seq 0 n) o -> covers n o.
Proof. exact perm_covers. Qed.

(* completion orders exist: command-line order, its reverse, anything that contains one *)
Example covers_examples : covers 3 [0; 1; 2] /\ covers 3 [2; 0; 1] /\ covers 3 [1; 1; 2; 0; 2].
Proof. repeat split; intros j H; (destruct j as [|[|[|j]]]; [simpl; tauto|simpl; tauto|simpl; tauto|lia]). Qed.

(* the three TLS policies of one run: plain https needs a trusted certificate, https+insecure does not *)
Example transport_example :
  tr_run TrFresh [(1%Z, {| rq_scheme := "https+insecure"; rq_trusted := false |});
                  (2%Z, {| rq_scheme := "https"; rq_trusted := false |});
                  (3%Z, {| rq_scheme := "https"; rq_trusted := true |})]
  = [(1%Z, true); (2%Z, false); (3%Z, true)].
Proof. reflexivity. Qed.

(* a concrete run: three sources, the middle one fails, completion order 2,0,1 *)
Definition ex_src (a : string) (ok : bool) (k : string) (v : Z) : source tprof :=
  {| s_addr := a; s_res := if ok then GOk {| tp_type := "samples"; tp_comments := [a]; tp_samples := [(k, v); ("shared", v)] |} false else GErr "boom" |}.
Example run_example :
  let o := grab_sources_and_bases tprof toy_combine chunk_size
             [ex_src "a" true "fa" 1; ex_src "b" false "fb" 2; ex_src "c" true "fc" 4] [] [2; 0; 1] [] in
  g_status o = StOk /\ g_err_src o = ["b: boom"%string] /\ g_tail o = ["Fetched 2 source profiles out of 3"%string]
  /\ g_src o = Some {| tp_type := "samples"; tp_comments := ["a"; "c"]%string;
                       tp_samples := [("fa", 1); ("shared", 5); ("fc", 4)]%Z |}.
Proof. vm_compute. repeat split. Qed.
