From PV Require Import M_Profile M_Fetch S_Fetch.
