(* Lemmas and proofs for C09 (crash-freedom of the modelled decision cores). *)
From Coq Require Import Lia.
From PV Require Import M_Crash.
Open Scope string_scope.
Open Scope Z_scope.

(* ------------------------------------------------------------------ generic *)
Lemma bind_no_panic {A B} (o : outcome A) (f : A -> outcome B) :
  is_panic o = false -> (forall a, o = Ok a -> is_panic (f a) = false) -> is_panic (bind o f) = false.
Proof.
  intros Ho Hf. destruct o as [a| |s]; cbn in *; auto; try discriminate.
Qed.

Lemma set_nth_length : forall cfg i v, List.length (set_nth cfg i v) = List.length cfg.
Proof.
  induction cfg as [|x r IH]; intros i v; cbn; auto.
  destruct i; cbn; auto.
Qed.

(* ------------------------------------------------------------------ parseTagFilterRange *)
Lemma rx_find_shape : forall s m r, rx_find s = Some (m, r) -> exists a b c, m = [a; b; c].
Proof.
  induction s as [|a s IH]; intros m r H; cbn in H; [discriminate|].
  destruct (is_digit a).
  - destruct (span is_digit s) as [x y]; cbn in H.
    destruct (span is_alpha y) as [u w]. inversion H; subst. eauto.
  - destruct (is_sign a && starts_with_digit s).
    + destruct (span is_digit s) as [x y]. destruct (span is_alpha y) as [u w].
      inversion H; subst. eauto.
    + eauto.
Qed.

Lemma tag_range_never_panics_lemma : forall su filter,
  is_panic (parse_tag_filter_range su filter) = false.
Proof.
  intros su filter. unfold parse_tag_filter_range, rx_find_all2.
  destruct (rx_find filter) as [[m1 rest]|] eqn:E1; [|reflexivity].
  destruct (rx_find_shape _ _ _ E1) as (a & b & c & ->).
  destruct (rx_find rest) as [[m2 rest2]|] eqn:E2.
  - destruct (rx_find_shape _ _ _ E2) as (a2 & b2 & c2 & ->).
    cbn. destruct (parse_int64 b) as [v|]; cbn; [|reflexivity].
    destruct (negb (filter =? a ++ String ":" a2)%string); cbn; [reflexivity|].
    destruct (parse_int64 b2) as [v2|]; cbn; [|reflexivity].
    destruct (negb (su v c c =? su v2 c2 (su v c c))%string); reflexivity.
  - cbn. destruct (parse_int64 b) as [v|]; cbn; [|reflexivity].
    destruct (filter =? a)%string; [reflexivity|].
    destruct (filter =? a ++ ":")%string; [reflexivity|].
    destruct (filter =? String ":" a)%string; reflexivity.
Qed.

(* the repair of F5: a first number outside int64 makes the value "not a range" *)
Lemma tag_range_overflow_nil_lemma : forall su filter whole num unit rest,
  rx_find filter = Some ([whole; num; unit], rest) -> parse_int64 num = None ->
  parse_tag_filter_range su filter = Ok TFNil.
Proof.
  intros su filter whole num unit rest E1 Hp. unfold parse_tag_filter_range, rx_find_all2.
  rewrite E1. destruct (rx_find rest) as [[m2 rest2]|]; cbn; rewrite Hp; reflexivity.
Qed.

(* ... and so does a second number outside int64 *)
Lemma tag_range_overflow2_nil_lemma : forall su filter w1 n1 u1 rest w2 n2 u2 rest2,
  rx_find filter = Some ([w1; n1; u1], rest) -> rx_find rest = Some ([w2; n2; u2], rest2) ->
  parse_int64 n2 = None -> parse_tag_filter_range su filter = Ok TFNil.
Proof.
  intros su filter w1 n1 u1 rest w2 n2 u2 rest2 E1 E2 Hp. unfold parse_tag_filter_range, rx_find_all2.
  rewrite E1, E2. cbn. destruct (parse_int64 n1); cbn; [|reflexivity].
  destruct (negb (filter =? w1 ++ String ":" w2)%string); cbn; [reflexivity|]. rewrite Hp. reflexivity.
Qed.

(* ------------------------------------------------------------------ locateBinaries *)
Lemma locate_never_panics_lemma : forall pb pd path file buildid globbed,
  is_panic (locate_candidates pb pd path file buildid globbed) = false.
Proof.
  intros. unfold locate_candidates.
  destruct (buildid =? "")%string; [reflexivity|].
  destruct (2 <? String.length buildid)%nat eqn:E; [|reflexivity].
  apply Nat.ltb_lt in E. unfold slice_to, slice_from.
  assert (H : (2 <=? String.length buildid)%nat = true) by (apply Nat.leb_le; lia).
  rewrite H. reflexivity.
Qed.

(* without the guard the slice does panic on short ids: what F6 was *)
Lemma slice_short_panics : forall s, (String.length s < 2)%nat -> is_panic (slice_to s 2) = true.
Proof.
  intros s H. unfold slice_to.
  assert (E : (2 <=? String.length s)%nat = false) by (apply Nat.leb_gt; lia).
  rewrite E. reflexivity.
Qed.

(* ------------------------------------------------------------------ config.go *)
Definition supported (f : cfield) : bool :=
  match cf_kind f with KUnsupported => false | _ => true end.

Lemma set_value_no_panic : forall pf f v, supported f = true -> is_panic (set_value pf f v) = false.
Proof.
  intros pf f v H. unfold set_value, supported in *.
  destruct (cf_kind f); try discriminate.
  - destruct (cf_choices f); [reflexivity|]. destruct (existsb _ _); reflexivity.
  - destruct (atoi v); reflexivity.
  - destruct (pf v); reflexivity.
  - destruct (string_to_bool v); reflexivity.
Qed.

Lemma config_set_no_panic : forall pf cfg i f v, supported f = true -> is_panic (config_set pf cfg i f v) = false.
Proof.
  intros. unfold config_set. apply bind_no_panic; [apply set_value_no_panic; auto|]. reflexivity.
Qed.

Lemma config_set_length : forall pf cfg i f v c, config_set pf cfg i f v = Ok c -> List.length c = List.length cfg.
Proof.
  intros pf cfg i f v c H. unfold config_set in H. destruct (set_value pf f v); cbn in H; try discriminate.
  inversion H. apply set_nth_length.
Qed.

Lemma lookup_from_in : forall l i name j f, lookup_from l i name = Some (j, f) -> In f l.
Proof.
  induction l as [|g r IH]; intros i name j f H; cbn in H; [discriminate|].
  destruct (_ || _).
  - inversion H; subst. left; reflexivity.
  - right. eapply IH; eauto.
Qed.

Lemma lookup_supported : forall flds name j f,
  forallb supported flds = true -> lookup flds name = Some (j, f) -> supported f = true.
Proof.
  intros flds name j f Hs H. apply lookup_from_in in H.
  rewrite forallb_forall in Hs. auto.
Qed.

Lemma configure_no_panic : forall flds pf cfg name value,
  forallb supported flds = true -> is_panic (configure flds pf cfg name value) = false.
Proof.
  intros flds pf cfg name value Hs. unfold configure.
  destruct (lookup flds name) as [[i f]|] eqn:E; [|reflexivity].
  pose proof (lookup_supported _ _ _ _ Hs E) as Hf.
  destruct (cf_name f =? name)%string; [apply config_set_no_panic; auto|].
  destruct (parse_bool value) as [[|]|]; try reflexivity. apply config_set_no_panic; auto.
Qed.

Lemma configure_length : forall flds pf cfg name value c,
  configure flds pf cfg name value = Ok c -> List.length c = List.length cfg.
Proof.
  intros flds pf cfg name value c H. unfold configure in H.
  destruct (lookup flds name) as [[i f]|]; [|discriminate].
  destruct (cf_name f =? name)%string; [eapply config_set_length; eauto|].
  destruct (parse_bool value) as [[|]|]; try discriminate. eapply config_set_length; eauto.
Qed.

Lemma apply_url_from_no_panic : forall pf l i params cfg,
  forallb supported l = true -> is_panic (apply_url_from pf l i params cfg) = false.
Proof.
  induction l as [|f r IH]; intros i params cfg Hs; cbn; [reflexivity|].
  cbn in Hs. apply andb_prop in Hs. destruct Hs as [Hf Hr].
  destruct ((if (cf_url f =? "")%string then "" else assoc (cf_url f) params) =? "")%string; [auto|].
  apply bind_no_panic; [apply config_set_no_panic; auto|]. intros; auto.
Qed.

Lemma apply_url_no_panic : forall flds pf params cfg,
  forallb supported flds = true -> is_panic (apply_url flds pf params cfg) = false.
Proof. intros. apply apply_url_from_no_panic; auto. Qed.

(* an error of set is exactly "the text is not a value of the field's kind" *)
Definition valid_for (pf : string -> option term) (f : cfield) (value : string) : bool :=
  match cf_kind f with
  | KString => match cf_choices f with [] => true | cs => existsb (String.eqb value) cs end
  | KInt => match atoi value with Some _ => true | None => false end
  | KFloat => match pf value with Some _ => true | None => false end
  | KBool => match string_to_bool value with Some _ => true | None => false end
  | KUnsupported => true
  end.

Lemma set_error_iff_lemma : forall pf f value, supported f = true ->
  (set_value pf f value = Err <-> valid_for pf f value = false).
Proof.
  intros pf f value H. unfold set_value, valid_for, supported in *.
  destruct (cf_kind f); try discriminate.
  - destruct (cf_choices f); [split; discriminate|]. destruct (existsb _ _); split; auto; discriminate.
  - destruct (atoi value); split; auto; discriminate.
  - destruct (pf value); split; auto; discriminate.
  - destruct (string_to_bool value); split; auto; discriminate.
Qed.

(* ------------------------------------------------------------------ strings.Fields *)
Lemma rev_string_acc_nonempty : forall s acc, acc <> "" -> rev_string_acc s acc <> "".
Proof.
  induction s as [|a s IH]; intros acc H; cbn; auto. apply IH. discriminate.
Qed.

Lemma rev_string_nonempty : forall s, s <> "" -> rev_string s <> "".
Proof.
  intros s H. destruct s as [|a s]; [congruence|]. unfold rev_string. cbn.
  apply rev_string_acc_nonempty. discriminate.
Qed.

Lemma fields_acc_nonempty : forall s cur, Forall (fun t => t <> "") (fields_acc s cur).
Proof.
  induction s as [|a s IH]; intros cur; cbn.
  - destruct cur; constructor; [apply rev_string_nonempty; discriminate|constructor].
  - destruct (is_space a).
    + destruct cur; [apply IH|]. constructor; [apply rev_string_nonempty; discriminate|apply IH].
    + apply IH.
Qed.

Lemma fields_nonempty_lemma : forall s, Forall (fun t => t <> "") (fields s).
Proof. intros. apply fields_acc_nonempty. Qed.

(* ------------------------------------------------------------------ parseCommandLine *)
Section Interactive.
  Variable flds : list cfield.
  Variable pf : string -> option term.
  Variable cmds : list (string * bool).
  Variable helpkeys : list string.
  Variable stypes : list string.
  Variable dst : string.

  Lemma pcl_args_no_panic_n : forall n args cfg focus ignore,
    (List.length args <= n)%nat -> Forall (fun t => t <> "") args ->
    is_panic (pcl_args flds args cfg focus ignore) = false.
  Proof.
    induction n as [|n IH]; intros args cfg focus ignore Hl Hne.
    - destruct args; [reflexivity|cbn in Hl; lia].
    - destruct args as [|t r]; [reflexivity|].
      inversion Hne as [|? ? Ht Hr]; subst. cbn in Hl.
      cbn [pcl_args]. destruct (parse_int32 t); [apply IH; auto; lia|].
      destruct t as [|a rest]; [congruence|].
      destruct (N.eqb (byte_of a) 62).
      + destruct rest.
        * destruct r as [|o r']; [reflexivity|].
          inversion Hr; subst. apply IH; auto. cbn in Hl. lia.
        * apply IH; auto; lia.
      + destruct (N.eqb (byte_of a) 45).
        * destruct (_ || _); apply IH; auto; lia.
        * apply IH; auto; lia.
  Qed.

  Lemma pcl_args_no_panic : forall args cfg focus ignore,
    Forall (fun t => t <> "") args -> is_panic (pcl_args flds args cfg focus ignore) = false.
  Proof. intros. eapply pcl_args_no_panic_n; eauto. Qed.

  Lemma parse_command_line_no_panic : forall input cfg,
    input <> [] -> Forall (fun t => t <> "") input ->
    is_panic (parse_command_line flds cmds input cfg) = false.
  Proof.
    intros input cfg Hn Hne. destruct input as [|name0 args0]; [congruence|].
    inversion Hne as [|? ? H0 Hargs]; subst.
    unfold parse_command_line.
    assert (Hgen : forall name args c, Forall (fun t => t <> "") args ->
      is_panic (pcl_body flds name args c cfg) = false).
    { intros name args c Ha. unfold pcl_body. destruct c as [hp|]; [|reflexivity].
      apply bind_no_panic.
      - destruct hp; [destruct args|]; reflexivity.
      - intros [cmd args'] Heq.
        assert (Ha' : Forall (fun t => t <> "") args').
        { destruct hp.
          - destruct args as [|a r]; [discriminate|]. inversion Heq; subst. inversion Ha; auto.
          - inversion Heq; subst; auto. }
        apply bind_no_panic; [apply pcl_args_no_panic; auto|].
        intros r _. reflexivity. }
    destruct (find_cmd cmds name0) as [hp|].
    - apply Hgen; auto.
    - destruct (negb (tail_digits name0 =? "")%string && negb (tail_digits name0 =? name0)%string) eqn:Ed.
      + apply Hgen. constructor; auto.
        apply andb_prop in Ed. destruct Ed as [Ed _].
        intro Hc. rewrite Hc in Ed. discriminate.
      + apply Hgen; auto.
  Qed.

  (* ---------------------------------------------------------------- the command loop *)
  Definition step_panics (s : step) : bool := match s with SPanic _ _ => true | _ => false end.

  Hypothesis Hsup : forallb supported flds = true.
  Hypothesis Hst : stypes <> [].

  Lemma options_no_panic : forall cfg, options_index_panics flds stypes cfg = false.
  Proof. intros. unfold options_index_panics. destruct stypes; [congruence|reflexivity]. Qed.

  Lemma process_input_no_panic : forall cfg input,
    step_panics (process_input flds pf cmds helpkeys stypes dst cfg input) = false.
  Proof.
    intros cfg input. unfold process_input.
    destruct (split_eq input) as [lhs rhs].
    destruct (is_configurable flds (trim_space lhs)).
    - destruct (match rhs with None => negb (is_bool_config flds (trim_space lhs)) | Some _ => false end); [reflexivity|].
      set (value := match rhs with Some v => trim_space (strip_comment v) | None => "" end).
      destruct (trim_space lhs =? "sample_index")%string.
      + destruct (sample_index_by_name stypes dst value) as [i|]; [|reflexivity].
        destruct ((i <? 0) || (Z.of_nat (List.length stypes) <=? i)) eqn:Ei; [reflexivity|].
        apply Bool.orb_false_elim in Ei. destruct Ei as [E1 E2].
        apply Z.ltb_ge in E1. apply Z.leb_gt in E2.
        unfold index. destruct (nth_error stypes (Z.to_nat i)) eqn:En.
        * pose proof (configure_no_panic flds pf cfg (trim_space lhs) s Hsup) as Hc.
          destruct (configure flds pf cfg (trim_space lhs) s); cbn in *; auto; discriminate.
        * apply nth_error_None in En. lia.
      + pose proof (configure_no_panic flds pf cfg (trim_space lhs) value Hsup) as Hc.
        destruct (configure flds pf cfg (trim_space lhs) value); cbn in *; auto; discriminate.
    - pose proof (fields_nonempty_lemma input) as Hf.
      destruct (fields input) as [|t0 rest]; [reflexivity|].
      destruct ((t0 =? "o")%string || (t0 =? "options")%string).
      + rewrite options_no_panic. reflexivity.
      + destruct ((t0 =? "exit")%string || (t0 =? "quit")%string || (t0 =? "q")%string); [reflexivity|].
        destruct (t0 =? "help")%string; [reflexivity|].
        pose proof (parse_command_line_no_panic (t0 :: rest) cfg) as Hp.
        destruct (parse_command_line flds cmds (t0 :: rest) cfg) as [[cmd v]| |s]; try reflexivity.
        cbn in Hp. assert (true = false) by (apply Hp; [discriminate|auto]). discriminate.
  Qed.

  Lemma process_inputs_no_panic : forall inputs cfg acc,
    step_panics (process_inputs flds pf cmds helpkeys stypes dst cfg inputs acc) = false.
  Proof.
    induction inputs as [|i r IH]; intros cfg acc; cbn; [reflexivity|].
    pose proof (process_input_no_panic cfg i) as H.
    destruct (process_input flds pf cmds helpkeys stypes dst cfg i); cbn in *; auto; try discriminate.
  Qed.

  Lemma session_no_panic : forall lines cfg acc,
    step_panics (session flds pf cmds helpkeys stypes dst cfg lines acc) = false.
  Proof.
    induction lines as [|l r IH]; intros cfg acc; cbn; [reflexivity|].
    pose proof (process_inputs_no_panic (expand stypes l) cfg (acc ++ [ELine])%list) as H.
    destruct (process_inputs flds pf cmds helpkeys stypes dst cfg (expand stypes l) (acc ++ [ELine])%list); cbn in *; auto.
  Qed.

  (* every step is total by construction (Gallina); what it leaves behind is again a configuration
     of the same shape: errors do not corrupt the session state *)
  Lemma assign_length : forall cfg name v, List.length (assign flds cfg name v) = List.length cfg.
  Proof. intros. unfold assign. destruct (index_of_name flds 0 name); auto. apply set_nth_length. Qed.

  Lemma process_input_length : forall cfg input cfg' evs,
    process_input flds pf cmds helpkeys stypes dst cfg input = SCont cfg' evs ->
    List.length cfg' = List.length cfg.
  Proof.
    intros cfg input cfg' evs. unfold process_input.
    destruct (split_eq input) as [lhs rhs].
    destruct (is_configurable flds (trim_space lhs)).
    - destruct (match rhs with None => negb (is_bool_config flds (trim_space lhs)) | Some _ => false end);
        [intro H; inversion H; reflexivity|].
      set (value := match rhs with Some v => trim_space (strip_comment v) | None => "" end).
      match goal with |- context [match ?c with Ok _ => _ | Err => _ | Panic _ => _ end] => destruct c as [v'| |s] end;
        try (intro H; inversion H; reflexivity).
      destruct (configure flds pf cfg (trim_space lhs) v') eqn:Ec; intro H; inversion H; subst; auto.
      eapply configure_length; eauto.
    - destruct (fields input) as [|t0 rest]; [intro H; inversion H; reflexivity|].
      destruct ((t0 =? "o")%string || (t0 =? "options")%string).
      + destruct (options_index_panics flds stypes cfg); intro H; inversion H; reflexivity.
      + destruct ((t0 =? "exit")%string || (t0 =? "quit")%string || (t0 =? "q")%string); [discriminate|].
        destruct (t0 =? "help")%string; [intro H; inversion H; reflexivity|].
        destruct (parse_command_line flds cmds (t0 :: rest) cfg) as [[cmd v]| |s]; intro H; inversion H; reflexivity.
  Qed.
End Interactive.

(* the whole session keeps the shape of the configuration *)
Section Shape.
  Variable flds : list cfield.
  Variable pf : string -> option term.
  Variable cmds : list (string * bool).
  Variable helpkeys : list string.
  Variable stypes : list string.
  Variable dst : string.

  Definition step_cfg_length (n : nat) (s : step) : Prop :=
    match s with
    | SCont c _ => List.length c = n
    | SQuit c _ => List.length c = n
    | SPanic _ _ => True
    end.

  Lemma process_input_shape : forall cfg input,
    step_cfg_length (List.length cfg) (process_input flds pf cmds helpkeys stypes dst cfg input).
  Proof.
    intros cfg input.
    destruct (process_input flds pf cmds helpkeys stypes dst cfg input) as [c evs|c evs|evs s] eqn:E; cbn; auto.
    - eapply process_input_length; eauto.
    - (* quit leaves the configuration untouched *)
      unfold process_input in E.
      destruct (split_eq input) as [lhs rhs].
      destruct (is_configurable flds (trim_space lhs)).
      + destruct (match rhs with None => negb (is_bool_config flds (trim_space lhs)) | Some _ => false end); [discriminate|].
        match type of E with context [match ?c with Ok _ => _ | Err => _ | Panic _ => _ end] => destruct c as [v'| |s] end;
          try discriminate.
        destruct (configure flds pf cfg (trim_space lhs) v'); discriminate.
      + destruct (fields input) as [|t0 rest]; [discriminate|].
        destruct ((t0 =? "o")%string || (t0 =? "options")%string).
        * destruct (options_index_panics flds stypes cfg); discriminate.
        * destruct ((t0 =? "exit")%string || (t0 =? "quit")%string || (t0 =? "q")%string).
          -- inversion E; reflexivity.
          -- destruct (t0 =? "help")%string; [discriminate|].
             destruct (parse_command_line flds cmds (t0 :: rest) cfg) as [[cmd v]| |s]; discriminate.
  Qed.

  Lemma process_inputs_shape : forall inputs cfg acc,
    step_cfg_length (List.length cfg) (process_inputs flds pf cmds helpkeys stypes dst cfg inputs acc).
  Proof.
    induction inputs as [|i r IH]; intros cfg acc; cbn; [reflexivity|].
    pose proof (process_input_shape cfg i) as H.
    destruct (process_input flds pf cmds helpkeys stypes dst cfg i) as [c evs|c evs|evs s]; cbn in *; auto.
    rewrite <- H. apply IH.
  Qed.

  Lemma session_shape : forall lines cfg acc,
    step_cfg_length (List.length cfg) (session flds pf cmds helpkeys stypes dst cfg lines acc).
  Proof.
    induction lines as [|l r IH]; intros cfg acc; cbn; [reflexivity|].
    pose proof (process_inputs_shape (expand stypes l) cfg (acc ++ [ELine])%list) as H.
    destruct (process_inputs flds pf cmds helpkeys stypes dst cfg (expand stypes l) (acc ++ [ELine])%list) as [c evs|c evs|evs s];
      cbn in *; auto.
    rewrite <- H. apply IH.
  Qed.
End Shape.

(* ------------------------------------------------------------------ source.go line merging *)
Lemma merges_near_lemma : forall e l,
  min_i64 <= e <= max_i64 -> min_i64 <= l <= max_i64 -> e <= l ->
  (merges e l = true <-> l - e < merge_limit).
Proof.
  intros e l He Hl Hle. unfold merges, merge_limit, min_i64, max_i64 in *.
  rewrite Z.ltb_lt. rewrite Z.mod_small by lia. reflexivity.
Qed.


(* ------------------------------------------------------------------ symbolization mode parser *)
Definition known_demangle (m : string) : bool :=
  String.eqb m "" || String.eqb m "templates" || String.eqb m "full" || String.eqb m "none".

Lemma sym_opts_known : forall opts st,
  known_demangle (ss_demangle st) = true -> known_demangle (ss_demangle (snd (sym_opts opts st))) = true.
Proof.
  induction opts as [|o r IH]; intros st H; cbn [sym_opts]; [exact H|].
  destruct (o =? "")%string; [apply IH; exact H|].
  destruct ((o =? "none")%string || (o =? "no")%string); [exact H|].
  destruct (o =? "local")%string; [apply IH; exact H|].
  destruct (o =? "fastlocal")%string; [apply IH; exact H|].
  destruct (o =? "remote")%string; [apply IH; exact H|].
  destruct (o =? "force")%string; [apply IH; exact H|].
  destruct ((trim_prefix "demangle=" o =? "full")%string || (trim_prefix "demangle=" o =? "none")%string
            || (trim_prefix "demangle=" o =? "templates")%string) eqn:E.
  - apply IH. cbn [ss_demangle]. unfold known_demangle.
    apply Bool.orb_true_iff in E. destruct E as [E|E]; [apply Bool.orb_true_iff in E; destruct E as [E|E]|];
      rewrite E; repeat rewrite Bool.orb_true_r; reflexivity.
  - destruct (trim_prefix "demangle=" o =? "default")%string; apply IH; exact H.
Qed.

Lemma demangler_known_no_panic : forall m, known_demangle m = true -> is_panic (demangler_mode_to_options m) = false.
Proof.
  intros m H. unfold demangler_mode_to_options, known_demangle in *.
  destruct (m =? "")%string; [reflexivity|].
  destruct (m =? "templates")%string; [reflexivity|].
  destruct (m =? "full")%string; [reflexivity|].
  destruct (m =? "none")%string; [reflexivity|]. discriminate.
Qed.

Lemma symbolize_mode_no_panic : forall mode, is_panic (symbolize_mode mode) = false.
Proof.
  intros mode. unfold symbolize_mode.
  pose proof (sym_opts_known (split_colon (to_lower mode)) sym_init eq_refl) as H.
  destruct (sym_opts (split_colon (to_lower mode)) sym_init) as [early st]. cbn [snd] in H.
  destruct early; [reflexivity|].
  pose proof (demangler_known_no_panic _ H) as Hd.
  destruct (demangler_mode_to_options (ss_demangle st)); cbn in *; auto.
Qed.

(* the switch does panic on any other mode: the parser's whitelist is what keeps it unreachable *)
Lemma demangler_unknown_panics : forall m, known_demangle m = false -> is_panic (demangler_mode_to_options m) = true.
Proof.
  intros m H. unfold demangler_mode_to_options, known_demangle in *.
  destruct (m =? "")%string; [discriminate|].
  destruct (m =? "templates")%string; [discriminate|].
  destruct (m =? "full")%string; [discriminate|].
  destruct (m =? "none")%string; [discriminate|]. reflexivity.
Qed.

(* ------------------------------------------------------------------ TrimTree only on trees *)
Lemma in_formats_incl : forall a b fmt, incl_b a b = true -> in_formats fmt a = true -> in_formats fmt b = true.
Proof.
  intros a b fmt Hi Ha. unfold incl_b in Hi. rewrite forallb_forall in Hi.
  unfold in_formats in Ha. apply existsb_exists in Ha. destruct Ha as (x & Hx & He).
  apply String.eqb_eq in He. subst x. apply Hi. exact Hx.
Qed.

Lemma trim_site_no_panic : forall buildf sitef, incl_b sitef buildf = true ->
  forall ct fmt dropped two, is_panic (trim_site_outcome buildf sitef ct fmt dropped two) = false.
Proof.
  intros buildf sitef Hi ct fmt dropped two. unfold trim_site_outcome, built_as_tree.
  destruct ct; [|reflexivity]. cbn [andb].
  destruct (in_formats fmt sitef) eqn:Es; [|reflexivity].
  rewrite (in_formats_incl _ _ _ Hi Es). destruct dropped; reflexivity.
Qed.

(* and the inclusion is necessary: a format honoured by the trimming guard only does panic *)
Lemma trim_site_panics_outside : forall buildf sitef fmt,
  in_formats fmt sitef = true -> in_formats fmt buildf = false ->
  is_panic (trim_site_outcome buildf sitef true fmt true true) = true.
Proof.
  intros buildf sitef fmt Hs Hb. unfold trim_site_outcome, built_as_tree. cbn [andb].
  rewrite Hs, Hb. reflexivity.
Qed.

(* ------------------------------------------------------------------ the slices are taken from the string the guard measured *)
Lemma take_drop_id : forall n s, (take n s ++ drop n s)%string = s.
Proof.
  induction n as [|n IH]; intros s; destruct s as [|a r]; cbn; auto. rewrite IH. reflexivity.
Qed.

Lemma slices_recompose_lemma : forall id n a b,
  slice_to id n = Ok a -> slice_from id n = Ok b -> (a ++ b)%string = id.
Proof.
  intros id n a b Ha Hb. unfold slice_to, slice_from in *.
  destruct (n <=? String.length id)%nat; [|discriminate].
  inversion Ha; inversion Hb; subst. apply take_drop_id.
Qed.

(* the LLVM build-id candidate of locate_candidates is [path; id[:2]; id[2:] ++ ".debug"] of the RAW id *)
Lemma locate_llvm_candidate_lemma : forall pb pd path file id globbed l,
  (2 < String.length id)%nat ->
  locate_candidates pb pd path file id globbed = Ok l ->
  In [path; take 2 id; (drop 2 id ++ ".debug")%string] l.
Proof.
  intros pb pd path file id globbed l Hlen H.
  assert (E0 : (id =? "")%string = false).
  { destruct (id =? "")%string eqn:E; [|reflexivity]. apply String.eqb_eq in E. subst id. cbn in Hlen. lia. }
  assert (E : (2 <? String.length id)%nat = true) by (apply Nat.ltb_lt; exact Hlen).
  assert (E2 : (2 <=? String.length id)%nat = true) by (apply Nat.leb_le; lia).
  set (llvm := [path; take 2 id; (drop 2 id ++ ".debug")%string]) in *.
  assert (H' : exists pre post, l = (pre ++ llvm :: post)%list).
  { unfold locate_candidates in H. rewrite E0, E in H. unfold slice_to, slice_from in H. rewrite E2 in H.
    unfold bind in H. inversion H.
    eexists ([_] ++ map (fun g : string => [g]) globbed ++ [_])%list, _.
    rewrite <- !app_assoc. cbn [app]. reflexivity. }
  destruct H' as (pre & post & ->). apply in_or_app. right. left. reflexivity.
Qed.

(* ------------------------------------------------------------------ the "Active filters" legend *)
Lemma legend_line_no_panic : forall s, is_panic (legend_line s) = false.
Proof.
  intros s. unfold legend_line. destruct (80 <? String.length s)%nat eqn:E; [|reflexivity].
  apply Nat.ltb_lt in E. unfold slice_to.
  assert (H : (80 <=? String.length s)%nat = true) by (apply Nat.leb_le; lia).
  rewrite H. reflexivity.
Qed.

Lemma legend_lines_no_panic : forall l, is_panic (legend_lines l) = false.
Proof.
  induction l as [|s r IH]; [reflexivity|]. cbn [legend_lines].
  apply bind_no_panic; [apply legend_line_no_panic|]. intros x _.
  apply bind_no_panic; [exact IH|]. reflexivity.
Qed.

Lemma legend_active_filters_no_panic : forall l, is_panic (legend_active_filters l) = false.
Proof.
  intros l. unfold legend_active_filters. destruct l as [|s r]; [reflexivity|].
  apply bind_no_panic; [apply legend_lines_no_panic|]. reflexivity.
Qed.

Lemma length_take_le : forall n s, (String.length (take n s) <= n)%nat.
Proof.
  induction n as [|n IH]; intros s; destruct s as [|a r]; cbn; try lia. specialize (IH r). lia.
Qed.

Lemma string_length_app : forall a b, String.length (a ++ b) = (String.length a + String.length b)%nat.
Proof. induction a as [|c a IH]; intros b; cbn; auto. Qed.

(* a legend line is the filter itself when it has at most 80 bytes, else its first 80 bytes and "…":
   never longer than 3 + 80 + 3 bytes *)
Lemma legend_line_bounded : forall s x, legend_line s = Ok x -> (String.length x <= 86)%nat.
Proof.
  intros s x H. unfold legend_line in H. destruct (80 <? String.length s)%nat eqn:E.
  - assert (E2 : (80 <=? String.length s)%nat = true) by (apply Nat.ltb_lt in E; apply Nat.leb_le; lia).
    unfold slice_to in H. rewrite E2 in H.
    pose proof (length_take_le 80 s) as Ht. remember (take 80 s) as t eqn:Et. clear Et.
    cbn [bind] in H. inversion H; subst x. cbn [append String.length]. rewrite string_length_app.
    change (String.length ellipsis) with 3%nat. lia.
  - inversion H; subst x. apply Nat.ltb_ge in E. cbn [append String.length]. lia.
Qed.

Lemma legend_line_short_identity : forall s, (String.length s <= 80)%nat -> legend_line s = Ok ("   " ++ s).
Proof.
  intros s H. unfold legend_line.
  assert (E : (80 <? String.length s)%nat = false) by (apply Nat.ltb_ge; exact H). rewrite E. reflexivity.
Qed.

(* ------------------------------------------------------------------ limiting the number of nodes *)
Lemma select_top_nodes_nonneg_ok : forall len n, 0 <= len -> 0 <= n -> is_panic (select_top_nodes len n) = false.
Proof.
  intros len n Hl Hn. unfold select_top_nodes.
  destruct (len <? n) eqn:E.
  - assert (H : (0 <=? len) && (len <=? len) = true) by (apply andb_true_intro; split; apply Z.leb_le; lia).
    rewrite H. reflexivity.
  - apply Z.ltb_ge in E.
    assert (H : (0 <=? n) && (n <=? len) = true) by (apply andb_true_intro; split; apply Z.leb_le; lia).
    rewrite H. reflexivity.
Qed.

Lemma select_top_nodes_negative_panics : forall len n, 0 <= len -> n < 0 -> is_panic (select_top_nodes len n) = true.
Proof.
  intros len n Hl Hn. unfold select_top_nodes.
  assert (E : (len <? n) = false) by (apply Z.ltb_ge; lia). rewrite E.
  assert (H : (0 <=? n) = false) by (apply Z.leb_gt; lia). rewrite H. reflexivity.
Qed.

Lemma limit_nodes_no_panic : forall node_count len, 0 <= len ->
  is_panic (limit_nodes node_count_guard node_count len) = false.
Proof.
  intros nc len Hl. unfold limit_nodes, node_count_guard. destruct (0 <? nc) eqn:E; [|reflexivity].
  apply Z.ltb_lt in E. apply select_top_nodes_nonneg_ok; lia.
Qed.

Lemma limit_nodes_bounds : forall node_count len m, 0 <= len ->
  limit_nodes node_count_guard node_count len = Ok m -> 0 <= m <= len /\ (0 < node_count -> m <= node_count).
Proof.
  intros nc len m Hl H. unfold limit_nodes, node_count_guard in H. destruct (0 <? nc) eqn:E.
  - apply Z.ltb_lt in E. unfold select_top_nodes in H. destruct (len <? nc) eqn:E2.
    + apply Z.ltb_lt in E2. destruct ((0 <=? len) && (len <=? len)); inversion H; subst. lia.
    + apply Z.ltb_ge in E2. destruct ((0 <=? nc) && (nc <=? len)); inversion H; subst. lia.
  - apply Z.ltb_ge in E. inversion H; subst. lia.
Qed.

(* a guard that lets a negative count through (e.g. "not zero") does reach the panic *)
Lemma limit_nodes_weak_guard_panics : forall len n, 0 <= len -> n < 0 ->
  is_panic (limit_nodes (fun k => negb (k =? 0)) n len) = true.
Proof.
  intros len n Hl Hn. unfold limit_nodes.
  assert (E : (n =? 0) = false) by (apply Z.eqb_neq; lia). rewrite E. cbn [negb].
  apply select_top_nodes_negative_panics; assumption.
Qed.
