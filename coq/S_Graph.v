(* Specification of C04 / C05, written from the property text and independent of the model's
   control flow (no seen-sets, no walking state): an entry's numbers are sums over samples.

     flat n    = sum of the value over samples whose LEAF frame maps to n
     cum n     = sum over samples in which n occurs anywhere (once per sample)
     edge a b  = sum over samples in which b directly follows a (a <> b; once per sample)
     total     = sum of absolute values (base-only when diffing); with mean: quotient of the sums

   With a kept set (trimming) the sample's entry sequence is the sequence of its KEPT entries:
   an entry that is shown keeps flat/cum, an edge between shown entries sums the samples in which
   the two are adjacent once the removed entries are skipped, and it is residual iff in one of
   them something removed lies between the two.

   Plus decidable checkers that are evaluated on the implementation's output. *)
From PV Require Export M_Graph.
Open Scope list_scope.
Open Scope Z_scope.

Section Spec.
  Variable K : Type.
  Variable keqb : K -> K -> bool.

  Definition keys (s : gsample K) : list K := map fst (gs_frames s).

  Definition keptb (kept : option (list K)) (k : K) : bool :=
    match kept with None => true | Some ks => memK K keqb k ks end.
  (* the entries of a sample that are shown, root first *)
  Definition vis (kept : option (list K)) (s : gsample K) : list K := filter (keptb kept) (keys s).

  Definition lastb (n : K) (l : list K) : bool :=
    match rev l with x :: _ => keqb x n | [] => false end.
  Fixpoint adjb (a b : K) (l : list K) : bool :=
    match l with
    | x :: r => match r with y :: _ => (keqb x a && keqb y b) || adjb a b r | [] => false end
    | [] => false
    end.

  Definition sumf (f : gsample K -> Z) (ss : list (gsample K)) : Z :=
    fold_right (fun s acc => f s + acc) 0 ss.

  (* which value is summed: the sample value or the mean divisor *)
  Definition pick (div : bool) (s : gsample K) : Z := if div then gs_dw s else gs_w s.

  Definition flat_spec (div : bool) (kept : option (list K)) (ss : list (gsample K)) (n : K) : Z :=
    sumf (fun s => if keptb kept n && lastb n (keys s) then pick div s else 0) ss.
  Definition cum_spec (div : bool) (kept : option (list K)) (ss : list (gsample K)) (n : K) : Z :=
    sumf (fun s => if memK K keqb n (vis kept s) then pick div s else 0) ss.
  Definition edge_spec (div : bool) (kept : option (list K)) (ss : list (gsample K)) (a b : K) : Z :=
    sumf (fun s => if negb (keqb a b) && adjb a b (vis kept s) then pick div s else 0) ss.

  (* a sample that the report counts at all *)
  Definition counted (s : gsample K) : bool := negb ((gs_dw s =? 0) && (gs_w s =? 0)).

  (* b follows a in the kept sequence although they are not adjacent in the full one *)
  Definition bypasses (kept : option (list K)) (s : gsample K) (a b : K) : bool :=
    adjb a b (vis kept s) && negb (adjb a b (keys s)).

  (* a, then one or more removed entries, then b *)
  Fixpoint skip_removed (kept : option (list K)) (l : list K) : list K :=
    match l with
    | x :: r => if keptb kept x then l else skip_removed kept r
    | [] => []
    end.
  Fixpoint gap_adjb (kept : option (list K)) (a b : K) (l : list K) : bool :=
    match l with
    | x :: r => (keqb x a && keptb kept x &&
                 match r with
                 | y :: _ => negb (keptb kept y) &&
                             match skip_removed kept r with z :: _ => keqb z b | [] => false end
                 | [] => false
                 end)
                || gap_adjb kept a b r
    | [] => false
    end.

  (* the node values the specification assigns *)
  Definition spec_nval (kept : option (list K)) (ss : list (gsample K)) (n : K) : nval :=
    mk_nval (wrap_i64 (flat_spec false kept ss n)) (wrap_i64 (flat_spec true kept ss n))
            (wrap_i64 (cum_spec false kept ss n)) (wrap_i64 (cum_spec true kept ss n)).

  Definition nval_eqb (a b : nval) : bool :=
    (nv_flat a =? nv_flat b) && (nv_flatdiv a =? nv_flatdiv b) && (nv_cum a =? nv_cum b) && (nv_cumdiv a =? nv_cumdiv b).

  (* every entry that occurs in some sample *)
  Definition all_keys (ss : list (gsample K)) : list K := flat_map keys ss.

  (* ---- decidable checker of a graph against the specification ----
     nodes: exactly the entries whose spec values are not dropped, each with its spec values;
     edges: between shown entries only, weight = spec sum; residual only if in some counted sample
     removed entries lie between the two, and always if in some counted sample the two are adjacent
     only because removed entries were skipped *)
  Definition check_graph (kept : option (list K)) (drop_negative : bool) (ss : list (gsample K)) (g : graph K) : bool :=
    let shown k := existsb (fun e => keqb (fst e) k) (g_nodes g) in
    forallb (fun e => keptb kept (fst e) && nval_eqb (snd e) (spec_nval kept ss (fst e))
                      && negb (node_dropped drop_negative (snd e))) (g_nodes g)
    && forallb (fun k => shown k || negb (keptb kept k) || node_dropped drop_negative (spec_nval kept ss k)) (all_keys ss)
    && forallb (fun e => shown (e_src e) && shown (e_dst e)
                         && (e_w e =? wrap_i64 (edge_spec false kept ss (e_src e) (e_dst e)))
                         && (e_wdiv e =? wrap_i64 (edge_spec true kept ss (e_src e) (e_dst e)))
                         && (negb (e_res e) || existsb (fun s => counted s && gap_adjb kept (e_src e) (e_dst e) (keys s)) ss)
                         && (e_res e || negb (existsb (fun s => counted s && bypasses kept s (e_src e) (e_dst e)) ss)))
               (g_edges g).

  (* C05 invariance, stated between two graphs: every node of the trimmed graph [gt] has the values it
     has in the untrimmed graph [gu]; every non-residual edge has its untrimmed weight; every edge
     joins shown nodes *)
  Definition check_invariance (gu gt : graph K) : bool :=
    let shown k := existsb (fun e => keqb (fst e) k) (g_nodes gt) in
    forallb (fun e => nval_eqb (snd e) (nget K keqb (fst e) (g_nodes gu))) (g_nodes gt)
    && forallb (fun e => shown (e_src e) && shown (e_dst e)
                         && (e_res e || match eget K keqb (e_src e) (e_dst e) (g_edges gu) with
                                        | Some u => (e_w e =? e_w u) && (e_wdiv e =? e_wdiv u)
                                        | None => false
                                        end)) (g_edges gt).
End Spec.

(* ---- call trees: a node is a path from the root (non-empty prefix of a sample's entries) ---- *)
Section TreeSpec.
  Variable K : Type.
  Variable keqb : K -> K -> bool.

  (* q is a non-empty prefix of l *)
  Fixpoint prefixb (q l : list K) : bool :=
    match q, l with
    | [], _ => false
    | [x], y :: _ => keqb x y
    | x :: q', y :: l' => keqb x y && prefixb q' l'
    | _ :: _, [] => false
    end.

  (* cum of a path: the samples whose stack starts with it; flat: those whose stack IS it *)
  Definition tree_cum_spec (div : bool) (ss : list (gsample K)) (path : list K) : Z :=
    sumf K (fun s => if prefixb path (keys K s) then pick K div s else 0) ss.
  Definition tree_flat_spec (div : bool) (ss : list (gsample K)) (path : list K) : Z :=
    sumf K (fun s => if list_eqb K keqb (keys K s) path then pick K div s else 0) ss.

  (* the edge p -> q of a sample with entries l: both are paths of l and q is one frame longer *)
  Definition econd (p q l : list K) : bool :=
    (prefixb p l && prefixb q l && Nat.eqb (List.length q) (S (List.length p)))%bool.
  Definition tree_edge_spec (div : bool) (ss : list (gsample K)) (p q : list K) : Z :=
    sumf K (fun s => if econd p q (keys K s) then pick K div s else 0) ss.

  Definition tree_spec_nval (ss : list (gsample K)) (path : list K) : nval :=
    mk_nval (wrap_i64 (tree_flat_spec false ss path)) (wrap_i64 (tree_flat_spec true ss path))
            (wrap_i64 (tree_cum_spec false ss path)) (wrap_i64 (tree_cum_spec true ss path)).

  (* every path that occurs, once *)
  Definition prefixes (l : list K) : list (list K) := map (fun n => firstn n l) (seq 1 (List.length l)).
  Definition tree_paths (ss : list (gsample K)) : list (list K) :=
    fold_right (fun p acc => if existsb (list_eqb K keqb p) acc then acc else p :: acc) []
               (flat_map (fun s => prefixes (keys K s)) ss).

  (* what a call-tree report must show: the paths whose numbers are not both zero (nor negative
     under drop_negative), and the edge into each shown path from its shown parent *)
  Definition tree_expected_nodes (drop_negative : bool) (ss : list (gsample K)) : list (list K * nval) :=
    filter (fun e => negb (node_dropped drop_negative (snd e)))
           (map (fun p => (p, tree_spec_nval ss p)) (tree_paths ss)).
  Definition tree_expected_edges (drop_negative : bool) (ss : list (gsample K)) : list (list K * list K * Z * Z) :=
    flat_map (fun e => let q := fst e in
                       let p := removelast q in
                       match p with
                       | [] => []
                       | _ => if node_dropped drop_negative (tree_spec_nval ss p) then []
                              else [(p, q, wrap_i64 (tree_edge_spec false ss p q), wrap_i64 (tree_edge_spec true ss p q))]
                       end)
             (tree_expected_nodes drop_negative ss).
End TreeSpec.

(* total of a report (C04): sum of absolute values, base-only when diffing, mean = quotient *)
Section Total.
  Definition zabs_wrap (v : Z) : Z := if v <? 0 then wrap_i64 (- v) else v.
  (* ws: (value, divisor, is-base) per sample *)
  Definition total_spec (ws : list (Z * Z * bool)) : Z :=
    let sumv (f : Z * Z * bool -> bool) := fold_right (fun x acc => if f x then zabs_wrap (fst (fst x)) + acc else acc) 0 ws in
    let sumd (f : Z * Z * bool -> bool) := fold_right (fun x acc => if f x then snd (fst x) + acc else acc) 0 ws in
    let base_total := wrap_i64 (sumv snd) in
    let '(t, d) := if 0 <? base_total then (base_total, wrap_i64 (sumd snd))
                   else (wrap_i64 (sumv (fun _ => true)), wrap_i64 (sumd (fun _ => true))) in
    if d =? 0 then t else div64 t d.
End Total.
