(* Lemmas about M_Measure (C15). *)
From Coq Require Import QArith Qround Qabs Lia Lqa.
From PV Require Import M_Measure S_Measure.
Open Scope Z_scope.

(* ---------- table well-formedness (decidable; discharged by vm_compute on the generated table) *)
Definition unit_pos (u : unit) : bool := negb (Qle_bool (u_factor u) 0).
Definition family_ok (ut : unit_type) : bool :=
  forallb unit_pos (ut_units ut) && unit_pos (ut_default ut).
Definition table_ok (uts : list unit_type) : bool := forallb family_ok uts.

Lemma unit_pos_spec u : unit_pos u = true -> (0 < u_factor u)%Q.
Proof.
  unfold unit_pos. intros H. apply negb_true_iff in H.
  destruct (Qlt_le_dec 0 (u_factor u)) as [L|L]; [exact L|].
  apply Qle_bool_iff in L. congruence.
Qed.

(* ---------- convert_first follows family_of *)
Lemma convert_unit_none ut x f t : sniff_unit ut f = None -> convert_unit ut x f t = None.
Proof. unfold convert_unit. intros ->. reflexivity. Qed.

Lemma convert_unit_some ut x f t u : sniff_unit ut f = Some u -> exists r, convert_unit ut x f t = Some r.
Proof.
  unfold convert_unit. intros ->.
  destruct (is_auto t).
  - destruct (auto_scale ut _); eauto.
  - destruct (sniff_unit ut t); eauto.
Qed.

Lemma convert_first_family uts x f t :
  convert_first uts x f t =
  match family_of uts f with
  | Some (ut, _) => convert_unit ut x f t
  | None => None
  end.
Proof.
  induction uts as [|ut r IH]; simpl; [reflexivity|].
  destruct (sniff_unit ut f) as [u|] eqn:E.
  - destruct (convert_unit_some ut x f t u E) as [res ->]. reflexivity.
  - rewrite (convert_unit_none ut x f t E). exact IH.
Qed.

Lemma family_of_sniff uts f ut u : family_of uts f = Some (ut, u) -> sniff_unit ut f = Some u.
Proof.
  induction uts as [|a r IH]; simpl; [discriminate|].
  destruct (sniff_unit a f) eqn:E; [intros H; inversion H; subst; exact E | exact IH].
Qed.

Lemma family_of_in uts f ut u : family_of uts f = Some (ut, u) -> In ut uts.
Proof.
  induction uts as [|a r IH]; simpl; [discriminate|].
  destruct (sniff_unit a f) eqn:E; [intros H; inversion H; subst; now left | intros H; right; auto].
Qed.

Lemma find_by_alias_in us a u : find_by_alias us a = Some u -> In u us.
Proof.
  induction us as [|w r IH]; simpl; [discriminate|].
  destruct (existsb _ _); [intros H; inversion H; now left | intros H; right; auto].
Qed.

Lemma sniff_unit_in ut s u : sniff_unit ut s = Some u -> In u (ut_units ut).
Proof.
  unfold sniff_unit. destruct (find _ (ut_units ut)) as [w|] eqn:E.
  - intros H. inversion H; subst. apply find_some in E. exact (proj1 E).
  - apply find_by_alias_in.
Qed.

Lemma table_ok_unit uts ut u : table_ok uts = true -> In ut uts -> In u (ut_units ut) -> (0 < u_factor u)%Q.
Proof.
  unfold table_ok. intros T I J. rewrite forallb_forall in T. specialize (T _ I).
  unfold family_ok in T. apply andb_true_iff in T as [T _]. rewrite forallb_forall in T.
  apply unit_pos_spec, T, J.
Qed.

Lemma table_ok_default uts ut : table_ok uts = true -> In ut uts -> (0 < u_factor (ut_default ut))%Q.
Proof.
  unfold table_ok. intros T I. rewrite forallb_forall in T. specialize (T _ I).
  unfold family_ok in T. apply andb_true_iff in T as [_ T]. apply unit_pos_spec, T.
Qed.

(* ---------- scale_pos on an explicit, recognised target: the exact ratio *)
Lemma scale_pos_exact uts x f t ut u v :
  family_of uts f = Some (ut, u) -> is_auto t = false -> sniff_unit ut t = Some v ->
  scale_pos uts x f t = ((inject_Z x * u_factor u / u_factor v)%Q, u_name v).
Proof.
  intros F A T. unfold scale_pos. rewrite convert_first_family, F.
  unfold convert_unit. rewrite (family_of_sniff _ _ _ _ F), A, T. reflexivity.
Qed.

Lemma inject_Z_opp' x : (inject_Z (- x) == - inject_Z x)%Q.
Proof. unfold Qeq, inject_Z, Qopp; simpl. lia. Qed.

Lemma convert_exact_lemma uts x f t ut u v :
  family_of uts f = Some (ut, u) -> is_auto t = false -> sniff_unit ut t = Some v ->
  (fst (scale uts x f t) == inject_Z x * u_factor u / u_factor v)%Q /\ snd (scale uts x f t) = u_name v.
Proof.
  intros F A T. unfold scale.
  destruct ((x <? 0) && negb (x =? min_int64)) eqn:N.
  - rewrite (scale_pos_exact uts (- x) f t ut u v F A T). simpl. split; [|reflexivity].
    rewrite inject_Z_opp'. unfold Qdiv. ring.
  - rewrite (scale_pos_exact uts x f t ut u v F A T). simpl. split; reflexivity.
Qed.

Lemma convert_identity_lemma uts x f ut u :
  table_ok uts = true -> family_of uts f = Some (ut, u) -> is_auto f = false ->
  (fst (scale uts x f f) == inject_Z x)%Q /\ snd (scale uts x f f) = u_name u.
Proof.
  intros T F A.
  destruct (convert_exact_lemma uts x f f ut u u F A (family_of_sniff _ _ _ _ F)) as [H1 H2].
  split; [|exact H2]. rewrite H1.
  assert (P : (0 < u_factor u)%Q).
  { eapply table_ok_unit; eauto using family_of_in, sniff_unit_in, family_of_sniff. }
  field. intro Z. rewrite Z in P. apply (Qlt_irrefl 0 P).
Qed.

(* ---------- unknown units are never given a factor *)
Lemma unknown_unit_lemma uts x f t :
  family_of uts f = None ->
  (fst (scale uts x f t) == inject_Z x)%Q /\
  snd (scale uts x f t) = (if uninteresting t then "" else t)%string.
Proof.
  intros F. unfold scale, scale_pos. rewrite !convert_first_family, F.
  destruct ((x <? 0) && negb (x =? min_int64)); simpl; split; try reflexivity.
  rewrite inject_Z_opp'. ring.
Qed.

(* ---------- autoScale: largest unit keeping the magnitude >= 1 *)
Definition qualifies (value : Q) (u : unit) : Prop := (1 <= value / u_factor u)%Q.

Lemma auto_loop_inv value : forall us f name,
  (forall u, In u us -> (0 < u_factor u)%Q) ->
  ((f == 0)%Q \/ (0 < f)%Q) ->
  let '(f', name') := auto_scale_loop us value f name in
  (* nothing chosen in this suffix *)
  ((f' = f /\ name' = name /\ forall u, In u us -> qualifies value u -> (u_factor u < f)%Q)
   \/
   (exists u, In u us /\ f' = u_factor u /\ name' = u_name u /\ qualifies value u /\ (f <= f')%Q /\
              forall w, In w us -> qualifies value w -> (u_factor w <= f')%Q)).
Proof.
  induction us as [|u r IH]; intros f name P F0; cbn [auto_scale_loop].
  - left. repeat split; intros ? [].
  - assert (Pu : (0 < u_factor u)%Q) by (apply P; now left).
    assert (Pr : forall w, In w r -> (0 < u_factor w)%Q) by (intros; apply P; now right).
    destruct (Qle_bool f (u_factor u) && Qle_bool 1 (value / u_factor u)%Q) eqn:C.
    + apply andb_true_iff in C as [C1 C2]. apply Qle_bool_iff in C1. apply Qle_bool_iff in C2.
      specialize (IH (u_factor u) (u_name u) Pr (or_intror Pu)).
      destruct (auto_scale_loop r value (u_factor u) (u_name u)) as [f' name'].
      right. destruct IH as [(E1 & E2 & N)|(w & I & E1 & E2 & Q1 & L & M)].
      * subst. exists u.
        split; [now left|]. split; [reflexivity|]. split; [reflexivity|]. split; [exact C2|].
        split; [exact C1|].
        intros w [<-|I] Qw; [apply Qle_refl | apply Qlt_le_weak, N; auto].
      * exists w.
        split; [now right|]. split; [exact E1|]. split; [exact E2|]. split; [exact Q1|].
        split; [eapply Qle_trans; eauto|].
        intros w' [<-|I'] Qw'; [exact L | auto].
    + specialize (IH f name Pr F0).
      destruct (auto_scale_loop r value f name) as [f' name'].
      assert (NQ : qualifies value u -> (u_factor u < f)%Q).
      { intros Qu. apply andb_false_iff in C as [C|C].
        - apply Qnot_le_lt. intro L. apply Qle_bool_iff in L. congruence.
        - apply Qle_bool_iff in Qu. unfold qualifies in *. congruence. }
      destruct IH as [(E1 & E2 & N)|(w & I & E1 & E2 & Q1 & L & M)].
      * left. split; [exact E1|]. split; [exact E2|]. intros w [<-|I] Qw; auto.
      * right. exists w.
        split; [now right|]. split; [exact E1|]. split; [exact E2|]. split; [exact Q1|].
        split; [exact L|].
        intros w' [<-|I'] Qw'; [|auto].
        apply Qlt_le_weak. eapply Qlt_le_trans; [apply NQ, Qw'|exact L].
Qed.

Lemma auto_scale_spec ut value :
  (forall u, In u (ut_units ut) -> (0 < u_factor u)%Q) ->
  match auto_scale ut value with
  | Some (q, name) =>
      exists u, In u (ut_units ut) /\ name = u_name u /\ q = (value / u_factor u)%Q /\ qualifies value u /\
                forall w, In w (ut_units ut) -> qualifies value w -> (u_factor w <= u_factor u)%Q
  | None => forall w, In w (ut_units ut) -> ~ qualifies value w
  end.
Proof.
  intros P. unfold auto_scale.
  pose proof (auto_loop_inv value (ut_units ut) 0%Q ""%string P (or_introl (Qeq_refl 0))) as H.
  destruct (auto_scale_loop (ut_units ut) value 0%Q "") as [f name].
  destruct H as [(E1 & E2 & N)|(u & I & E1 & E2 & Q1 & L & M)].
  - subst. simpl. intros w I Qw. specialize (N w I Qw). specialize (P w I).
    apply (Qlt_irrefl 0). eapply Qlt_trans; eauto.
  - subst. destruct (Qeq_bool (u_factor u) 0) eqn:Z.
    + apply Qeq_bool_iff in Z. specialize (P u I). rewrite Z in P. exfalso. apply (Qlt_irrefl 0 P).
    + exists u. repeat split; auto.
Qed.

(* ---------- Scale never leaves the family of its source unit *)
Lemma convert_unit_name_in uts ut x f t u q name :
  table_ok uts = true -> In ut uts -> sniff_unit ut f = Some u ->
  convert_unit ut x f t = Some (q, name) -> In name (names_of ut).
Proof.
  intros T I S. unfold convert_unit. rewrite S. unfold names_of.
  destruct (is_auto t).
  - pose proof (auto_scale_spec ut (inject_Z x * u_factor u)%Q (fun w J => table_ok_unit uts ut w T I J)) as A.
    destruct (auto_scale ut _) as [[q' n']|].
    + destruct A as (w & J & -> & _). intros H. inversion H; subst. right. apply in_map, J.
    + intros H. inversion H. now left.
  - destruct (sniff_unit ut t) as [v|] eqn:V; intros H; inversion H; [|now left].
    right. apply in_map. eapply sniff_unit_in; eauto.
Qed.

Lemma never_crosses_lemma uts x f t ut u :
  table_ok uts = true -> family_of uts f = Some (ut, u) ->
  In (snd (scale uts x f t)) (names_of ut).
Proof.
  intros T F. pose proof (family_of_in _ _ _ _ F) as I. pose proof (family_of_sniff _ _ _ _ F) as S.
  assert (G : forall y, In (snd (scale_pos uts y f t)) (names_of ut)).
  { intros y. unfold scale_pos. rewrite convert_first_family, F.
    destruct (convert_unit_some ut y f t u S) as [[q n] E]. rewrite E. simpl.
    eapply convert_unit_name_in; eauto. }
  unfold scale. destruct (_ && _).
  - specialize (G (- x)). destruct (scale_pos uts (- x) f t). exact G.
  - apply G.
Qed.

(* ---------- negation *)
Lemma scale_pos_zero uts f t : table_ok uts = true -> (fst (scale_pos uts 0 f t) == 0)%Q.
Proof.
  intros T. unfold scale_pos. rewrite convert_first_family.
  destruct (family_of uts f) as [[ut u]|] eqn:F; [|reflexivity].
  pose proof (family_of_in _ _ _ _ F) as I.
  unfold convert_unit. rewrite (family_of_sniff _ _ _ _ F).
  assert (Z0 : (inject_Z 0 * u_factor u == 0)%Q) by ring.
  destruct (is_auto t).
  - pose proof (auto_scale_spec ut (inject_Z 0 * u_factor u)%Q (fun w J => table_ok_unit uts ut w T I J)) as A.
    destruct (auto_scale ut _) as [[q' n']|].
    + destruct A as (w & J & _ & -> & Qw & _). simpl. rewrite Z0. unfold Qdiv. ring.
    + simpl. rewrite Z0. unfold Qdiv. ring.
  - destruct (sniff_unit ut t); simpl; rewrite Z0; unfold Qdiv; ring.
Qed.

Lemma convert_negation_lemma uts x f t :
  table_ok uts = true -> x <> min_int64 -> x <= max_int64 ->
  (fst (scale uts (- x) f t) == - fst (scale uts x f t))%Q /\ snd (scale uts (- x) f t) = snd (scale uts x f t).
Proof.
  intros T N B. unfold scale.
  assert (M : - x <> min_int64) by (change min_int64 with (-9223372036854775808) in *; change max_int64 with 9223372036854775807 in *; lia).
  destruct (Z.ltb_spec x 0) as [L|L].
  - (* x < 0: -x > 0 *)
    assert (E1 : (- x <? 0) = false) by (apply Z.ltb_ge; lia).
    assert (E2 : (x =? min_int64) = false) by (apply Z.eqb_neq; exact N).
    rewrite E1, E2. simpl. destruct (scale_pos uts (- x) f t) as [v w]. simpl. split; [ring|reflexivity].
  - destruct (Z.eq_dec x 0) as [->|NZ].
    + simpl. split; [|reflexivity]. rewrite (scale_pos_zero uts f t T). ring.
    + assert (E1 : (- x <? 0) = true) by (apply Z.ltb_lt; lia).
      assert (E2 : (- x =? min_int64) = false) by (apply Z.eqb_neq; exact M).
      rewrite E1, E2. simpl. rewrite Z.opp_involutive.
      destruct (scale_pos uts x f t) as [v w]. simpl. split; reflexivity.
Qed.

(* ---------- auto target: largest unit with magnitude >= 1, for non-negative values *)
Lemma auto_target_lemma uts x f t ut u :
  table_ok uts = true -> family_of uts f = Some (ut, u) -> is_auto t = true -> 0 <= x ->
  let phys := (inject_Z x * u_factor u)%Q in
  let '(q, name) := scale uts x f t in
  (exists w, In w (ut_units ut) /\ name = u_name w /\ q = (phys / u_factor w)%Q /\ (1 <= q)%Q /\
             forall w', In w' (ut_units ut) -> (1 <= phys / u_factor w')%Q -> (u_factor w' <= u_factor w)%Q)
  \/ ((forall w', In w' (ut_units ut) -> ~ (1 <= phys / u_factor w')%Q) /\
      name = u_name (ut_default ut) /\ q = (phys / u_factor (ut_default ut))%Q).
Proof.
  intros T F A P. pose proof (family_of_in _ _ _ _ F) as I.
  unfold scale. assert (E : (x <? 0) = false) by (apply Z.ltb_ge; lia). rewrite E. simpl.
  unfold scale_pos. rewrite convert_first_family, F. unfold convert_unit.
  rewrite (family_of_sniff _ _ _ _ F), A.
  pose proof (auto_scale_spec ut (inject_Z x * u_factor u)%Q (fun w J => table_ok_unit uts ut w T I J)) as S.
  destruct (auto_scale ut _) as [[q n]|].
  - left. destruct S as (w & J & -> & -> & Qw & M). exists w. repeat split; auto.
  - right. repeat split; auto.
Qed.

(* ---------- two-decimal rounding used by labels *)
Lemma round_half_even_close q : (Qabs (inject_Z (round_half_even q) - q) <= 1 # 2)%Q.
Proof.
  unfold round_half_even.
  pose proof (Qfloor_le q) as L. pose proof (Qlt_floor q) as U.
  rewrite inject_Z_plus in U. change (inject_Z 1) with 1%Q in U.
  destruct (Qcompare (q - inject_Z (Qfloor q)) (1 # 2)) eqn:C.
  - apply Qeq_alt in C. destruct (Z.even (Qfloor q)).
    + apply Qabs_Qle_condition. split; lra.
    + rewrite inject_Z_plus. change (inject_Z 1) with 1%Q. apply Qabs_Qle_condition. split; lra.
  - apply Qlt_alt in C. apply Qabs_Qle_condition. split; lra.
  - apply Qgt_alt in C. rewrite inject_Z_plus. change (inject_Z 1) with 1%Q. apply Qabs_Qle_condition. split; lra.
Qed.

Ltac qc H := match type of H with
 | (_ ?= _)%Q = Eq => apply Qeq_alt in H
 | (_ ?= _)%Q = Lt => apply Qlt_alt in H
 | (_ ?= _)%Q = Gt => apply Qgt_alt in H end.
Lemma round_half_even_mono a b : (a <= b)%Q -> (round_half_even a <= round_half_even b)%Z.
Proof.
  intros L. unfold round_half_even.
  pose proof (Qfloor_resp_le _ _ L) as FL.
  pose proof (Qfloor_le a) as La. pose proof (Qlt_floor a) as Ua.
  pose proof (Qfloor_le b) as Lb. pose proof (Qlt_floor b) as Ub.
  rewrite inject_Z_plus in Ua, Ub. change (inject_Z 1) with 1%Q in Ua, Ub.
  destruct (Z.eq_dec (Qfloor a) (Qfloor b)) as [E|NE].
  - rewrite <- E in *.
    destruct (Qcompare (a - inject_Z (Qfloor a)) (1 # 2)) eqn:Ca;
    destruct (Qcompare (b - inject_Z (Qfloor a)) (1 # 2)) eqn:Cb;
    qc Ca; qc Cb; destruct (Z.even (Qfloor a)); try lia; exfalso; clear -L Ca Cb; lra.
  - assert (S : (Qfloor a + 1 <= Qfloor b)%Z) by lia.
    destruct (Qcompare (a - inject_Z (Qfloor a)) (1 # 2));
    destruct (Qcompare (b - inject_Z (Qfloor b)) (1 # 2));
    destruct (Z.even (Qfloor a)); destruct (Z.even (Qfloor b)); lia.
Qed.

(* ---------- percentages *)
Lemma pct_ratio_abs v t : t <> 0 ->
  (pct_ratio v t == Qabs (inject_Z v) / Qabs (inject_Z t) * 100)%Q.
Proof.
  intros N. unfold pct_ratio. apply Z.eqb_neq in N. rewrite N.
  unfold Qdiv. rewrite Qabs_Qmult, Qabs_Qinv. reflexivity.
Qed.

Lemma pct_ratio_zero_total v : pct_ratio v 0 = 0%Q.
Proof. reflexivity. Qed.

Lemma pct_ratio_sign v t : (pct_ratio (- v) t == pct_ratio v t)%Q /\ (pct_ratio v (- t) == pct_ratio v t)%Q.
Proof.
  destruct (Z.eq_dec t 0) as [->|N]; [split; reflexivity|].
  assert (N' : - t <> 0) by lia.
  rewrite !pct_ratio_abs by assumption. rewrite !inject_Z_opp', !Qabs_opp. split; reflexivity.
Qed.

(* ---------- labels: read-back and monotonicity *)
Open Scope Q_scope.
(* physical value denoted by a label that prints p (base units) in unit w with two decimals *)
Definition lab (w : unit) (p : Q) : Q := inject_Z (round_half_even (Qabs (p / u_factor w) * 100)) / 100 * u_factor w.

(* 100 * f'/f is an integer for any two units of the family with f < f' *)
Definition centi_integral (ut : unit_type) : bool :=
  forallb (fun w => forallb (fun w' =>
     negb (Qle_bool (u_factor w) (u_factor w') && negb (Qeq_bool (u_factor w) (u_factor w')))
     || (Zpos (Qden (Qred (100 * u_factor w' / u_factor w))) =? 1)%Z) (ut_units ut)) (ut_units ut).

Lemma round_int z : round_half_even (inject_Z z) = z.
Proof.
  unfold round_half_even. rewrite Qfloor_Z.
  assert (E : inject_Z z - inject_Z z == 0) by ring.
  destruct (Qcompare (inject_Z z - inject_Z z) (1 # 2)) eqn:C; qc C; try reflexivity; exfalso; lra.
Qed.

Lemma lab_close w p : 0 < u_factor w -> Qabs (lab w p - Qabs p) <= (1 # 200) * u_factor w.
Proof.
  intros P. unfold lab.
  pose proof (round_half_even_close (Qabs (p / u_factor w) * 100)) as C.
  set (r := inject_Z (round_half_even (Qabs (p / u_factor w) * 100))) in *.
  assert (E : Qabs p == Qabs (p / u_factor w) * u_factor w).
  { unfold Qdiv. rewrite Qabs_Qmult, Qabs_Qinv. rewrite (Qabs_pos (u_factor w)) by lra. field. lra. }
  rewrite E. set (a := Qabs (p / u_factor w)) in *.
  assert (E2 : r / 100 * u_factor w - a * u_factor w == (r - a * 100) * (u_factor w / 100)) by field.
  rewrite E2, Qabs_Qmult. rewrite (Qabs_pos (u_factor w / 100)).
  - apply Qle_trans with ((1 # 2) * (u_factor w / 100)).
    + apply Qmult_le_compat_r; [exact C|]. apply Qle_shift_div_l; lra.
    + apply Qle_lteq. right. field.
  - apply Qle_shift_div_l; lra.
Qed.

Lemma div100_le a b : a <= b -> a / 100 <= b / 100.
Proof. intros H. unfold Qdiv. apply Qmult_le_compat_r; [exact H|]. unfold Qle; simpl; lia. Qed.

Lemma lab_mono_same w p p' : 0 < u_factor w -> 0 <= p -> p <= p' -> lab w p <= lab w p'.
Proof.
  intros P Z L. unfold lab.
  assert (A : Qabs (p / u_factor w) * 100 <= Qabs (p' / u_factor w) * 100).
  { rewrite !Qabs_pos.
    - apply Qmult_le_compat_r; [|lra]. apply Qmult_le_compat_r; [exact L|]. apply Qlt_le_weak, Qinv_lt_0_compat, P.
    - apply Qle_shift_div_l; lra.
    - apply Qle_shift_div_l; lra. }
  apply round_half_even_mono in A.
  apply Qmult_le_compat_r; [|lra]. apply div100_le.
  rewrite <- Zle_Qle. exact A.
Qed.

Lemma lab_mono_cross w w' p p' k :
  0 < u_factor w -> 0 < u_factor w' -> 100 * u_factor w' / u_factor w == inject_Z k ->
  0 <= p -> p / u_factor w' <= 1 -> 1 <= p' / u_factor w' -> lab w p <= lab w' p'.
Proof.
  intros P P' K Z L1 L2.
  apply Qle_trans with (u_factor w').
  - unfold lab.
    assert (A : Qabs (p / u_factor w) * 100 <= inject_Z k).
    { rewrite Qabs_pos by (apply Qle_shift_div_l; lra). rewrite <- K.
      assert (Hp : p <= u_factor w').
      { assert (E0 : p == p / u_factor w' * u_factor w') by (field; lra). rewrite E0.
        apply Qle_trans with (1 * u_factor w'); [|lra]. apply Qmult_le_compat_r; lra. }
      apply Qle_shift_div_l; [exact P|].
      assert (E : p / u_factor w * 100 * u_factor w == p * 100) by (field; lra).
      rewrite E. lra. }
    apply round_half_even_mono in A. rewrite round_int in A.
    rewrite Zle_Qle in A.
    assert (E : u_factor w' == inject_Z k / 100 * u_factor w) by (rewrite <- K; field; lra).
    rewrite E. apply Qmult_le_compat_r; [|lra]. apply div100_le. exact A.
  - unfold lab.
    assert (A : inject_Z 100 <= Qabs (p' / u_factor w') * 100).
    { rewrite Qabs_pos by lra. change (inject_Z 100) with 100. lra. }
    apply round_half_even_mono in A. rewrite round_int in A. rewrite Zle_Qle in A.
    change (inject_Z 100) with 100 in A.
    assert (E : u_factor w' == 100 / 100 * u_factor w') by field.
    rewrite E at 1. apply Qmult_le_compat_r; [|lra]. apply div100_le. exact A.
Qed.

Lemma centi_integral_spec ut w w' :
  centi_integral ut = true -> In w (ut_units ut) -> In w' (ut_units ut) ->
  u_factor w < u_factor w' -> exists k, 100 * u_factor w' / u_factor w == inject_Z k.
Proof.
  unfold centi_integral. intros C I I' L.
  rewrite forallb_forall in C. specialize (C w I). rewrite forallb_forall in C. specialize (C w' I').
  apply orb_true_iff in C as [C|C].
  - exfalso. apply negb_true_iff, andb_false_iff in C as [C|C].
    + assert (Q : u_factor w <= u_factor w') by lra. apply Qle_bool_iff in Q. congruence.
    + apply negb_false_iff, Qeq_bool_iff in C. lra.
  - apply Z.eqb_eq in C. exists (Qnum (Qred (100 * u_factor w' / u_factor w))).
    rewrite <- (Qred_correct (100 * u_factor w' / u_factor w)) at 1.
    destruct (Qred (100 * u_factor w' / u_factor w)) as [n d]. simpl in *.
    inversion C. reflexivity.
Qed.

Lemma round_half_even_comp a b : a == b -> round_half_even a = round_half_even b.
Proof.
  intros E. unfold round_half_even. rewrite (Qfloor_comp _ _ E).
  assert (E2 : a - inject_Z (Qfloor b) == b - inject_Z (Qfloor b)) by (rewrite E; reflexivity).
  rewrite (Qcompare_comp _ _ E2 _ _ (Qeq_refl (1 # 2))). reflexivity.
Qed.

Lemma lab_factor_eq w w' p : u_factor w == u_factor w' -> lab w p == lab w' p.
Proof.
  intros E. unfold lab.
  assert (E2 : Qabs (p / u_factor w) * 100 == Qabs (p / u_factor w') * 100) by (rewrite E; reflexivity).
  rewrite (round_half_even_comp _ _ E2), E. reflexivity.
Qed.

Lemma label_monotone_lemma uts f ut u x y :
  table_ok uts = true -> centi_integral ut = true -> family_of uts f = Some (ut, u) ->
  (1 <= x)%Z -> (x <= y)%Z ->
  exists wx wy, In wx (ut_units ut) /\ In wy (ut_units ut) /\
    scale uts x f "auto" = (inject_Z x * u_factor u / u_factor wx, u_name wx) /\
    scale uts y f "auto" = (inject_Z y * u_factor u / u_factor wy, u_name wy) /\
    lab wx (inject_Z x * u_factor u) <= lab wy (inject_Z y * u_factor u).
Proof.
  intros T C F X Y.
  pose proof (family_of_in _ _ _ _ F) as I.
  pose proof (sniff_unit_in _ _ _ (family_of_sniff _ _ _ _ F)) as Iu.
  assert (Pu : 0 < u_factor u) by (eapply table_ok_unit; eauto).
  assert (Pos : forall w, In w (ut_units ut) -> 0 < u_factor w) by (intros; eapply table_ok_unit; eauto).
  assert (Qx : 1 <= inject_Z x * u_factor u / u_factor u).
  { assert (E : inject_Z x * u_factor u / u_factor u == inject_Z x) by (field; lra). rewrite E.
    change 1 with (inject_Z 1). rewrite <- Zle_Qle. exact X. }
  assert (Qy : 1 <= inject_Z y * u_factor u / u_factor u).
  { assert (E : inject_Z y * u_factor u / u_factor u == inject_Z y) by (field; lra). rewrite E.
    change 1 with (inject_Z 1). rewrite <- Zle_Qle. lia. }
  assert (Lxy : inject_Z x * u_factor u <= inject_Z y * u_factor u).
  { apply Qmult_le_compat_r; [rewrite <- Zle_Qle; exact Y | lra]. }
  assert (Px : 0 <= inject_Z x * u_factor u).
  { apply Qmult_le_0_compat; [|lra]. change 0 with (inject_Z 0). rewrite <- Zle_Qle. lia. }
  pose proof (auto_target_lemma uts x f "auto" ut u T F eq_refl ltac:(lia)) as Ax.
  pose proof (auto_target_lemma uts y f "auto" ut u T F eq_refl ltac:(lia)) as Ay.
  cbv zeta in Ax, Ay.
  destruct (scale uts x f "auto") as [qx nx]. destruct (scale uts y f "auto") as [qy ny].
  destruct Ax as [(wx & Ix & -> & -> & Q1 & Mx)|(Nx & _)]; [|exfalso; exact (Nx u Iu Qx)].
  destruct Ay as [(wy & Iy & -> & -> & Q2 & My)|(Ny & _)]; [|exfalso; exact (Ny u Iu Qy)].
  exists wx, wy. repeat split; auto.
  pose proof (Pos wx Ix) as Pwx. pose proof (Pos wy Iy) as Pwy.
  assert (Lw : u_factor wx <= u_factor wy).
  { apply My; [exact Ix|]. eapply Qle_trans; [exact Q1|].
    apply Qmult_le_compat_r; [exact Lxy|]. apply Qlt_le_weak, Qinv_lt_0_compat, Pwx. }
  destruct (Qlt_le_dec (u_factor wx) (u_factor wy)) as [Lt|Ge].
  - destruct (centi_integral_spec ut wx wy C Ix Iy Lt) as [k K].
    apply (lab_mono_cross wx wy _ _ k); auto.
    destruct (Qlt_le_dec 1 (inject_Z x * u_factor u / u_factor wy)) as [G|G]; [|exact G].
    exfalso. assert (B : u_factor wy <= u_factor wx) by (apply Mx; [exact Iy|lra]). lra.
  - assert (E : u_factor wx == u_factor wy) by lra.
    rewrite (lab_factor_eq wx wy _ E). apply lab_mono_same; auto.
Qed.
