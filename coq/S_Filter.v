(* Specification of C06 written from the property text on FRAME SAMPLES: a sample is its values,
   labels and the list of its expanded frames (leaf first; one frame per inline line, an
   unsymbolized location = one address frame).  Every filter is a function on lists of frame
   samples that does not know about locations, ids or in-place surgery.  Decidable checkers and
   the decidable classes of the known findings F16, F24, F25.  Shared with S_Prune (C11). *)
From PV Require Export M_Filter.
Open Scope Z_scope.

Record fsample := {
  fs_val : list Z;
  fs_label : list (string * list string);
  fs_numlabel : list (string * list Z);
  fs_numunit : list (string * list string);
  fs_frames : list frame
}.

Definition fsample_of (p : profile) (s : sample) : fsample :=
  {| fs_val := s_val s; fs_label := s_label s; fs_numlabel := s_numlabel s; fs_numunit := s_numunit s;
     fs_frames := sample_frames p s |}.
Definition fsamples (p : profile) : list fsample := map (fsample_of p) (p_sample p).

Definition on_frames (f : list frame -> list frame) (s : fsample) : fsample :=
  {| fs_val := fs_val s; fs_label := fs_label s; fs_numlabel := fs_numlabel s; fs_numunit := fs_numunit s;
     fs_frames := f (fs_frames s) |}.

(* the labels of a frame sample seen as a sample (for label predicates) *)
Definition as_sample (s : fsample) : sample :=
  {| s_loc := []; s_val := fs_val s; s_label := fs_label s; s_numlabel := fs_numlabel s; s_numunit := fs_numunit s |}.

(* encoding, used only to compare observables *)
Definition of_frame (f : frame) : term := TL [TZ (fr_loc f); of_opt of_line (fr_line f)].
Definition of_fsample (s : fsample) : term :=
  TL [of_zs (fs_val s); of_kss (fs_label s); of_kzs (fs_numlabel s); of_kss (fs_numunit s); TL (map of_frame (fs_frames s))].
Definition fsamples_eqb (a b : list fsample) : bool := term_eqb (TL (map of_fsample a)) (TL (map of_fsample b)).

Definition frame_fn (p : profile) (fr : frame) : option function :=
  match fr_line fr with Some ln => find_function p (ln_fn ln) | None => None end.
Definition frame_binary (p : profile) (fr : frame) : option string :=
  match find_location p (fr_loc fr) with
  | Some l => match find_mapping p (l_mapping l) with Some m => Some (m_file m) | None => None end
  | None => None
  end.

(* rule "everything up to and including the highest (root-most) match", leaf first *)
Fixpoint upto_last {A} (m : A -> bool) (fs : list A) : list A :=
  match fs with
  | [] => []
  | f :: r => if existsb m r then f :: upto_last m r else if m f then [f] else []
  end.

Section FilterSpec.
  Variable M : string -> string -> bool.

  (* "a frame whose function name, source file or binary name matches" *)
  Definition frame_matches (p : profile) (re : string) (fr : frame) : bool :=
    match frame_fn p fr with Some f => M re (f_name f) || M re (f_file f) | None => false end
    || match frame_binary p fr with Some b => M re b | None => false end.

  Definition has_match (p : profile) (re : string) (s : fsample) : bool :=
    existsb (frame_matches p re) (fs_frames s).

  (* hide removes the matching frames, show removes the non-matching ones *)
  Definition visible (p : profile) (hide show : option string) (fr : frame) : bool :=
    negb (match hide with Some re => frame_matches p re fr | None => false end)
    && match show with Some re => frame_matches p re fr | None => true end.

  (* focus keeps precisely the samples having a matching frame, ignore drops precisely those having
     one, hide/show drop a sample only when no frame is left *)
  Definition spec_name (p : profile) (focus ignore hide show : option string) (ss : list fsample) : list fsample :=
    map (on_frames (filter (visible p hide show)))
      (filter (fun s =>
          match focus with Some re => has_match p re s | None => true end
          && negb (match ignore with Some re => has_match p re s | None => false end)
          && match hide, show with
             | None, None => true
             | _, _ => existsb (visible p hide show) (fs_frames s)
             end) ss).

  (* show_from keeps the highest match and everything leaf-side of it; no match, no sample *)
  Definition spec_show_from (p : profile) (sf : option string) (ss : list fsample) : list fsample :=
    match sf with
    | None => ss
    | Some re => map (on_frames (upto_last (frame_matches p re)))
                     (filter (has_match p re) ss)
    end.

  (* tagfocus / tagignore: label predicates select samples, nothing else changes *)
  Definition spec_tag (focus ignore : option (sample -> bool)) (ss : list fsample) : list fsample :=
    filter (fun s => match focus with Some f => f (as_sample s) | None => true end
                     && negb (match ignore with Some f => f (as_sample s) | None => false end)) ss.

  (* tagshow / taghide remove only the labels they describe *)
  Definition label_kept (show hide : option string) (key : string) : bool :=
    match show with Some re => M re key | None => true end
    && negb (match hide with Some re => M re key | None => false end).
  Definition spec_tags_by_name (show hide : option string) (ss : list fsample) : list fsample :=
    map (fun s => {| fs_val := fs_val s;
                     fs_label := filter (fun kv => label_kept show hide (fst kv)) (fs_label s);
                     fs_numlabel := filter (fun kv => label_kept show hide (fst kv)) (fs_numlabel s);
                     fs_numunit := fs_numunit s; fs_frames := fs_frames s |}) ss.

  (* ---- F16: ignore alone (no focus, hide, show) and a sample without any frame *)
  Definition in_F16 (p : profile) (focus ignore hide show : option string) : bool :=
    match focus, ignore, hide, show with
    | None, Some _, None, None => existsb (fun s => is_nil (s_loc s)) (p_sample p)
    | _, _, _, _ => false
    end.

  (* ---- F24: show and an unsymbolized location (address frame) whose binary matches it:
          matchedLines returns the empty line list, the location is hidden although it matches *)
  Definition in_F24 (p : profile) (show : option string) : bool :=
    match show with
    | Some re => existsb (fun l => is_nil (l_lines l) && mapping_matches M p re l) (p_location p)
    | None => false
    end.

  (* ---- F25: show_from and a sample where, leaf-side of the highest matching location, another
          matching location has non-matching frames above its own highest match: ShowFrom trims
          those although they are leaf-side of the sample's highest match *)
  Definition loc_frames_of (p : profile) (id : Z) : list frame :=
    match find_location p id with Some l => loc_frames l | None => [] end.
  Definition in_F25_sample (p : profile) (re : string) (s : sample) : bool :=
    let mt := frame_matches p re in
    let flagged := fun id => existsb mt (loc_frames_of p id) in
    let trimmed := fun id => flagged id && negb (match rev (loc_frames_of p id) with f :: _ => mt f | [] => true end) in
    match keep_through_last flagged (s_loc s) with
    | Some kept => existsb trimmed (removelast kept)
    | None => false
    end.
  Definition in_F25 (p : profile) (sf : option string) : bool :=
    match sf with Some re => existsb (in_F25_sample p re) (p_sample p) | None => false end.
End FilterSpec.
