(* Executable model of Profile.CheckValid (profile/profile.go:361) on the id-based profile
   representation, and of ParseData's dispatch (profile/profile.go:181): gzip sniff, protobuf
   first, legacy parsers as an oracle, validity gate on every path.  No proofs here. *)
From PV Require Export M_Codec.
Open Scope string_scope.
Open Scope list_scope.
Open Scope Z_scope.

Fixpoint first_dup_or_zero (ids : list Z) (seen : list Z) : bool :=   (* true = a reserved or repeated id *)
  match ids with
  | [] => false
  | id :: r => (id =? 0) || existsb (Z.eqb id) seen || first_dup_or_zero r (id :: seen)
  end.

(* CheckValid, in the order of the Go code; [false] = some error is returned.
   Pointers are ids here: a nil sample location is -1 (see M_Profile), a nil mapping / function is 0.
   After the duplicate checks, `mappings[m.ID] != m` / `functions[f.ID] != f` cannot fire for an
   id-resolved profile (the table entry IS the unique entity with that id), so they contribute
   only the `== nil` / `ID == 0` parts. *)
Definition check_valid (p : profile) : bool :=
  let nst := List.length (p_sampletype p) in
  negb (Nat.eqb nst 0 && negb (Nat.eqb (List.length (p_sample p)) 0)) &&
  forallb (fun s => Nat.eqb (List.length (s_val s)) nst && negb (existsb (Z.eqb (-1)) (s_loc s))) (p_sample p) &&
  negb (first_dup_or_zero (map m_id (p_mapping p)) []) &&
  negb (first_dup_or_zero (map f_id (p_function p)) []) &&
  negb (first_dup_or_zero (map l_id (p_location p)) []) &&
  forallb (fun l => forallb (fun x => negb (ln_fn x =? 0)) (l_lines l)) (p_location p).

(* len(data) >= 2 && data[0] == 0x1f && data[1] == 0x8b *)
Definition is_gzip (data : bytes) : bool :=
  match data with a :: b :: _ => (a =? 31) && (b =? 139) | _ => false end.

Section ParseData.
  (* the gzip reader and the six legacy parsers are oracles: any function of the bytes *)
  Variable gunzip : bytes -> res bytes.
  Variable legacy : bytes -> res profile.

  Definition parse_data (data : bytes) : res profile :=
    data' <- (if is_gzip data
              then match gunzip data with Ok d => Ok d | _ => Err e_generic end
              else Ok data) ;;
    p <- (match parse_uncompressed data' with
          | Ok p => Ok p
          | Err c => if (c =? e_nodata) || (c =? e_concat) then Err c else legacy data'
          | Panic s => Panic s
          end) ;;
    if check_valid p then Ok p else Err e_generic.
End ParseData.
