(* C18: TrimTree leaves no edge from a shown node to a node that is not shown -- provided every
   node of the forest is listed in g.Nodes when it runs. *)
From Coq Require Import Lia.
From PV Require Import M_Trim.
Open Scope Z_scope.

Lemma zmem_In : forall x l, zmem x l = true <-> In x l.
Proof.
  intros x l. unfold zmem. rewrite existsb_exists. split.
  - intros [y [Hy E]]. apply Z.eqb_eq in E. now subst.
  - intro H. exists x. split; [exact H | apply Z.eqb_refl].
Qed.

(* parents are listed in the map, and strictly closer to the root (rank) than their children *)
Definition wf (rank : Z -> Z) (pm : pmap) : Prop :=
  forall c p, In (c, p) pm -> c <> 0 /\ (p <> 0 -> In p (dom pm) /\ rank p < rank c).

Lemma parent_of_in : forall pm n, parent_of pm n <> 0 -> In (n, parent_of pm n) pm.
Proof.
  intros pm n H. unfold parent_of in *. destruct (find (fun e => fst e =? n) pm) as [e|] eqn:E; [|congruence].
  apply find_some in E. destruct E as [Hin He]. apply Z.eqb_eq in He. destruct e as [a b]. simpl in *. now subst.
Qed.

Lemma splice_in : forall pm cur c p, In (c, p) (splice pm cur) ->
  c <> cur /\ exists q, In (c, q) pm /\ p = (if q =? cur then parent_of pm cur else q).
Proof.
  intros pm cur c p H. unfold splice in H. apply in_map_iff in H. destruct H as [[a b] [E Hin]].
  apply filter_In in Hin. destruct Hin as [Hin Hne]. simpl in *. inversion E. subst.
  apply Bool.negb_true_iff in Hne. apply Z.eqb_neq in Hne. split; [exact Hne|]. exists b. split; [exact Hin | reflexivity].
Qed.

Lemma splice_dom : forall pm cur x, In x (dom (splice pm cur)) <-> In x (dom pm) /\ x <> cur.
Proof.
  intros pm cur x. unfold dom, splice. rewrite map_map. simpl. rewrite !in_map_iff. split.
  - intros [[a b] [E Hin]]. apply filter_In in Hin. destruct Hin as [Hin Hne]. simpl in *. subst.
    apply Bool.negb_true_iff in Hne. apply Z.eqb_neq in Hne. split; [exists (x, b); split; [reflexivity | exact Hin] | exact Hne].
  - intros [[[a b] [E Hin]] Hne]. simpl in E. subst. exists (x, b). split; [reflexivity|].
    apply filter_In. split; [exact Hin|]. simpl. apply Bool.negb_true_iff. now apply Z.eqb_neq.
Qed.

Lemma splice_wf : forall rank pm cur, wf rank pm -> wf rank (splice pm cur).
Proof.
  intros rank pm cur W c p Hin. destruct (splice_in _ _ _ _ Hin) as [Hc [q [Hq Ep]]].
  destruct (W c q Hq) as [Hc0 Wq]. split; [exact Hc0|]. intro Hp.
  destruct (q =? cur) eqn:E.
  - apply Z.eqb_eq in E. subst q. subst p.
    pose proof (parent_of_in pm cur Hp) as Hpc. destruct (W _ _ Hpc) as [Hcur W2]. destruct (W2 Hp) as [D R2].
    destruct (Wq Hcur) as [_ R1].
    split; [|lia]. apply splice_dom. split; [exact D|]. intro E. rewrite E in R2. lia.
  - apply Z.eqb_neq in E. subst p. destruct (Wq Hp) as [D R]. split; [|exact R].
    apply splice_dom. split; [exact D | exact E].
Qed.

Lemma trim_tree_wf : forall rank kept listed pm, wf rank pm -> wf rank (trim_tree kept listed pm).
Proof.
  intros rank kept listed. induction listed as [|n r IH]; intros pm W; [exact W|].
  simpl. apply IH. unfold trim_step. destruct (zmem n kept); [exact W | now apply splice_wf].
Qed.

Lemma trim_tree_dom : forall kept listed pm x, In x (dom (trim_tree kept listed pm)) ->
  In x (dom pm) /\ (In x listed -> In x kept).
Proof.
  intros kept listed. induction listed as [|n r IH]; intros pm x H.
  - split; [exact H | intros []].
  - simpl in H. apply IH in H. destruct H as [Hd Hr]. unfold trim_step in Hd.
    destruct (zmem n kept) eqn:K.
    + split; [exact Hd|]. intros [E|Hin]; [subst; now apply zmem_In | now apply Hr].
    + apply splice_dom in Hd. destruct Hd as [Hd Hne]. split; [exact Hd|].
      intros [E|Hin]; [congruence | now apply Hr].
Qed.

(* the closure property: with every node of the forest listed, all edges that survive join kept nodes *)
Theorem trim_tree_closed_lemma : forall rank kept listed pm,
  wf rank pm -> (forall x, In x (dom pm) -> In x listed) ->
  forall c p, In (c, p) (trim_tree kept listed pm) -> p <> 0 -> In c kept /\ In p kept.
Proof.
  intros rank kept listed pm W Hall c p Hin Hp.
  pose proof (trim_tree_wf rank kept listed pm W) as W'.
  destruct (W' c p Hin) as [_ W2]. destruct (W2 Hp) as [Dp _].
  assert (Dc : In c (dom (trim_tree kept listed pm))) by (unfold dom; apply in_map_iff; exists (c, p); auto).
  destruct (trim_tree_dom _ _ _ _ Dc) as [Dc1 Kc]. destruct (trim_tree_dom _ _ _ _ Dp) as [Dp1 Kp].
  split; [apply Kc | apply Kp]; now apply Hall.
Qed.

(* running it a second time (nodecount after the nodefraction cut-off) needs the same: the nodes
   of the forest after the first pass are listed -- they are, they are the kept ones *)
Theorem trim_twice_closed_lemma : forall rank k1 k2 listed pm,
  wf rank pm -> (forall x, In x (dom pm) -> In x listed) ->
  forall c p, In (c, p) (trim_tree k2 (trim_nodes k1 listed) (trim_tree k1 listed pm)) -> p <> 0 -> In c k2 /\ In p k2.
Proof.
  intros rank k1 k2 listed pm W Hall. apply (trim_tree_closed_lemma rank).
  - now apply trim_tree_wf.
  - intros x Hx. destruct (trim_tree_dom _ _ _ _ Hx) as [Hd Hk]. unfold trim_nodes. apply filter_In.
    split; [now apply Hall | apply zmem_In, Hk; now apply Hall].
Qed.
