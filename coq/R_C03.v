(* Case runner for C03: decodes harness cases, runs the merge model, judges the implementation. *)
From PV Require Import M_Merge.
Open Scope string_scope.
Open Scope Z_scope.

Definition inputs_of (i : term) : list profile := map profile_of (gl (gn i 1)).

Definition run_C03 (i : term) : term :=
  match merge (inputs_of i) with
  | MOk q => TL [TS "ok"; of_profile q]
  | MErr => TL [TS "err"]
  | MPanic => TL [TS "panic"]
  | MFuel => TL [TS "fuel"]
  end.

(* the model predicts the result kind and, for "ok", the complete dump (ids and order included) *)
Definition eqv_C03 (i m o : term) : bool :=
  String.eqb (gs (gn m 0)) (gs (gn o 0)) &&
  (if String.eqb (gs (gn m 0)) "ok" then term_eqb (gn m 1) (gn o 1) else true).

Definition spec_C03 (i o : term) : bool := true.
Definition cls_C03 (i : term) : list Z := [].

Definition judge_C03 := judge_all run_C03 eqv_C03 spec_C03 cls_C03 0%Z.
