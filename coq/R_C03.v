(* Case runner for C03: decodes harness cases, runs the merge model, judges the implementation.
   input    = ["merge"; [profile dumps]; [[(mapping id, kernel relocation symbol)] per input]]
            | ["compact"; [one profile dump]; [..]]  (p.Compact(); same observable, same judgement as Merge [p])
            | ["e2e"; [source: ["ok"; dump] | ["fail"]]; [bases likewise]; diff_base; script]   (driver.PProf end to end;
                 script item = [kind; a; b; judged]: ["set"; option; value] | ["cmd"; command; argument] | ["get"; path; query];
                 observed ["ok" | "error"; [per judged item: ["profile"; dump] | ["raw"; parsed Profile.String] | ["missing"]]])
            | ["skey"; sample]                      (byte-level check of sampleKey)
            | ["lkey"; profile with one location]   (field-level check of Location.key, lines string included)
   observed = ["ok"; dump; [shared pointer paths]; inputs-modified; compact-is-identity;
               [(mapping id, krs) of the result]; [dump of Merge(reversed inputs)]]
            | ["err"] | ["panic"; msg]              | ["key"; bytes] *)
From PV Require Import M_Merge S_Merge M_MergeGlue.
Open Scope string_scope.
Open Scope Z_scope.

Definition inputs_of (i : term) : list profile := map profile_of (gl (gn i 1)).


(* ------------------------------------------------------------------ end to end (driver.PProf) *)
Definition opt_profile_of (t : term) : option profile :=
  if String.eqb (gs (gn t 0)) "ok" then Some (profile_of (gn t 1)) else None.
Definition e2e_srcs (i : term) : list (option profile) := map opt_profile_of (gl (gn i 1)).
Definition e2e_bases (i : term) : list (option profile) := map opt_profile_of (gl (gn i 2)).
Definition e2e_script (i : term) : list term := gl (gn i 4).
Definition it_kind (t : term) := gs (gn t 0).
Definition it_a (t : term) := gs (gn t 1).
Definition it_b (t : term) := gs (gn t 2).
Definition it_judged (t : term) := gb (gn t 3).

Definition e2e_comment (script : list term) : string :=
  fold_left (fun acc t => if String.eqb (it_kind t) "set" && String.eqb (it_a t) "add_comment" then it_b t else acc) script "".

(* the script, interpreted by the glue model: option assignments persist, every command / request
   writes what the FETCHED profile gives under the options in force *)
Fixpoint e2e_outputs (fetched : profile) (c : gcfg) (script : list term) : list term :=
  match script with
  | [] => []
  | t :: r =>
      if String.eqb (it_kind t) "set" then e2e_outputs fetched (gcfg_set c (it_a t) (it_b t)) r
      else if negb (it_judged t) then e2e_outputs fetched c r
      else if String.eqb (it_kind t) "get" then
        TL [TS "profile"; of_profile (norm_profile (written_download fetched))] :: e2e_outputs fetched c r
      else if String.eqb (it_a t) "raw" then
        TL [TS "raw"; raw_view (written_raw c fetched)] :: e2e_outputs fetched c r
      else TL [TS "profile"; of_profile (norm_profile (written_proto c fetched))] :: e2e_outputs fetched c r
  end.

Definition run_e2e (i : term) : term :=
  match fetch_profiles (e2e_srcs i) (e2e_bases i) (gb (gn i 3)) (e2e_comment (e2e_script i)) with
  | MOk f => TL [TS "ok"; TL (e2e_outputs f gcfg0 (e2e_script i))]
  | _ => TL [TS "error"; TL []]
  end.

Definition norm_out (t : term) : term :=
  if String.eqb (gs (gn t 0)) "profile" then TL [TS "profile"; of_profile (norm_profile (profile_of (gn t 1)))] else t.

Definition run_C03 (i : term) : term :=
  if String.eqb (gs (gn i 0)) "e2e" then run_e2e i else
  if String.eqb (gs (gn i 0)) "skey" then
    TL [TS "key"; of_zs (skey_bytes (skey_of_sample (sample_of (gn i 1))))]
  else if String.eqb (gs (gn i 0)) "lkey" then
    let p := profile_of (gn i 1) in
    match p_location p with
    | l :: _ => let '(rel, mid, slots, folded) := lkey_of p l in
                TL [TS "key"; TL [TZ rel; TZ mid; TS (lines_key slots); of_bool folded]]
    | [] => TL [TS "none"]
    end
  else
  match (if String.eqb (gs (gn i 0)) "compact"
         then match inputs_of i with [p] => compact p | _ => MErr end
         else merge (inputs_of i)) with
  | MOk q => TL [TS "ok"; of_profile q]
  | MErr => TL [TS "err"]
  | MPanic => TL [TS "panic"]
  | MFuel => TL [TS "fuel"]
  end.

(* the model predicts the result kind and, for "ok", the complete dump (ids and order included) *)
Definition eqv_C03 (i m o : term) : bool :=
  if String.eqb (gs (gn i 0)) "e2e" then
    String.eqb (gs (gn m 0)) (gs (gn o 0)) &&
    (if String.eqb (gs (gn m 0)) "ok" then term_eqb (gn m 1) (TL (map norm_out (gl (gn o 1)))) else true)
  else
  String.eqb (gs (gn m 0)) (gs (gn o 0)) &&
  (if String.eqb (gs (gn m 0)) "ok" || String.eqb (gs (gn m 0)) "key" then term_eqb (gn m 1) (gn o 1) else true).

(* the statement's domain: at least one profile, all valid, all with the first one's types *)
Definition same_types (p0 p : profile) : bool :=
  vts_eqb (p_sampletype p0) (p_sampletype p) &&
  match p_periodtype p0, p_periodtype p with Some a, Some b => vt_eqb a b | _, _ => false end.
Definition in_domain (ps : list profile) : bool :=
  match ps with
  | [] => false
  | p0 :: _ => forallb valid_b ps && forallb (same_types p0) ps
  end.

(* kernel relocation symbol (not in M_Profile's mapping record): every result mapping carries the
   symbol of SOME input mapping of the same binary *)
Definition krs_table (p : profile) (t : term) : list (mkey * string) :=
  flat_map (fun e => match lookup_map p (gz (gn e 0)) with
                     | Some m => [(mkey_of m, gs (gn e 1))]
                     | None => [] end) (gl t).
Fixpoint krs_tables (ps : list profile) (ts : list term) : list (mkey * string) :=
  match ps, ts with
  | p :: ps', t :: ts' => krs_table p t ++ krs_tables ps' ts'
  | _, _ => []
  end.
Definition krs_ok (ps : list profile) (i : term) (q : profile) (o : term) : bool :=
  let tin := krs_tables ps (gl (gn i 2)) in
  forallb (fun e => existsb (fun e' => mkey_eqb (fst e) (fst e') && String.eqb (snd e) (snd e')) tin)
          (krs_table q (gn o 5)).

(* "nothing is altered" for the mapping fields that are not part of the identity (start, limit,
   file next to a build id, flags): every result mapping is, field for field, one of the input
   mappings of the same binary *)
Definition mapping_same_fields (a b : mapping) : bool :=
  (m_start a =? m_start b) && (m_limit a =? m_limit b) && (m_offset a =? m_offset b) &&
  String.eqb (m_file a) (m_file b) && String.eqb (m_buildid a) (m_buildid b) &&
  Bool.eqb (m_hasfn a) (m_hasfn b) && Bool.eqb (m_hasfile a) (m_hasfile b) &&
  Bool.eqb (m_hasline a) (m_hasline b) && Bool.eqb (m_hasinline a) (m_hasinline b).
Definition mappings_from_inputs (ps : list profile) (q : profile) : bool :=
  forallb (fun m => existsb (fun p => existsb (mapping_same_fields m) (p_mapping p)) ps) (p_mapping q).

(* fields documented as symmetric agree between Merge(ps) and Merge(rev ps) *)
Definition subset_s (a b : list string) : bool := forallb (fun x => existsb (String.eqb x) b) a.
Definition reversed_ok (ps : list profile) (q : profile) (o : term) : bool :=
  match gl (gn o 6) with
  | [] => true
  | [TS _] => false        (* the reversed merge failed where the forward one succeeded *)
  | r :: _ =>
      let q' := profile_of r in
      same_weights_b q q' &&
      (p_timenanos q =? p_timenanos q') && (p_durationnanos q =? p_durationnanos q') &&
      (negb (forallb (fun p => 0 <=? p_period p) ps) || (p_period q =? p_period q')) &&
      subset_s (p_comments q) (p_comments q') && subset_s (p_comments q') (p_comments q) &&
      Nat.eqb (List.length (p_sample q)) (List.length (p_sample q'))
  end.

(* scripts without an option that changes what is written: there the outputs ARE the merge of the sources *)
Definition plain_script (script : list term) : bool :=
  forallb (fun t => negb (String.eqb (it_kind t) "set" &&
                          (String.eqb (it_a t) "noinlines" || String.eqb (it_a t) "divide_by" || String.eqb (it_a t) "add_comment")))
          script.

Fixpoint all_equal (l : list term) : bool :=
  match l with
  | a :: ((b :: _) as r) => term_eqb a b && all_equal r
  | _ => true
  end.

Definition spec_e2e (i o : term) : bool :=
  let srcs := successes (e2e_srcs i) in
  let bases := successes (e2e_bases i) in
  let diff := gb (gn i 3) in
  let outs := map norm_out (gl (gn o 1)) in
  let fetchable := match srcs with [] => false | _ => true end &&
                   (match gl (gn i 2) with [] => true | _ => match bases with [] => false | _ => true end end) in
  if negb fetchable then true
  else if negb (in_domain (srcs ++ bases)) then true
  else if negb (forallb types_combinable (srcs ++ bases)) then true   (* CompatibilizeSampleTypes refuses them (reported) *)
  else if negb (String.eqb (gs (gn o 0)) "ok") then false                       (* compatible sources must come out merged *)
  else
    let profs := flat_map (fun t => if String.eqb (gs (gn t 0)) "profile" then [profile_of (gn t 1)] else []) outs in
    let raws := flat_map (fun t => if String.eqb (gs (gn t 0)) "raw" then [gn t 1] else []) outs in
    forallb (fun t => negb (String.eqb (gs (gn t 0)) "missing") && negb (String.eqb (gs (gn t 0)) "unparsable")) outs &&
    (negb (plain_script (e2e_script i)) ||
     (* one and the same profile, however often and after whatever it is written *)
     (all_equal (map of_profile profs) && all_equal raws &&
      match profs, raws with q :: _, rw :: _ => term_eqb (raw_view q) rw | _, _ => true end &&
      forallb (fun q =>
                 valid_b q &&
                 match bases with
                 | [] =>
                     conserves_b srcs q && totals_b srcs q && mappings_from_inputs srcs q &&
                     match srcs with
                     | _ :: _ :: _ => support_b q && headers_b srcs q
                     | _ => true
                     end
                 | _ =>
                     let nb := map (fun b => negate (if diff then mark_base b else b)) bases in
                     conserves_b (srcs ++ nb) q && totals_b (srcs ++ nb) q && support_b q
                 end) profs)).

Definition spec_C03 (i o : term) : bool :=
  if String.eqb (gs (gn i 0)) "e2e" then spec_e2e i o else
  if String.eqb (gs (gn i 0)) "skey" || String.eqb (gs (gn i 0)) "lkey" then true else
  let ps := inputs_of i in
  let res := gs (gn o 0) in
  if negb (in_domain ps) then true            (* outside the statement's quantifier: nothing demanded *)
  else if String.eqb res "ok" then
    let q := profile_of (gn o 1) in
    valid_b q && conserves_b ps q && support_b q && totals_b ps q && headers_b ps q &&
    match gl (gn o 2) with [] => true | _ => false end &&      (* nothing reachable from the inputs *)
    negb (gb (gn o 3)) &&                                       (* inputs not modified *)
    gb (gn o 4) &&                                              (* compacting again changes nothing *)
    krs_ok ps i q o && mappings_from_inputs ps q && reversed_ok ps q o
  else false.                                                   (* compatible inputs must merge *)

(* class 25 = F25: some input has a negative period (the documented "maximum" is then not what
   the code computes when only zero periods precede it) *)
Definition cls_C03 (i : term) : list Z :=
  if String.eqb (gs (gn i 0)) "e2e" then
    (if in_F25 (successes (e2e_srcs i) ++ successes (e2e_bases i)) then [25%Z] else []) else
  if String.eqb (gs (gn i 0)) "skey" || String.eqb (gs (gn i 0)) "lkey" then [] else
  if in_F25 (inputs_of i) then [25%Z] else [].

Definition judge_C03 := judge_all run_C03 eqv_C03 spec_C03 cls_C03 0%Z.
