(* Case runner for C03: decodes harness cases, runs the merge model, judges the implementation.
   input    = ["merge"; [profile dumps]; [[(mapping id, kernel relocation symbol)] per input]]
            | ["compact"; [one profile dump]; [..]]  (p.Compact(); same observable, same judgement as Merge [p])
            | ["skey"; sample]                      (byte-level check of sampleKey)
            | ["lkey"; profile with one location]   (field-level check of Location.key, lines string included)
   observed = ["ok"; dump; [shared pointer paths]; inputs-modified; compact-is-identity;
               [(mapping id, krs) of the result]; [dump of Merge(reversed inputs)]]
            | ["err"] | ["panic"; msg]              | ["key"; bytes] *)
From PV Require Import M_Merge S_Merge.
Open Scope string_scope.
Open Scope Z_scope.

Definition inputs_of (i : term) : list profile := map profile_of (gl (gn i 1)).

Definition run_C03 (i : term) : term :=
  if String.eqb (gs (gn i 0)) "skey" then
    TL [TS "key"; of_zs (skey_bytes (skey_of_sample (sample_of (gn i 1))))]
  else if String.eqb (gs (gn i 0)) "lkey" then
    let p := profile_of (gn i 1) in
    match p_location p with
    | l :: _ => let '(rel, mid, slots, folded) := lkey_of p l in
                TL [TS "key"; TL [TZ rel; TZ mid; TS (lines_key slots); of_bool folded]]
    | [] => TL [TS "none"]
    end
  else
  match (if String.eqb (gs (gn i 0)) "compact"
         then match inputs_of i with [p] => compact p | _ => MErr end
         else merge (inputs_of i)) with
  | MOk q => TL [TS "ok"; of_profile q]
  | MErr => TL [TS "err"]
  | MPanic => TL [TS "panic"]
  | MFuel => TL [TS "fuel"]
  end.

(* the model predicts the result kind and, for "ok", the complete dump (ids and order included) *)
Definition eqv_C03 (i m o : term) : bool :=
  String.eqb (gs (gn m 0)) (gs (gn o 0)) &&
  (if String.eqb (gs (gn m 0)) "ok" || String.eqb (gs (gn m 0)) "key" then term_eqb (gn m 1) (gn o 1) else true).

(* the statement's domain: at least one profile, all valid, all with the first one's types *)
Definition same_types (p0 p : profile) : bool :=
  vts_eqb (p_sampletype p0) (p_sampletype p) &&
  match p_periodtype p0, p_periodtype p with Some a, Some b => vt_eqb a b | _, _ => false end.
Definition in_domain (ps : list profile) : bool :=
  match ps with
  | [] => false
  | p0 :: _ => forallb valid_b ps && forallb (same_types p0) ps
  end.

(* kernel relocation symbol (not in M_Profile's mapping record): every result mapping carries the
   symbol of SOME input mapping of the same binary *)
Definition krs_table (p : profile) (t : term) : list (mkey * string) :=
  flat_map (fun e => match lookup_map p (gz (gn e 0)) with
                     | Some m => [(mkey_of m, gs (gn e 1))]
                     | None => [] end) (gl t).
Fixpoint krs_tables (ps : list profile) (ts : list term) : list (mkey * string) :=
  match ps, ts with
  | p :: ps', t :: ts' => krs_table p t ++ krs_tables ps' ts'
  | _, _ => []
  end.
Definition krs_ok (ps : list profile) (i : term) (q : profile) (o : term) : bool :=
  let tin := krs_tables ps (gl (gn i 2)) in
  forallb (fun e => existsb (fun e' => mkey_eqb (fst e) (fst e') && String.eqb (snd e) (snd e')) tin)
          (krs_table q (gn o 5)).

(* "nothing is altered" for the mapping fields that are not part of the identity (start, limit,
   file next to a build id, flags): every result mapping is, field for field, one of the input
   mappings of the same binary *)
Definition mapping_same_fields (a b : mapping) : bool :=
  (m_start a =? m_start b) && (m_limit a =? m_limit b) && (m_offset a =? m_offset b) &&
  String.eqb (m_file a) (m_file b) && String.eqb (m_buildid a) (m_buildid b) &&
  Bool.eqb (m_hasfn a) (m_hasfn b) && Bool.eqb (m_hasfile a) (m_hasfile b) &&
  Bool.eqb (m_hasline a) (m_hasline b) && Bool.eqb (m_hasinline a) (m_hasinline b).
Definition mappings_from_inputs (ps : list profile) (q : profile) : bool :=
  forallb (fun m => existsb (fun p => existsb (mapping_same_fields m) (p_mapping p)) ps) (p_mapping q).

(* fields documented as symmetric agree between Merge(ps) and Merge(rev ps) *)
Definition subset_s (a b : list string) : bool := forallb (fun x => existsb (String.eqb x) b) a.
Definition reversed_ok (ps : list profile) (q : profile) (o : term) : bool :=
  match gl (gn o 6) with
  | [] => true
  | [TS _] => false        (* the reversed merge failed where the forward one succeeded *)
  | r :: _ =>
      let q' := profile_of r in
      same_weights_b q q' &&
      (p_timenanos q =? p_timenanos q') && (p_durationnanos q =? p_durationnanos q') &&
      (negb (forallb (fun p => 0 <=? p_period p) ps) || (p_period q =? p_period q')) &&
      subset_s (p_comments q) (p_comments q') && subset_s (p_comments q') (p_comments q) &&
      Nat.eqb (List.length (p_sample q)) (List.length (p_sample q'))
  end.

Definition spec_C03 (i o : term) : bool :=
  if String.eqb (gs (gn i 0)) "skey" || String.eqb (gs (gn i 0)) "lkey" then true else
  let ps := inputs_of i in
  let res := gs (gn o 0) in
  if negb (in_domain ps) then true            (* outside the statement's quantifier: nothing demanded *)
  else if String.eqb res "ok" then
    let q := profile_of (gn o 1) in
    valid_b q && conserves_b ps q && support_b q && totals_b ps q && headers_b ps q &&
    match gl (gn o 2) with [] => true | _ => false end &&      (* nothing reachable from the inputs *)
    negb (gb (gn o 3)) &&                                       (* inputs not modified *)
    gb (gn o 4) &&                                              (* compacting again changes nothing *)
    krs_ok ps i q o && mappings_from_inputs ps q && reversed_ok ps q o
  else false.                                                   (* compatible inputs must merge *)

(* class 25 = F25: some input has a negative period (the documented "maximum" is then not what
   the code computes when only zero periods precede it) *)
Definition cls_C03 (i : term) : list Z :=
  if String.eqb (gs (gn i 0)) "skey" || String.eqb (gs (gn i 0)) "lkey" then [] else
  if in_F25 (inputs_of i) then [25%Z] else [].

Definition judge_C03 := judge_all run_C03 eqv_C03 spec_C03 cls_C03 0%Z.
