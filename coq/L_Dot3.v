(* C18 lemmas for DOT, part 3: every emitter of the model writes statements the recogniser reads;
   dot_well_formed and dot_edges_declared. *)
From Coq Require Import Lia.
From PV Require Import M_Dot S_Dot S_DotClass L_Dot L_Dot2.
Open Scope string_scope.
Open Scope Z_scope.

(* ---------------- computational side conditions for literal pieces ---------------- *)
Fixpoint attrs_bodyb (ts : list token) : bool :=
  match ts with
  | [] => true
  | k :: TEq :: v :: r => is_idtok k && is_idtok v && attrs_bodyb r
  | _ => false
  end.

Lemma attrs_bodyb_ok : forall n ts, (List.length ts <= n)%nat -> attrs_bodyb ts = true -> attrs_body ts.
Proof.
  induction n as [|n IH]; intros ts Hl H.
  - destruct ts; [constructor | simpl in Hl; lia].
  - destruct ts as [|k [|e [|v r]]]; try (constructor; fail); try discriminate H;
      destruct e; simpl in H; try discriminate H.
    apply andb_prop in H. destruct H as [H Hr]. apply andb_prop in H. destruct H as [Hk Hv].
    constructor; [exact Hk | exact Hv |]. apply IH; [simpl in Hl; lia | exact Hr].
Qed.
Lemma attrs_bodyb_ok' : forall ts, attrs_bodyb ts = true -> attrs_body ts.
Proof. intros ts. apply (attrs_bodyb_ok (List.length ts)). lia. Qed.

(* literal = complete attributes followed by "key =" *)
Fixpoint key_tail (ts : list token) : option (list token * string) :=
  match ts with
  | a :: r1 =>
      match r1 with
      | b :: r2 =>
          match r2 with
          | [] => match a, b with TId k, TEq => Some ([], k) | _, _ => None end
          | c :: r => match key_tail r with Some (l, k) => Some (a :: b :: c :: l, k) | None => None end
          end
      | [] => None
      end
  | [] => None
  end.
Lemma key_tail_ok_n : forall n ts l k, (List.length ts <= n)%nat -> key_tail ts = Some (l, k) ->
  ts = (l ++ [TId k; TEq])%list.
Proof.
  induction n as [|n IH]; intros ts l k Hl H.
  - destruct ts; [discriminate H | simpl in Hl; lia].
  - destruct ts as [|a [|b [|c r]]]; try discriminate H.
    + simpl in H. destruct a; try discriminate H. destruct b; try discriminate H. inversion H. reflexivity.
    + simpl in H. destruct (key_tail r) as [[l' k']|] eqn:E; [|discriminate H].
      inversion H. subst. simpl. rewrite (IH r l' k); [reflexivity | simpl in Hl; lia | exact E].
Qed.
Lemma key_tail_ok : forall ts l k, key_tail ts = Some (l, k) -> ts = (l ++ [TId k; TEq])%list.
Proof. intros ts l k. apply (key_tail_ok_n (List.length ts)). lia. Qed.

Section Pieces.
  Variable e : list token.

  Lemma P_end : forall lit, lex_go LInit lit = (LInit, e) -> ATailE e lit.
  Proof. apply ATail_end. Qed.

  Lemma P_lit : forall lit toks rest, lex_go LInit lit = (LInit, toks) -> attrs_bodyb toks = true ->
    ATailE e rest -> ATailE e (lit ++ rest).
  Proof. intros. eapply ATail_lit; eauto using attrs_bodyb_ok'. Qed.

  Lemma P_q : forall lit toks l k body rest, lex_go LInit lit = (LInit, toks) ->
    key_tail toks = Some (l, k) -> attrs_bodyb l = true -> qsafe body = true ->
    ATailE e rest -> ATailE e (lit ++ q body ++ rest).
  Proof.
    intros lit toks l k body rest Hl Hk Hb Hq [b [Hbody Lr]].
    apply key_tail_ok in Hk. subst toks.
    exists (l ++ TId k :: TEq :: TStr (qview body) :: b)%list. split.
    - apply attrs_body_app; [now apply attrs_bodyb_ok' | now constructor].
    - replace ((l ++ TId k :: TEq :: TStr (qview body) :: b) ++ e)%list
        with ((l ++ [TId k; TEq]) ++ [TStr (qview body)] ++ b ++ e)%list
        by (rewrite <- !app_assoc; reflexivity).
      apply LxC_app; [now apply LxC_lit|]. apply LxC_app; [rewrite q_quoted; now apply LxC_quoted | exact Lr].
  Qed.

  Lemma P_id : forall lit toks l k v rest, lex_go LInit lit = (LInit, toks) ->
    key_tail toks = Some (l, k) -> attrs_bodyb l = true -> good_id v = true -> dstart rest = true ->
    ATailE e rest -> ATailE e (lit ++ v ++ rest).
  Proof.
    intros lit toks l k v rest Hl Hk Hb Hv Hd [b [Hbody Lr]].
    apply key_tail_ok in Hk. subst toks.
    exists (l ++ TId k :: TEq :: TId v :: b)%list. split.
    - apply attrs_body_app; [now apply attrs_bodyb_ok' | now constructor].
    - replace ((l ++ TId k :: TEq :: TId v :: b) ++ e)%list
        with ((l ++ [TId k; TEq]) ++ TId v :: b ++ e)%list
        by (rewrite <- !app_assoc; reflexivity).
      apply LxC_app; [now apply LxC_lit|]. now apply LxC_ident.
  Qed.

  Lemma P_idk : forall lit toks l k v rest, lex_go LInit lit = (LInit, toks) ->
    key_tail toks = Some (l, k) -> attrs_bodyb l = true -> ident_ok v = true -> dstart rest = true ->
    ATailE e rest -> ATailE e (lit ++ v ++ rest).
  Proof.
    intros lit toks l k v rest Hl Hk Hb Hv Hd [b [Hbody Lr]].
    apply key_tail_ok in Hk. subst toks. destruct (ident_ok_spec v Hv) as [Hi Hc].
    exists (l ++ TId k :: TEq :: TId v :: b)%list. split.
    - apply attrs_body_app; [now apply attrs_bodyb_ok' | now constructor].
    - replace ((l ++ TId k :: TEq :: TId v :: b) ++ e)%list
        with ((l ++ [TId k; TEq]) ++ TId v :: b ++ e)%list
        by (rewrite <- !app_assoc; reflexivity).
      apply LxC_app; [now apply LxC_lit|]. now apply LxC_ident_gen.
  Qed.

  Lemma P_num : forall lit toks l k v rest, lex_go LInit lit = (LInit, toks) ->
    key_tail toks = Some (l, k) -> attrs_bodyb l = true -> all_digits v = true -> v <> "" -> dstart rest = true ->
    ATailE e rest -> ATailE e (lit ++ v ++ rest).
  Proof.
    intros lit toks l k v rest Hl Hk Hb Hv Hne Hd [b [Hbody Lr]].
    apply key_tail_ok in Hk. subst toks.
    exists (l ++ TId k :: TEq :: TNum v :: b)%list. split.
    - apply attrs_body_app; [now apply attrs_bodyb_ok' | now constructor].
    - replace ((l ++ TId k :: TEq :: TNum v :: b) ++ e)%list
        with ((l ++ [TId k; TEq]) ++ TNum v :: b ++ e)%list
        by (rewrite <- !app_assoc; reflexivity).
      apply LxC_app; [now apply LxC_lit|]. now apply LxC_num.
  Qed.
End Pieces.

(* an attribute list with its opening bracket *)
Definition ATailO (e : list token) (s : string) : Prop :=
  exists body, attrs_body body /\ LxC s (TLs :: body ++ e).

Lemma PO_q : forall e lit toks l k body rest, lex_go LInit lit = (LInit, TLs :: toks) ->
  key_tail toks = Some (l, k) -> attrs_bodyb l = true -> qsafe body = true ->
  ATailE e rest -> ATailO e (lit ++ q body ++ rest).
Proof.
  intros e lit toks l k body rest Hl Hk Hb Hq [b [Hbody Lr]].
  apply key_tail_ok in Hk. subst toks.
  exists (l ++ TId k :: TEq :: TStr (qview body) :: b)%list. split.
  - apply attrs_body_app; [now apply attrs_bodyb_ok' | now constructor].
  - replace (TLs :: (l ++ TId k :: TEq :: TStr (qview body) :: b) ++ e)%list
      with ((TLs :: l ++ [TId k; TEq]) ++ [TStr (qview body)] ++ b ++ e)%list
      by (simpl; rewrite <- !app_assoc; reflexivity).
    apply LxC_app; [now apply LxC_lit|]. apply LxC_app; [rewrite q_quoted; now apply LxC_quoted | exact Lr].
Qed.

(* statements from an opened attribute list (generalises Stmt_node / Stmt_edge of part 2) *)
Lemma Stmt_nodeO : forall x s, good_id x = true -> dstart s = true -> ATailO [TRs] s -> StmtText (x ++ s) [x] [].
Proof.
  intros x s Hx Hd [body [Hb Lr]].
  exists (TId x :: TLs :: body ++ [TRs])%list. split.
  - now apply LxC_ident.
  - (* same parser run as in Stmt_node *)
    intros st Hr. simpl. rewrite fold_left_app. simpl.
    destruct (ready_id st x Hr) as [E1 [A1 [B1 C1]]].
    set (s1 := pstep st (TId x)) in *.
    assert (E2 : p_st (pstep s1 TLs) = PAttr /\ p_depth (pstep s1 TLs) = p_depth st /\
                 p_decl (pstep s1 TLs) = x :: p_decl st /\ p_edges (pstep s1 TLs) = p_edges st).
    { unfold pstep. rewrite E1. simpl. repeat split; congruence. }
    destruct E2 as [E2 [A2 [B2 C2]]]. set (s2 := pstep s1 TLs) in *.
    destruct (attrs_run body Hb s2 (or_introl E2)) as [I3 [A3 [B3 C3]]].
    set (s3 := fold_left pstep body s2) in *.
    destruct (attrs_close s3 I3) as [E4 [A4 [B4 C4]]].
    destruct Hr as [_ Hd'].
    repeat split.
    + right. exact E4.
    + rewrite A4, A3, A2. exact Hd'.
    + congruence.
    + simpl. congruence.
    + simpl. congruence.
Qed.

Lemma Stmt_edgeO : forall a b s, good_id a = true -> good_id b = true -> dstart s = true -> ATailO [TRs] s ->
  StmtText (a ++ " -> " ++ b ++ s) [] [a; b].
Proof.
  intros a b s Ha Hb Hd [body [Hbody Lr]].
  exists (TId a :: TArrow :: TId b :: TLs :: body ++ [TRs])%list. split.
  - apply LxC_ident; [exact Ha | reflexivity|].
    change (TArrow :: TId b :: TLs :: body ++ [TRs])%list with ([TArrow] ++ TId b :: TLs :: body ++ [TRs])%list.
    apply LxC_app; [apply LxC_lit; reflexivity|].
    now apply LxC_ident.
  - intros st Hr. simpl. rewrite fold_left_app. simpl.
    destruct (ready_id st a Hr) as [E1 [A1 [B1 C1]]].
    set (s1 := pstep st (TId a)) in *.
    assert (E2 : p_st (pstep s1 TArrow) = PEdge /\ p_depth (pstep s1 TArrow) = p_depth st /\
                 p_decl (pstep s1 TArrow) = p_decl st /\ p_edges (pstep s1 TArrow) = a :: p_edges st).
    { unfold pstep. rewrite E1. simpl. repeat split; congruence. }
    destruct E2 as [E2 [A2 [B2 C2]]]. set (s2 := pstep s1 TArrow) in *.
    assert (E3 : p_st (pstep s2 (TId b)) = PEdgeId b /\ same_but_st (pstep s2 (TId b)) s2).
    { unfold pstep. rewrite E2. simpl. split; [reflexivity | repeat split]. }
    destruct E3 as [E3 [A3 [B3 C3]]]. set (s3 := pstep s2 (TId b)) in *.
    assert (E4 : p_st (pstep s3 TLs) = PAttr /\ p_depth (pstep s3 TLs) = p_depth st /\
                 p_decl (pstep s3 TLs) = p_decl st /\ p_edges (pstep s3 TLs) = b :: a :: p_edges st).
    { unfold pstep. rewrite E3. simpl. repeat split; congruence. }
    destruct E4 as [E4 [A4 [B4 C4]]]. set (s4 := pstep s3 TLs) in *.
    destruct (attrs_run body Hbody s4 (or_introl E4)) as [I5 [A5 [B5 C5]]].
    set (s5 := fold_left pstep body s4) in *.
    destruct (attrs_close s5 I5) as [E6 [A6 [B6 C6]]].
    destruct Hr as [_ Hd'].
    repeat split.
    + right. exact E6.
    + rewrite A6, A5, A4. exact Hd'.
    + congruence.
    + simpl. congruence.
    + simpl. congruence.
Qed.

(* ---------------- safety of the emitted bodies ---------------- *)
Lemma zlookup_safe : forall t v, tab_safe t = true -> qsafe (zlookup t v) = true.
Proof.
  induction t as [|[k s] r IH]; simpl; intros v H; [reflexivity|].
  apply andb_prop in H. destruct H as [Hs Hr]. destruct (k =? v); [exact Hs | now apply IH].
Qed.

Lemma good_id_safe : forall s, good_id s = true -> qsafe s = true.
Proof.
  intros s H. apply qsafe_plain. apply (forallb_impl is_id_char plain_char); [|now apply good_id_idchars].
  intro c. unfold is_id_char, plain_char. destruct (cclass c); intro Hc; try discriminate Hc; reflexivity.
Qed.

Ltac qs :=
  repeat first
    [ reflexivity
    | assumption
    | apply escape_safe | apply escape_tag_safe | apply zs_safe | apply hex16_safe | apply ml_name_safe
    | apply qsafe_app ].
