(* Bit-exact model of internal/measurement/measurement.go: the same functions as M_Measure, with
   IEEE binary64 arithmetic (Base.F64, pure Gallina) in the places and in the ORDER the Go code uses
   float64.  This is the model the implementation is compared with, bit for bit; M_Measure is the
   exact-rational reading the theorems are about, and S_Measure/R_C15 check every compared case to lie
   within float rounding of it.  The unit table's factors are exact (dyadic) rationals of the Go
   float64 constants, regenerated from /repo on every run. No proofs here. *)
From Coq Require Import QArith Qround Qabs SpecFloat.
From PV Require Export Base.Term Base.Str Base.F64 M_Measure.
Open Scope Z_scope.

Definition uf (u : unit) : f64 := of_Q_dyadic (u_factor u).
Definition f_one : f64 := of_Z 1.
Definition f_zero : f64 := S754_zero false.

(* UnitType.autoScale: [u.Factor >= f && (value/u.Factor) >= 1.0] *)
Fixpoint auto_scale_loop_f (us : list unit) (value : f64) (f : f64) (name : string) : f64 * string :=
  match us with
  | [] => (f, name)
  | u :: r =>
      if fleb f (uf u) && fleb f_one (fdiv value (uf u))
      then auto_scale_loop_f r value (uf u) (u_name u)
      else auto_scale_loop_f r value f name
  end.

Definition auto_scale_f (ut : unit_type) (value : f64) : option (f64 * string) :=
  let '(f, name) := auto_scale_loop_f (ut_units ut) value f_zero "" in
  if feqb f f_zero then None else Some (fdiv value f, name).

(* UnitType.convertUnit: v := float64(value) * fromUnit.Factor; then v / target.Factor *)
Definition convert_unit_f (ut : unit_type) (value : Z) (from to : string) : option (f64 * string) :=
  match sniff_unit ut from with
  | None => None
  | Some fu =>
      let v := fmul (of_Z value) (uf fu) in
      let dflt := Some (fdiv v (uf (ut_default ut)), u_name (ut_default ut)) in
      if is_auto to then
        match auto_scale_f ut v with
        | Some r => Some r
        | None => dflt
        end
      else
        match sniff_unit ut to with
        | None => dflt
        | Some tu => Some (fdiv v (uf tu), u_name tu)
        end
  end.

Fixpoint convert_first_f (uts : list unit_type) (value : Z) (from to : string) : option (f64 * string) :=
  match uts with
  | [] => None
  | ut :: r =>
      match convert_unit_f ut value from to with
      | Some x => Some x
      | None => convert_first_f r value from to
      end
  end.

Definition scale_pos_f (uts : list unit_type) (value : Z) (from to : string) : f64 * string :=
  match convert_first_f uts value from to with
  | Some x => x
  | None => (of_Z value, if uninteresting to then "" else to)
  end.

Definition scale_f (uts : list unit_type) (value : Z) (from to : string) : f64 * string :=
  if (value <? 0) && negb (value =? min_int64) then
    let '(v, u) := scale_pos_f uts (- value) from to in (fopp v, u)
  else scale_pos_f uts value from to.

(* fmt.Sprintf("%.2f", v): the correctly rounded decimal of the float's exact value *)
Definition fmt2_f (v : f64) : string :=
  let s := fmt2 (to_Q v) in
  match v with
  | S754_zero true => "-" ++ s
  | S754_finite true _ _ => if has_prefix "-" s then s else "-" ++ s   (* "-0.00" for tiny negatives *)
  | _ => s
  end.

Definition scaled_label_f (uts : list unit_type) (value : Z) (from to : string) : string :=
  let '(v, u) := scale_f uts value from to in
  let sv := trim_suffix ".00" (fmt2_f v) in
  if String.eqb sv "0" || String.eqb sv "-0" then "0" else sv ++ u.

Definition label_f (uts : list unit_type) (value : Z) (unit : string) : string :=
  scaled_label_f uts value unit "auto".

(* Percentage *)
Definition f_99_95 : f64 := of_bits 4636733772917427405.
Definition f_100_05 : f64 := of_bits 4636740809791845171.

(* strconv 'g' with precision 2 (fmt's %.2g trims trailing zeros), for 0 <= r < 1 *)
Fixpoint g2_exp (fuel : nat) (r : Q) (e : Z) : Z :=   (* e with 10^e <= r < 10^(e+1), r in (0,1) *)
  match fuel with
  | O => e
  | S n => if Qle_bool 1 r then e else g2_exp n (r * 10)%Q (e - 1)
  end.

Definition pow10Q (e : Z) : Q := if e <? 0 then Qinv (inject_Z (10 ^ (- e))) else inject_Z (10 ^ e).

Definition fmt_g2 (r : Q) : string :=
  if Qle_bool r 0 then "0" else
  let e0 := g2_exp 400 r 0 in
  let d0 := round_half_even (r * pow10Q (1 - e0))%Q in
  let '(e, d) := if d0 =? 100 then (e0 + 1, 10) else (e0, d0) in
  let d1 := string_of_Z (d / 10) in
  let d2 := if d mod 10 =? 0 then "" else string_of_Z (d mod 10) in
  if e <? -4 then
    d1 ++ (if String.eqb d2 "" then "" else "." ++ d2) ++ "e-" ++ two_digits (- e)
  else if 0 <=? e then d1 ++ (if String.eqb d2 "" then "" else "." ++ d2)
  else "0." ++ B (repeat 48 (Z.to_nat (- e - 1))) ++ d1 ++ d2.

Definition percentage_fl (value total : Z) : string :=
  let ratio := if total =? 0 then f_zero
               else fmul (fabs (fdiv (of_Z value) (of_Z total))) (of_Z 100) in
  if fleb f_99_95 ratio && fleb ratio f_100_05 then "  100%"
  else if fleb f_one ratio then pad_left 5 (fmt2 (to_Q ratio)) ++ "%"
  else pad_left 5 (fmt_g2 (to_Q ratio)) ++ "%".

(* CommonValueType with the float comparison [ratio < 1] *)
Fixpoint common_loop_f (uts : list unit_type) (mn : vt) (ts : list vt) : option vt :=
  match ts with
  | [] => Some mn
  | t :: r =>
      if compatible_value_types uts mn t then
        let ratio := fst (scale_f uts 1 (snd t) (snd mn)) in
        common_loop_f uts (if fltb ratio f_one then t else mn) r
      else None
  end.

Definition common_value_type_f (uts : list unit_type) (ts : list vt) : cvt_result :=
  match ts with
  | [] | [_] => CvtNil
  | t :: r => match common_loop_f uts t r with Some m => CvtOk m | None => CvtErr end
  end.
