(* Lemmas and proofs for C13 (sessions): the objects returned by Binutils.Open are independent file
   objects -- whatever else a session does, a handle answers as a stand-alone file -- hence the
   per-object statement "address - bias" holds along every history. *)
From Coq Require Import Lia ZifyBool.
From PV Require Import M_Elf S_Elf L_Elf.
Open Scope Z_scope.

Definition seq_from (st : option (res (Z * bool))) (m : emap) (ef : elf) (addrs : list Z) : list (res Z) :=
  match st with
  | Some s => map (obj_addr_with s) addrs
  | None => obj_addr_seq (Some m) true ef addrs
  end.

Lemma nth_error_set_nth_eq : forall (A : Type) (l : list A) n x,
  (n < List.length l)%nat -> nth_error (set_nth l n x) n = Some x.
Proof.
  intros A l. induction l as [|y l IH]; intros n x Hn; cbn [List.length] in Hn; [lia|].
  destruct n as [|n]; cbn [set_nth nth_error]; [reflexivity|]. apply IH. lia.
Qed.

Lemma nth_error_set_nth_neq : forall (A : Type) (l : list A) n k x,
  n <> k -> nth_error (set_nth l n x) k = nth_error l k.
Proof.
  intros A l. induction l as [|y l IH]; intros n k x Hnk; [destruct n; reflexivity|].
  destruct n as [|n]; destruct k as [|k]; cbn [set_nth nth_error]; try reflexivity; try congruence.
  apply IH. congruence.
Qed.

Lemma nth_error_lt : forall (A : Type) (l : list A) n x, nth_error l n = Some x -> (n < List.length l)%nat.
Proof. intros A l n x H. apply nth_error_Some. congruence. Qed.

Lemma session_handle_gen : forall files evs hs h fi m st,
  nth_error hs h = Some (HOpen fi m st) ->
  answers_of h evs (session_from files hs evs) = seq_from st m (nth fi files elf0) (addrs_of h evs).
Proof.
  intros files evs. induction evs as [|e evs IH]; intros hs h fi m st Hh.
  - destruct st; reflexivity.
  - pose proof (nth_error_lt _ _ _ _ Hh) as Hlt.
    destruct e as [fi' s l o | h' a | ].
    + (* another Open: appended behind *)
      cbn [session_from session_step].
      destruct (open_elf (nth fi' files elf0) s l o) as [m'|c]; cbn [answers_of addrs_of];
        apply IH; rewrite nth_error_app1 by exact Hlt; exact Hh.
    + cbn [session_from session_step addrs_of].
      destruct (h' =? h)%nat eqn:Eh.
      * apply Nat.eqb_eq in Eh. subst h'. rewrite Hh. cbn [answers_of]. rewrite Nat.eqb_refl.
        set (st' := match st with Some s => s | None => compute_base (Some m) true (nth fi files elf0) a end).
        rewrite (IH (set_nth hs h (HOpen fi m (Some st'))) h fi m (Some st'))
          by (apply nth_error_set_nth_eq; exact Hlt).
        unfold seq_from, st'. destruct st as [s|]; reflexivity.
      * apply Nat.eqb_neq in Eh.
        destruct (nth_error hs h') as [[|fi2 m2 st2]|] eqn:Eh'; cbn [answers_of];
          rewrite ?(proj2 (Nat.eqb_neq h' h) Eh); apply IH; try exact Hh.
        rewrite nth_error_set_nth_neq by exact Eh. exact Hh.
    + cbn [session_from session_step answers_of addrs_of]. apply IH. exact Hh.
Qed.

(* a freshly opened object, whatever the session does afterwards *)
Lemma session_handle_independent_lemma : forall files evs hs h fi m,
  nth_error hs h = Some (HOpen fi m None) ->
  answers_of h evs (session_from files hs evs) = obj_addr_seq (Some m) true (nth fi files elf0) (addrs_of h evs).
Proof. intros files evs hs h fi m Hh. apply (session_handle_gen files evs hs h fi m None Hh). Qed.

(* Open appends a fresh object (or a failed entry) behind the existing ones and answers ok / the error *)
Lemma session_open_fresh_lemma : forall files hs fi s l o,
  match open_elf (nth fi files elf0) s l o with
  | Ok m => session_step files hs (SOpen fi s l o) = ((hs ++ [HOpen fi m None])%list, OOpen None) /\
            nth_error (hs ++ [HOpen fi m None]) (List.length hs) = Some (HOpen fi m None) /\
            m = {| em_start := s; em_limit := l; em_offset := o; em_koff := None |}
  | Err c => session_step files hs (SOpen fi s l o) = ((hs ++ [HFail])%list, OOpen (Some c))
  end.
Proof.
  intros files hs fi s l o. cbn [session_step].
  destruct (open_elf (nth fi files elf0) s l o) as [m|c] eqn:Eo; [|reflexivity].
  split; [reflexivity|]. split.
  - rewrite nth_error_app2 by lia. rewrite Nat.sub_diag. reflexivity.
  - unfold open_elf in Eo.
    destruct (get_base (e_type (nth fi files elf0)) (find_text_prog_header (nth fi files elf0)) None s l o);
      [inversion Eo; reflexivity | discriminate].
Qed.

(* a loader-made mapping of a user-space object can always be opened *)
Lemma open_elf_user_ok_lemma : forall ef s l o,
  user_elfb ef = true -> 0 < s < two63 -> exists m, open_elf ef s l o = Ok m.
Proof.
  intros ef s l o Hu Hs. unfold open_elf, get_base.
  replace (s =? 0) with false by lia. cbn [andb].
  assert (Hty : e_type ef = ET_DYN \/ e_type ef = ET_EXEC) by (unfold user_elfb in Hu; lia).
  destruct Hty as [Hty|Hty]; rewrite Hty; cbn [Z.eqb ET_DYN ET_EXEC ET_REL Pos.eqb].
  - destruct (find_text_prog_header ef) as [sg|]; [|eexists; reflexivity].
    destruct (kernel_base sg None s l o); eexists; reflexivity.
  - destruct (find_text_prog_header ef) as [sg|]; [|eexists; reflexivity].
    replace ((0 <? s) && (s <? two63)) with true by lia. cbn [andb]. eexists; reflexivity.
Qed.

Lemma obj_addr_as_with : forall m ok ef a,
  obj_addr m ok ef a = obj_addr_with (compute_base m ok ef a) a.
Proof. intros m ok ef a. unfold obj_addr, obj_addr_with. destruct (compute_base m ok ef a) as [[b d]|e]; reflexivity. Qed.

(* the per-object specification holds along every history *)
Lemma session_handle_meets_spec_lemma : forall files evs hs h fi m bias,
  nth_error hs h = Some (HOpen fi m None) ->
  match addrs_of h evs with a0 :: _ => any_F23 (nth fi files elf0) bias m a0 = false | [] => True end ->
  spec_handle (nth fi files elf0) bias m (addrs_of h evs) (answers_of h evs (session_from files hs evs)) = true.
Proof.
  intros files evs hs h fi m bias Hh HF.
  rewrite (session_handle_independent_lemma files evs hs h fi m Hh).
  unfold spec_handle. rewrite (obj_addr_seq_meets_spec_lemma _ _ _ _ HF). cbn [andb].
  destruct (addrs_of h evs) as [|a0 rest]; [reflexivity|].
  cbn [obj_addr_seq map]. rewrite <- obj_addr_as_with.
  apply (obj_addr_meets_spec_lemma _ _ _ _ HF).
Qed.
