(* C02/C01: a profile returned by the protobuf parser and accepted by CheckValid can always be
   serialized again: postDecode's padding keeps every numeric-label unit list absent or exactly as
   long as its value list, and CheckValid rejects nil sample locations -- the only two ways
   preEncode can panic. *)
From Coq Require Import Lia ZifyBool OrderedTypeEx.
From PV Require Import M_Codec M_Valid S_Codec L_Codec_Total L_Codec_Assoc L_Codec_Regroup L_Codec_Main L_Valid.
Open Scope string_scope.
Open Scope list_scope.
Open Scope Z_scope.

(* ---------- the byte-wise string order is a strict total order ---------- *)
Lemma str_ltb_lt a b : str_ltb a b = true <-> String_as_OT.lt a b.
Proof.
  unfold str_ltb. rewrite <- String_as_OT.cmp_lt. unfold String_as_OT.cmp.
  destruct (String.compare a b); split; congruence.
Qed.
Lemma str_ltb_trans a b c : str_ltb a b = true -> str_ltb b c = true -> str_ltb a c = true.
Proof. rewrite !str_ltb_lt. apply String_as_OT.lt_trans. Qed.
Lemma str_ltb_total a b : String.eqb a b = false -> str_ltb a b = false -> str_ltb b a = true.
Proof.
  unfold str_ltb. intros NE NL. rewrite (String.compare_antisym b a).
  destruct (String.compare a b) eqn:C; simpl; try reflexivity; try discriminate.
  apply String.compare_eq_iff in C. apply String.eqb_neq in NE. congruence.
Qed.

(* ---------- sorted association lists under arbitrary key arrival ---------- *)
Definition above {V} (x : string) (l : list (string * V)) : Prop := Forall (fun e => str_ltb x (fst e) = true) l.

Fixpoint sorted_keys {V} (l : list (string * V)) : Prop :=
  match l with
  | [] => True
  | (k, _) :: r => above k r /\ sorted_keys r
  end.

Lemma assoc_cons {V} k k' (v : V) l : assoc k ((k', v) :: l) = if String.eqb k' k then Some v else assoc k l.
Proof. unfold assoc. cbn [find fst snd]. destruct (String.eqb k' k); reflexivity. Qed.

Lemma assoc_none_above {V} k (l : list (string * V)) : above k l -> assoc k l = None.
Proof.
  induction l as [|[k' v] r IH]; intros H; [reflexivity|]. inversion H as [|? ? H1 H2]; subst. cbn [fst] in H1.
  rewrite assoc_cons. rewrite (str_ltb_neq _ _ H1). apply IH, H2.
Qed.

Lemma above_trans {V} a b (l : list (string * V)) : str_ltb a b = true -> above b l -> above a l.
Proof. intros H A. eapply Forall_impl; [|exact A]. intros e He. eapply str_ltb_trans; eauto. Qed.

Lemma assoc_update_spec {V} k (f : option V -> V) : forall l,
  sorted_keys l ->
  sorted_keys (assoc_update k f l) /\
  assoc k (assoc_update k f l) = Some (f (assoc k l)) /\
  (forall k2, String.eqb k2 k = false -> assoc k2 (assoc_update k f l) = assoc k2 l) /\
  (forall x, above x l -> str_ltb x k = true -> above x (assoc_update k f l)).
Proof.
  induction l as [|[k' v] r IH]; intros S; cbn [assoc_update].
  - split; [split; [constructor|exact I]|]. split; [rewrite assoc_cons, String.eqb_refl; reflexivity|].
    split; [intros k2 N; rewrite assoc_cons, String.eqb_sym, N; reflexivity|].
    intros x _ Hx. constructor; [exact Hx|constructor].
  - destruct S as [S1 S2].
    destruct (String.eqb_spec k k') as [->|NE].
    + split; [split; assumption|]. split; [rewrite !assoc_cons, String.eqb_refl; reflexivity|].
      split; [intros k2 N; rewrite !assoc_cons, String.eqb_sym, N; reflexivity|].
      intros x Hx _. inversion Hx; subst. constructor; assumption.
    + assert (NE' : String.eqb k k' = false) by (apply String.eqb_neq; exact NE).
      destruct (str_ltb k k') eqn:LT.
      * assert (AB : above k ((k', v) :: r)) by (constructor; [exact LT|eapply above_trans; eauto]).
        split; [split; [exact AB|split; assumption]|].
        split; [rewrite assoc_cons, String.eqb_refl, (assoc_none_above _ _ AB); reflexivity|].
        split; [intros k2 N; rewrite assoc_cons, String.eqb_sym, N; reflexivity|].
        intros x Hx Hk. constructor; [exact Hk|exact Hx].
      * pose proof (str_ltb_total _ _ NE' LT) as GT.
        destruct (IH S2) as (I1 & I2 & I3 & I4).
        split; [split; [apply I4; assumption|exact I1]|].
        split; [rewrite !assoc_cons, String.eqb_sym, NE'; exact I2|].
        split.
        { intros k2 N. rewrite !assoc_cons. destruct (String.eqb k' k2); [reflexivity|apply I3, N]. }
        intros x Hx Hk. inversion Hx as [|? ? H1 H2]; subst. constructor; [exact H1|apply I4; assumption].
Qed.

Lemma assoc_in_sorted {V} k (v : V) l : sorted_keys l -> In (k, v) l -> assoc k l = Some v.
Proof.
  induction l as [|[k' v'] r IH]; intros S H; [destruct H|]. destruct S as [S1 S2]. rewrite assoc_cons.
  destruct H as [E|H].
  - inversion E; subst. rewrite String.eqb_refl. reflexivity.
  - destruct (String.eqb_spec k' k) as [->|NE]; [|apply IH; assumption].
    exfalso. unfold above in S1. rewrite Forall_forall in S1. specialize (S1 _ H). cbn [fst] in S1. rewrite str_ltb_irrefl in S1. discriminate.
Qed.

Lemma assoc_map_snd {V W} (g : string * V -> W) k l :
  assoc k (map (fun e => (fst e, g e)) l) =
  match find (fun e => String.eqb (fst e) k) l with Some e => Some (g e) | None => None end.
Proof.
  unfold assoc. induction l as [|e r IH]; [reflexivity|]. cbn [map find fst snd].
  destruct (String.eqb (fst e) k); [reflexivity|exact IH].
Qed.

(* ---------- the padding invariant of the regrouping fold ---------- *)
Definition ulen (g : regroup) (k : string) : nat := List.length (odef [] (assoc k (g_unit g))).
Definition nlen (g : regroup) (k : string) : nat := List.length (odef [] (assoc k (g_num g))).
Definition ginv (g : regroup) : Prop :=
  sorted_keys (g_num g) /\ sorted_keys (g_unit g) /\ forall k, (ulen g k <= nlen g k)%nat.

Lemma pad_len_le arr n : (List.length (pad_string_array arr n) = Nat.max (List.length arr) n)%nat.
Proof. unfold pad_string_array. rewrite app_length, repeat_length. lia. Qed.

Lemma post_label_inv tab g l g' : post_label tab g l = Ok g' -> ginv g -> ginv g'.
Proof.
  unfold post_label. intros H (SN & SU & LE).
  destruct (get_string tab (rl_key l)) as [key|c|c]; cbn [bind] in H; try discriminate.
  destruct (negb (rl_str l =? 0)).
  { destruct (get_string tab (rl_str l)) as [v|c|c]; cbn [bind] in H; try discriminate.
    inversion H; subst g'. split; [exact SN|]. split; [exact SU|exact LE]. }
  destruct (negb (rl_num l =? 0) || negb (rl_unit l =? 0)); [|inversion H; subst; repeat split; auto].
  destruct (negb (rl_unit l =? 0)) eqn:EU; cbn [bind] in H.
  - destruct (get_string tab (rl_unit l)) as [u|c|c]; cbn [bind] in H; try discriminate.
    inversion H; subst g'. clear H.
    destruct (assoc_update_spec key (fun o => odef [] o ++ [rl_num l]) (g_num g) SN) as (N1 & N2 & N3 & _).
    destruct (assoc_update_spec key (fun o => pad_string_array (odef [] o) (List.length (odef [] (assoc key (g_num g)))) ++ [u]) (g_unit g) SU)
      as (U1 & U2 & U3 & _).
    split; [exact N1|]. split; [exact U1|].
    intros k. unfold ulen, nlen. cbn [g_num g_unit].
    destruct (String.eqb_spec k key) as [->|NE].
    + rewrite N2, U2. cbn [odef]. rewrite !app_length, pad_len_le. cbn [List.length].
      specialize (LE key). unfold ulen, nlen in LE. lia.
    + apply String.eqb_neq in NE. rewrite (N3 k NE), (U3 k NE). apply LE.
  - inversion H; subst g'. clear H.
    destruct (assoc_update_spec key (fun o => odef [] o ++ [rl_num l]) (g_num g) SN) as (N1 & N2 & N3 & _).
    split; [exact N1|]. split; [exact SU|].
    intros k. unfold ulen, nlen. cbn [g_num g_unit].
    destruct (String.eqb_spec k key) as [->|NE].
    + rewrite N2. cbn [odef]. rewrite app_length. cbn [List.length].
      specialize (LE key). unfold ulen, nlen in LE. lia.
    + apply String.eqb_neq in NE. rewrite (N3 k NE). apply LE.
Qed.

Lemma fold_post_label_inv tab : forall ls g g', fold_res (post_label tab) ls g = Ok g' -> ginv g -> ginv g'.
Proof.
  induction ls as [|l ls IH]; intros g g' H I; cbn [fold_res] in H; [inversion H; subst; exact I|].
  destruct (post_label tab g l) as [g1|c|c] eqn:E; cbn [bind] in H; try discriminate.
  eapply IH; [exact H|]. eapply post_label_inv; eauto.
Qed.

(* every sample postDecode builds honours the NumUnit length contract *)
Lemma post_sample_units_wf tab locids rs s :
  post_sample tab locids rs = Ok s -> Forall (units_wf_key (s_numunit s)) (s_numlabel s).
Proof.
  unfold post_sample. intros H.
  destruct (fold_res (post_label tab) (rs_label rs) {| g_label := []; g_num := []; g_unit := [] |}) as [g|c|c] eqn:EF;
    cbn [bind] in H; try discriminate.
  assert (I0 : ginv {| g_label := []; g_num := []; g_unit := [] |}).
  { split; [exact I|]. split; [exact I|]. intros k. unfold ulen, nlen. cbn. lia. }
  destruct (fold_post_label_inv _ _ _ _ EF I0) as (SN & SU & LE).
  inversion H; subst s. clear H. cbn [s_numlabel s_numunit].
  apply Forall_forall. intros [k vs] Hk. unfold units_wf_key, ulook. cbn [fst snd].
  pose proof (assoc_in_sorted k vs (g_num g) SN Hk) as AN.
  destruct (g_num g) as [|n0 nr] eqn:EN; [destruct Hk|]. rewrite <- EN in *.
  rewrite assoc_map_snd.
  destruct (find (fun e => String.eqb (fst e) k) (g_unit g)) as [[k' u]|] eqn:EFI; [|left; reflexivity].
  cbn [snd fst].
  assert (AU : assoc k (g_unit g) = Some u) by (unfold assoc; rewrite EFI; reflexivity).
  apply find_some in EFI as [_ EK]. cbn [fst] in EK. apply String.eqb_eq in EK. subst k'.
  destruct u as [|u0 ur]; [left; reflexivity|]. right.
  rewrite pad_len_le, AN. cbn [odef].
  specialize (LE k). unfold ulen, nlen in LE. rewrite AU, AN in LE. cbn [odef] in LE. lia.
Qed.

(* ---------- preEncode cannot panic on such samples ---------- *)
Lemma pre_samples_total' : forall l tab,
  Forall (fun s => Forall (units_wf_key (s_numunit s)) (s_numlabel s) /\ existsb (Z.eqb (-1)) (s_loc s) = false) l ->
  exists t rs, pre_samples tab l = Ok (t, rs).
Proof.
  induction l as [|s l IH]; intros tab HS; cbn [pre_samples]; [eauto|].
  inversion HS as [|? ? (UW & NM) Hl]; subst.
  unfold pre_sample. destruct (pre_strkeys tab (s_label s)) as [t1 a].
  destruct (pre_numkeys_total (s_numunit s) (s_numlabel s) t1 UW) as (t2 & b & E2). rewrite E2. cbn [bind].
  rewrite NM. cbn [bind]. destruct (IH t2 Hl) as (t3 & rs & E3). rewrite E3. cbn [bind]. eauto.
Qed.

Lemma pre_encode_total' p :
  Forall (fun s => Forall (units_wf_key (s_numunit s)) (s_numlabel s) /\ existsb (Z.eqb (-1)) (s_loc s) = false) (p_sample p) ->
  exists r, pre_encode p = Ok r.
Proof.
  intros HS. unfold pre_encode.
  destruct (pre_list pre_valuetype [""] (p_sampletype p)) as [t1 sts].
  destruct (pre_samples_total' (p_sample p) t1 HS) as (t2 & ss & E2). rewrite E2. cbn [bind].
  destruct (pre_list pre_mapping t2 (p_mapping p)) as [t3 ms].
  destruct (pre_list pre_function t3 (p_function p)) as [t4 fs].
  destruct (add_string t4 (p_dropframes p)) as [t5 df].
  destruct (add_string t5 (p_keepframes p)) as [t6 kf].
  destruct (match p_periodtype p with
            | Some v => let '(tab, x) := pre_valuetype t6 v in (tab, Some x)
            | None => (t6, None) end) as [t7 pt].
  destruct (pre_list add_string t7 (p_comments p)) as [t8 cs].
  destruct (add_string t8 (p_defaultsampletype p)) as [t9 dst].
  destruct (add_string t9 (p_docurl p)) as [t10 du]. eauto.
Qed.

(* ---------- the clause ---------- *)
Lemma parsed_serializes data q :
  parse_uncompressed data = Ok q -> check_valid q = true -> exists b, serialize q = Ok b.
Proof.
  intros HP CV.
  assert (HS : Forall (fun s => Forall (units_wf_key (s_numunit s)) (s_numlabel s) /\ existsb (Z.eqb (-1)) (s_loc s) = false) (p_sample q)).
  { unfold parse_uncompressed in HP. destruct data as [|b0 bs]; [discriminate|].
    destruct (unmarshal (b0 :: bs)) as [r|c|c]; cbn [bind] in HP; try discriminate.
    unfold check_valid in CV. cbn zeta in CV.
    repeat (apply andb_true_iff in CV as [CV ?]).
    match goal with H0 : forallb _ (p_sample q) = true |- _ => rename H0 into VS end.
    unfold post_decode in HP.
    destruct (map_res (post_mapping (rp_strings r)) (rp_mapping r)) as [ms|c|c]; cbn [bind] in HP; try discriminate.
    destruct (map_res (post_function (rp_strings r)) (rp_function r)) as [fs|c|c]; cbn [bind] in HP; try discriminate.
    destruct (map_res (post_valuetype (rp_strings r)) (rp_sampletype r)) as [sts|c|c]; cbn [bind] in HP; try discriminate.
    destruct (map_res (post_sample (rp_strings r) (map rloc_id (rp_location r))) (rp_sample r)) as [ss|c|c] eqn:ESS; cbn [bind] in HP; try discriminate.
    destruct (get_string (rp_strings r) (rp_dropframes r)) as [df|c|c]; cbn [bind] in HP; try discriminate.
    destruct (get_string (rp_strings r) (rp_keepframes r)) as [kf|c|c]; cbn [bind] in HP; try discriminate.
    destruct (post_valuetype (rp_strings r) _) as [pt|c|c]; cbn [bind] in HP; try discriminate.
    destruct (map_res (get_string (rp_strings r)) (rp_comment r)) as [cs|c|c]; cbn [bind] in HP; try discriminate.
    destruct (get_string (rp_strings r) (rp_defaultst r)) as [dst|c|c]; cbn [bind] in HP; try discriminate.
    destruct (get_string (rp_strings r) (rp_docurl r)) as [du|c|c]; cbn [bind] in HP; try discriminate.
    inversion HP; subst q. clear HP. cbn [p_sample] in *.
    pose proof (map_res_ok _ _ _ ESS) as F2.
    apply Forall_forall. intros s Hs. split.
    - assert (X : exists rs, post_sample (rp_strings r) (map rloc_id (rp_location r)) rs = Ok s).
      { clear - F2 Hs. induction F2 as [|a b l l' Hab _ IH]; [destruct Hs|]. destruct Hs as [<-|Hs]; eauto. }
      destruct X as (rs & Hrs). eapply post_sample_units_wf; eauto.
    - rewrite forallb_forall in VS. specialize (VS s Hs). apply andb_true_iff in VS as [_ V]. apply negb_true_iff in V. exact V. }
  destruct (pre_encode_total' q HS) as (r & E). exists (enc_profile r). unfold serialize. rewrite E. reflexivity.
Qed.
