(* Lemmas about M_Flags: option flags touch only the options they name. *)
From Coq Require Import Lia.
From PV Require Import M_Config M_Flags L_Config.
Open Scope string_scope.
Open Scope Z_scope.

Lemma upd_other_f : forall c k v n, n <> k -> upd c k v n = c n.
Proof. intros c k v n N. unfold upd. destruct (String.eqb n k) eqn:E; [apply String.eqb_eq in E; contradiction|reflexivity]. Qed.

(* config_flags changes nothing outside the names of the fields it walks over *)
Lemma config_flags_outside : forall pf fs c fl c' n,
  config_flags pf fs c fl = Ok c' -> ~ In n (map f_name fs) -> c' n = c n.
Proof.
  intros pf. induction fs as [|f r IH]; intros c fl c' n H N.
  - simpl in H. inversion H. reflexivity.
  - assert (Nr : ~ In n (map f_name r)) by (intro X; apply N; right; exact X).
    assert (Nf : n <> f_name f) by (intro X; apply N; left; symmetry; exact X).
    cbn [config_flags] in H. destruct (f_choices f) as [|ch0 chs].
    + destruct (flag_get fl (f_name f)) as [v|]; [|apply (IH _ _ _ _ H Nr)].
      rewrite set_field_eq in H. destruct (set_value pf f v) as [w|]; [|discriminate].
      rewrite (IH _ _ _ _ H Nr). apply upd_other_f; exact Nf.
    + destruct (filter (flag_true fl) (ch0 :: chs)) as [|one [|two more]]; [apply (IH _ _ _ _ H Nr)| |discriminate].
      rewrite (IH _ _ _ _ H Nr). apply upd_other_f; exact Nf.
Qed.

Lemma filter_all_false : forall (A : Type) (g : A -> bool) l, (forall x, In x l -> g x = false) -> filter g l = [].
Proof.
  intros A g. induction l as [|a l IH]; intro H; [reflexivity|]. simpl.
  rewrite (H a (or_introl eq_refl)). apply IH. intros x Hx. apply H. right. exact Hx.
Qed.

(* an option that no flag names keeps its value *)
Lemma config_flags_untouched : forall pf fs c fl c' f,
  nodup_str (map f_name fs) = true -> config_flags pf fs c fl = Ok c' -> In f fs ->
  flag_get fl (f_name f) = None -> (forall ch, In ch (f_choices f) -> flag_true fl ch = false) ->
  c' (f_name f) = c (f_name f).
Proof.
  intros pf. induction fs as [|g r IH]; intros c fl c' f N H Hin Hg Hc; [contradiction|].
  simpl in N. apply nodup_str_cons in N. destruct N as [Na Nb].
  cbn [config_flags] in H. destruct Hin as [E|Hin].
  - subst g. destruct (f_choices f) as [|ch0 chs] eqn:Ech.
    + rewrite Hg in H. apply (config_flags_outside _ _ _ _ _ _ H Na).
    + rewrite (filter_all_false _ _ _ Hc) in H. apply (config_flags_outside _ _ _ _ _ _ H Na).
  - assert (Nfg : f_name f <> f_name g) by (intro X; apply Na; rewrite <- X; apply in_map; exact Hin).
    destruct (f_choices g) as [|ch0 chs].
    + destruct (flag_get fl (f_name g)) as [v|]; [|apply (IH _ _ _ _ Nb H Hin Hg Hc)].
      rewrite set_field_eq in H. destruct (set_value pf g v) as [w|]; [|discriminate].
      rewrite (IH _ _ _ _ Nb H Hin Hg Hc). apply upd_other_f; exact Nfg.
    + destruct (filter (flag_true fl) (ch0 :: chs)) as [|one [|two more]]; [apply (IH _ _ _ _ Nb H Hin Hg Hc)| |discriminate].
      rewrite (IH _ _ _ _ Nb H Hin Hg Hc). apply upd_other_f; exact Nfg.
Qed.

(* no option flags: the run starts from the option state it was given *)
Lemma config_flags_nil : forall pf fs c, config_flags pf fs c [] = Ok c.
Proof.
  intros pf. induction fs as [|f r IH]; intro c; [reflexivity|].
  cbn [config_flags flag_get]. destruct (f_choices f) as [|ch0 chs]; [apply IH|].
  rewrite filter_all_false; [apply IH|]. intros x _. reflexivity.
Qed.
