(* Compaction is idempotent: for a result q of Merge, Merge [q] returns q itself (same ids, same
   order, same header).  Two halves:
   (A) every state of the merge process numbers its entities in order of first use ("fu"): scanning
       the references in traversal order, each one is either already known or exactly the next id;
   (B) replaying such a profile through the merge process re-creates every entity under its own id. *)
From Coq Require Import List ZArith Lia Bool String.
From PV Require Import M_Merge S_Merge L_Assoc L_Merge.
Import ListNotations.
Open Scope Z_scope.
Open Scope list_scope.

(* ------------------------------------------------------------------ scanning references *)
Fixpoint scan (n : Z) (refs : list Z) : option Z :=
  match refs with
  | [] => Some n
  | r :: rest =>
      if r =? 0 then scan n rest
      else if (1 <=? r) && (r <=? n) then scan n rest
      else if r =? n + 1 then scan (n + 1) rest
      else None
  end.

Lemma scan_app : forall l l' n,
  scan n (l ++ l') = match scan n l with Some m => scan m l' | None => None end.
Proof.
  induction l as [|r l IH]; intros l' n; cbn [app scan]; [reflexivity|].
  destruct (r =? 0); [apply IH|]. destruct ((1 <=? r) && (r <=? n)); [apply IH|].
  destruct (r =? n + 1); [apply IH | reflexivity].
Qed.

Lemma scan_bounded : forall l n m,
  scan n l = Some m -> Forall (fun r => 0 <= r <= n) l -> m = n.
Proof.
  induction l as [|r l IH]; intros n m H F; cbn [scan] in H.
  - congruence.
  - inversion F as [|? ? Hr Fl]; subst.
    destruct (r =? 0); [eapply IH; eauto|].
    destruct ((1 <=? r) && (r <=? n)); [eapply IH; eauto|].
    destruct (r =? n + 1) eqn:E; [|discriminate]. apply Z.eqb_eq in E. lia.
Qed.

Lemma scan_le : forall l k m, scan k l = Some m -> k <= m.
Proof.
  induction l as [|r l IH]; intros k m H; cbn [scan] in H; [inversion H; lia|].
  destruct (r =? 0); [eauto|]. destruct ((1 <=? r) && (r <=? k)); [eauto|].
  destruct (r =? k + 1); [|discriminate]. apply IH in H. lia.
Qed.

Lemma scan_zeros : forall l n, scan 0 l = Some 0 -> scan n l = Some n.
Proof.
  induction l as [|r l IH]; intros n H; cbn [scan] in *; [reflexivity|].
  destruct (r =? 0) eqn:E0; [apply IH; exact H|].
  destruct ((1 <=? r) && (r <=? 0)) eqn:E1.
  { apply andb_true_iff in E1. destruct E1 as [A B]. apply Z.leb_le in A. apply Z.leb_le in B. lia. }
  destruct (r =? 0 + 1) eqn:E2; [|discriminate].
  apply scan_le in H. lia.
Qed.

Lemma scan_single : forall n g n',
  (g = 0 /\ n' = n) \/ (1 <= g <= n /\ n' = n) \/ (g = n + 1 /\ n' = n + 1) -> 0 <= n ->
  scan n [g] = Some n'.
Proof.
  intros n g n' H Hn. cbn [scan].
  destruct H as [[-> ->]|[[Hg ->]|[-> ->]]].
  - reflexivity.
  - replace (g =? 0) with false by (symmetry; apply Z.eqb_neq; lia).
    replace ((1 <=? g) && (g <=? n)) with true; [reflexivity|].
    symmetry. apply andb_true_intro. split; apply Z.leb_le; lia.
  - replace (n + 1 =? 0) with false by (symmetry; apply Z.eqb_neq; lia).
    replace ((1 <=? n + 1) && (n + 1 <=? n)) with false.
    + rewrite Z.eqb_refl. reflexivity.
    + symmetry. apply andb_false_intro2. apply Z.leb_gt. lia.
Qed.

Definition zlen {A} (l : list A) : Z := Z.of_nat (List.length l).

(* ------------------------------------------------------------------ (A) first-use numbering *)
Definition fn_refs (st : profile) : list Z := flat_map (fun l => map ln_fn (l_lines l)) (p_location st).
Definition mp_refs (st : profile) : list Z := map l_mapping (p_location st).
Definition lc_refs (st : profile) : list Z := flat_map s_loc (p_sample st).

Record fu_tabs (st : profile) : Prop := {
  fu_fn : scan 0 (fn_refs st) = Some (zlen (p_function st));
  fu_mp : scan (Z.min 1 (zlen (p_mapping st))) (mp_refs st) = Some (zlen (p_mapping st))
}.
Definition fu_lc (st : profile) : Prop := scan 0 (lc_refs st) = Some (zlen (p_location st)).

Lemma zlen_app : forall {A} (a b : list A), zlen (a ++ b) = zlen a + zlen b.
Proof. intros. unfold zlen. rewrite app_length. lia. Qed.
Lemma zlen_nonneg : forall {A} (a : list A), 0 <= zlen a.
Proof. intros. unfold zlen. lia. Qed.

Lemma map_function_scan : forall st src fid st' g,
  ok st -> map_function st src fid = (st', g) -> scan (zlen (p_function st)) [g] = Some (zlen (p_function st')).
Proof.
  intros st src fid st' g Hok H. pose proof (zlen_nonneg (p_function st)) as N.
  unfold map_function in H. destruct (lookup_fn src fid) as [f|].
  - unfold map_function_rec in H.
    destruct (find (fun g0 => fkey_eqb (fkey_of g0) (fkey_of f)) (p_function st)) as [g0|] eqn:E;
      inversion H; subst; clear H.
    + apply find_some in E. destruct E as [Hin _].
      pose proof (ids_from_in f_id _ 1 g0 (ok_fn _ Hok) Hin).
      apply scan_single; [right; left; unfold zlen; split; [lia | reflexivity] | exact N].
    + cbn [p_function with_function]. rewrite zlen_app. apply scan_single; [|exact N].
      right. right. unfold next_id, zlen. cbn. lia.
  - inversion H; subst. apply scan_single; [left; auto | exact N].
Qed.

Lemma map_mapping_scan : forall st src mid st' g off,
  ok st -> map_mapping st src mid = (st', (g, off)) ->
  scan (zlen (p_mapping st)) [g] = Some (zlen (p_mapping st')).
Proof.
  intros st src mid st' g off Hok H. pose proof (zlen_nonneg (p_mapping st)) as N.
  unfold map_mapping in H. destruct (lookup_map src mid) as [m|].
  - unfold map_mapping_rec in H.
    destruct (find (fun g0 => mkey_eqb (mkey_of g0) (mkey_of m)) (p_mapping st)) as [g0|] eqn:E;
      inversion H; subst; clear H.
    + apply find_some in E. destruct E as [Hin _].
      pose proof (ids_from_in m_id _ 1 g0 (ok_mp _ Hok) Hin).
      apply scan_single; [right; left; unfold zlen; split; [lia | reflexivity] | exact N].
    + cbn [p_mapping with_mapping]. rewrite zlen_app. apply scan_single; [|exact N].
      right. right. unfold next_id, zlen. cbn. lia.
  - inversion H; subst. apply scan_single; [left; auto | exact N].
Qed.

Lemma map_lines_scan : forall src lns st st' lns',
  ok st -> map_lines st src lns = (st', lns') ->
  scan (zlen (p_function st)) (map ln_fn lns') = Some (zlen (p_function st')).
Proof.
  intros src. induction lns as [|ln r IH]; intros st st' lns' Hok H; cbn [map_lines] in H.
  - inversion H; subst. reflexivity.
  - destruct (map_function st src (ln_fn ln)) as [st1 fid] eqn:E1.
    destruct (map_lines st1 src r) as [st2 r'] eqn:E2. inversion H; subst. clear H.
    destruct (map_function_spec _ _ _ _ _ Hok E1) as (A1 & _).
    cbn [map ln_fn]. change (fid :: map ln_fn r') with ([fid] ++ map ln_fn r').
    rewrite scan_app, (map_function_scan _ _ _ _ _ Hok E1). apply IH; assumption.
Qed.

Lemma app_same_length : forall {A} (l a : list A), List.length (l ++ a) = List.length l -> a = [].
Proof. intros A l a H. rewrite app_length in H. destruct a; [reflexivity | cbn in H; lia]. Qed.

Lemma ext_same_len : forall {A} (l l' a : list A), l' = l ++ a -> zlen l' = zlen l -> l' = l.
Proof.
  intros A l l' a E H. subst l'. unfold zlen in H.
  rewrite (app_same_length l a) by lia. apply app_nil_r.
Qed.

Lemma map_ln_fn_slots : forall l, map ln_fn l = map (fun x : Z * Z * Z => fst (fst x)) (map line_slots l).
Proof. intros l. rewrite map_map. reflexivity. Qed.

Lemma scan_min_start : forall refs b b' g,
  0 <= b -> scan (Z.min 1 b) refs = Some b -> scan b [g] = Some b' ->
  scan (Z.min 1 b') (refs ++ [g]) = Some b'.
Proof.
  intros refs b b' g Hb H1 H2. pose proof (scan_le _ _ _ H2) as L.
  destruct (Z.eq_dec b 0) as [->|N].
  - change (Z.min 1 0) with 0 in H1. rewrite scan_app.
    rewrite (scan_zeros refs (Z.min 1 b') H1).
    cbn [scan] in H2 |- *. destruct (g =? 0) eqn:E0.
    + inversion H2; subst. reflexivity.
    + destruct ((1 <=? g) && (g <=? 0)) eqn:E1.
      { apply andb_true_iff in E1. destruct E1 as [A B]. apply Z.leb_le in A. apply Z.leb_le in B. lia. }
      destruct (g =? 0 + 1) eqn:E2; [|discriminate]. inversion H2; subst. apply Z.eqb_eq in E2. subst g.
      reflexivity.
  - replace (Z.min 1 b) with 1 in H1 by lia. replace (Z.min 1 b') with 1 by lia.
    rewrite scan_app, H1. exact H2.
Qed.

Lemma map_location_fu : forall st src lid st' g,
  ok st -> fu_tabs st -> map_location st src lid = (st', g) ->
  fu_tabs st' /\ scan (zlen (p_location st)) [g] = Some (zlen (p_location st')) /\
  (zlen (p_location st') = zlen (p_location st) ->
   p_function st' = p_function st /\ p_mapping st' = p_mapping st /\ p_location st' = p_location st).
Proof.
  intros st src lid st' g Hok [F1 F2] H. unfold map_location in H.
  pose proof (zlen_nonneg (p_location st)) as NL.
  destruct (lookup_loc src lid) as [l|].
  2:{ inversion H; subst. split; [split; assumption|]. split; [apply scan_single; auto | auto]. }
  unfold map_location_rec in H.
  destruct (map_mapping st src (l_mapping l)) as [st1 [mid off]] eqn:E1.
  destruct (map_lines st1 src (l_lines l)) as [st2 lines] eqn:E2.
  destruct (map_mapping_spec _ _ _ _ _ _ Hok E1) as (A1 & A2 & A3 & A4 & A5 & A6 & _).
  destruct (map_lines_spec _ _ _ _ _ A1 E2) as (B1 & B2 & B3 & B4 & B5 & B6 & _).
  pose proof (map_mapping_scan _ _ _ _ _ _ Hok E1) as SM.
  pose proof (map_lines_scan _ _ _ _ _ A1 E2) as SL. rewrite A5 in SL.
  match type of H with context [find ?f ?l] => destruct (find f l) as [g0|] eqn:E end;
    inversion H; subst; clear H.
  - apply find_some in E. destruct E as [Hin Hk]. apply lkey_eqb_spec in Hk.
    rewrite B4, A4 in Hin.
    pose proof (ok_refs _ Hok) as R. rewrite Forall_forall in R. destruct (R g0 Hin) as [R1 R2].
    unfold lkey_of in Hk. cbn [l_mapping l_lines] in Hk. injection Hk as K1 K2 K3 K4.
    assert (M : p_mapping st1 = p_mapping st).
    { destruct A2 as [_ [a Ha] _]. apply (ext_same_len _ _ a Ha).
      apply (scan_bounded [mid] _ _ SM). constructor; [|constructor]. rewrite <- K2. exact R1. }
    assert (Fn : p_function st' = p_function st).
    { destruct B2 as [[a Ha] _ _]. rewrite A5 in Ha. apply (ext_same_len _ _ a Ha).
      apply (scan_bounded _ _ _ SL). rewrite map_ln_fn_slots, <- K3, <- map_ln_fn_slots.
      apply Forall_forall. intros r Hr. apply in_map_iff in Hr. destruct Hr as [ln [<- Hln]].
      rewrite Forall_forall in R2. exact (R2 ln Hln). }
    assert (Lc : p_location st' = p_location st) by congruence.
    assert (Mp : p_mapping st' = p_mapping st) by congruence.
    split; [|split; [|auto]].
    + split; unfold fn_refs, mp_refs; rewrite ?Lc, ?Fn, ?Mp; assumption.
    + rewrite Lc. pose proof (ids_from_in l_id _ 1 g0 (ok_lc _ Hok) Hin).
      apply scan_single; [right; left; unfold zlen; split; [lia | reflexivity] | exact NL].
  - split; [|split].
    + split; unfold fn_refs, mp_refs; cbn [p_location p_function p_mapping with_location].
      * rewrite B4, A4, flat_map_app. cbn [flat_map l_lines]. rewrite app_nil_r, scan_app.
        unfold fn_refs in F1. rewrite F1. exact SL.
      * rewrite B4, A4, map_app. cbn [map l_mapping]. rewrite B5.
        apply (scan_min_start _ (zlen (p_mapping st))); [apply zlen_nonneg | exact F2 | exact SM].
    + cbn [p_location with_location]. rewrite B4, A4, zlen_app. apply scan_single; [|exact NL].
      right. right. unfold next_id, zlen. cbn. lia.
    + cbn [p_location with_location]. rewrite B4, A4, zlen_app. unfold zlen. cbn. lia.
Qed.

Lemma map_locs_fu : forall src ids st st' ids',
  ok st -> fu_tabs st -> map_locs st src ids = (st', ids') ->
  fu_tabs st' /\ scan (zlen (p_location st)) ids' = Some (zlen (p_location st')).
Proof.
  intros src. induction ids as [|id r IH]; intros st st' ids' Hok F H; cbn [map_locs] in H.
  - inversion H; subst. split; [exact F | reflexivity].
  - destruct (map_location st src id) as [st1 id'] eqn:E1.
    destruct (map_locs st1 src r) as [st2 r'] eqn:E2. inversion H; subst. clear H.
    destruct (map_location_spec _ _ _ _ _ Hok E1) as (A1 & _).
    destruct (map_location_fu _ _ _ _ _ Hok F E1) as (F1 & S1 & _).
    destruct (IH _ _ _ A1 F1 E2) as (F2 & S2).
    split; [exact F2|]. change (id' :: r') with ([id'] ++ r'). rewrite scan_app, S1. exact S2.
Qed.

Lemma flat_map_sloc_upd_first : forall hit v l,
  flat_map s_loc (upd_first hit (add_to_sample v) l) = flat_map s_loc l.
Proof.
  intros hit v. induction l as [|x r IH]; cbn [upd_first flat_map]; [reflexivity|].
  destruct (hit x); cbn [flat_map]; [reflexivity | rewrite IH; reflexivity].
Qed.

Lemma map_sample_fu : forall st src s,
  ok st -> fu_tabs st -> fu_lc st ->
  fu_tabs (map_sample st src s) /\ fu_lc (map_sample st src s).
Proof.
  intros st src s Hok F L. unfold map_sample.
  destruct (map_locs st src (s_loc s)) as [st1 locs] eqn:E.
  destruct (map_locs_spec _ _ _ _ _ Hok E) as (A1 & A2 & A3 & A4 & _).
  destruct (map_locs_fu _ _ _ _ _ Hok F E) as ([F1 F2] & S).
  destruct (existsb _ (p_sample st1)) eqn:Ex.
  - apply existsb_exists in Ex. destruct Ex as [ss [Hss Hk]]. apply skey_eqb_spec in Hk.
    unfold skey_of_sample, skey_of in Hk. injection Hk as K1 K2 K3.
    rewrite A3 in Hss. pose proof (ok_smp _ Hok) as R. rewrite Forall_forall in R.
    specialize (R ss Hss). unfold sample_refs_ok in R. rewrite Forall_forall in R.
    assert (C : zlen (p_location st1) = zlen (p_location st)).
    { apply (scan_bounded _ _ _ S). apply Forall_forall. intros r Hr.
      destruct (Z.eq_dec r 0) as [->|N]; [pose proof (zlen_nonneg (p_location st)); lia|].
      assert (In r (filter (fun id => negb (id =? 0)) locs)).
      { apply filter_In. split; [exact Hr|]. apply negb_true_iff. apply Z.eqb_neq. exact N. }
      rewrite <- K1 in H. apply filter_In in H. destruct H as [H _]. exact (R r H). }
    split.
    + split; unfold fn_refs, mp_refs; cbn [p_location p_function p_mapping with_sample]; assumption.
    + unfold fu_lc, lc_refs. cbn [p_sample p_location with_sample].
      rewrite flat_map_sloc_upd_first, A3, C. exact L.
  - split.
    + split; unfold fn_refs, mp_refs; cbn [p_location p_function p_mapping with_sample]; assumption.
    + unfold fu_lc, lc_refs. cbn [p_sample p_location with_sample].
      rewrite flat_map_app. cbn [flat_map s_loc new_sample]. rewrite app_nil_r, scan_app, A3.
      unfold fu_lc, lc_refs in L. rewrite L. exact S.
Qed.

Lemma merge_src_fu : forall st src,
  ok st -> fu_tabs st -> fu_lc st -> fu_tabs (merge_src st src) /\ fu_lc (merge_src st src).
Proof.
  intros st src Hok F L. unfold merge_src.
  destruct (eager_first_mapping_spec st src Hok) as (A1 & _ & A3).
  assert (E : fu_tabs (eager_first_mapping st src) /\ fu_lc (eager_first_mapping st src)).
  { unfold eager_first_mapping in *. destruct (p_mapping st) eqn:M; [|auto].
    destruct (p_mapping src) as [|m r]; [auto|]. unfold map_mapping_rec in *. rewrite M in *. cbn [find fst] in *.
    destruct F as [F1 F2]. rewrite M in F2. split; [split|].
    - exact F1.
    - unfold mp_refs in *. cbn [p_location p_mapping with_mapping app] in *.
      change (zlen [new_mapping (next_id []) m]) with 1. change (zlen (@nil mapping)) with 0 in F2.
      apply (scan_zeros _ 1 F2).
    - exact L. }
  destruct E as [E1 E2].
  assert (G : forall l st0, ok st0 -> fu_tabs st0 -> fu_lc st0 ->
                            fu_tabs (fold_left (merge_sample src) l st0) /\ fu_lc (fold_left (merge_sample src) l st0)).
  { induction l as [|s l IH]; intros st0 O0 T0 L0; cbn [fold_left]; [auto|].
    destruct (merge_sample_spec st0 src s O0) as (B1 & _).
    assert (X : fu_tabs (merge_sample src st0 s) /\ fu_lc (merge_sample src st0 s)).
    { unfold merge_sample. destruct (is_zero_sample s); [auto | apply map_sample_fu; assumption]. }
    destruct X. apply IH; assumption. }
  apply G; assumption.
Qed.

Lemma merge_pass_fu : forall ps q, merge_pass ps = MOk q -> fu_tabs q /\ fu_lc q.
Proof.
  intros ps q H. unfold merge_pass in H. destruct ps as [|p0 rest]; [discriminate|].
  destruct (compat_all p0 rest); try discriminate. injection H as <-.
  assert (G : forall l st, ok st -> fu_tabs st -> fu_lc st ->
                           fu_tabs (fold_left merge_src l st) /\ fu_lc (fold_left merge_src l st)).
  { induction l as [|p l IH]; intros st O T L; cbn [fold_left]; [auto|].
    destruct (merge_src_spec st p O) as (B1 & _). destruct (merge_src_fu st p O T L). apply IH; assumption. }
  apply (G (p0 :: rest)); [apply ok_combine_headers | split; reflexivity | reflexivity].
Qed.

(* ------------------------------------------------------------------ two more facts about results:
   addresses are uint64 values, and NumUnit has exactly the NumLabel keys *)
Definition addr_ok (st : profile) : Prop := Forall (fun l => wrap_u64 (l_addr l) = l_addr l) (p_location st).
Definition units_norm (s : sample) : Prop :=
  s_numunit s = map (fun e : string * list Z => (fst e, assoc_units (fst e) (s_numunit s))) (s_numlabel s).
Definition units_ok (st : profile) : Prop := Forall units_norm (p_sample st).

Lemma wrap_u64_idem : forall x, wrap_u64 (wrap_u64 x) = wrap_u64 x.
Proof. intros x. unfold wrap_u64. apply Z.mod_mod. unfold two64. lia. Qed.

Lemma map_location_addr : forall st src lid st' g,
  ok st -> addr_ok st -> map_location st src lid = (st', g) -> addr_ok st'.
Proof.
  intros st src lid st' g Hok A H. unfold map_location in H.
  destruct (lookup_loc src lid) as [l|]; [|inversion H; subst; exact A].
  unfold map_location_rec in H.
  destruct (map_mapping st src (l_mapping l)) as [st1 [mid off]] eqn:E1.
  destruct (map_lines st1 src (l_lines l)) as [st2 lines] eqn:E2.
  destruct (map_mapping_spec _ _ _ _ _ _ Hok E1) as (A1 & _ & _ & A4 & _).
  destruct (map_lines_spec _ _ _ _ _ A1 E2) as (_ & _ & _ & B4 & _).
  assert (A2 : addr_ok st2) by (unfold addr_ok; rewrite B4, A4; exact A).
  match type of H with context [find ?f ?l] => destruct (find f l) end; inversion H; subst; [exact A2|].
  unfold addr_ok. cbn [p_location with_location]. apply Forall_app. split; [exact A2|].
  constructor; [|constructor]. cbn [l_addr]. apply wrap_u64_idem.
Qed.

Lemma map_locs_addr : forall src ids st st' ids',
  ok st -> addr_ok st -> map_locs st src ids = (st', ids') -> addr_ok st'.
Proof.
  intros src. induction ids as [|id r IH]; intros st st' ids' Hok A H; cbn [map_locs] in H.
  - inversion H; subst. exact A.
  - destruct (map_location st src id) as [st1 id'] eqn:E1.
    destruct (map_locs st1 src r) as [st2 r'] eqn:E2. inversion H; subst.
    destruct (map_location_spec _ _ _ _ _ Hok E1) as (A1 & _).
    exact (IH _ _ _ A1 (map_location_addr _ _ _ _ _ Hok A E1) E2).
Qed.

Lemma new_sample_units_norm : forall locs s, units_norm (new_sample locs s).
Proof.
  intros locs s. unfold units_norm. cbn [s_numunit s_numlabel new_sample]. apply map_ext_in. intros e He.
  rewrite assoc_units_new; [reflexivity|]. apply in_map. exact He.
Qed.

Lemma map_sample_inv2 : forall st src s,
  ok st -> addr_ok st -> units_ok st -> addr_ok (map_sample st src s) /\ units_ok (map_sample st src s).
Proof.
  intros st src s Hok A U. unfold map_sample.
  destruct (map_locs st src (s_loc s)) as [st1 locs] eqn:E.
  destruct (map_locs_spec _ _ _ _ _ Hok E) as (_ & _ & A3 & _).
  pose proof (map_locs_addr _ _ _ _ _ Hok A E) as A1.
  assert (U1 : units_ok st1) by (unfold units_ok; rewrite A3; exact U).
  destruct (existsb _ (p_sample st1)); split; try exact A1; unfold units_ok; cbn [p_sample with_sample].
  - apply Forall_upd_first; [|exact U1]. intros x Hx. exact Hx.
  - apply Forall_app. split; [exact U1|]. constructor; [apply new_sample_units_norm | constructor].
Qed.

Lemma merge_pass_inv2 : forall ps q, merge_pass ps = MOk q -> addr_ok q /\ units_ok q.
Proof.
  intros ps q H. unfold merge_pass in H. destruct ps as [|p0 rest]; [discriminate|].
  destruct (compat_all p0 rest); try discriminate. injection H as <-.
  assert (S : forall src l st0, ok st0 -> addr_ok st0 -> units_ok st0 ->
                addr_ok (fold_left (merge_sample src) l st0) /\ units_ok (fold_left (merge_sample src) l st0)).
  { intros src. induction l as [|s l IH]; intros st0 O0 A0 U0; cbn [fold_left]; [auto|].
    destruct (merge_sample_spec st0 src s O0) as (B1 & _).
    assert (X : addr_ok (merge_sample src st0 s) /\ units_ok (merge_sample src st0 s)).
    { unfold merge_sample. destruct (is_zero_sample s); [auto | apply map_sample_inv2; assumption]. }
    destruct X. apply IH; assumption. }
  assert (G : forall l st, ok st -> addr_ok st -> units_ok st ->
                addr_ok (fold_left merge_src l st) /\ units_ok (fold_left merge_src l st)).
  { induction l as [|p l IH]; intros st O A U; cbn [fold_left]; [auto|].
    destruct (merge_src_spec st p O) as (B1 & _).
    assert (X : addr_ok (merge_src st p) /\ units_ok (merge_src st p)).
    { unfold merge_src. destruct (eager_first_mapping_spec st p O) as (C1 & _ & C3).
      apply S; [exact C1 | | unfold units_ok; rewrite C3; exact U].
      unfold addr_ok, eager_first_mapping, map_mapping_rec.
      destruct (p_mapping st); [|exact A]. destruct (p_mapping p); [exact A|]. cbn. exact A. }
    destruct X. apply IH; assumption. }
  apply (G (p0 :: rest)); [apply ok_combine_headers | constructor | constructor].
Qed.

(* ------------------------------------------------------------------ (B) replaying a result *)
Lemma scan_single_inv : forall n g n', 0 <= n -> scan n [g] = Some n' ->
  (g = 0 /\ n' = n) \/ (1 <= g <= n /\ n' = n) \/ (g = n + 1 /\ n' = n + 1).
Proof.
  intros n g n' Hn H. cbn [scan] in H. destruct (g =? 0) eqn:E0.
  - apply Z.eqb_eq in E0. inversion H. auto.
  - destruct ((1 <=? g) && (g <=? n)) eqn:E1.
    + apply andb_true_iff in E1. destruct E1 as [A B]. apply Z.leb_le in A. apply Z.leb_le in B.
      inversion H. right. left. lia.
    + destruct (g =? n + 1) eqn:E2; [|discriminate]. apply Z.eqb_eq in E2. inversion H. right. right. lia.
Qed.

Lemma scan_bounded_ok : forall l n, Forall (fun r => 0 <= r <= n) l -> scan n l = Some n.
Proof.
  induction l as [|r l IH]; intros n F; cbn [scan]; [reflexivity|].
  inversion F as [|? ? Hr Fl]; subst. destruct (r =? 0) eqn:E0; [apply IH; exact Fl|].
  apply Z.eqb_neq in E0. replace ((1 <=? r) && (r <=? n)) with true; [apply IH; exact Fl|].
  symmetry. apply andb_true_intro. split; apply Z.leb_le; lia.
Qed.

Lemma scan_app_inv : forall l l' n m, scan n (l ++ l') = Some m -> exists k, scan n l = Some k /\ scan k l' = Some m.
Proof.
  intros l l' n m H. rewrite scan_app in H. destruct (scan n l) as [k|]; [eauto | discriminate].
Qed.

Lemma new_function_id : forall f, new_function (f_id f) f = f.
Proof. destruct f; reflexivity. Qed.
Lemma new_mapping_id : forall m, new_mapping (m_id m) m = m.
Proof. destruct m; reflexivity. Qed.

Lemma ext_zlen_le : forall {A} (l L t : list A), L = l ++ t -> zlen l <= zlen L.
Proof. intros A l L t ->. rewrite zlen_app. pose proof (zlen_nonneg t). lia. Qed.

Section ReplayQ.
  Variable Q : profile.
  Hypothesis Qok : ok Q.
  Hypothesis Qk : keys_ok Q.

  Lemma sim_function : forall st g a',
    ok st -> ext st Q -> inr g (p_function Q) ->
    scan (zlen (p_function st)) [g] = Some a' ->
    exists st', map_function st Q g = (st', g) /\ ext st' Q /\ zlen (p_function st') = a'.
  Proof.
    intros st g a' Hok He Hr S. pose proof He as [[tf Htf] Hm Hl].
    destruct (scan_single_inv _ _ _ (zlen_nonneg _) S) as [[-> ->]|[[Hg ->]|[Hg ->]]].
    - exists st. auto.
    - pose proof (ext_zlen_le _ _ _ Htf) as LE.
      destruct (lookup0_range f_id (p_function Q) g (ok_fn _ Qok)) as [f [Hf [Hin Hid]]]; [unfold zlen in *; lia|].
      unfold map_function. change (lookup_fn Q g) with (lookup0 f_id (p_function Q) g). rewrite Hf.
      unfold map_function_rec. rewrite Htf in Hin.
      rewrite (replay_found f_id fkey_of fkey_eqb fkey_eqb_spec (p_function st) tf f); auto.
      + exists st. rewrite Hid. auto.
      + rewrite <- Htf. apply (ok_fn _ Qok).
      + rewrite <- Htf. apply (k_fn _ Qk).
      + unfold zlen in *. lia.
    - pose proof (ext_zlen_le _ _ _ Htf) as LE. unfold inr in Hr.
      destruct (lookup0_range f_id (p_function Q) g (ok_fn _ Qok)) as [f [Hf [Hin Hid]]];
        [pose proof (zlen_nonneg (p_function st)); unfold zlen in *; lia|].
      unfold map_function. change (lookup_fn Q g) with (lookup0 f_id (p_function Q) g). rewrite Hf.
      unfold map_function_rec. rewrite Htf in Hin.
      destruct (replay_next f_id fkey_of fkey_eqb fkey_eqb_spec (p_function st) tf f) as [Hn [tf' Ht]]; auto.
      + rewrite <- Htf. apply (ok_fn _ Qok).
      + rewrite <- Htf. apply (k_fn _ Qk).
      + unfold zlen in *. lia.
      + rewrite Hn. replace (next_id (p_function st)) with (f_id f) by (unfold next_id, zlen in *; lia).
        rewrite new_function_id. eexists. split; [rewrite Hid; reflexivity|]. split.
        * split; cbn [p_function p_mapping p_location with_function]; [|exact Hm | exact Hl].
          exists tf'. rewrite Htf, Ht, <- app_assoc. reflexivity.
        * cbn [p_function with_function]. rewrite zlen_app. unfold zlen. cbn. lia.
  Qed.

  Lemma sim_mapping : forall st g b',
    ok st -> ext st Q -> inr g (p_mapping Q) ->
    scan (zlen (p_mapping st)) [g] = Some b' ->
    exists st', map_mapping st Q g = (st', (g, 0)) /\ ext st' Q /\ zlen (p_mapping st') = b'.
  Proof.
    intros st g b' Hok He Hr S. pose proof He as [Hf [tm Htm] Hl].
    destruct (scan_single_inv _ _ _ (zlen_nonneg _) S) as [[-> ->]|[[Hg ->]|[Hg ->]]].
    - exists st. auto.
    - pose proof (ext_zlen_le _ _ _ Htm) as LE.
      destruct (lookup0_range m_id (p_mapping Q) g (ok_mp _ Qok)) as [m [Hm [Hin Hid]]]; [unfold zlen in *; lia|].
      unfold map_mapping. change (lookup_map Q g) with (lookup0 m_id (p_mapping Q) g). rewrite Hm.
      unfold map_mapping_rec. rewrite Htm in Hin.
      rewrite (replay_found m_id mkey_of mkey_eqb mkey_eqb_spec (p_mapping st) tm m); auto.
      + exists st. rewrite Hid, Z.sub_diag. auto.
      + rewrite <- Htm. apply (ok_mp _ Qok).
      + rewrite <- Htm. apply (k_mp _ Qk).
      + unfold zlen in *. lia.
    - pose proof (ext_zlen_le _ _ _ Htm) as LE. unfold inr in Hr.
      destruct (lookup0_range m_id (p_mapping Q) g (ok_mp _ Qok)) as [m [Hm [Hin Hid]]];
        [pose proof (zlen_nonneg (p_mapping st)); unfold zlen in *; lia|].
      unfold map_mapping. change (lookup_map Q g) with (lookup0 m_id (p_mapping Q) g). rewrite Hm.
      unfold map_mapping_rec. rewrite Htm in Hin.
      destruct (replay_next m_id mkey_of mkey_eqb mkey_eqb_spec (p_mapping st) tm m) as [Hn [tm' Ht]]; auto.
      + rewrite <- Htm. apply (ok_mp _ Qok).
      + rewrite <- Htm. apply (k_mp _ Qk).
      + unfold zlen in *. lia.
      + rewrite Hn. replace (next_id (p_mapping st)) with (m_id m) by (unfold next_id, zlen in *; lia).
        rewrite new_mapping_id. eexists. split; [rewrite Hid; reflexivity|]. split.
        * split; cbn [p_function p_mapping p_location with_mapping]; [exact Hf | | exact Hl].
          exists tm'. rewrite Htm, Ht, <- app_assoc. reflexivity.
        * cbn [p_mapping with_mapping]. rewrite zlen_app. unfold zlen. cbn. lia.
  Qed.

  Lemma sim_lines : forall lns st a',
    ok st -> ext st Q -> Forall (fun ln => inr (ln_fn ln) (p_function Q)) lns ->
    scan (zlen (p_function st)) (map ln_fn lns) = Some a' ->
    exists st', map_lines st Q lns = (st', lns) /\ ext st' Q /\ zlen (p_function st') = a'.
  Proof.
    induction lns as [|ln r IH]; intros st a' Hok He F S; cbn [map_lines].
    - cbn in S. inversion S. exists st. auto.
    - inversion F as [|? ? Hln Fr]; subst. cbn [map] in S.
      change (ln_fn ln :: map ln_fn r) with ([ln_fn ln] ++ map ln_fn r) in S.
      destruct (scan_app_inv _ _ _ _ S) as [a1 [S1 S2]].
      destruct (sim_function st (ln_fn ln) a1 Hok He Hln S1) as [st1 [E1 [He1 Z1]]].
      rewrite E1. destruct (map_function_spec _ _ _ _ _ Hok E1) as (O1 & _).
      rewrite <- Z1 in S2. destruct (IH st1 a' O1 He1 Fr S2) as [st2 [E2 [He2 Z2]]].
      rewrite E2. exists st2. split; [|auto]. destruct ln; reflexivity.
  Qed.

  Hypothesis Qfu : fu_tabs Q.
  Hypothesis Qaddr : addr_ok Q.

  Lemma zlen_length : forall {A} (l : list A), Z.of_nat (List.length l) = zlen l.
  Proof. reflexivity. Qed.

  Lemma sim_location : forall st i c',
    ok st -> ext st Q -> fu_tabs st -> (p_mapping st = [] -> p_mapping Q = []) ->
    inr i (p_location Q) ->
    scan (zlen (p_location st)) [i] = Some c' ->
    exists st', map_location st Q i = (st', i) /\ ext st' Q /\ zlen (p_location st') = c'.
  Proof.
    intros st i c' Hok He [F1 F2] Hne Hr S. pose proof He as [[tf Htf] [tm Htm] [tl Htl]].
    pose proof (ext_zlen_le _ _ _ Htl) as LEl.
    destruct (scan_single_inv _ _ _ (zlen_nonneg _) S) as [[-> ->]|[[Hg ->]|[Hg ->]]].
    - exists st. auto.
    - (* a location that is already there *)
      destruct (lookup0_range l_id (p_location Q) i (ok_lc _ Qok)) as [l [Hl [Hin Hid]]]; [unfold zlen in *; lia|].
      unfold map_location. change (lookup_loc Q i) with (lookup0 l_id (p_location Q) i). rewrite Hl.
      assert (Hinst : In l (p_location st)).
      { pose proof (lookup_loc_ext st Q i Hok He) as X. unfold inr in X. rewrite zlen_length in X.
        specialize (X ltac:(lia)). change (lookup_loc Q i) with (lookup0 l_id (p_location Q) i) in X.
        rewrite Hl in X. symmetry in X. eapply lookup_loc_in; eauto. }
      pose proof (ok_refs _ Hok) as R. rewrite Forall_forall in R. destruct (R l Hinst) as [R1 R2].
      unfold map_location_rec.
      destruct (sim_mapping st (l_mapping l) (zlen (p_mapping st)) Hok He) as [st1 [E1 [He1 Z1]]].
      { unfold inr in *. rewrite !zlen_length in *. pose proof (ext_zlen_le _ _ _ Htm). lia. }
      { apply scan_bounded_ok. constructor; [exact R1 | constructor]. }
      rewrite E1. destruct (map_mapping_spec _ _ _ _ _ _ Hok E1) as (O1 & X1 & _ & L1 & Fn1 & _).
      destruct (sim_lines (l_lines l) st1 (zlen (p_function st1)) O1 He1) as [st2 [E2 [He2 Z2]]].
      { rewrite Forall_forall in *. intros ln Hln. specialize (R2 ln Hln). unfold inr in *.
        rewrite !zlen_length in *. pose proof (ext_zlen_le _ _ _ Htf). lia. }
      { apply scan_bounded_ok. rewrite Fn1. apply Forall_forall. intros r Hr'. apply in_map_iff in Hr'.
        destruct Hr' as [ln [<- Hln]]. rewrite Forall_forall in R2. exact (R2 ln Hln). }
      rewrite E2. destruct (map_lines_spec _ _ _ _ _ O1 E2) as (O2 & X2 & _ & L2 & M2 & _).
      set (l' := {| l_id := next_id (p_location st1); l_mapping := l_mapping l; l_addr := wrap_u64 (l_addr l + 0);
                    l_lines := l_lines l; l_folded := l_folded l |}).
      assert (Hl2 : p_location st2 = p_location st) by congruence.
      assert (K : lkey_of st2 l' = lkey_of Q l).
      { unfold lkey_of. cbn [l_addr l_mapping l_lines l_folded l'].
        assert (I2 : inr (l_mapping l) (p_mapping st2)).
        { rewrite M2. destruct X1 as [_ [a Ha] _]. rewrite Ha. apply inr_app. exact R1. }
        rewrite (start_of_ext st2 Q _ O2 He2 I2). rewrite rebase_addr0. reflexivity. }
      rewrite K.
      rewrite (find_ext_pred _ (fun y => lkey_eqb (lkey_of Q y) (lkey_of Q l)) (p_location st2)).
      2:{ intros y Hy. rewrite (lkey_ext st2 Q y O2 He2); [reflexivity|].
          pose proof (ok_refs _ O2) as R'. rewrite Forall_forall in R'. exact (R' y Hy). }
      rewrite Hl2. rewrite Htl in Hin.
      rewrite (replay_found l_id (lkey_of Q) lkey_eqb lkey_eqb_spec (p_location st) tl l); auto.
      + exists st2. rewrite Hid. split; [reflexivity|]. split; [exact He2 | rewrite Hl2; reflexivity].
      + rewrite <- Htl. apply (ok_lc _ Qok).
      + rewrite <- Htl. apply (k_lc _ Qk).
      + unfold zlen in *. lia.
    - (* the next new location *)
      unfold inr in Hr.
      destruct (lookup0_range l_id (p_location Q) i (ok_lc _ Qok)) as [l [Hl [Hin Hid]]];
        [pose proof (zlen_nonneg (p_location st)); unfold zlen in *; lia|].
      unfold map_location. change (lookup_loc Q i) with (lookup0 l_id (p_location Q) i). rewrite Hl.
      rewrite Htl in Hin.
      destruct (replay_next l_id (lkey_of Q) lkey_eqb lkey_eqb_spec (p_location st) tl l) as [Hn [tl' Ht]]; auto.
      { rewrite <- Htl. apply (ok_lc _ Qok). }
      { rewrite <- Htl. apply (k_lc _ Qk). }
      { unfold zlen in *. lia. }
      pose proof (ok_refs _ Qok) as RQ. rewrite Forall_forall in RQ.
      assert (HinQ : In l (p_location Q)) by (rewrite Htl, Ht; apply in_or_app; right; left; reflexivity).
      destruct (RQ l HinQ) as [R1 R2].
      (* what the first-use numbering of Q says about l *)
      destruct Qfu as [QF1 QF2].
      assert (SF : exists a', scan (zlen (p_function st)) (map ln_fn (l_lines l)) = Some a').
      { unfold fn_refs in QF1, F1. rewrite Htl, Ht, flat_map_app in QF1. cbn [flat_map] in QF1.
        destruct (scan_app_inv _ _ _ _ QF1) as [k [S1 S2]]. rewrite F1 in S1. inversion S1; subst k.
        destruct (scan_app_inv _ _ _ _ S2) as [a' [S3 _]]. eauto. }
      assert (SM : exists b', scan (zlen (p_mapping st)) [l_mapping l] = Some b').
      { unfold mp_refs in QF2, F2. rewrite Htl, Ht, map_app in QF2. cbn [map] in QF2.
        assert (St : Z.min 1 (zlen (p_mapping Q)) = Z.min 1 (zlen (p_mapping st))).
        { destruct (p_mapping st) as [|m0 ms] eqn:Em.
          - rewrite (Hne eq_refl). reflexivity.
          - rewrite Htm. rewrite zlen_app. unfold zlen. cbn [List.length]. lia. }
        rewrite St in QF2. destruct (scan_app_inv _ _ _ _ QF2) as [k [S1 S2]]. rewrite F2 in S1. inversion S1; subst k.
        change (l_mapping l :: map l_mapping tl') with ([l_mapping l] ++ map l_mapping tl') in S2.
        destruct (scan_app_inv _ _ _ _ S2) as [b' [S3 _]]. eauto. }
      destruct SF as [a' SF]. destruct SM as [b' SM].
      unfold map_location_rec.
      destruct (sim_mapping st (l_mapping l) b' Hok He R1 SM) as [st1 [E1 [He1 Z1]]].
      rewrite E1. destruct (map_mapping_spec _ _ _ _ _ _ Hok E1) as (O1 & X1 & _ & L1 & Fn1 & I1 & _).
      rewrite <- Fn1 in SF.
      destruct (sim_lines (l_lines l) st1 a' O1 He1 R2 SF) as [st2 [E2 [He2 Z2]]].
      rewrite E2. destruct (map_lines_spec _ _ _ _ _ O1 E2) as (O2 & X2 & _ & L2 & M2 & _).
      assert (Hl2 : p_location st2 = p_location st) by congruence.
      assert (Eid : next_id (p_location st1) = l_id l) by (rewrite L1; unfold next_id, zlen in *; lia).
      assert (Ead : wrap_u64 (l_addr l + 0) = l_addr l).
      { rewrite Z.add_0_r. unfold addr_ok in Qaddr. rewrite Forall_forall in Qaddr. apply Qaddr. exact HinQ. }
      rewrite Eid, Ead.
      replace {| l_id := l_id l; l_mapping := l_mapping l; l_addr := l_addr l; l_lines := l_lines l;
                 l_folded := l_folded l |} with l by (destruct l; reflexivity).
      assert (K : lkey_of st2 l = lkey_of Q l).
      { symmetry. apply lkey_ext; auto. split; [rewrite M2; exact I1|].
        destruct (map_lines_spec _ _ _ _ _ O1 E2) as (_ & _ & _ & _ & _ & B6 & _). exact B6. }
      rewrite K.
      rewrite (find_ext_pred _ (fun y => lkey_eqb (lkey_of Q y) (lkey_of Q l)) (p_location st2)).
      2:{ intros y Hy. rewrite (lkey_ext st2 Q y O2 He2); [reflexivity|].
          pose proof (ok_refs _ O2) as R'. rewrite Forall_forall in R'. exact (R' y Hy). }
      rewrite Hl2, Hn. eexists. split; [rewrite Hid; reflexivity|]. split.
      + destruct He2 as [G1 G2 _]. split; cbn [p_function p_mapping p_location with_location]; [exact G1 | exact G2|].
        exists tl'. rewrite Htl, Ht, <- app_assoc. reflexivity.
      + cbn [p_location with_location]. rewrite zlen_app. unfold zlen. cbn. lia.
  Qed.
End ReplayQ.

Lemma new_sample_id : forall s, units_norm s -> new_sample (s_loc s) s = s.
Proof.
  intros s H. unfold new_sample. unfold units_norm in H. rewrite <- H. destruct s; reflexivity.
Qed.

Lemma profile_eq : forall a b,
  hdr a = hdr b -> p_sample a = p_sample b -> p_mapping a = p_mapping b ->
  p_location a = p_location b -> p_function a = p_function b -> a = b.
Proof.
  intros a b H S M L F. destruct a, b. unfold hdr in H. cbn in *. inversion H. subst. reflexivity.
Qed.

Section ReplayQ2.
  Variable Q : profile.
  Hypothesis Qok : ok Q.
  Hypothesis Qk : keys_ok Q.
  Hypothesis Qfu : fu_tabs Q.
  Hypothesis Qlc : fu_lc Q.
  Hypothesis Qaddr : addr_ok Q.
  Hypothesis Qun : units_ok Q.
  Hypothesis Qnz : forall s, In s (p_sample Q) -> is_zero_sample s = false.

  Definition maps_started (st : profile) : Prop := p_mapping st = [] -> p_mapping Q = [].

  Lemma maps_started_ext : forall st st', ext st st' -> maps_started st -> maps_started st'.
  Proof.
    intros st st' [_ [a Ha] _] H E. apply H. rewrite Ha in E. destruct (p_mapping st); [reflexivity | discriminate].
  Qed.

  Lemma sim_locs : forall ids st c',
    ok st -> ext st Q -> fu_tabs st -> maps_started st ->
    Forall (fun i => inr i (p_location Q)) ids ->
    scan (zlen (p_location st)) ids = Some c' ->
    exists st', map_locs st Q ids = (st', ids) /\ ext st' Q /\ zlen (p_location st') = c'.
  Proof.
    induction ids as [|id r IH]; intros st c' Hok He F Hm Hr S; cbn [map_locs].
    - cbn in S. inversion S. exists st. auto.
    - inversion Hr as [|? ? Hid Hrr]; subst.
      change (id :: r) with ([id] ++ r) in S. destruct (scan_app_inv _ _ _ _ S) as [c1 [S1 S2]].
      destruct (sim_location Q Qok Qk Qfu Qaddr st id c1 Hok He F Hm Hid S1) as [st1 [E1 [He1 Z1]]].
      rewrite E1. destruct (map_location_spec _ _ _ _ _ Hok E1) as (O1 & X1 & _).
      destruct (map_location_fu _ _ _ _ _ Hok F E1) as (F1 & _).
      rewrite <- Z1 in S2.
      destruct (IH st1 c' O1 He1 F1 (maps_started_ext _ _ X1 Hm) Hrr S2) as [st2 [E2 [He2 Z2]]].
      rewrite E2. exists st2. auto.
  Qed.

  Lemma sim_sample : forall st s ts',
    ok st -> ext st Q -> fu_tabs st -> fu_lc st -> maps_started st ->
    p_sample Q = p_sample st ++ s :: ts' ->
    p_sample (merge_sample Q st s) = p_sample st ++ [s] /\ ext (merge_sample Q st s) Q.
  Proof.
    intros st s ts' Hok He F L Hm Hs.
    assert (HinQ : In s (p_sample Q)) by (rewrite Hs; apply in_or_app; right; left; reflexivity).
    unfold merge_sample. rewrite (Qnz s HinQ). unfold map_sample.
    assert (SC : exists c', scan (zlen (p_location st)) (s_loc s) = Some c').
    { unfold fu_lc, lc_refs in Qlc, L. rewrite Hs, flat_map_app in Qlc. cbn [flat_map] in Qlc.
      destruct (scan_app_inv _ _ _ _ Qlc) as [k [S1 S2]]. rewrite L in S1. inversion S1; subst k.
      destruct (scan_app_inv _ _ _ _ S2) as [c' [S3 _]]. eauto. }
    destruct SC as [c' SC].
    pose proof (ok_smp _ Qok) as RQ. rewrite Forall_forall in RQ.
    destruct (sim_locs (s_loc s) st c' Hok He F Hm (RQ s HinQ) SC) as [st1 [E1 [He1 Z1]]].
    rewrite E1. destruct (map_locs_spec _ _ _ _ _ Hok E1) as (_ & _ & A3 & _).
    assert (Miss : existsb (fun ss => skey_eqb (skey_of_sample ss) (skey_of (s_loc s) s)) (p_sample st1) = false).
    { destruct (existsb _ (p_sample st1)) eqn:Ex; [|reflexivity]. exfalso.
      apply existsb_exists in Ex. destruct Ex as [ss [Hss Hk]]. apply skey_eqb_spec in Hk.
      rewrite A3 in Hss. pose proof (k_sm _ Qk) as ND. rewrite Hs, map_app in ND. cbn [map] in ND.
      apply NoDup_remove_2 in ND. apply ND. apply in_or_app. left.
      change (skey_of (s_loc s) s) with (skey_of_sample s) in Hk. rewrite <- Hk. apply in_map. exact Hss. }
    rewrite Miss. cbn [p_sample with_sample].
    unfold units_ok in Qun. rewrite Forall_forall in Qun. rewrite (new_sample_id s (Qun s HinQ)).
    split; [rewrite A3; reflexivity|].
    destruct He1 as [G1 G2 G3]. split; cbn [p_function p_mapping p_location with_sample]; assumption.
  Qed.

  Lemma sim_samples : forall todo st,
    ok st -> ext st Q -> fu_tabs st -> fu_lc st -> maps_started st ->
    p_sample Q = p_sample st ++ todo ->
    let st' := fold_left (merge_sample Q) todo st in
    p_sample st' = p_sample Q /\ ext st' Q /\ fu_tabs st' /\ fu_lc st' /\ maps_started st'.
  Proof.
    induction todo as [|s ts' IH]; intros st Hok He F L Hm Hs; cbn [fold_left].
    - rewrite app_nil_r in Hs. auto.
    - destruct (sim_sample st s ts' Hok He F L Hm Hs) as [P1 P2].
      destruct (merge_sample_spec st Q s Hok) as (O1 & X1 & _).
      assert (FU : fu_tabs (merge_sample Q st s) /\ fu_lc (merge_sample Q st s)).
      { unfold merge_sample. destruct (is_zero_sample s); [auto | apply map_sample_fu; assumption]. }
      destruct FU as [F1 L1].
      apply IH; auto.
      + eapply maps_started_ext; eauto.
      + rewrite P1, <- app_assoc. exact Hs.
  Qed.

  Hypothesis Qdur : wrap_i64 (p_durationnanos Q) = p_durationnanos Q.
  Hypothesis Qcom : NoDup (p_comments Q).

  Theorem replay_fixpoint : merge_pass [Q] = MOk Q.
  Proof.
    unfold merge_pass. cbn [compat_all fold_left]. f_equal.
    set (st0 := combine_headers Q [Q]).
    pose proof (ok_combine_headers Q [Q]) as O0. fold st0 in O0.
    assert (H0 : hdr st0 = hdr Q) by (apply combine_single; assumption).
    unfold merge_src.
    destruct (eager_first_mapping_spec st0 Q O0) as (Oe & Xe & Se).
    set (ste := eager_first_mapping st0 Q) in *.
    assert (Ee : ext ste Q /\ fu_tabs ste /\ fu_lc ste /\ maps_started ste /\ hdr ste = hdr Q).
    { unfold ste, eager_first_mapping. cbn [p_mapping st0 combine_headers].
      destruct (p_mapping Q) as [|m ms] eqn:EM.
      - split; [split; cbn; eauto|]. split; [split; reflexivity|]. split; [reflexivity|]. split; [intros _; exact EM | exact H0].
      - unfold map_mapping_rec. cbn [p_mapping st0 combine_headers find fst app].
        assert (Hid : m_id m = 1).
        { pose proof (ok_mp _ Qok 0%nat m) as X. rewrite EM in X. specialize (X eq_refl). lia. }
        change (next_id (@nil mapping)) with 1. rewrite <- Hid, new_mapping_id.
        split; [split; cbn; [eauto | exists ms; rewrite EM; reflexivity | eauto]|].
        split; [split; reflexivity|]. split; [reflexivity|]. split; [intros X; discriminate | exact H0]. }
    destruct Ee as (He & Fe & Le & Me & Hh).
    assert (Hs0 : p_sample Q = p_sample ste ++ p_sample Q) by (rewrite Se; reflexivity).
    destruct (sim_samples (p_sample Q) ste Oe He Fe Le Me Hs0) as (P1 & P2 & P3 & P4 & P5).
    set (stf := fold_left (merge_sample Q) (p_sample Q) ste) in *.
    assert (Hhf : hdr stf = hdr Q).
    { rewrite <- Hh. unfold stf. clear. generalize ste. induction (p_sample Q) as [|s l IH]; intros st; cbn [fold_left];
        [reflexivity | rewrite IH; apply hdr_merge_sample]. }
    destruct P2 as [[tf Htf] [tm Htm] [tl Htl]]. destruct P3 as [T1 T2].
    assert (EL : p_location Q = p_location stf).
    { apply (ext_same_len _ _ tl Htl). unfold fu_lc, lc_refs in *. rewrite P1 in P4. rewrite Qlc in P4.
      inversion P4. reflexivity. }
    assert (EF : p_function Q = p_function stf).
    { apply (ext_same_len _ _ tf Htf). destruct Qfu as [Q1 _]. unfold fn_refs in *. rewrite <- EL in T1.
      rewrite Q1 in T1. inversion T1. reflexivity. }
    assert (EM : p_mapping Q = p_mapping stf).
    { apply (ext_same_len _ _ tm Htm). destruct Qfu as [_ Q2]. unfold mp_refs in *. rewrite <- EL in T2.
      destruct (p_mapping stf) as [|m0 ms0] eqn:E0.
      - rewrite (P5 E0). reflexivity.
      - assert (St : Z.min 1 (zlen (p_mapping Q)) = Z.min 1 (zlen (m0 :: ms0))).
        { rewrite Htm, zlen_app. unfold zlen. cbn [List.length]. lia. }
        rewrite St, T2 in Q2. inversion Q2. reflexivity. }
    apply profile_eq; auto.
  Qed.
End ReplayQ2.

(* every result of Merge is the result of one pass and has no all-zero sample *)
Lemma merge_fuel_is_pass : forall n ps q,
  merge_fuel n ps = MOk q ->
  exists ps', ps' <> [] /\ merge_pass ps' = MOk q /\ existsb is_zero_sample (p_sample q) = false.
Proof.
  induction n as [|n IH]; intros ps q H; cbn [merge_fuel] in H;
    destruct (merge_pass ps) as [p| | |] eqn:E; try discriminate;
    destruct (existsb is_zero_sample (p_sample p)) eqn:Z; try discriminate.
  - inversion H; subst. exists ps. split; [|auto]. intros ->. cbn in E. discriminate.
  - eauto.
  - inversion H; subst. exists ps. split; [|auto]. intros ->. cbn in E. discriminate.
Qed.

(* C03: compacting twice equals compacting once -- Compact returns a merge result unchanged,
   ids, order and header included *)
Theorem compact_idempotent_lemma : forall ps q, merge ps = MOk q -> compact q = MOk q.
Proof.
  intros ps q H. destruct (merge_fuel_is_pass _ _ _ H) as [ps' [Hne [P Z]]].
  destruct (merge_pass_fu _ _ P) as [F L]. destruct (merge_pass_inv2 _ _ P) as [A U].
  destruct ps' as [|p0 rest]; [congruence|].
  destruct (hdr_fields_good p0 (p0 :: rest) q (merge_pass_hdr _ _ _ P)) as [Hd Hc].
  assert (R : merge_pass [q] = MOk q).
  { apply replay_fixpoint; auto.
    - eapply merge_pass_ok; eauto.
    - eapply merge_pass_keys; eauto.
    - intros s Hs. destruct (is_zero_sample s) eqn:E; [|reflexivity].
      assert (existsb is_zero_sample (p_sample q) = true) by (apply existsb_exists; eauto). congruence. }
  unfold compact, merge. cbn [merge_fuel]. rewrite R, Z. reflexivity.
Qed.
